"""C28 — Manifest generation is deterministic w.r.t. listing / input order, idempotent, parses back to exactly the
sizes and checksums it covers, and is atomic under interruption (ebuild/digest.py).

Spec        : Manifest.tla — Classify (which Manifest type covers a file of the package directory; CVS/.svn/Manifest
              are not covered), Expected(files, dist, thin) = what the generated Manifest must parse back to,
              line-level Generate / Parse / Update (names as code-point sequences, sorted lexicographically).
MC          : Manifest_Laws (over every subset of a small universe and EVERY listing order:
              Parse(Generate(x)) = Expected(x), Generate independent of the order, Update idempotent);
              Manifest_MC (directory edits + update() + crash; OldOrNew, WritesOnlyWhenStale, CommitInstalls; the
              in-place variant — the unpatched code — must violate OldOrNew);
              AtomicFile_MC (temp + rename over FsModel keeps OldOrNew at every crash point; in-place violates it).
spec->code /
code->spec  : random package directories (ebuilds, files/ trees with sub-directories, misc files, CVS/.svn/Manifest
              decoys, empty files) and distfile checksum sets, thick and thin, several checksum sets.  The real
              Manifest.update() writes the file, the real parse_manifest() reads it back; sizes / checksums of the
              inputs are computed independently (hashlib).  Manifest_Trace judges ParseBack_DIST/AUX/EBUILD/MISC,
              Parses, OrderIndependent (os.listdir results, the fetchables list, the key order of every
              fetchable.chksums mapping and the order of the chfs argument shuffled: identical bytes), Instance_* (a
              Manifest object consulted before update() reports afterwards exactly what it generated),
              IdempotentNoWrite (a second update() on the up-to-date file performs zero filesystem mutations).
              update() over an old Manifest is recorded by fsrec and replayed through FsModel by FsTrace (Watch:
              Manifest is the complete old or new file after every syscall, Frame, FinalState), re-run with a
              power cut / half write / EIO at every mutation with parse_manifest as reader (ReaderOldOrNew), and
              after every cut update() is run again to completion and judged by ParseBack_* (recovery).
Carve-outs  : thin Manifest with no distfiles (nothing is generated — pinned by the repo tests); directories other
              than files/ (update() refuses them); file names with blanks (not representable); non-regular files.
"""
import hashlib
import os
import time
from concurrent.futures import ThreadPoolExecutor

from pylib import atomic, fsrec, tlc
from pylib.common import mktmp, rng, use_repo

LEVEL = "model_checking"

# the order of the chfs argument is an input order too: alphabetical and non-alphabetical ones
CHF_SETS = [("size", "blake2b", "sha512"), ("sha512", "size", "blake2b"), ("size", "sha256"), ("size", "sha1", "md5"),
            ("sha512", "sha256", "size", "md5"), ("size", "sha512")]
HASH = {"blake2b": hashlib.blake2b, "sha512": hashlib.sha512, "sha256": hashlib.sha256, "md5": hashlib.md5, "sha1": hashlib.sha1}
NAMES = ["a.patch", "b-1.2.diff", "init.d", "Z", "x.conf", "x+y", "00", "ChangeLog", "metadata.xml", "README", "zz.ebuild.bak", "ebuild"]


class bounded_buffer:
    """fsrec's write proxy buffers like a file object with an unbounded buffer: data reaches the disk at close().  A
    real file object flushes inside write() once its (8 KiB) buffer is full, so an I/O error or a cut can also strike
    INSIDE write(), before the writer's own close()/discard() logic runs.  With this context manager the proxy's buffer
    holds at most `limit` bytes, so both shapes of a write are crash points (scenarios alternate)."""

    def __init__(self, limit):
        self.limit = limit

    def __enter__(self):
        from pylib import fsrec
        self.cls, self.orig = fsrec._FileProxy, fsrec._FileProxy.write
        orig, limit = self.orig, self.limit

        def write(p, data):
            r = orig(p, data)
            if getattr(p, "_buffered", False) and limit is not None and sum(len(x) for x in p._pending) > limit:
                p.flush()
            return r
        self.cls.write = write
        return self

    def __exit__(self, *a):
        self.cls.write = self.orig
        return False


def cps(s):
    return [ord(c) for c in s]


def hexnorm(v):
    return "%x" % v


def sums_of(data, chfs):
    return [dict(chf=c, hex=hexnorm(int(HASH[c](data).hexdigest(), 16))) for c in chfs if c != "size"]


def gen_case(r_, tid):
    chfs = r_.choice(CHF_SETS)
    thin = tid % 4 == 3
    pn = r_.choice(["pkg", "foo-bar", "x"])
    files = {}
    for v in r_.sample(["1", "1.2-r1", "2_p3", "9999"], r_.randint(1, 3)):
        files[f"{pn}-{v}.ebuild"] = r_.choice([b"EAPI=8\n", b"", b"# " + bytes(r_.getrandbits(8) for _ in range(r_.randint(1, 200)))])
    for n in r_.sample(NAMES, r_.randint(0, 4)):
        files[n] = bytes(r_.getrandbits(8) for _ in range(r_.choice([0, 1, 10, 5000])))
    if r_.random() < 0.8:
        for n in r_.sample(NAMES, r_.randint(1, 4)):
            sub = r_.choice(["", "", "sub/", "sub/deeper/", "Z/"])
            files[f"files/{sub}{n}"] = bytes(r_.getrandbits(8) for _ in range(r_.choice([0, 3, 100])))
    # decoys that must not be covered
    if r_.random() < 0.4:
        files["CVS/Entries"] = b"x"
    if r_.random() < 0.4:
        files["files/.svn/entries"] = b"y"
    if r_.random() < 0.3:
        files["files/CVS/Root"] = b"z"
    if r_.random() < 0.2:
        files["files/Manifest"] = b"not me"
    # a file cannot also be a directory prefix
    files = {p: d for p, d in files.items() if not any(q.startswith(p + "/") for q in files)}
    dist = []
    for n in r_.sample(["pkg-1.tar.gz", "pkg-2.tar.xz", "A.zip", "patchset-1.2.tar.bz2", "0", "e.tgz"], r_.choice([0, 1, 2, 3]) if not thin else r_.choice([0, 1, 2, 3, 3])):
        dist.append(dict(name=n, size=r_.choice([0, 1, 7853169, 2**31 - 1]),
                         sums={c: r_.getrandbits(8 * HASH[c]().digest_size) >> r_.choice([0, 0, 9]) for c in chfs if c != "size"}))
    # the old state the Manifest is regenerated over: "none" | "stale" (one ebuild differed, one distfile fewer) | "current"
    old = ["none", "stale", "stale", "current"][tid % 4] if tid % 5 else "stale"
    return dict(chfs=list(chfs), thin=thin, files={p: d.hex() for p, d in files.items()}, dist=dist, old=old, seed=r_.getrandbits(30))


def run(ck):
    use_repo()
    import random

    from pkgcore.ebuild import digest
    from pkgcore.fetch import fetchable
    from pkgcore.package import errors as perrors

    ck.rule = ("random package directories x distfile sets x checksum sets, thick and thin, regenerated over no / a stale / the "
               "current Manifest with the real Manifest.update and read back with the real parse_manifest; non-trivial = "
               "distinct case covering at least 3 entries; every mutation of update() is a crash point (power cut, half write, "
               "EIO) followed by parse_manifest and by a completed re-run")
    ck.assumptions = ["sizes and checksums of the input files are computed independently with hashlib",
                      "a power cut is a stop before a Python-level mutation (or after half a write); no fsync/reordering model",
                      "listing order = the order os.listdir returns names (shuffled by the driver)"]
    pool = ThreadPoolExecutor(6)
    jobs = []

    def bg(fn, *a, **kw):
        j = pool.submit(fn, *a, **kw)
        jobs.append(j)
        time.sleep(0.15)  # tlc.run numbers its scratch directories with an unlocked counter
        return j

    bad_mc = bad_fs = None
    if not ck.replay_case:
        bg(ck.laws, "Manifest_Laws", cfg_text=f"CONSTANT MaxFiles = {ck.pick(2, 3)}\n", label="Laws:Manifest (ParseBack, OrderIndependent, Idempotent)", timeout=880)
        mcc = 'SPECIFICATION Spec\nCONSTANTS\n Files = {%s}\n MaxVer = 2\n Variant = "%s"\nCONSTRAINT Bound\nINVARIANT OldOrNew\nPROPERTY WritesOnlyWhenStale\nPROPERTY CommitInstalls\n'
        bg(ck.mc, "Manifest_MC", cfg_text=mcc % (ck.pick('"e","m"', '"e","m","a"'), "atomic"), workers=2, label="MC:Manifest atomic", timeout=800)
        bad_mc = bg(ck.mc, "Manifest_MC", cfg_text=mcc % ('"e","m"', "inplace"), expect_ok=False, label="MC:Manifest inplace (must violate)")
        bg(ck.mc, "AtomicFile_MC", cfg_text=f'SPECIFICATION Spec\nCONSTANTS\n Variant = "temp"\n NChunks = {ck.pick(2, 5)}\n OldExists = TRUE\n'
           "INVARIANT OldOrNew\nINVARIANT Completes\n", label="MC:AtomicFile temp old=TRUE")
        if not ck.quick:
            bg(ck.mc, "AtomicFile_MC", cfg_text='SPECIFICATION Spec\nCONSTANTS\n Variant = "temp"\n NChunks = 5\n OldExists = FALSE\n'
               "INVARIANT OldOrNew\nINVARIANT Completes\n", label="MC:AtomicFile temp old=FALSE")
        bad_fs = bg(ck.mc, "AtomicFile_MC", cfg_text='SPECIFICATION Spec\nCONSTANTS\n Variant = "inplace"\n NChunks = 2\n OldExists = TRUE\nINVARIANT OldOrNew\n',
                    label="MC:AtomicFile inplace (must violate)", expect_ok=False)

    class shuffled_listing:
        """os.listdir returns the names in an order chosen by the driver (None = as the kernel gives them)."""

        def __init__(self, rr):
            self.rr = rr

        def __enter__(self):
            self.real = os.listdir
            if self.rr is not None:
                def ls(path="."):
                    names = self.real(path)
                    self.rr.shuffle(names)
                    return names
                os.listdir = ls
            return self

        def __exit__(self, *a):
            os.listdir = self.real
            return False

    def build_dir(rt, c, stale=False):
        pk = os.path.join(rt, "cat", "pkg")
        os.makedirs(pk)
        first_ebuild = True
        for p, hx in sorted(c["files"].items()):
            data = bytes.fromhex(hx)
            if stale and p.endswith(".ebuild") and first_ebuild:
                data, first_ebuild = data + b"# older\n", False
            os.makedirs(os.path.dirname(os.path.join(pk, p)), exist_ok=True)
            with open(os.path.join(pk, p), "wb") as f:
                f.write(data)
        return pk

    def fetchables(c, rr=None, stale=False):
        """rr: permute every order the caller controls — the list of fetchables AND the key order of each
        fetchable.chksums mapping (freshly hashed vs. read back from a Manifest give different key orders)."""
        fl = []
        for d in c["dist"]:
            items = list(d["sums"].items()) + [("size", d["size"])]
            if rr is not None:
                rr.shuffle(items)
            fl.append(fetchable(d["name"], chksums=dict(items)))
        if stale:
            fl = fl[1:]
        if rr is not None:
            rr.shuffle(fl)
        return fl

    def chfs_of(c, rr=None):
        chfs = list(c["chfs"])
        if rr is not None:
            rr.shuffle(chfs)
        return tuple(chfs)

    def update(pk, c, rr=None, stale=False, inst=None):
        with shuffled_listing(rr):
            m = inst if inst is not None else digest.Manifest(os.path.join(pk, "Manifest"), thin=c["thin"], allow_missing=True)
            return m.update(fetchables(c, rr, stale), chfs=chfs_of(c, rr))

    def ents(m, split):
        out = []
        for name, ch in sorted(m.items()):
            out.append(dict(name=[cps(x) for x in (name.split("/") if split else [name])], size=ch["size"],
                            sums=[dict(chf=k, hex=hexnorm(v)) for k, v in sorted(ch.items()) if k != "size"]))
        return out

    def instance_view(m):
        """What a Manifest OBJECT reports through its accessors (the way the repository consults it)."""
        try:
            return dict(DIST=ents(m.distfiles, False), AUX=ents(m.aux_files, True), EBUILD=ents(m.ebuilds, False), MISC=ents(m.misc, False))
        except (perrors.ParseChksumError, perrors.MetadataException) as e:
            return dict(error=type(e).__name__)

    def parsed_view(path):
        """parse_manifest of the file, projected: names as code points, checksums as hex."""
        if not os.path.lexists(path):
            return dict(absent=True)
        try:
            dist, aux, ebuild, misc = digest.parse_manifest(path)
        except perrors.ParseChksumError as e:
            return dict(error=type(e).__name__)

        return dict(DIST=ents(dist, False), AUX=ents(aux, True), EBUILD=ents(ebuild, False), MISC=ents(misc, False))

    def inputs(c, pk):
        """The package directory as it is on disk now, stated independently of pkgcore."""
        files = []
        for d, _dirs, names in os.walk(pk):
            for n in names:
                full = os.path.join(d, n)
                rel = os.path.relpath(full, pk)
                if not os.path.isfile(full) or os.path.islink(full):
                    continue
                with open(full, "rb") as f:
                    data = f.read()
                files.append(dict(path=[cps(x) for x in rel.split("/")], size=len(data), sums=sums_of(data, c["chfs"])))
        dist = [dict(name=cps(d["name"]), size=d["size"], sums=[dict(chf=k, hex=hexnorm(v)) for k, v in sorted(d["sums"].items())])
                for d in c["dist"]]
        return files, dist

    def gen_event(tid, i, c, pk, view=None, via="file", **extra):
        files, dist = inputs(c, pk)
        v = parsed_view(os.path.join(pk, "Manifest")) if view is None else view
        extra["via"] = via
        ok = "DIST" in v
        empty = dict(DIST=[], AUX=[], EBUILD=[], MISC=[])
        return dict(tid=tid, i=i, ev="gen", files=files, dist=dist, thin=c["thin"], perr="" if ok else (v.get("error") or "absent"),
                    parsed=v if ok else empty, **extra)

    def cid(path):
        try:
            with open(path, "rb") as f:
                return fsrec.cid_of_bytes(f.read())
        except FileNotFoundError:
            return "absent"

    r_ = rng(28)
    root = mktmp("c28")
    n = 1 if ck.replay_case else ck.pick(16, 150)
    my_events, fs_events, cases = [], [], {}
    for tid in range(n):
        c = ck.replay_case["detail"]["case"] if ck.replay_case else gen_case(r_, tid)
        cases[tid] = c
        specified = not (c["thin"] and not c["dist"])
        i = 0
        # ---- (1) generation from scratch, listing order A; parse back ----
        rt = os.path.join(root, f"g{tid}")
        os.mkdir(rt)
        pk = build_dir(rt, c)
        mpath = os.path.join(pk, "Manifest")
        # one Manifest object is consulted first (no file yet: empty), then generates, then is consulted again:
        # the object must report what it generated, exactly like a fresh parse of the file
        m = digest.Manifest(mpath, thin=c["thin"], allow_missing=True)
        instance_view(m)
        update(pk, c, None, inst=m)
        my_events.append(gen_event(tid, i, c, pk))
        if specified:
            i += 1
            my_events.append(gen_event(tid, i, c, pk, view=instance_view(m), via="instance"))
        cid_a = cid(mpath)
        # ---- (2) regenerate the up-to-date Manifest: must write nothing ----
        if specified:
            i += 1
            rec, _res, exc = fsrec.count_mutations(rt, lambda: update(pk, c, random.Random(c["seed"] + 1)))
            if exc is not None:
                raise exc
            my_events.append(dict(tid=tid, i=i, ev="regen", n_mut=rec.n_mut, cid_before=cid_a, cid_after=cid(mpath),
                                  ops=[e["op"] for e in rec.events]))
            # ---- (3) same inputs, shuffled listing and fetchables: identical bytes ----
            for k in range(ck.pick(2, 4)):
                os.unlink(mpath)
                update(pk, c, random.Random(c["seed"] * 7 + k))
                i += 1
                my_events.append(dict(tid=tid, i=i, ev="perm", cid_a=cid_a, cid_b=cid(mpath)))
            # ---- (3b) the directory changes; an object that has already read the OLD Manifest regenerates it ----
            m2 = digest.Manifest(mpath, thin=c["thin"], allow_missing=True)
            instance_view(m2)
            eb = sorted(p for p in c["files"] if p.endswith(".ebuild") and "/" not in p)[0]
            with open(os.path.join(pk, eb), "ab") as f:
                f.write(b"# bumped\n")
            c2 = dict(c, dist=c["dist"] + [dict(name="added-9.tar.gz", size=4242, sums={k: 7 for k in c["chfs"] if k != "size"})])
            update(pk, c2, random.Random(c["seed"] + 5), inst=m2)
            i += 1
            my_events.append(gen_event(tid, i, c2, pk))
            i += 1
            my_events.append(gen_event(tid, i, c2, pk, view=instance_view(m2), via="instance"))
        fsrec._real_rmtree(rt)
        ck.count()
        covered = len(c["dist"]) + (0 if c["thin"] else sum(1 for p in c["files"] if not {"CVS", ".svn", "Manifest"} & set(p.split("/"))))
        if specified and covered >= 3:
            ck.nontriv(repr(sorted(c.items())))
        if tid < 2:
            ck.sample(dict(thin=c["thin"], chfs=c["chfs"], files=sorted(c["files"]), dist=[d["name"] for d in c["dist"]], old=c["old"]))
        if not specified:
            ck.extra["unspecified_thin_without_distfiles"] = ck.extra.get("unspecified_thin_without_distfiles", 0) + 1
            continue

        # ---- (4) regeneration over the old Manifest, recorded + interrupted at every mutation ----
        def setup(rt2, c=c):
            stale = c["old"] == "stale"
            pk2 = build_dir(rt2, c, stale=stale)
            if c["old"] == "none":
                return
            update(pk2, c, None, stale=stale)
            if stale:
                # now edit the directory to its new state; the old Manifest stays
                for p, hx in c["files"].items():
                    with open(os.path.join(pk2, p), "wb") as f:
                        f.write(bytes.fromhex(hx))

        def op(rt2, c=c):
            update(os.path.join(rt2, "cat", "pkg"), c, random.Random(c["seed"] + 3))

        def reader(rt2):
            return parsed_view(os.path.join(rt2, "cat", "pkg", "Manifest"))

        rt2 = os.path.join(root, f"r{tid}")
        with bounded_buffer(8 if tid % 2 else None):  # odd cases: the text hits the disk inside write(), not at close()
            evs, info = atomic.scenario(tid, rt2, setup, op, reader=reader, watch_paths=["cat/pkg/Manifest"],
                                        frame=["cat/pkg/Manifest", "cat/pkg/.update.Manifest"], faults=True, label="manifest.update")
        fs_events += evs
        ck.extra["crash_points"] = ck.extra.get("crash_points", 0) + info["crash_points"]
        # ---- (5) recovery: after a cut anywhere, a completed update() yields the exact Manifest again ----
        for k in range(1, info["n_mut"] + 1):
            atomic._fresh(rt2, setup)
            fsrec.run_with_cut(rt2, lambda: op(rt2), k, half=(k % 2 == 0))
            op(rt2)
            i += 1
            my_events.append(gen_event(tid, i, c, os.path.join(rt2, "cat", "pkg"), recover_k=k))
        fsrec._real_rmtree(rt2)

    def short(c):
        return dict(thin=c["thin"], old=c["old"], chfs="+".join(c["chfs"]), n_files=len(c["files"]), n_dist=len(c["dist"]), case=c)

    idx = {(e["tid"], e["i"]): e for e in my_events}
    fs_job = pool.submit(lambda: atomic.judge(ck, fs_events) if fs_events else [])  # the two judges run side by side
    time.sleep(0.15)
    for v in ck.trace("Manifest_Trace", my_events, timeout=1200):
        e = idx[(v["tid"], v["i"])]
        d = short(cases[v["tid"]])
        d.update(event=e["ev"], recover_k=e.get("recover_k", 0), via=e.get("via", ""))
        if e["ev"] == "gen":
            d.update(perr=e["perr"], parsed_counts={k: len(x) for k, x in e["parsed"].items()})
        elif e["ev"] == "regen":
            d.update(n_mut=e["n_mut"], ops=e["ops"])
        ck.violation(v["clause"], d)
    for v, e in fs_job.result():
        d = short(cases[e["tid"]])
        d.update(event=e.get("ev"), k=e.get("k"), kind=e.get("kind", e.get("op")), at_op=e.get("at_op", e.get("op")),
                 view="error" if isinstance(e.get("view"), dict) and "error" in e["view"] else "parsed")
        ck.violation(v["clause"], d)

    for j in jobs:
        j.result()
    if bad_mc is not None and bad_mc.result().violated != "OldOrNew":
        raise tlc.MachineryError("Manifest_MC: the in-place variant no longer violates OldOrNew (vacuous model?)")
    if bad_fs is not None and bad_fs.result().violated != "OldOrNew":
        raise tlc.MachineryError("AtomicFile_MC: the in-place variant no longer violates OldOrNew (vacuous model?)")
    pool.shutdown()
