"""C21 — protected configuration files are never silently overwritten or removed (ebuild/triggers.py).

Spec        : ConfigProtect.tla — Protected(path, cfg) (under CONFIG_PROTECT, not under CONFIG_PROTECT_MASK, not
              matched by COLLISION_IGNORE) and the merge / unmerge decision table: NotOverwritten, UpdateWritten,
              Numbering (reuse the number of an identical pending ._cfgNNNN_ update, else exceed every existing
              one), PendingKept, RecordedName (the merged contents list the real name), UnmergeKept.
MC          : ConfigProtect_MC — life cycle of one config file + pending updates under every interleaving of
              package-manager and user steps; UserFileKept / PendingUpdatesKept / ShippedAvailable /
              NoDuplicates; the variants "never reuse a number" and "no protection" must be refuted by TLC.
spec -> code: ConfigProtect_Export enumerates the decision table (location class x live x every pending-update
              assignment); batches of cases become the files of one package merged by a REAL MergeEngine
              (install / uninstall) with ConfigProtectInstall / ConfigProtectUninstall registered, on a scratch
              root, once with offset "/" (absolute scratch paths, CONFIG_PROTECT passed as the domain does) and
              once with the scratch root as offset (CONFIG_PROTECT* / COLLISION_IGNORE read from its etc/env.d).
code -> spec: seeded random SESSIONS of 1-3 operations on one root in one process, each with its own random
              configuration (nested protect/mask dirs, trailing slashes, several env.d files rewritten between the
              operations, directory and file COLLISION_IGNORE entries), random packages of several files, random
              live files and pending updates (later operations meet what earlier ones left), stray files whose names
              come from a grammar around ._cfgNNNN_<name> but are no pending updates, install / replace / uninstall
              engines.  The exported table is run as the second operation on a root whose first operation happened
              under a different configuration.
Every run is judged by ConfigProtect_Trace from snapshots of the live filesystem before / after the run and
the merged contents.

Carve-outs: what happens to unprotected / identical / absent files is C18/C19's business and not judged;
package files are regular files and the live object is a regular file; the implicit "/etc" default of
pkgcore is not part of the property (no package file is placed under /etc); COLLISION_IGNORE entries are
existing directories or exact file paths (no other globs); with offset "/" nothing can be configured
through env.d (it would be the machine's /etc/env.d).
"""
import os
import re
import shutil

from pylib import tlc
from pylib.common import mktmp, rng, use_repo

NONE = "-"
CFG_RE = re.compile(r"^\._cfg(\d{4})_(.+)$")


def body(c):
    return f"content-{c}\n"


class World:
    def __init__(self):
        from snakeoil import data_source

        from pkgcore.ebuild import triggers as et
        from pkgcore.fs import contents, fs
        from pkgcore.merge import engine, triggers
        from pkgcore.operations import observer as obs

        self.ds, self.et, self.contents, self.fs, self.engine, self.triggers, self.obs = (
            data_source, et, contents, fs, engine, triggers, obs)
        self.n = 0

    # ---- live filesystem helpers ----
    @staticmethod
    def read(path):
        try:
            with open(path) as f:
                data = f.read()
        except (FileNotFoundError, NotADirectoryError):
            return NONE
        m = re.fullmatch(r"content-(\w+)\n", data)
        return m.group(1) if m else "?" + data[:20]

    def snap(self, root, p):
        """Observation of one config file: live content and the pending updates beside it."""
        d = os.path.join(root, *p[:-1])
        pend = []
        try:
            names = sorted(os.listdir(d))
        except FileNotFoundError:
            names = []
        for nm in names:
            m = CFG_RE.match(nm)
            if m and m.group(2) == p[-1]:
                pend.append(dict(n=int(m.group(1)), c=self.read(os.path.join(d, nm))))
        return dict(live=self.read(os.path.join(root, *p)), pending=pend)

    def noise_snap(self, root, f):
        d = os.path.join(root, *f["p"][:-1])
        return [dict(name=u["name"], c=self.read(os.path.join(d, u["name"]))) for u in f.get("noise", [])]

    # ---- a session: several engine runs, one after the other, on ONE root in this one process ----
    def session(self, steps):
        """steps = [sc, ...]; the root (live files, pending updates, strays) persists from step to step, env.d is
        rewritten before every step (another package / the admin changed it)."""
        self.n += 1
        base = mktmp(f"c21-{self.n}")
        ctx = {k: os.path.join(base, k) for k in ("root", "tmp", "img")}
        for d in ctx.values():
            os.makedirs(d)
        os.makedirs(os.path.join(ctx["root"], "etc/env.d"))
        try:
            return [self.step(ctx, sc) for sc in steps]
        finally:
            shutil.rmtree(base, ignore_errors=True)

    # ---- one engine run ----
    def step(self, ctx, sc):
        """sc = dict(engine, offset, cfg, envd:[(fname, text)], extra_protect, extra_mask, files:[...]).
        files[j] = dict(role, p, c, live, pending:[{n,c}], noise:[{name,c}])
        (role merge: c incoming; unmerge: c recorded; noise: stray ._cfg-like files beside it)"""
        root, tmp, img = ctx["root"], ctx["tmp"], ctx["img"]
        sub = sc["offset"] == "sub"
        offset = root if sub else None
        loc = (lambda p: "/" + "/".join(p)) if sub else (lambda p: root + "/" + "/".join(p))
        # configuration in force for this step
        envd = os.path.join(root, "etc/env.d")
        for old_name in os.listdir(envd):
            os.unlink(os.path.join(envd, old_name))
        for fname, text in sc["envd"]:
            with open(os.path.join(root, "etc/env.d", fname), "w") as f:
                f.write(text)
        xp = [(x if sub else root + x) for x in sc["extra_protect"]]
        xm = [(x if sub else root + x) for x in sc["extra_mask"]]
        for g in sc["cfg"]["ignore"]:
            if g["kind"] == "dir":
                os.makedirs(os.path.join(root, *g["path"]), exist_ok=True)
        # live files
        for f in sc["files"]:
            d = os.path.join(root, *f["p"][:-1])
            if f["live"] != NONE or f["pending"] or f.get("noise"):
                os.makedirs(d, exist_ok=True)
            for u in f.get("noise", []):
                with open(os.path.join(d, u["name"]), "w") as fh:
                    fh.write(body(u["c"]))
            if f["live"] != NONE:
                with open(os.path.join(d, f["p"][-1]), "w") as fh:
                    fh.write(body(f["live"]))
            for u in f["pending"]:
                with open(os.path.join(d, "._cfg%04d_%s" % (u["n"], f["p"][-1])), "w") as fh:
                    fh.write(body(u["c"]))

        def package(files):
            ents, dirs = [], set()
            for k, f in enumerate(files):
                src = os.path.join(img, f"{len(os.listdir(img))}")
                with open(src, "w") as fh:
                    fh.write(body(f["c"]))
                ents.append(self.fs.fsFile(loc(f["p"]), mode=0o644, uid=0, gid=0, mtime=1000000 + k, strict=False,
                                           data=self.ds.local_source(src)))
                for n in range(1, len(f["p"])):
                    dirs.add(tuple(f["p"][:n]))
            for d in sorted(dirs):
                ents.append(self.fs.fsDir(loc(list(d)), mode=0o755, uid=0, gid=0, mtime=1000000, strict=False))

            class Pkg:
                pass

            pkg = Pkg()
            pkg.contents = self.contents.contentsSet(ents)
            return pkg

        new = package([f for f in sc["files"] if f["role"] == "merge"])
        old = package([f for f in sc["files"] if f["role"] == "unmerge"])
        o = self.obs.repo_observer(self.obs.null_output())
        kind = sc["engine"]
        if kind == "install":
            eng = self.engine.MergeEngine.install(tmp, new, offset=offset, observer=o, disable_plugins=True)
            phases = ("pre_merge", "merge", "post_merge")
        elif kind == "uninstall":
            eng = self.engine.MergeEngine.uninstall(tmp, old, offset=offset, observer=o, disable_plugins=True)
            phases = ("pre_unmerge", "unmerge", "post_unmerge")
        else:
            eng = self.engine.MergeEngine.replace(tmp, old, new, offset=offset, observer=o, disable_plugins=True)
            phases = ("pre_merge", "merge", "post_merge", "pre_unmerge", "unmerge", "post_unmerge")
        # the engine's own merge / unmerge steps and the ebuild triggers, registered as the domain does
        for t in (self.triggers.merge(), self.triggers.unmerge(), self.et.ConfigProtectInstall(xp, xm),
                  self.et.ConfigProtectUninstall()):
            t.register(eng)
        before = [self.snap(root, f["p"]) for f in sc["files"]]
        nbefore = [self.noise_snap(root, f) for f in sc["files"]]
        raised, merged = "", set()
        try:
            for ph in phases:
                getattr(eng, ph)()
                if ph == "post_merge":
                    merged = {x.location[len(root):] if x.location.startswith(root + "/") else x.location
                              for x in eng.get_merged_cset()}
        except Exception as e:  # an aborted merge is still judged (nothing may have been overwritten)
            raised = f"{type(e).__name__}"
        after = [self.snap(root, f["p"]) for f in sc["files"]]
        nafter = [self.noise_snap(root, f) for f in sc["files"]]
        files = []
        for f, b, a, nb, na in zip(sc["files"], before, after, nbefore, nafter):
            rec = []
            if f["role"] == "merge":
                real = "/" + "/".join(f["p"])
                if real in merged:
                    rec.append("real")
                pre = "/" + "/".join(f["p"][:-1] + [""])
                if any(m.startswith(pre) and CFG_RE.match(m[len(pre):]) and CFG_RE.match(m[len(pre):]).group(2) == f["p"][-1]
                       for m in merged):
                    rec.append("cfg")
            files.append(dict(role=f["role"], p=f["p"], c=f["c"], before=b, after=a, recorded=rec, nb=nb, na=na))
        return dict(engine=kind, offset=sc["offset"], raised=raised, cfg=sc["cfg"], files=files)


# ---------------- rendering an abstract configuration ----------------
def render_cfg(r_, cfg, offset, extras=True):
    """Abstract cfg -> (env.d files, extra_protect, extra_mask).  With offset "/" everything goes through the
    trigger's arguments (what the domain passes from make.conf); with a scratch offset a random share is
    written to <offset>/etc/env.d instead.  extras=False: env.d only (ConfigProtectUninstall is constructed
    without arguments by the domain: for unmerging only env.d counts)."""
    def spell(p):
        s = "/" + "/".join(p)
        return s + "/" if r_ is not None and r_.random() < 0.3 else s

    prot = [spell(p) for p in cfg["protect"]]
    mask = [spell(p) for p in cfg["mask"]]
    if offset == "root":
        if cfg["ignore"]:
            raise tlc.MachineryError("COLLISION_IGNORE cannot be configured with offset /")
        return [], prot, mask
    envd, xp, xm = {}, [], []
    names = ["10base", "50app", "99local"]
    for lst, var, extra in ((prot, "CONFIG_PROTECT", xp), (mask, "CONFIG_PROTECT_MASK", xm)):
        for x in lst:
            if extras and r_ is not None and r_.random() < 0.25:
                extra.append(x)
            else:
                fn = names[0] if r_ is None else r_.choice(names)
                envd.setdefault(fn, {}).setdefault(var, []).append(x)
    if cfg["ignore"]:
        fn = names[-1] if r_ is None else r_.choice(names)
        envd.setdefault(fn, {})["COLLISION_IGNORE"] = ["/" + "/".join(g["path"]) for g in cfg["ignore"]]
    files = [(fn, "".join(f'{var}="{" ".join(vals)}"\n' for var, vals in sorted(d.items()))) for fn, d in sorted(envd.items())]
    return files, xp, xm


# ---------------- stray files that look like, but are not, pending updates of the file ----------------
def stray_names(name, other="other.conf"):
    """Every name <prefix><digits><sep><tail> of a small grammar around ._cfgNNNN_<name>, minus the names that
    ARE pending updates of `name` (exactly: ._cfg + four digits + _ + name) and the name itself."""
    out = []
    for prefix in ("._cfg", ".cfg"):
        for digits in ("", "0", "12", "0001", "00001", "abcd"):
            for sep in ("", "_", "x"):
                for tail in ("", name, other):
                    nm = prefix + digits + sep + tail
                    m = CFG_RE.match(nm)
                    if nm != name and not (m and m.group(2) == name) and nm not in out:
                        out.append(nm)
    return out


# ---------------- spec -> code: the exported decision table ----------------
EXPORT_CFG = dict(protect=[["cfg"], ["usr", "share", "conf"]], mask=[["cfg", "masked"]],
                  ignore=[dict(kind="dir", path=["cfg", "ign"])])


def export_path(cls, k):
    # every other protected path sits in a sibling whose NAME starts with the masked directory's (/cfg/masked.k3/ next
    # to the mask entry /cfg/masked): entries cover whole path components, a bare string prefix must not unprotect it
    return {"prot": ["cfg", f"masked.k{k}" if k % 2 else f"k{k}", "a.conf"], "mask": ["cfg", "masked", f"k{k}", "a.conf"],
            "igndir": ["cfg", "ign", f"k{k}", "a.conf"], "ignfile": ["usr", "share", "conf", f"k{k}", "x.conf"],
            "plain": ["opt", f"k{k}", "a.conf"]}[cls]


def export_scenarios(cases, offset, batch):
    """Sessions of two steps on one root: an unrelated merge under a DIFFERENT configuration first (the root is
    in use, env.d changes between operations), then a batch of the decision table."""
    out = []
    nxt = [0]  # the strays are dealt round-robin: every name of the grammar meets a live file
    # (with offset "/" only merges: the unmerge trigger takes its configuration from env.d alone, and the
    #  uninstall engine needs the replace engine's offset handling to see the scratch root at all)
    for role, engine in (("merge", "install"), ("unmerge", "replace")) if offset == "sub" else (("merge", "install"),):
        sel = [c for c in cases if c["role"] == role and (offset == "sub" or c["cls"] not in ("igndir", "ignfile"))]
        for b0 in range(0, len(sel), batch):
            files, ign = [], [] if offset == "root" else list(EXPORT_CFG["ignore"])
            for k, c in enumerate(sel[b0:b0 + batch]):
                p = export_path(c["cls"], k)
                if c["cls"] == "ignfile":
                    ign.append(dict(kind="file", path=p))
                strays = stray_names(p[-1])
                take = 8 if c["live"] != NONE else 1
                noise = [dict(name=nm, c="N") for nm in {strays[(nxt[0] + j) % len(strays)] for j in range(take)}]
                nxt[0] += take
                files.append(dict(role=role, p=p, c=c["c"], live=c["live"], pending=c["pending"],
                                  noise=sorted(noise, key=lambda u: u["name"])))
            cfg = dict(protect=EXPORT_CFG["protect"], mask=EXPORT_CFG["mask"], ignore=ign)
            envd, xp, xm = render_cfg(None, cfg, offset)
            pcfg = dict(protect=[["opt", "prime"]], mask=[], ignore=[])
            penvd, pxp, pxm = render_cfg(None, pcfg, offset)
            prime = dict(engine="install", offset=offset, cfg=pcfg, envd=penvd, extra_protect=pxp, extra_mask=pxm,
                         files=[dict(role="merge", p=["opt", "prime", "p.conf"], c="A", live="B", pending=[], noise=[])])
            out.append([prime, dict(engine=engine, offset=offset, cfg=cfg, envd=envd, extra_protect=xp, extra_mask=xm,
                                    files=files)])
    return out


# ---------------- code -> spec: random scenarios ----------------
def random_session(r_):
    """1-3 operations on one root; every step draws its own configuration (env.d is rewritten in between) and its
    own files from the same small pools, so later steps meet the live files / pending updates earlier ones left."""
    offset = r_.choice(["root", "sub", "sub"])
    return [random_scenario(r_, offset) for _ in range(r_.choice([1, 1, 2, 2, 3]))]


def random_scenario(r_, offset):
    dirs = [["cfg"], ["cfg", "app"], ["cfg", "app", "deep"], ["usr", "share", "conf"], ["opt", "x"], ["cfg", "other"],
            ["srv"], ["usr", "share"]]
    protect = r_.sample(dirs, r_.randint(1, 3))
    mask = [d for d in r_.sample(dirs, r_.randint(0, 2))]
    ignore = []
    # "app.conf" / "x.rc" / "share.conf": siblings whose text starts with the name of a pool directory (/cfg/app,
    # /opt/x, /usr/share): protect and mask entries cover whole path components, never bare string prefixes
    names = ["a.conf", "b.conf", "c", "d.rc", "app.conf", "x.rc", "share.conf"]
    fdirs = dirs + [["cfg", "app", "deep", "er"], ["opt"], ["usr"]]
    npaths = r_.randint(1, 6)
    paths = []
    while len(paths) < npaths:
        p = r_.choice(fdirs) + [r_.choice(names)]
        if p not in paths and p not in dirs and not any(q[: len(p)] == p or p[: len(q)] == q for q in paths):
            paths.append(p)
    if offset == "sub" and r_.random() < 0.5:
        for _ in range(r_.randint(1, 2)):
            if r_.random() < 0.5:
                ignore.append(dict(kind="dir", path=r_.choice(dirs)))
            else:
                ignore.append(dict(kind="file", path=r_.choice(paths)))
    # offset "/": the unmerge trigger reads CONFIG_PROTECT from env.d only, which cannot be set up there
    engine = "install" if offset == "root" else r_.choice(["install", "install", "replace", "replace", "uninstall"])
    files = []
    for p in paths:
        role = "merge" if engine == "install" else "unmerge" if engine == "uninstall" else r_.choice(["merge", "unmerge"])
        live = r_.choice([NONE, "A", "B", "B", "C"])
        pend = []
        if role == "merge":
            for n in sorted(r_.sample([0, 1, 2, 3, 5, 17], r_.randint(0, 3))):
                pend.append(dict(n=n, c=r_.choice(["A", "B", "C", "D"])))
        noise = []
        if r_.random() < 0.4:
            cand = stray_names(p[-1], r_.choice(names))
            noise = [dict(name=nm, c=r_.choice(["A", "B", "N"])) for nm in sorted(set(r_.sample(cand, r_.randint(1, 3))))]
        files.append(dict(role=role, p=p, c=r_.choice(["A", "A", "B"]), live=live, pending=pend, noise=noise))
    uniq = lambda l: [x for i, x in enumerate(l) if x not in l[:i]]
    cfg = dict(protect=uniq(protect), mask=uniq(mask), ignore=uniq(ignore))
    envd, xp, xm = render_cfg(r_, cfg, offset, extras=all(f["role"] == "merge" for f in files))
    return dict(engine=engine, offset=offset, cfg=cfg, envd=envd, extra_protect=xp, extra_mask=xm, files=files)


def run(ck):
    use_repo()
    ck.rule = ("one evaluation = one package file pushed through a real MergeEngine (install / replace / uninstall) with "
               "the config-protect triggers registered, on a scratch root; non-trivial = distinct (engine, offset, path "
               "class, live, incoming, pending updates) in which the protecting row of the decision table applied "
               "(protected location and differing content)")
    ck.assumptions = [
        "contents are identified by what the files hold; chksums are computed by pkgcore from the data",
        "COLLISION_IGNORE entries are existing directories or exact paths; no package file under /etc",
        "engines carry only merge/unmerge and the two config-protect triggers (no default plugins on the scratch root)",
    ]
    w = World()
    scen, events = [], []

    history = []  # per event: the steps of its session up to and including it

    def record(steps):
        for k, (sc, ev) in enumerate(zip(steps, w.session(steps))):
            ev.update(tid=len(scen), i=0, step=k)
            scen.append(sc)
            history.append(steps[: k + 1])
            events.append(ev)
            ck.count(len(sc["files"]))

    def judge(label, first):
        batch = events[first:]
        if not batch:
            return
        verdicts = ck.trace("ConfigProtect_Trace", batch, label=label, timeout=ck.pick(300, 1500))
        for v in verdicts:
            sc, ev = scen[v["tid"]], events[v["tid"]]
            f, of = sc["files"][v["i"] - 1], ev["files"][v["i"] - 1]
            if v["clause"].startswith("~"):
                ck.nontriv((sc["engine"], sc["offset"], f["role"], f["live"], f["c"], repr(f["pending"]), repr(f["p"][:-1])))
                continue
            ck.violation(v["clause"], dict(engine=sc["engine"], offset=sc["offset"], role=f["role"], raised=ev["raised"],
                                           file=f, ignore_configured=bool(sc["cfg"]["ignore"]), step=ev["step"],
                                           observed=dict(before=of["before"], after=of["after"], recorded=of["recorded"],
                                                         strays_before=of["nb"], strays_after=of["na"]),
                                           session=history[v["tid"]]))

    if ck.replay_case:
        d = ck.replay_case["detail"]
        record(d["session"] if "session" in d else [d["scenario"]])
        judge("Trace:replay", 0)
        ck.sample(ck.replay_case["detail"]["file"])
        return

    # 1. design
    consts = 'CONSTANTS\n Contents = {"A", "B", "C"}\n MaxNum = %d\n Variant = "%s"\n'
    props = ("INVARIANT TypeOK\nINVARIANT NoDuplicates\nINVARIANT NumbersSuffice\nPROPERTY UserFileKept\n"
             "PROPERTY PendingUpdatesKept\nPROPERTY ShippedAvailable\n")
    maxnum = ck.pick(3, 5)
    nums = ck.pick("{0, 2}", "{0, 1, 3}")
    from concurrent.futures import ThreadPoolExecutor

    with ThreadPoolExecutor(4) as ex:  # four independent TLC runs, side by side
        f_main = ex.submit(tlc.run, "ConfigProtect_MC", cfg_text="SPECIFICATION Spec\n" + consts % (maxnum, "spec") + props,
                           workers=ck.pick(2, 8), timeout=ck.pick(300, 1500))
        f_var = {v: ex.submit(tlc.run, "ConfigProtect_MC", cfg_text="SPECIFICATION Spec\n" + consts % (3, v) + props,
                              workers=1, timeout=300) for v in ("nonreuse", "overwrite")}
        f_exp = ex.submit(tlc.export_cases, "ConfigProtect_Export", cfg_text=f"CONSTANT Nums = {nums}\n")
        main, (cases, exp) = f_main.result(), f_exp.result()
        variants = {v: f.result() for v, f in f_var.items()}
    ck.add_mc(f"MC:ConfigProtect_MC decision table, MaxNum={maxnum}", main)
    if main.violated:
        raise tlc.MachineryError(f"ConfigProtect_MC: model violates {main.violated}\n{main.out[-3000:]}")
    for variant, expect in (("nonreuse", "NoDuplicates"), ("overwrite", "UserFileKept")):
        res = variants[variant]
        ck.add_mc(f"MC:ConfigProtect_MC variant {variant} (must be refuted)", res)
        if res.violated != expect:
            raise tlc.MachineryError(f"vacuity guard: variant {variant} should violate {expect}, TLC says {res.violated}")
    # 2. spec -> code
    ck.add_mc("Export:ConfigProtect_Export", exp)
    cases.sort(key=lambda c: (c["role"], c["cls"], c["live"], repr(c["pending"])))
    first = len(events)
    for offset in ("root", "sub"):
        for steps in export_scenarios(cases, offset, 24):
            record(steps)
    ck.sample(dict(direction="spec->code", case=cases[len(cases) // 2]))
    judge("Trace:decision-table", first)
    # 3. code -> spec
    r_ = rng(21)
    first = len(events)
    for n in range(ck.pick(60, 250)):
        record(random_session(r_))
        if n == 0:
            ck.sample(dict(direction="code->spec", scenario={k: scen[-1][k] for k in ("engine", "offset", "cfg", "envd")}))
        if len(events) - first >= 600:
            judge(f"Trace:random-{n // 600}", first)
            first = len(events)
    judge("Trace:random-last", first)
