"""C24 — installed-package CONTENTS files round-trip and are replaced atomically (vdb/contents.py).

MC          : ContentsFile_MC (the file as an atomic register of entry sets, crash during flush keeps
              the old set) and AtomicFile_MC (the temp+rename protocol keeps OldOrNew at every crash
              point and under I/O errors; the in-place variant is shown to violate it).
spec -> code: entry sets are built from the spec's entry vocabulary (kinds x awkward paths/targets),
              flushed with the real ContentsFile and re-read by a fresh ContentsFile.
code -> spec: ContentsFile_Trace judges RoundTrip / PathKeyed; the recorded syscalls of flush() are
              replayed through FsModel by FsTrace (Watch: CONTENTS is old-or-new after every syscall,
              Frame: only CONTENTS and its temp sibling are touched, FinalState: model == real disk);
              flush() is re-executed with a power cut at every mutation (and half writes), and a fresh
              ContentsFile as reader must see the old or the new entries (ReaderOldOrNew).
Carve-outs (not representable in the format): a stand-alone "->" token inside a symlink *location*,
newlines, leading/trailing blanks in paths.
"""
import os

from pylib import atomic, fsrec
from pylib.common import mktmp, rng, use_repo

WORDS = ["a", "b c", "x->y", "é", "d  e", "->z", "q->", "ü b", "CONTENTS", "#new", "1 2 3"]


def gen_entries(r_, n):
    ents, seen = [], set()
    while len(ents) < n:
        depth = r_.randint(1, 3)
        path = "/" + "/".join(r_.choice(WORDS) for _ in range(depth))
        path = path.strip()
        if path in seen or path.endswith(" ") or "/ " in path or " /" in path:
            continue
        kind = r_.choice(["obj", "obj", "sym", "dir", "fif", "dev"])
        if kind == "sym" and " -> " in (" " + path.replace("/", " / ") + " "):
            continue
        if kind == "sym" and any(tok == "->" for tok in path.split(" ")):
            continue  # carve-out: stand-alone -> token in a symlink location
        seen.add(path)
        e = dict(kind=kind, path=path, md5="-", mtime=0, target="-")
        if kind == "obj":
            e["md5"] = "%032x" % r_.getrandbits(128)
            e["mtime"] = r_.choice([0, 1, 1700000000, 2147483647, r_.randint(0, 2**31 - 1)])
        elif kind == "sym":
            e["target"] = r_.choice(["t", "../x y", "a -> b", "/abs/é", "-> w", "x ->"]).strip()
            e["mtime"] = r_.randint(0, 2**31 - 1)
        ents.append(e)
    return ents


def build(fs, ents):
    out = []
    for e in ents:
        k = e["kind"]
        if k == "obj":
            # float mtimes are truncated to integral seconds by the format
            out.append(fs.fsFile(e["path"], chksums={"md5": int(e["md5"], 16)}, mtime=e["mtime"] + e.get("frac", 0), strict=False))
        elif k == "sym":
            out.append(fs.fsLink(e["path"], e["target"], mtime=e["mtime"], strict=False))
        elif k == "dir":
            out.append(fs.fsDir(e["path"], strict=False))
        elif k == "fif":
            out.append(fs.fsFifo(e["path"], strict=False))
        else:
            out.append(fs.fsDev(e["path"], strict=False, major=1, minor=3, mode=0o20666))
    return out


def project(cset):
    out = []
    for o in cset:
        if o.is_reg:
            out.append(dict(kind="obj", path=o.location, md5="%032x" % o.chksums["md5"], mtime=o.mtime, target="-"))
        elif o.is_sym:
            out.append(dict(kind="sym", path=o.location, md5="-", mtime=o.mtime, target=o.target))
        elif o.is_dir:
            out.append(dict(kind="dir", path=o.location, md5="-", mtime=0, target="-"))
        elif o.is_fifo:
            out.append(dict(kind="fif", path=o.location, md5="-", mtime=0, target="-"))
        elif o.is_dev:
            out.append(dict(kind="dev", path=o.location, md5="-", mtime=0, target="-"))
        else:
            out.append(dict(kind="?", path=o.location, md5="-", mtime=0, target="-"))
    return sorted(out, key=lambda d: (d["path"], d["kind"]))


def other_backends(backend, d, fs, ContentsFile, old, new, first_time):
    """flush old then new through one data_source / local_source object; yield (label, projected reload)"""
    from snakeoil import data_source
    os.makedirs(d)
    p = os.path.join(d, "CONTENTS")
    if backend == "data":
        src = data_source.data_source("", mutable=True)
    else:
        open(p, "w").close()
        src = data_source.local_source(p, mutable=True)
    for ents in ([] if first_time else [old]) + [new]:
        c = ContentsFile(src, mutable=True, create=True)
        for o in build(fs, ents):
            c.add(o)
        c.flush()
    views = [(backend, lambda: ContentsFile(src))]
    if backend == "local":
        views.append(("local-then-path", lambda: ContentsFile(p)))
    for how, load in views:
        try:
            yield how, project(load())
        except Exception as e:  # a reload that raises holds none of the written entries
            yield how, [dict(kind="raised", path=type(e).__name__, md5="-", mtime=0, target="-")]


def run(ck):
    use_repo()
    from pkgcore.fs import fs
    from pkgcore.vdb.contents import ContentsFile

    ck.rule = ("random entry sets over the five entry kinds with awkward paths (spaces, '->' inside words, unicode, "
               "names like CONTENTS/#new) flushed over an existing CONTENTS; non-trivial = distinct (old set, new set) pair "
               "with >= 2 entries; every mutation of flush() is a crash point (+ half writes)")
    ck.assumptions = ["a power cut is a stop before a Python-level mutation (or after half a write); no fsync/reordering model",
                      "the text codec itself is observed, not modelled", "mtimes < 2^31 (TLC integers)"]
    for old in ("TRUE", "FALSE"):
        ck.mc("AtomicFile_MC", cfg_text=f'SPECIFICATION Spec\nCONSTANTS\n Variant = "temp"\n NChunks = {ck.pick(3, 6)}\n OldExists = {old}\n'
              "INVARIANT OldOrNew\nINVARIANT Completes\n", label=f"MC:AtomicFile temp old={old}")
    bad = ck.mc("AtomicFile_MC", cfg_text='SPECIFICATION Spec\nCONSTANTS\n Variant = "inplace"\n NChunks = 3\n OldExists = TRUE\nINVARIANT OldOrNew\n',
                label="MC:AtomicFile inplace (must violate)", expect_ok=False)
    if bad.violated != "OldOrNew":
        from pylib import tlc
        raise tlc.MachineryError("AtomicFile_MC: the in-place variant no longer violates OldOrNew (vacuous model?)")
    ents_cfg = ('SPECIFICATION Spec\nCONSTANT Entries = {e1, e2, e3}\nINVARIANT DiskIsAFlushedSet\nPROPERTY CommitInstallsMem\n')
    # small register model: entries as records are defined inside the MC cfg through a wrapper module
    ck.mc("ContentsFile_MCW", cfg_text="SPECIFICATION Spec\nINVARIANT DiskIsAFlushedSet\nPROPERTY CommitInstallsMem\n",
          label="MC:ContentsFile register", workers=4)

    r_ = rng(24)
    root = mktmp("c24")
    rt_events, fs_events = [], []
    case_old, case_new = {}, {}
    n = ck.pick(12, 200)
    if ck.replay_case:
        n = 1
    for tid in range(n):
        if ck.replay_case:
            old, new = ck.replay_case["detail"]["old"], ck.replay_case["detail"]["new"]
        else:
            old = gen_entries(r_, r_.randint(0, 4)) if tid % 5 else []
            new = gen_entries(r_, r_.randint(1, 6))
            if tid % 7 == 3:
                for e in new:
                    if e["kind"] == "obj":
                        e["frac"] = 0.75
        first_time = (tid % 5 == 0)

        def setup(rt, old=old, first_time=first_time):
            os.mkdir(os.path.join(rt, "pkg"))
            if not first_time:
                c = ContentsFile(os.path.join(rt, "pkg", "CONTENTS"), mutable=True, create=True)
                for o in build(fs, old):
                    c.add(o)
                c.flush()

        def op(rt, new=new):
            c = ContentsFile(os.path.join(rt, "pkg", "CONTENTS"), mutable=True, create=True)
            for o in build(fs, new):
                c.add(o)
            c.flush()

        def reader(rt):
            p = os.path.join(rt, "pkg", "CONTENTS")
            if not os.path.lexists(p):
                return {"absent": True}
            return {"entries": project(ContentsFile(p))}

        # odd scenarios: the write proxy holds at most 8 bytes, so faults and cuts also strike inside write()
        with fsrec.buffer_limit(8 if tid % 2 else None):
            evs, info = atomic.scenario(tid, os.path.join(root, f"r{tid}"), setup, op, reader=reader,
                                        watch_paths=["pkg/CONTENTS"], frame=["pkg/CONTENTS", "pkg/.update.CONTENTS"],
                                        faults=True, label="contents.flush")
        for e in evs:
            e["case"] = tid
        fs_events += evs
        loaded = info["new_view"].get("entries", []) if isinstance(info["new_view"], dict) else []
        written = [{k: v for k, v in e.items() if k != "frac"} for e in new]
        case_old[tid], case_new[tid] = old, written
        rt_events.append(dict(tid=len(rt_events), i=1, written=written, loaded=loaded, backend="path", _old=old))
        # the same exchange through the other two kinds of source ContentsFile accepts: an in-memory
        # data_source and a local_source over a file; the old set is flushed first through the same
        # source object, so an in-place rewrite that leaves a tail of the old text behind is seen
        for backend in ("data", "local"):
            for how, got in other_backends(backend, os.path.join(root, f"b{tid}-{backend}"), fs, ContentsFile, old, new, first_time):
                rt_events.append(dict(tid=len(rt_events), i=1, written=written, loaded=got, backend=how, _old=old))
        ck.count()
        if len(new) >= 2:
            ck.nontriv((repr(old), repr(new)))
        if tid == 0:
            ck.sample(dict(old=old, new=new, syscalls=info["ops"], crash_points=info["crash_points"]))
        cases = ck.extra.setdefault("crash_points", 0)
        ck.extra["crash_points"] = cases + info["crash_points"]
    olds = {e["tid"]: e.pop("_old") for e in rt_events}
    for v in ck.trace("ContentsFile_Trace", rt_events):
        e = rt_events[v["tid"]]
        ck.violation(v["clause"], dict(old=olds[v["tid"]], new=e["written"], loaded=e["loaded"], backend=e["backend"]))
    olds, news = case_old, case_new
    for v, e in atomic.judge(ck, fs_events):
        d = dict(old=olds[e["tid"]], new=news[e["tid"]], event=e.get("ev"), k=e.get("k"), kind=e.get("kind", e.get("op")),
                 at_op=e.get("at_op", e.get("op")), view=e.get("view"))
        ck.violation(v["clause"], d)
