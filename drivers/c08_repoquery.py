"""C08 — repository queries return exactly the matching packages.

MC          : RepoQuery_MC — for every restriction tree of BoolTree_MC's bounded wrappings over category /
              package / other leaves and a full 2x2x2x2 repository: pruning the search to the candidates
              REQUIRED by the DNF clauses never loses a member of the answer (InvPruneSound); stack answer =
              disjoint union; unversioned answer.  The collector of the snapshot tree (drops negate flags,
              looks inside sub-nodes) is model-checked as an EXPECTED violation (negative control).
spec -> code: RepoQuery_Export enumerates trees over leaf slots (category, package, 2nd category, other); each is
              rendered with rotating real leaf variants (exact / glob / regex / value-negated / value-level OR;
              wrapper negate flag; version, repository, atoms) and queried on real SimpleTree / multiplex.tree /
              filtered.tree / caching_repo objects: plain, sorter=sorted / reverse, versioned=False.
code -> spec: seeded random repositories (2-3 per universe) and random trees (depth <= 3, all leaf kinds, atoms,
              AlwaysTrue/False, Negate wrappers) with random query modes.
The driver records the leaf truth table of every package / unversioned pair (observed from the real leaf
objects) and the yielded packages in order; RepoQuery_Trace computes the answer with the spec's Eval and judges
Missing / Spurious / Duplicate / SorterOrder / Raised (prefix Pairs_ unversioned, Stack_ stacks).

Updates    : RepoListing_MC model-checks the listing caches (categories / packages / versions) under
              notify_add_package / notify_remove_package; seeded histories of such updates interleaved with queries
              run on mutable SimpleTrees with cold, partly and fully filled listing caches and are judged by the
              stateful trace spec (contents at query time; an update that raises is clause Update_Raised).  Names listed without versions hold no package.  One engine is an on-disk
              ebuild repository whose package directories also hold file names that are not valid versions.
Carve-outs: versioned=False is exercised with a package class for the unversioned objects (raw_pkg_cls), as
ebuild repositories do; with the default (bare (cat, pkg) tuples) attribute restrictions cannot match at all —
noted in the report, not judged.  Unversioned queries are not combined with stacks (the yielded pair cannot be
attributed to a repository).  Empty groups are outside the domain (C06).
"""
from functools import partial

from pylib import tlc
from pylib.common import rng, use_repo

CATS = ["dev-lib", "dev-util", "sys-apps"]
PKGS = ["PyQt5", "bsdiff", "diffball", "fake"]  # pkgcore sorts names by code point: upper case first
VERS = ["0.7", "1.0", "1.0-r1", "2.1"]
MAX_LEAF_OCCURRENCES = 8


def shape(t):
    if t["k"] == "leaf":
        return str(t["id"])
    if t["k"] == "not":
        return f"not({shape(t['ch'][0])})"
    return ("!" if t["neg"] else "") + t["k"] + "(" + ",".join(shape(c) for c in t["ch"]) + ")"


class Env:
    """pkgcore classes + the fixed leaf pool (leaf id = index + 1)."""

    def __init__(self):
        from pkgcore.ebuild import restricts
        from pkgcore.ebuild.atom import atom
        from pkgcore.ebuild.cpv import UnversionedCPV, VersionedCPV
        from pkgcore.repository import filtered, misc, multiplex
        from pkgcore.repository.util import SimpleTree
        from pkgcore.restrictions import boolean, packages, restriction, values

        self.boolean, self.restriction, self.packages = boolean, restriction, packages
        self.SimpleTree, self.multiplex, self.filtered, self.misc = SimpleTree, multiplex, filtered, misc

        class QPkg(VersionedCPV):
            def __init__(s, *a, repo=None):
                super().__init__(*a)
                object.__setattr__(s, "repo", repo)

        class UPkg(UnversionedCPV):
            def __init__(s, *a, repo=None):
                super().__init__(*a)
                object.__setattr__(s, "repo", repo)

        self.QPkg, self.UPkg = QPkg, UPkg
        P, V = packages.PackageRestriction, values
        cat = [
            lambda n: P("category", V.StrExactMatch("dev-util"), negate=n),
            lambda n: P("category", V.StrGlobMatch("dev-"), negate=n),
            lambda n: P("category", V.StrRegex("lib$|^sys"), negate=n),
            lambda n: P("category", V.StrExactMatch("dev-lib", negate=True), negate=n),
            lambda n: P("category", V.OrRestriction(V.StrExactMatch("dev-lib"), V.StrExactMatch("sys-apps")), negate=n),
            lambda n: P("category", V.StrExactMatch("DEV-Util", case_sensitive=False), negate=n),
        ]
        pkg = [
            lambda n: P("package", V.StrExactMatch("diffball"), negate=n),
            lambda n: P("package", V.StrGlobMatch("b"), negate=n),
            lambda n: P("package", V.StrRegex("f"), negate=n),
            lambda n: P("package", V.StrExactMatch("fake", negate=True), negate=n),
            lambda n: P("package", V.StrExactMatch("pyqt5", case_sensitive=False), negate=n),
        ]
        oth = [
            lambda n: restricts.VersionMatch(">=", "1.0", negate=n),
            lambda n: restricts.VersionMatch("~", "1.0", negate=n),
            lambda n: restricts.RepositoryDep("r1", negate=n),
            lambda n: P("fullver", V.StrExactMatch("1.0"), negate=n),
        ]
        self.leaves, self.desc = [], []
        self.slot = {"c": [], "p": [], "o": []}  # variant -> (plain leaf id, negated leaf id)
        for kind, makers in (("c", cat), ("p", pkg), ("o", oth)):
            for mk in makers:
                ids = []
                for n in (False, True):
                    self.leaves.append(mk(n))
                    ids.append(len(self.leaves))
                self.slot[kind].append(tuple(ids))
        self.atom_ids = []
        for a in ("dev-util/diffball", ">=dev-lib/fake-1.0", "sys-apps/bsdiff::r2", "=dev-util/bsdiff-1.0*"):
            self.leaves.append(atom(a))
            self.atom_ids.append(len(self.leaves))
        self.leaves += [packages.AlwaysTrue, packages.AlwaysFalse]
        self.always_ids = [len(self.leaves) - 1, len(self.leaves)]
        self.desc = [str(x) for x in self.leaves]

    def build(self, t):
        b = self.boolean
        k = t["k"]
        if k == "leaf":
            return self.leaves[t["id"] - 1]
        if k == "not":
            return self.restriction.Negate(self.build(t["ch"][0]))
        cls = {"and": b.AndRestriction, "or": b.OrRestriction, "one": b.JustOneRestriction, "amo": b.AtMostOneOfRestriction}[k]
        return cls(*[self.build(c) for c in t["ch"]], node_type="package", negate=t["neg"])


class Universe:
    def __init__(self, env, repos, future=(), ebuild=None):
        """repos: list of {cat: {pkg: [ver, ...]}} (repository index = position + 1, repo_id r<index>); a name
        with an empty version list holds no package.  future: [(r, cat, pkg, ver)] members added later through
        notify_add_package.  ebuild: contents of one more repository, created ON DISK as an ebuild repository
        (plus file names that are not valid versions, which are not packages)."""
        self.env, self.repos, self.future, self.ebuild = env, repos, [tuple(x) for x in future], ebuild
        self.trees = []
        self.members, self.pairs, self.absent0 = [], [], []
        self.midx, self.pidx = {}, {}
        alld = list(repos) + ([ebuild] if ebuild is not None else [])
        for r, d in enumerate(alld, 1):
            if ebuild is not None and r == len(alld):
                tree = self._mk_ebuild_repo(d, f"r{r}")
            else:
                tree = env.SimpleTree({c: {p: list(v) for p, v in ps.items()} for c, ps in d.items()}, repo_id=f"r{r}", frozen=False)
                tree.package_class = partial(env.QPkg, repo=tree)
            tree.verif_index = r
            self.trees.append(tree)
            content = {}
            for c in d:
                for p in d[c]:
                    content.setdefault((c, p), []).extend(d[c][p])
            fut = {}
            for (fr, c, p, v) in self.future:
                if fr == r:
                    content.setdefault((c, p), [])
                    fut.setdefault((c, p), []).append(v)
            for (c, p) in sorted(content):
                up = env.UPkg(c, p, repo=tree)
                self.pairs.append((dict(c=CATS.index(c) + 1, p=PKGS.index(p) + 1, v=0, r=r), up))
                self.pidx[(r, c, p)] = len(self.pairs)
                for v in content[(c, p)] + fut.get((c, p), []):
                    m = env.QPkg(c, p, v, repo=tree)
                    self.members.append((dict(c=CATS.index(c) + 1, p=PKGS.index(p) + 1, v=VERS.index(v) + 1, r=r), m))
                    self.midx[(r, c, p, v)] = len(self.members)
                    if v in fut.get((c, p), []):
                        self.absent0.append(len(self.members))

    def _mk_ebuild_repo(self, d, repo_id):
        import os

        from pkgcore.ebuild import repo_objs, repository
        from pylib.common import mktmp

        Universe._n = getattr(Universe, "_n", 0) + 1
        base = os.path.join(mktmp("c08"), f"repo{Universe._n}")
        os.makedirs(os.path.join(base, "profiles"))
        os.makedirs(os.path.join(base, "metadata"))
        with open(os.path.join(base, "profiles", "repo_name"), "w") as f:
            f.write(repo_id + "\n")
        with open(os.path.join(base, "metadata", "layout.conf"), "w") as f:
            f.write("masters =\ncache-formats =\nthin-manifests = true\n")
        n = 0
        for c in d:
            for p in d[c]:
                os.makedirs(os.path.join(base, c, p))
                names = [f"{p}-{v}.ebuild" for v in d[c][p]]
                n += 1
                if n % 2:  # files that look like ebuilds of this package but carry no valid version: not packages
                    names += [f"{p}-0-bad-.ebuild", f"{p}-1.0-bad-.ebuild", f"{p}-9-bad-.ebuild"]
                for name in names:
                    with open(os.path.join(base, c, p, name), "w") as f:
                        f.write('SLOT="0"\n')
        tree = repository.UnconfiguredTree(base, repo_config=repo_objs.RepoConfig(location=base))
        tree.verif_raw = partial(self.env.QPkg, repo=tree)
        return tree

    def header(self):
        def row(rec, obj):
            out = dict(rec)
            out["truth"] = [i + 1 for i, leaf in enumerate(self.env.leaves) if leaf.match(obj)]
            return out

        return dict(tid=-1, i=0, ev="universe", members=[row(*x) for x in self.members], pairs=[row(*x) for x in self.pairs],
                    absent0=self.absent0)

    def update(self, op, k):
        """tell the (mutable, in-memory) repository that member k was added / removed"""
        rec, obj = self.members[k - 1]
        tree = self.trees[rec["r"] - 1]
        getattr(tree, "notify_add_package" if op == "add" else "notify_remove_package")(obj)

    def index_of(self, obj, unversioned):
        r = obj.repo.verif_index
        if unversioned:
            return self.pidx[(r, obj.category, obj.package)]
        return self.midx[(r, obj.category, obj.package, obj.fullver)]

    def query(self, t, q):
        """q: dict(engine, mode, unversioned, stack, filt) -> observed (raised, exc, got)"""
        env = self.env
        obj = env.build(t)
        kw = {}
        if q["mode"] == "asc":
            kw["sorter"] = sorted
        elif q["mode"] == "desc":
            kw["sorter"] = partial(sorted, reverse=True)
        trees = [self.trees[r - 1] for r in q["stack"]]
        if q["unversioned"]:
            kw["versioned"] = False
            kw["raw_pkg_cls"] = partial(env.UPkg, repo=trees[0])
        try:
            if q["engine"] == "simple":
                it = trees[0].itermatch(obj, **kw)
            elif q["engine"] == "ebuild":
                it = trees[0].itermatch(obj, raw_pkg_cls=trees[0].verif_raw, **kw)
            elif q["engine"] == "multiplex":
                it = env.multiplex.tree(*trees).itermatch(obj, **kw)
            elif q["engine"] == "filtered":
                ft = env.filtered.tree(trees[0], env.leaves[q["filt"]["id"] - 1], sentinel_val=q["filt"]["keep"])
                it = ft.itermatch(obj, **kw)
            elif q["engine"] == "caching":
                cr = env.misc.caching_repo(trees[0], kw.get("sorter", iter))
                first = list(cr.match(obj))
                again = list(cr.itermatch(obj))
                return False, "", [[self.index_of(x, False) for x in first], [self.index_of(x, False) for x in again]]
            else:
                raise tlc.MachineryError(q["engine"])
            return False, "", [[self.index_of(x, q["unversioned"]) for x in it]]
        except tlc.MachineryError:
            raise
        except Exception as e:
            return True, f"{type(e).__name__}: {e}", [[]]


EXTRA = [
    dict(engine="simple", mode="asc", unversioned=False, stack=[1]),
    dict(engine="simple", mode="desc", unversioned=False, stack=[2]),
    dict(engine="simple", mode="plain", unversioned=True, stack=[1]),
    dict(engine="multiplex", mode="plain", unversioned=False, stack=[1, 2]),
    dict(engine="multiplex", mode="asc", unversioned=False, stack=[2, 1]),
    dict(engine="multiplex", mode="desc", unversioned=False, stack=[1, 2, 3]),
    dict(engine="filtered", mode="plain", unversioned=False, stack=[1]),
    dict(engine="caching", mode="asc", unversioned=False, stack=[1]),
    dict(engine="simple", mode="asc", unversioned=True, stack=[2]),
    dict(engine="filtered", mode="desc", unversioned=True, stack=[1]),
    dict(engine="caching", mode="plain", unversioned=False, stack=[2]),
    dict(engine="ebuild", mode="plain", unversioned=False, stack=[4]),
    dict(engine="ebuild", mode="asc", unversioned=False, stack=[4]),
    dict(engine="simple", mode="plain", unversioned=True, stack=[2]),
    dict(engine="ebuild", mode="desc", unversioned=False, stack=[4]),
]

FIXED_REPOS = [
    {"dev-util": {"diffball": ["1.0", "0.7"], "bsdiff": ["1.0-r1", "2.1"], "fake": ["1.0"], "PyQt5": ["1.0"]},
     "dev-lib": {"fake": ["1.0", "1.0-r1"], "diffball": ["2.1"], "bsdiff": []},
     "sys-apps": {"bsdiff": ["0.7"], "fake": ["2.1", "0.7"], "diffball": []}},
    {"dev-util": {"diffball": ["1.0", "2.1"]}, "sys-apps": {"diffball": ["1.0-r1"], "bsdiff": ["0.7", "1.0"], "PyQt5": ["2.1", "0.7"]},
     "dev-lib": {"bsdiff": ["1.0"], "fake": []}},
    {"dev-lib": {"fake": ["1.0"]}, "dev-util": {"fake": ["0.7", "1.0-r1"]}},
]
FIXED_EBUILD = {"dev-util": {"diffball": ["0.7", "1.0", "1.0-r1", "2.1"], "PyQt5": ["1.0", "2.1"], "fake": ["1.0"]},
                "dev-lib": {"bsdiff": ["0.7", "1.0", "2.1"], "fake": ["1.0-r1", "2.1"]},
                "sys-apps": {"fake": ["0.7", "1.0", "1.0-r1", "2.1"], "diffball": ["1.0"]}}


def render_exported(env, t, n):
    """slots 1..4 -> real leaf ids; the leaf's neg flag selects the negate=True twin (atoms: a Negate wrapper)."""
    nc, np_ = len(env.slot["c"]), len(env.slot["p"])
    v1 = n % nc
    pick = {1: ("c", v1), 3: ("c", (v1 + 1 + (n // nc) % (nc - 1)) % nc), 2: ("p", (n // 3) % np_)}
    ov = (n // 7) % 6

    def remap(x):
        if x["k"] == "leaf":
            if x["id"] == 4 and ov >= 4:
                leaf = dict(k="leaf", neg=False, id=env.atom_ids[ov - 4], ch=[])
                return dict(k="not", neg=False, id=0, ch=[leaf]) if x["neg"] else leaf
            kind, var = pick.get(x["id"], ("o", ov % 4))
            return dict(k="leaf", neg=False, id=env.slot[kind][var][1 if x["neg"] else 0], ch=[])
        return dict(k=x["k"], neg=x["neg"], id=0, ch=[remap(c) for c in x["ch"]])

    return remap(t)


def _random_tree(env, r_, depth):
    if depth == 0 or r_.random() < 0.3:
        x = r_.random()
        if x < 0.1:
            lid = r_.choice(env.atom_ids)
        elif x < 0.14:
            lid = r_.choice(env.always_ids)
        else:
            kind = r_.choice("ccppo")
            lid = r_.choice(env.slot[kind])[r_.random() < 0.3]
        return dict(k="leaf", neg=False, id=lid, ch=[])
    if r_.random() < 0.12:
        return dict(k="not", neg=False, id=0, ch=[_random_tree(env, r_, depth - 1)])
    kind = r_.choice(["and", "or", "and", "or", "one", "amo"])
    return dict(k=kind, neg=r_.random() < 0.25, id=0, ch=[_random_tree(env, r_, depth - 1) for _ in range(r_.choice([1, 2, 2, 2, 3]))])


def _occ(env, t):
    if t["k"] == "leaf":
        return len(env.leaves[t["id"] - 1].restrictions) if t["id"] in env.atom_ids else 1
    return sum(_occ(env, c) for c in t["ch"])


def random_tree(env, r_):
    while True:
        t = _random_tree(env, r_, r_.randint(0, 3))
        if _occ(env, t) <= MAX_LEAF_OCCURRENCES:
            return t


def random_repos(r_):
    repos = []
    for _ in range(r_.randint(2, 3)):
        d = {}
        for c in CATS:
            for p in PKGS:
                x = r_.random()
                if x < 0.5:
                    vs = [v for v in VERS if r_.random() < 0.5] or [r_.choice(VERS)]
                    r_.shuffle(vs)
                    d.setdefault(c, {})[p] = vs
                elif x < 0.58:
                    d.setdefault(c, {})[p] = []  # a listed name without any version
        if not d:
            d = {"dev-util": {"fake": ["1.0"]}}
        items = list(d.items())
        r_.shuffle(items)
        repos.append(dict(items))
    return repos


def random_query(env, uni, r_, dynamic=False):
    n = len(uni.repos)
    engine = r_.choice(["simple", "simple", "multiplex", "multiplex", "filtered"] + ([] if dynamic else ["caching"])
                       + (["ebuild"] if uni.ebuild is not None else []))
    if engine == "ebuild":
        return dict(engine=engine, mode=r_.choice(["plain", "asc", "desc"]), unversioned=False, stack=[n + 1], filt=dict(id=0, keep=False))
    q = dict(engine=engine, mode=r_.choice(["plain", "asc", "desc"]), unversioned=False, stack=[r_.randint(1, n)])
    if engine == "multiplex":
        st = list(range(1, n + 1))
        r_.shuffle(st)
        q["stack"] = st[: r_.randint(2, n)]
    elif engine in ("simple", "filtered") and r_.random() < 0.3:
        q["unversioned"] = True
    if engine == "caching" and q["mode"] == "desc":
        q["mode"] = "asc"
    q["filt"] = dict(id=r_.choice(env.slot[r_.choice("cpo")])[r_.random() < 0.3], keep=r_.random() < 0.5) if engine == "filtered" else dict(id=0, keep=False)
    return q


def random_future(repos, r_):
    """packages that will be added later: new names in known categories, new versions, new categories"""
    out = []
    for r, d in enumerate(repos, 1):
        for c in CATS:
            for p in PKGS:
                have = d.get(c, {}).get(p, [])
                for v in VERS:
                    if v not in have and r_.random() < 0.15:
                        out.append((r, c, p, v))
    return out


def dynamic_history(b, env, r_, steps):
    """updates through the repository's own notification API interleaved with queries"""
    uni = b.uni
    absent = set(uni.absent0)
    present = {k for k in range(1, len(uni.members) + 1) if uni.members[k - 1][0]["r"] <= len(uni.repos)} - absent
    for n in range(steps):
        x = r_.random() * (0.45 if n < 8 else 1.0)  # the first steps are mostly updates: listings still cold
        if x < 0.18 and absent:
            k = r_.choice(sorted(absent))
            b.update("add", k)
            absent.discard(k)
            present.add(k)
        elif x < 0.28 and present:
            k = r_.choice(sorted(present))
            b.update("remove", k)
            present.discard(k)
            absent.add(k)
        else:
            b.run(random_tree(env, r_), random_query(env, uni, r_, dynamic=True), "dynamic")


def mc_cfg(nleaves, depth, rich, inv):
    return (f"SPECIFICATION Spec\nCONSTANTS\n NLeaves = {nleaves}\n MaxDepth = {depth}\n RichSiblings = {rich}\n FullDepth = 0\n"
            + "".join(f"INVARIANT {x}\n" for x in inv))


class Batch:
    """events of one universe, judged by one TLC run"""

    def __init__(self, ck, env, repos, label, future=(), ebuild=None, dynamic=False):
        self.ck, self.env, self.label, self.dynamic = ck, env, label, dynamic
        self.uni = Universe(env, repos, future, ebuild)
        self.events, self.meta, self.steps = [], [], []

    def run(self, t, q, origin):
        q = dict(q)
        q.setdefault("filt", dict(id=0, keep=False))
        raised, exc, gots = self.uni.query(t, q)
        self.steps.append(dict(step="query", tree=t, query=q))
        for rep, got in enumerate(gots):
            self.events.append(dict(tid=len(self.events), i=rep, ev="query", mode=q["mode"], unversioned=q["unversioned"], stack=q["stack"],
                                    filt=q["filt"], t=t, raised=raised, got=got))
            self.meta.append(dict(q=q, exc=exc, origin=origin, nsteps=len(self.steps) - 1))
        self.ck.count()
        if t["k"] != "leaf":
            self.ck.nontriv((shape(t), q["engine"], q["mode"], q["unversioned"], tuple(q["stack"]), repr(self.uni.repos), len(self.steps) if self.dynamic else 0))

    def update(self, op, k):
        raised, exc = False, ""
        try:
            self.uni.update(op, k)
        except Exception as e:  # an observation, judged by the trace spec (Update_Raised)
            raised, exc = True, f"{type(e).__name__}: {e}"
        self.steps.append(dict(step=op, k=k))
        self.events.append(dict(tid=len(self.events), i=0, ev=op, k=k, raised=raised))
        self.meta.append(dict(q=None, exc=exc, origin="update", nsteps=len(self.steps) - 1, op=op, k=k))

    def judge(self):
        judge_many(self.ck, [self], self.label)

    def report(self, verdicts):
        ck = self.ck
        for v in verdicts:
            e, m = self.events[v["tid"]], self.meta[v["tid"]]
            if v["clause"] in ("OutsideDomain", "UnknownEvent"):
                raise tlc.MachineryError(f"generator left the property's domain: {e}")
            if e["ev"] != "query":
                rec, obj = self.uni.members[e["k"] - 1]
                ck.violation(v["clause"], dict(update=dict(op=m["op"], k=m["k"]), member=f"r{rec['r']}:{obj.cpvstr}", exc=m["exc"], origin=m["origin"],
                                               engine="update", shape="", kinds=[], leaves={}, repos=self.uni.repos, future=self.uni.future,
                                               ebuild=self.uni.ebuild, history=self.steps[: m["nsteps"]]))
                continue
            names = [self._name(k, e["unversioned"]) for k in e["got"]]
            ck.violation(v["clause"], dict(
                tree=e["t"], shape=shape(e["t"]), root=e["t"]["k"], query=m["q"], engine=m["q"]["engine"], exc=m["exc"], origin=m["origin"],
                repos=self.uni.repos, future=self.uni.future, ebuild=self.uni.ebuild, got=names,
                history=self.steps[: m["nsteps"]] if self.dynamic else [],
                leaves={str(i): self.env.desc[i - 1] for i in sorted(_ids(e["t"], set()))},
                kinds=sorted({type(self.env.leaves[i - 1]).__name__ for i in _ids(e["t"], set())})))

    def _name(self, k, unversioned):
        rec, obj = (self.uni.pairs if unversioned else self.uni.members)[k - 1]
        return f"r{rec['r']}:{obj.cpvstr}"


def judge_many(ck, batches, label):
    """several universes in one TLC run: header, events, header, events, ... (tids made unique by an offset)"""
    batches = [b for b in batches if b.events]
    if not batches:
        return
    trace, owner, off = [], [], 0
    for b in batches:
        trace.append(b.uni.header())
        for e in b.events:
            trace.append(dict(e, tid=e["tid"] + off))
        owner.append((off, off + len(b.events), b))
        off += len(b.events)
    verdicts = ck.trace("RepoQuery_Trace", trace, label=label, timeout=ck.pick(300, 1500), heap="3g")
    for lo, hi, b in owner:
        b.report([dict(v, tid=v["tid"] - lo) for v in verdicts if lo <= v["tid"] < hi])


def _ids(t, acc):
    if t["k"] == "leaf":
        acc.add(t["id"])
    for c in t["ch"]:
        _ids(c, acc)
    return acc


def run(ck):
    use_repo()
    env = Env()
    ck.rule = ("queries (restriction tree x engine SimpleTree/multiplex/filtered/caching x plain/sorted/reverse-sorted x "
               "versioned/unversioned) on in-memory repositories; trees enumerated by TLC (RepoQuery_Export) and seeded random; "
               "non-trivial = distinct (tree with >= 1 boolean node or wrapper, engine, mode, stack, repository contents)")
    ck.assumptions = [
        "leaf restrictions are observed, not specified: their truth on every package / unversioned pair is recorded",
        "category, package and version names are rendered order-preserving, so index order = sorter order",
        "unversioned queries pass raw_pkg_cls (a package class for the unversioned objects)",
    ]
    if ck.replay_case:
        d = ck.replay_case["detail"]
        b = Batch(ck, env, d["repos"], "Trace:replay", d.get("future", ()), d.get("ebuild"), dynamic=bool(d.get("history")))
        for st in d.get("history", []):
            if st["step"] == "query":
                b.run(st["tree"], st["query"], "history")
            else:
                b.update(st["step"], st["k"])
        if d.get("update"):
            b.update(d["update"]["op"], d["update"]["k"])
        else:
            b.run(d["tree"], d["query"], d.get("origin", "replay"))
        b.judge()
        ck.nontriv("replay2")
        ck.sample(dict(shape=d.get("shape"), query=d.get("query"), update=d.get("update")))
        return
    # 1. design
    inv = ["InvPruneSound", "InvStackUnion", "InvPairs"]
    if ck.quick:
        ck.mc("RepoQuery_MC", cfg_text=mc_cfg(3, 2, '"basic"', inv), workers=4, timeout=300, label="MC:RepoQuery_MC 3 leaves depth2 basic")
    else:
        ck.mc("RepoQuery_MC", cfg_text=mc_cfg(4, 2, '"mid"', inv), workers=4, timeout=840, label="MC:RepoQuery_MC 4 leaves depth2 mid")
    lcfg = ('SPECIFICATION Spec\nCONSTANTS\n Cats = ' + ck.pick('{"a"}', '{"a", "b"}') + '\n Names = {"x", "y"}\n Vers = {1, 2}\n InvalidateOnlyNewCategory = %s\n'
            ' RemoveOrder = "%s"\nINVARIANT Coherent\nINVARIANT Complete\nINVARIANT NoRaise\n')
    ck.mc("RepoListing_MC", cfg_text=lcfg % ("FALSE", "notify_first"), workers=4, timeout=300,
          label="MC:RepoListing_MC listing caches under add/remove, any subset cached")
    if not ck.quick:
        lneg = ck.mc("RepoListing_MC", cfg_text=lcfg % ("TRUE", "notify_first"), workers=2, timeout=300, expect_ok=False,
                     label="MC:RepoListing_MC negative control (invalidate only for a new category)")
        if lneg.violated not in ("Coherent", "Complete"):
            raise tlc.MachineryError("negative control: partial invalidation was not found incoherent by the model")
        lneg = ck.mc("RepoListing_MC", cfg_text=lcfg % ("FALSE", "mutate_first"), workers=2, timeout=300, expect_ok=False,
                     label="MC:RepoListing_MC negative control (backend store mutated before the notification reads the listings)")
        if lneg.violated != "NoRaise":
            raise tlc.MachineryError("negative control: mutate-first removal was not found to raise by the model")
    neg = ck.mc("RepoQuery_MC", cfg_text=mc_cfg(3, 1, '"basic"', ["InvShippedSound"]), workers=2, timeout=300, expect_ok=False,
                label="MC:RepoQuery_MC negative control (snapshot collector)")
    if neg.violated != "InvShippedSound":
        raise tlc.MachineryError("negative control: the snapshot's collector was not found unsound by the model")
    ck.extra["negative_control"] = "InvShippedSound violated as expected"
    # 2. spec -> code
    cases = ck.export("RepoQuery_Export", cfg_text=f"CONSTANT Level = {ck.pick(1, 2)}\n", timeout=900)
    cases.sort(key=lambda c: repr(c))
    ck.extra["exported_trees"] = len(cases)
    b = Batch(ck, env, FIXED_REPOS, "Trace:exported-trees", ebuild=FIXED_EBUILD)
    for n, case in enumerate(cases):
        t = render_exported(env, case["t"], n)
        b.run(t, dict(engine="simple", mode="plain", unversioned=False, stack=[1 + n % 2]), "export")
        q = dict(EXTRA[n % len(EXTRA)])
        if q["engine"] == "filtered":
            q["filt"] = dict(id=env.slot["cpo"[n % 3]][n % 4][n % 2], keep=bool((n // 2) % 2))
        b.run(t, q, "export")
        if len(b.events) >= 25000:
            b.judge()
            b = Batch(ck, env, FIXED_REPOS, f"Trace:exported-trees@{n}", ebuild=FIXED_EBUILD)
    ck.sample(dict(direction="spec->code", event=b.events[len(b.events) // 2]))
    b.judge()
    ck.exhaustive = True
    # 3. code -> spec
    r_ = rng(8)
    for u in range(ck.pick(1, 8)):
        repos = random_repos(r_)
        b = Batch(ck, env, repos, f"Trace:random-universe-{u}", ebuild=repos[0] if u % 2 == 0 else None)
        for _ in range(ck.pick(800, 2500)):
            b.run(random_tree(env, r_), random_query(env, b.uni, r_), "random")
        if u == 0:
            ck.sample(dict(direction="code->spec", repos=b.uni.repos, event=b.events[-1]))
        b.judge()
    # 4. repositories updated through notify_add_package / notify_remove_package between queries
    dyn = []
    for u in range(ck.pick(40, 400)):
        repos = random_repos(r_)
        b = Batch(ck, env, repos, f"Trace:updated-universe-{u}", future=random_future(repos, r_), dynamic=True)
        dynamic_history(b, env, r_, r_.randint(10, 40))
        dyn.append(b)
        if len(dyn) == 100:
            judge_many(ck, dyn, f"Trace:updated-universes@{u}")
            dyn = []
    judge_many(ck, dyn, "Trace:updated-universes")
