"""C48 — cached metadata is used exactly while it is still valid.

Spec        : specs/CacheValidity.tla — world (one ebuild + eclass files of two stacked repositories)
              x cache entry; Valid(kind, entry, world) transcribes the property: the entry records the
              ebuild's current checksum (md5-cache) / mtime (flat_hash) and every eclass it records
              still exists with the recorded checksum (and, flat_hash, directory); ReadOutcomes = use
              the entry unchanged iff valid, otherwise regenerate and replace (or fail and drop it when
              a sourced eclass is gone).
MC          : specs/CacheValidity_MC.tla — every history (EditEbuild/TouchEbuild/EditEclass/TouchEclass/
              RemoveEclass/MoveEclass/StripInherit/Read) up to MaxSteps from every small initial world,
              both cache kinds: a read never returns anything but fresh metadata (ReadFresh), valid
              entries hold fresh data (Coherent), ...; vacuity guards (ebuild-only validation, flat
              cache ignoring the eclass directory) must be refuted by TLC.
spec -> code: CacheValidity_Sim (TLC -simulate) chooses initial worlds and histories; replayed on real
              repositories built with pkgcore.pytest.plugin.EbuildRepo (overlay + master, StackedCaches
              as repository._sort_eclasses builds them) with a real md5_cache / flat_hash.database and
              the real ebuild daemon.
code -> spec: seeded random histories generated here on the same rig.
Observed per step: the world read back from disk, "regenerated?" (EbuildProcessor.get_keys wrapped),
the metadata returned, the cache entry read back from the cache file.  Judged by CacheValidity_Trace.

Every Read is one pkgcore session: fresh repository / eclass_cache / cache objects (the in-memory eclass
listing and LazilyHashedPath values are per-session by design).  The world has one or two packages sharing
the eclass files; a session reads one of them or BOTH, in either order, through the same objects (one Read
event per package; the criterion is per entry, so e.g. a stale entry must be refused also right after a
fresh entry naming the same eclass was accepted).  All stamped mtimes carry sub-second parts (os.utime ns=):
the mtime the caches record - and the spec's mtime - is the whole second.  Repository, eclass and cache
directories are drawn from a pool of awkward but legal names (blanks, leading/trailing blank, unicode,
punctuation; no tab/newline, which the cache formats use as separators): locations are opaque to the property.
Carve-outs: an entry recording eclasses but lacking INHERIT ("StripInherit", old cache format) may be
used or regenerated (the property's criterion says valid, pkgcore documents a refresh); result and
stored entry are still judged.  mtime validation cannot see an edit that keeps the mtime: the driver
stamps a fresh mtime on every edit (os.utime, whole seconds).
"""
import hashlib
import os
import re
import shutil
import time
from os.path import join as pjoin

from pylib import tlc
from pylib.common import mktmp, rng, seed, use_repo

BASE = 1_000_000_000
INH = {"": [], "a": ["a"], "b": ["b"], "ab": ["a", "b"]}
UNKNOWN = dict(cid=99, inh="?", nest=False)
NOCONTENT = dict(cid=0, inh="", nest=False)


def cont(cid, inh="", nest=False):
    return dict(cid=cid, inh=inh, nest=bool(nest))


PATH_POOL = ["%s", "%s with blank", "two  blanks %s x", "%s-ünï-cødé", " %s lead-and-trail ", "%s's $x;y&z (p)", "日本 %s",
             "%s+a,b=c@d%%e", '%s#h *g ?q "dq"']   # no tab/newline (cache field separators), no backslash (see report)
PKGS = {"p1": "pkg", "p2": "pkg2"}          # spec package name -> cat/<name>-1
ORDERS = {"p1": ["p1"], "p2": ["p2"], "p1p2": ["p1", "p2"], "p2p1": ["p2", "p1"]}
NOPKG = dict(cid=0, inh="", mt=0)
# sub-second parts of the stamped mtimes: the caches record whole seconds (floor), which is what the
# spec's mtime stands for; the files themselves carry whatever the filesystem gives
FRACS = [500_000_000, 999_999_999, 0, 1, 250_000_000, 123_456_789]
ABSENT_ENTRY = dict(present=False, chf=dict(c=NOCONTENT, t=0), ecl=[], hasInherit=False, data=dict(eb=NOCONTENT, ecl=[]))


def ebs_of(w0):
    """initial worlds come as {ebs:{p1,p2}} (two packages) or, in old replay files, {eb}"""
    ebs = dict(w0["ebs"]) if "ebs" in w0 else {"p1": w0["eb"]}
    return {p: ebs.get(p, NOPKG) for p in PKGS}


class Rig:
    """overlay 'o' (holds cat/pkg-1 and, optionally, cat/pkg2-1) stacked on master 'm', one cache backend."""

    _n = 0

    def __init__(self, kind, calls, deco=None):
        from pkgcore.pytest.plugin import EbuildRepo

        Rig._n += 1
        self.kind = kind
        self.calls = calls
        # Repository / cache locations are opaque to the property: draw them from a pool of awkward but legal
        # directory names (blanks, unicode, shell-ish punctuation; no tab/newline - the cache formats use those
        # as separators).  The pool is cycled so the first few histories of a run already cover every kind.
        deco = deco or PATH_POOL[Rig._n % len(PATH_POOL)]
        self.deco = deco
        self.root = pjoin(mktmp(f"c48rig{Rig._n}"), deco % "root")
        os.makedirs(self.root)
        self.er = {"m": EbuildRepo(pjoin(self.root, deco % "master"), repo_id="master"),
                   "o": EbuildRepo(pjoin(self.root, deco % "overlay"), repo_id="overlay", masters=("master",))}
        self.flatdir = pjoin(self.root, deco % "flatcache")
        self.md5 = {}
        self.clock = 0

    # ---- files ------------------------------------------------------------------------------
    def ecl_path(self, r, n):
        return pjoin(self.er[r].path, "eclass", f"{n}.eclass")

    def ebuild_path(self, p="p1"):
        return pjoin(self.er["o"].path, "cat", PKGS[p], f"{PKGS[p]}-1.ebuild")

    def cache_path(self, p="p1"):
        if self.kind == "md5":
            return pjoin(self.er["o"].path, "metadata", "md5-cache", "cat", f"{PKGS[p]}-1")
        return pjoin(self.flatdir, "cat", f"{PKGS[p]}-1")

    def _stamp(self, path, mt):
        ns = (BASE + mt) * 1_000_000_000 + FRACS[mt % len(FRACS)]
        os.utime(path, ns=(ns, ns))

    def _remember(self, path, content):
        with open(path, "rb") as f:
            self.md5[hashlib.md5(f.read()).hexdigest()] = content

    def write_ebuild(self, p, cid, inh, mt):
        names = INH[inh]
        path = self.er["o"].create_ebuild(f"cat/{PKGS[p]}-1", eapi="8", license="", description=f"eb_{cid}_{inh or 'none'}",
                                          data=("inherit " + " ".join(names)) if names else None)
        self._remember(path, cont(cid, inh))
        self._stamp(path, mt)

    def write_eclass(self, r, n, cid, nest, mt):
        p = self.ecl_path(r, n)
        with open(p, "w") as f:
            f.write(f"# eclass {n}\nIUSE=\"{n}_{cid}_{'n' if nest else 'f'}\"\n" + ("inherit b\n" if nest else ""))
        self._remember(p, cont(cid, "", nest))
        self._stamp(p, mt)

    def tick(self):
        self.clock += 1
        return self.clock

    def setup(self, w0):
        for p, eb in ebs_of(w0).items():
            if eb["cid"]:
                self.write_ebuild(p, eb["cid"], eb["inh"], 0)
        for r in ("m", "o"):
            for n in ("a", "b"):
                f = w0["ecl"][r][n]
                if f["cid"]:
                    self.write_eclass(r, n, f["cid"], f["nest"], 0)

    def pkgs(self):
        return [p for p in PKGS if os.path.exists(self.ebuild_path(p))]

    # ---- actions (inputs chosen by TLC or by the random generator) ---------------------------
    def apply(self, a):
        """edits only; Read sessions go through session()"""
        ev = a["ev"]
        if ev == "EditEbuild":
            self.write_ebuild(a["pkg"], a["cid"], a["inh"], self.tick())
        elif ev == "TouchEbuild":
            self._stamp(self.ebuild_path(a["pkg"]), self.tick())
        elif ev == "EditEclass":
            self.write_eclass(a["r"], a["n"], a["cid"], a["nest"], self.tick())
        elif ev == "TouchEclass":
            self._stamp(self.ecl_path(a["r"], a["n"]), self.tick())
        elif ev == "RemoveEclass":
            os.unlink(self.ecl_path(a["r"], a["n"]))
        elif ev == "MoveEclass":
            os.rename(self.ecl_path(a["r"], a["n"]), self.ecl_path(a["r2"], a["n"]))
        elif ev == "StripInherit":
            p = self.cache_path(a["pkg"])
            with open(p) as f:
                lines = [x for x in f if not x.startswith("INHERIT=")]
            with open(p, "w") as f:
                f.writelines(lines)
        else:
            raise tlc.MachineryError(f"unknown action {a}")

    # ---- the operation under test -------------------------------------------------------------
    def session(self, order):
        """One pkgcore session: ONE set of repository / eclass-cache / cache objects serves every package of
        `order`; yields (package, outcome) after each package's metadata has been fetched."""
        from pkgcore.cache import flat_hash
        from pkgcore.ebuild import eclass_cache as ecm
        from pkgcore.ebuild import repo_objs, repository

        mpath, opath = self.er["m"].path, self.er["o"].path
        master = repository.UnconfiguredTree(mpath, repo_config=repo_objs.RepoConfig(location=mpath))
        # as repository._sort_eclasses: masters first, the repo itself last, searched in reverse
        caches = [ecm.cache(pjoin(x, "eclass"), location=opath) for x in (mpath, opath)]
        ec = ecm.StackedCaches(list(reversed(caches)), location=opath, eclassdir=opath)
        cache = flat_hash.md5_cache(opath) if self.kind == "md5" else flat_hash.database(self.flatdir)
        repo = repository.UnconfiguredTree(opath, eclass_cache=ec, masters=(master,), cache=(cache,),
                                           repo_config=repo_objs.RepoConfig(location=opath))
        for p in order:
            del self.calls[:]
            out = dict(regen=False, failed=False, err="", result=dict(eb=NOCONTENT, ecl=[]))
            try:
                pkg = repo.package_class("cat", PKGS[p], "1")
                data = dict(pkg.data)
                out["result"] = project_data(data.get("DESCRIPTION", ""), data.get("IUSE", ""))
            except Exception as e:
                out["failed"] = True
                out["err"] = f"{type(e).__name__}: {e}"[:300]
            out["regen"] = bool(self.calls)
            yield p, out

    # ---- projections --------------------------------------------------------------------------
    def world(self):
        def mt(p):
            return os.stat(p).st_mtime_ns // 1_000_000_000 - BASE if self.kind == "flat" else 0

        ebs = {}
        for p in PKGS:
            path = self.ebuild_path(p)
            if not os.path.exists(path):
                ebs[p] = dict(NOPKG)
                continue
            with open(path) as f:
                m = re.search(r'DESCRIPTION="eb_(\d+)_(\w+)"', f.read())
            ebs[p] = dict(cid=int(m.group(1)), inh="" if m.group(2) == "none" else m.group(2), mt=mt(path))
        ecl = {}
        for r in ("m", "o"):
            ecl[r] = {}
            for n in ("a", "b"):
                p = self.ecl_path(r, n)
                if os.path.exists(p):
                    with open(p) as f:
                        m = re.search(r'IUSE="(\w)_(\d+)_([nf])"', f.read())
                    ecl[r][n] = dict(cid=int(m.group(2)), nest=m.group(3) == "n", mt=mt(p))
                else:
                    ecl[r][n] = dict(cid=0, nest=False, mt=0)
        return dict(ebs=ebs, ecl=ecl)

    def chf_of(self, token):
        """recorded checksum text -> spec vocabulary"""
        if self.kind == "md5":
            return dict(c=self.md5.get(token, UNKNOWN), t=0)
        return dict(c=NOCONTENT, t=int(token) - BASE)

    def entry(self, pkg="p1"):
        p = self.cache_path(pkg)
        if not os.path.exists(p):
            return ABSENT_ENTRY
        d = {}
        with open(p) as f:
            for line in f:
                k, _, v = line.rstrip("\n").partition("=")
                d[k] = v
        en = dict(present=True, hasInherit="INHERIT" in d)
        en["chf"] = self.chf_of(d.get("_md5_" if self.kind == "md5" else "_mtime_", "0"))
        en["ecl"] = []
        fields = [x for x in d.get("_eclasses_", "").split("\t") if x != ""]
        step = 2 if self.kind == "md5" else 3
        if len(fields) % step:
            raise tlc.MachineryError(f"cannot parse _eclasses_ of {p}: {fields}")
        dirs = {pjoin(self.er["m"].path, "eclass"): "m", pjoin(self.er["o"].path, "eclass"): "o"}
        for k in range(0, len(fields), step):
            if self.kind == "md5":
                en["ecl"].append(dict(name=fields[k], chf=self.chf_of(fields[k + 1]), dir="-"))
            else:
                en["ecl"].append(dict(name=fields[k], chf=self.chf_of(fields[k + 2]), dir=dirs.get(fields[k + 1], "?")))
        en["data"] = project_data(d.get("DESCRIPTION", ""), d.get("IUSE", ""))
        return en

    def entries(self):
        return {p: self.entry(p) for p in PKGS}


def project_data(description, iuse):
    m = re.fullmatch(r"eb_(\d+)_(\w+)", description.strip())
    eb = cont(int(m.group(1)), "" if m.group(2) == "none" else m.group(2)) if m else UNKNOWN
    ecl = []
    for t in iuse.split():
        m = re.fullmatch(r"(\w)_(\d+)_([nf])", t)
        if m:
            ecl.append(dict(name=m.group(1), c=cont(int(m.group(2)), "", m.group(3) == "n")))
        else:
            ecl.append(dict(name=t, c=UNKNOWN))
    return dict(eb=eb, ecl=ecl)


def A(ev, pkg="-", r="-", n="-", cid=0, nest=False, inh="", r2="-"):
    return dict(ev=ev, pkg=pkg, r=r, n=n, cid=cid, nest=nest, inh=inh, r2=r2)


def norm_action(a):
    """actions of old replay files have no pkg field: they mean package p1"""
    b = dict(a)
    if b.get("pkg", "") in ("", None) or "pkg" not in b:
        b["pkg"] = "p1" if b["ev"] in ("Read", "EditEbuild", "TouchEbuild", "StripInherit") else "-"
    return b


def view(w, p):
    return dict(eb=w["ebs"][p], ecl=w["ecl"])


def run_history(kind, calls, tid, w0, hist, events, gen=None, deco=None):
    """Execute a given action list (spec -> code) or let gen(rig, step) pick actions (code -> spec).
    Returns the actions done; every event carries the index k of its action (history[:k+1] reproduces it)."""
    rig = Rig(kind, calls, deco)
    try:
        rig.setup(w0)
        done = []
        i = 0
        while True:
            if gen is None:
                if len(done) >= len(hist):
                    break
                a = norm_action(hist[len(done)])
            else:
                a = gen(rig, len(done))
                if a is None:
                    break
            if a["ev"] == "StripInherit":
                cur = rig.entry(a["pkg"])
                if not (cur["present"] and cur["hasInherit"]):
                    break  # premise of the planned step does not hold on the real cache: the earlier steps carry the verdict
            k = len(done)
            done.append(a)
            if a["ev"] == "Read":
                order = [p for p in ORDERS[a["pkg"]] if p in rig.pkgs()]
                if not order:
                    raise tlc.MachineryError(f"read session names no existing package: {a}")
                for p, out in rig.session(order):
                    i += 1
                    ev = dict(tid=tid, i=i, k=k, paths=rig.deco, ev="Read", pkg=p, kind=kind, w=view(rig.world(), p), ens=rig.entries())
                    ev.update(out)
                    events.append(ev)
            else:
                rig.apply(a)
                i += 1
                w = rig.world()
                events.append(dict(tid=tid, i=i, k=k, paths=rig.deco, ev=a["ev"], pkg=a["pkg"], kind=kind, w=view(w, "p1"), regen=False, failed=False,
                                   err="", result=dict(eb=NOCONTENT, ecl=[]), ens=rig.entries()))
        return done
    finally:
        shutil.rmtree(os.path.dirname(rig.root), ignore_errors=True)


def random_world(r_):
    def f(n):
        if r_.random() < 0.35:
            return dict(cid=0, nest=False, mt=0)
        return dict(cid=r_.randint(1, 3), nest=(n == "a" and r_.random() < 0.5), mt=0)

    def eb():
        return dict(cid=r_.randint(1, 2), inh=r_.choice(["a", "b", "ab", "ab", "a", ""]), mt=0)

    return dict(ebs={"p1": eb(), "p2": eb() if r_.random() < 0.6 else dict(NOPKG)},
                ecl={r: {n: f(n) for n in ("a", "b")} for r in ("m", "o")})


def random_gen(r_, steps):
    """Random histories; edits are biased towards the files the ebuilds / the cache entries depend on; a read
    session serves one package or all of them, in a random order, through the same objects."""

    def gen(rig, i):
        if i >= steps:
            return None
        w = rig.world()
        ens = rig.entries()
        pkgs = rig.pkgs()
        if i == 0 or r_.random() < 0.45:
            if len(pkgs) == 2:
                return A("Read", pkg=r_.choice(["p1p2", "p2p1", "p1p2", "p2p1", "p1", "p2"]))
            return A("Read", pkg=pkgs[0])
        acts = []  # (weight, action)
        relevant = set()
        for p in pkgs:
            relevant |= set(INH[w["ebs"][p]["inh"]]) | {x["name"] for x in ens[p]["ecl"] if x["name"] in ("a", "b")}
        for n in ("a", "b"):
            k = 3 if n in relevant else 1
            res = "o" if w["ecl"]["o"][n]["cid"] else ("m" if w["ecl"]["m"][n]["cid"] else None)
            for r in ("m", "o"):
                f = w["ecl"][r][n]
                c, nest = r_.randint(1, 3), (n == "a" and r_.random() < 0.5)
                if (c, nest) != (f["cid"], f["nest"]):
                    acts.append((k if (r == res or (r == "o" and res == "m")) else 1, A("EditEclass", r=r, n=n, cid=c, nest=nest)))
                if f["cid"]:
                    hot = k if r == res else 1
                    acts.append((hot, A("RemoveEclass", r=r, n=n)))
                    acts.append((1, A("TouchEclass", r=r, n=n)))
                    r2 = "o" if r == "m" else "m"
                    if not w["ecl"][r2][n]["cid"]:
                        acts.append((hot, A("MoveEclass", r=r, n=n, r2=r2)))
        for p in pkgs:
            c, inh = r_.randint(1, 3), r_.choice(list(INH))
            if (c, inh) != (w["ebs"][p]["cid"], w["ebs"][p]["inh"]):
                acts.append((2, A("EditEbuild", pkg=p, cid=c, inh=inh)))
            acts.append((1, A("TouchEbuild", pkg=p)))
            if ens[p]["present"] and ens[p]["hasInherit"]:
                acts.append((2, A("StripInherit", pkg=p)))
        return r_.choices([a for _w, a in acts], weights=[w_ for w_, _a in acts])[0]

    return gen


def mc_cfg(kind, maxcid, initcid, steps, check_ecl=True, check_dir=True, only=None, inh='"", "a", "b", "ab"', pkgs='"p1"'):
    invs = only or ["Coherent", "ReadFresh", "ReadFailsOnlyWhenBroken", "EntryValidAfterRead", "NoEntryAfterFailure"]
    return ("SPECIFICATION Spec\nCONSTANTS\n  Kinds = {\"%s\"}\n  Pkgs = {%s}\n  MaxCid = %d\n  InitCid = %d\n  InitInh = {%s}\n  MaxSteps = %d\n  CheckEclasses = %s\n"
            "  CheckDir = %s\n%s%s" % (kind, pkgs, maxcid, initcid, inh, steps, "TRUE" if check_ecl else "FALSE", "TRUE" if check_dir else "FALSE",
                                      "".join(f"INVARIANT {x}\n" for x in invs), "" if only else "PROPERTY ReadsAllowed\n"))


def sim_cfg(maxcid, initcid, d):
    return ("SPECIFICATION SimSpec\nCONSTANTS\n  Kinds = {\"md5\", \"flat\"}\n  Pkgs = {\"p1\", \"p2\"}\n  MaxCid = %d\n  InitCid = %d\n  InitInh = {\"a\", \"b\", \"ab\"}\n  MaxSteps = 99\n"
            "  CheckEclasses = TRUE\n  CheckDir = TRUE\n  D = %d\nINVARIANT Emit\n" % (maxcid, initcid, d))


def judge(ck, events, meta, label):
    if not events:
        return
    tr = [{k: v for k, v in e.items() if k not in ("err", "paths", "k")} for e in events]
    verdicts = ck.trace("CacheValidity_Trace", tr, label=label, timeout=900)
    by = {(e["tid"], e["i"]): e for e in events}
    for v in verdicts:
        e = by[(v["tid"], v["i"])]
        m = meta[v["tid"]]
        if v["clause"] == "OutsideDomain":
            raise tlc.MachineryError(f"driver edit disturbed the cache entry: {e}")
        prev = by.get((e["tid"], e["i"] - 1))
        hist = m["hist"][: e["k"] + 1]
        edits = [a["ev"] for a in hist if a["ev"] != "Read"]
        ck.violation(v["clause"], dict(kind=e["kind"], origin=m["origin"], pkg=e["pkg"], paths=e["paths"], w0=m["w0"], history=hist,
                                       last_edit=(edits[-1] if edits else "-"), session=hist[-1]["pkg"] if hist[-1]["ev"] == "Read" else "-",
                                       world=e["w"], entry_before=(prev["ens"][e["pkg"]] if prev and e["pkg"] in prev["ens"] else None),
                                       regen=e["regen"], failed=e["failed"], error=e.get("err", ""), result=e["result"],
                                       entry_after=e["ens"].get(e["pkg"])))


def run(ck):
    use_repo()
    from pkgcore.ebuild import processor

    ck.rule = ("histories of edits (ebuild/eclass content, touch, eclass removal, eclass moved between the stacked repositories, "
               "cache entry stripped of INHERIT) and read sessions (one or two packages sharing eclasses, either order, same "
               "repository/eclass-cache objects) on real stacked repositories with md5-cache and flat_hash "
               "caches; chosen by TLC simulation of CacheValidity_Sim and by a seeded random generator; non-trivial = distinct "
               "(kind, initial world, history) containing at least one Read after an edit")
    ck.assumptions = [
        "every Read is a fresh pkgcore session (new repository, eclass_cache and cache objects) serving all packages it names",
        "mtime caches: every edit stamps an mtime in a fresh whole second, with a sub-second part (an edit within the same second is invisible to them by design)",
        "an entry with eclasses but without INHERIT may be used or regenerated (carve-out); its result is judged either way",
    ]
    calls = []
    orig = processor.EbuildProcessor.get_keys

    def spy(self, package_inst, eclass_cache):
        calls.append(package_inst.cpvstr)
        return orig(self, package_inst, eclass_cache)

    processor.EbuildProcessor.get_keys = spy
    try:
        _run(ck, calls)
    finally:
        processor.EbuildProcessor.get_keys = orig
        processor.shutdown_all_processors()


def _run(ck, calls):
    t_start = time.time()
    if ck.replay_case:
        d = ck.replay_case["detail"]
        events = []
        done = run_history(d["kind"], calls, 0, d["w0"], d["history"], events, deco=d.get("paths"))
        judge(ck, events, {0: dict(origin="replay", w0=d["w0"], hist=done)}, "Trace:replay")
        ck.count()
        ck.sample(d["history"])
        ck.nontriv("replay")
        return
    # ---- 1. model checking
    if ck.quick:
        ck.mc("CacheValidity_MC", cfg_text=mc_cfg("md5", 2, 1, 3), workers=4, timeout=300, label="MC:CacheValidity_MC md5 steps<=3")
        ck.mc("CacheValidity_MC", cfg_text=mc_cfg("flat", 1, 1, 3, inh='"a"'), workers=4, timeout=300,
              label="MC:CacheValidity_MC flat steps<=3 (ebuild inherits a)")
    else:
        ck.mc("CacheValidity_MC", cfg_text=mc_cfg("md5", 2, 2, 4), workers=8, timeout=2400, heap="6g", label="MC:CacheValidity_MC md5 steps<=4")
        ck.mc("CacheValidity_MC", cfg_text=mc_cfg("flat", 2, 1, 3), workers=8, timeout=2400, heap="6g", label="MC:CacheValidity_MC flat steps<=3")
        ck.mc("CacheValidity_MC", cfg_text=mc_cfg("md5", 2, 1, 3, inh='"a", "ab"', pkgs='"p1", "p2"'), workers=8, timeout=2400, heap="6g",
              label="MC:CacheValidity_MC md5 two packages sharing the eclasses, steps<=3")
        for kind, kw, lab in (("md5", dict(check_ecl=False), "ebuild checksum only"), ("flat", dict(check_dir=False), "flat ignoring eclass dir")):
            res = ck.mc("CacheValidity_MC", cfg_text=mc_cfg(kind, 2, 2, 3, only=["ReadFresh"], **kw), workers=4, timeout=900,
                        label=f"MC:CacheValidity_MC vacuity guard ({lab}, must fail)", expect_ok=False)
            if res.violated != "ReadFresh":
                raise tlc.MachineryError(f"vacuity guard '{lab}' should violate ReadFresh, got {res.violated}")
    # ---- 2a. spec -> code: the canonical scenarios of CacheValidity_Scenarios, both cache kinds
    meta, events = {}, []
    tid = 0
    skipped = 0
    scale = float(os.environ.get("VERIF_TIME_SCALE", "1"))  # time boxes of the daemon phases (loaded machine: scale up)
    budget_scen, budget_sim, budget_rand = ck.pick(16, 120) * scale, ck.pick(5, 280) * scale, ck.pick(5, 200) * scale
    scen = ck.export("CacheValidity_Scenarios", label="Export:CacheValidity_Scenarios", timeout=300)
    # cheap, most telling scenarios first; the ones whose regeneration fails (the daemon dies and is respawned) last
    first = ["hit", "shared-eclass-fresh-entry-first", "eclass-edited", "shared-eclass-stale-entry-first", "indirect-edited",
             "ebuild-edited", "removed-fallback", "shared-indirect-eclass", "moved-to-overlay", "shadowed", "strip-inherit",
             "two-packages-one-ebuild-edited", "shared-eclass-moved", "nest-added", "ebuild-touched", "eclass-touched"]
    last = ["removed-for-good", "indirect-removed", "broken-from-start", "ebuild-drops-inherit", "shared-eclass-removed"]
    scen.sort(key=lambda c: (first.index(c["name"]) if c["name"] in first else len(first) + (1 + last.index(c["name"]) if c["name"] in last else 0),
                             c["name"], c["kind"]))
    t_phase = time.time()
    for c in scen:
        if time.time() - t_phase > budget_scen and tid >= 8:
            skipped += 1
            continue
        done = run_history(c["kind"], calls, tid, c["w0"], c["hist"], events)
        meta[tid] = dict(origin="scenario:" + c["name"], w0=c["w0"], hist=done)
        ck.count()
        if _nontrivial(done):
            ck.nontriv((c["kind"], repr(c["w0"]), repr(done)))
        tid += 1
    ck.extra["scenarios_run"] = tid
    # ---- 2b. spec -> code: TLC-simulated histories
    D = ck.pick(5, 9)      # R e R e R ...
    nsim = ck.pick(4, 170)
    sim = tlc.run("CacheValidity_Sim", cfg_text=sim_cfg(3, 2, D), simulate=f"num={nsim}", depth=D + 1, seed=seed() + 48,
                  workers=1, timeout=900)
    ck.add_mc(f"Simulate:CacheValidity_Sim num={nsim} depth={D}", sim)
    behs = [(p[1], p[2], p[3]) for p in sim.tagged("BEH")]
    if len(behs) < nsim // 2:
        raise tlc.MachineryError(f"simulation produced only {len(behs)} behaviours\n{sim.out[-2000:]}")
    t_phase = time.time()
    sim_done = 0
    for kind, w0, hist in behs[:nsim]:
        if time.time() - t_phase > budget_sim and sim_done >= 2:
            skipped += 1
            continue
        done = run_history(kind, calls, tid, w0, hist, events)
        sim_done += 1
        meta[tid] = dict(origin="tlc-sim", w0=w0, hist=done)
        ck.count()
        if _nontrivial(done):
            ck.nontriv((kind, repr(w0), repr(done)))
        tid += 1
    if events:
        ck.sample(dict(direction="spec->code", kind=events[0]["kind"], origin=meta[0]["origin"], w0=meta[0]["w0"],
                       history=[a["ev"] + (":" + a["pkg"] if a["pkg"] != "-" else "") for a in meta[0]["hist"]],
                       reads=[[e["pkg"], "regenerated" if e["regen"] else "cached"] for e in events if e["tid"] == 0 and e["ev"] == "Read"]))
    # ---- 3. code -> spec: random histories
    r_ = rng(48)
    nrand = ck.pick(4, 110)
    first_random = tid
    t_phase = time.time()
    for k in range(nrand):
        if time.time() - t_phase > budget_rand and k >= 2:
            skipped += 1
            continue
        kind = "md5" if k % 2 == 0 else "flat"
        w0 = random_world(r_)
        done = run_history(kind, calls, tid, w0, None, events, gen=random_gen(r_, r_.randint(4, ck.pick(7, 12))))
        meta[tid] = dict(origin="random", w0=w0, hist=done)
        ck.count()
        if _nontrivial(done):
            ck.nontriv((kind, repr(w0), repr(done)))
        tid += 1
    if tid > first_random:
        ck.sample(dict(direction="code->spec", kind="md5", w0=meta[first_random]["w0"],
                       history=[a["ev"] + (":" + a["pkg"] if a["pkg"] != "-" else "") for a in meta[first_random]["hist"]]))
    if skipped:
        ck.extra["histories_skipped_time_budget"] = skipped
    ck.extra["reads"] = sum(1 for e in events if e["ev"] == "Read")
    ck.extra["two_package_sessions"] = sum(1 for m in meta.values() for a in m["hist"] if a["ev"] == "Read" and len(a["pkg"]) > 2)
    ck.extra["regenerations"] = sum(1 for e in events if e["regen"])
    judge(ck, events, meta, "Trace:CacheValidity_Trace")


def _nontrivial(hist):
    seen_edit = False
    for a in hist:
        if a["ev"] != "Read":
            seen_edit = True
        elif seen_edit:
            return True
    return False
