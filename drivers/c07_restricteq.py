"""C07 — restrictions that compare equal are interchangeable (same hash, same matches; cache transparency).

MC          : RestrictEq_Laws — over all _VersionMatch descriptions (6 operators x versions x revisions x negate): the
              repaired equality key is a congruence for matching and its hash agrees; the snapshot's is neither.
              RestrictEq_MC — a restriction-keyed cache (dict: hash bucket then ==; or linear == scan) over those
              descriptions: Transparent / NoTwins / StoreSound hold with the repaired key; with the snapshot's key
              NoTwins (dict) and Transparent (scan) are violated (expected: negative controls).
spec -> code: RestrictEq_Export enumerates ordered pairs of restriction descriptions inside 14 families of equal-looking
              variants (version matches, string matchers, containment / USE-default matchers, wrapper-vs-value negation,
              static / defaulted USE deps, atoms with reordered USE deps and weak/strong blockers, boolean nodes, REQUIRED_USE
              DepSets with permuted members, function/flattening restrictions built positionally vs by keyword).
              Each description is rendered into an independently constructed real object.
code -> spec: seeded random descriptions from wider value pools, paired with a one-field mutation of themselves.
Recorded per pair: every == in both orders before and after hashing, the hashes, the match vector over the family's
universe; for equal pairs (and a sample of unequal ones) three real caches keyed by restrictions: repository.misc.caching_repo,
the lru_cache behind required_use.find_constraint_satisfaction, snakeoil's constructor-argument instance cache.
RestrictEq_Trace judges Hash, Matches, CacheTransparent.

Not prescribed: WHICH objects are equal (an unequal pair is never a violation).
"""
import itertools

from pylib import tlc
from pylib.common import rng, use_repo

FLAGS3 = ["a", "b", "c"]


def _tuple(s):
    return tuple(x for x in s.split(",") if x)


def _verrev(b):
    if "-r" in b:
        v, r = b.split("-r")
        return v, int(r)
    return b, None


def is_even(x):
    return isinstance(x, int) and x % 2 == 0


def is_pos(x):
    return isinstance(x, int) and x > 0


def first_is_known(vals):
    """order-sensitive child of a multi-attribute restriction"""
    return vals[0] in ("dev-util", "0")


class Env:
    def __init__(self):
        from pkgcore.ebuild import restricts
        from pkgcore.ebuild.atom import atom
        from pkgcore.ebuild.conditionals import DepSet
        from pkgcore.ebuild.cpv import VersionedCPV
        from pkgcore.repository import misc
        from pkgcore.repository.util import SimpleTree
        from pkgcore.restrictions import boolean, packages, required_use, restriction, values

        self.restricts, self.atom, self.DepSet, self.boolean = restricts, atom, DepSet, boolean
        self.packages, self.values, self.required_use, self.restriction = packages, values, required_use, restriction
        self.misc = misc

        class Repo:
            def __init__(s, rid):
                s.repo_id = rid

        repos = {"r0": Repo("r0"), "r1": Repo("r1")}

        class PK(VersionedCPV):
            def __init__(s, cat, pkg, ver, slot="0", iuse="", use="", repo="r0"):
                super().__init__(cat, pkg, ver)
                for k, v in dict(slot=slot, subslot={"0": "1", "1": "0"}[slot], iuse_stripped=frozenset(iuse), iuse=frozenset(iuse), use=frozenset(use),
                                 repo=repos[repo]).items():
                    object.__setattr__(s, k, v)

        self.PK, self.VersionedCPV = PK, VersionedCPV
        vers = ["0.9", "1.0", "1.0-r1", "1.1", "2", "2-r1"]
        combos = [("0", "ab", "a", "r0"), ("1", "a", "", "r1"), ("0", "", "", "r0"), ("0", "ab", "ab", "r1"), ("1", "b", "b", "r0")]
        self.table = {}
        pk = []
        for v in vers:
            for n, (slot, iuse, use, repo) in enumerate(combos):
                pk.append(PK("c", "p", v, slot, iuse, use, repo))
        for cat, pkg in (("dev-util", "diffball"), ("dev-lib", "diffball"), ("dev-util", "bsdiff"), ("dev-lib", "p"), ("c", "q")):
            pk.append(PK(cat, pkg, "1.0", "0", "ab", "b", "r0"))
            pk.append(PK(cat, pkg, "2", "1", "", "", "r1"))
        for iuse in ("", "x", "y", "xy"):
            for use in ("", "x", "y", "xy"):
                if set(use) <= set(iuse):
                    pk.append(PK("c", "p", "1.0", "0", iuse, use, "r0"))
        # the same version spelled differently, and what the =ver* globs of either spelling tell apart
        for v in ("1.00", "1.0.5", "1.00.5", "1", "1-r0", "1.0-r0", "1.1-r0", "1.5", "10"):
            pk.append(PK("c", "p", v, "0", "ab", "a", "r0"))
        # a package of another format: none of the optional attributes (slot, use, repo, ...) exists on it
        pk.append(VersionedCPV("c", "p", "1.0"))
        pk.append(VersionedCPV("dev-util", "diffball", "2"))
        self.pkgs = pk
        self.strings = ["", "a", "A", "ab", "AB", "aB", "b", "ba", "xab", "Ab", "0", "1"]
        self.lists = [["0"], ["1"], ["0", "1"], [], ["a"]]
        sets = [frozenset(c) for r in range(4) for c in itertools.combinations(FLAGS3, r)]
        pairs = [(frozenset(i), frozenset(u)) for i in ("", "a", "b", "ab") for u in ("", "a", "b", "ab") if set(u) <= set(i)]
        self.contvals = sets + pairs
        self.funcvals = [0, 1, 2, -1, -2, 3, "x", None]
        self.flatvals = [[1], [[1]], [2], [[2, [1]]], [], [[], [3]], (1, 2)]
        self.usesets = [frozenset(c) for r in range(4) for c in itertools.combinations(FLAGS3, r)]
        # a repository for the caching_repo experiments: distinct cpvs only (first of each)
        seen, d = {}, {}
        for p in pk:
            if p.cpvstr not in seen:
                seen[p.cpvstr] = p
                d.setdefault(p.category, {}).setdefault(p.package, []).append(p.fullver)
        self.repo_pkgs = seen
        self.tree = SimpleTree(d, pkg_klass=lambda c, p, v: seen[f"{c}/{p}-{v}"])
        self.leaves = {"1": restricts.CategoryDep("dev-util"), "2": restricts.PackageDep("diffball")}
        self.child = values.AnyMatch(values.EqualityMatch(1))
        self.funcs = {"f": is_even, "g": is_pos}
        self.multi_child = {"first": values.FunctionRestriction(first_is_known), "any": values.AnyMatch(values.StrExactMatch("diffball"))}
        self.ru_ops = {"||": boolean.OrRestriction, "": boolean.AndRestriction, "^^": boolean.JustOneRestriction,
                       "??": boolean.AtMostOneOfRestriction}

    # ---- description -> real object ----
    def render(self, d, fresh=False):
        R, V, P, B = self.restricts, self.values, self.packages, self.boolean
        kw = dict(disable_inst_caching=True) if fresh else {}
        fam, k, a, b, n, m, st = (d[x] for x in ("fam", "k", "a", "b", "n", "m", "st"))
        if fam == "vm" and k == "cvm":
            cp = self.VersionedCPV(f"c/p-{b}")
            return R.VersionMatch(a, cp.version, cp.revision, negate=n, **kw)
        if fam == "vm":
            ver, rev = _verrev(b)
            return (R._VersionMatch if k == "vm" else R.VersionMatch)(a, ver, rev, negate=n, **kw)
        if fam == "str":
            if k == "glob":
                return V.StrGlobMatch(a, case_sensitive=m, prefix=b != "alt", negate=n, **kw)
            if k == "regex":
                return V.StrRegex(a, case_sensitive=m, match=b == "alt", negate=n, **kw)
            return V.StrExactMatch(a, case_sensitive=m, negate=n, **kw)
        if fam == "atomver":
            return self.atom(f"=c/p-{b}*" if a == "=*" else f"{a}c/p-{b}", negate_vers=n, **kw)
        if fam == "multi":
            return P.PackageRestrictionMulti(_tuple(a), self.multi_child[b], negate=n, **kw)
        if fam == "prattr":
            cls = P.PackageRestriction if k == "pr" else V.GetAttrRestriction
            return cls(a, V.StrExactMatch(b), negate=n, ignore_missing=m, **kw)
        if fam == "cond":
            return P.Conditional("use", V.ContainmentMatch(a), tuple(self.leaves[c] for c in b), negate=n, **kw)
        if fam == "misc":
            leaf = self.leaves["1" if a == "0" else "2"]
            if k == "eqm":
                return V.EqualityMatch(a, negate=n, **kw)
            if k == "anym":
                return V.AnyMatch(V.StrExactMatch(a), negate=n, **kw)
            if k == "always":
                return self.restriction.AlwaysBool("package" if a == "0" else "values", negate=n, **kw)
            if k == "cm2":
                return V.ContainmentMatch2((a,), negate=n, **kw)
            if k == "subslot":
                return R.SubSlotDep(a, negate=n, **kw)
            if k == "pkgdep":
                return R.PackageDep("p" if a == "0" else "diffball", negate=n, **kw)
            if k == "negate":
                return self.restriction.Negate(leaf)
            return self.restriction.FakeType(leaf, "values" if n else "package")
        if fam == "cont":
            if k == "cm":
                return V.ContainmentMatch(_tuple(a), match_all=m, negate=n, **kw)
            return R._UseDepDefaultContainment(k == "udc+", _tuple(a), negate=n, **kw)
        if fam == "pkgr":
            if k == "catdep":
                return R.CategoryDep(a, negate=n, **kw)
            if k == "pkgr":
                return P.PackageRestriction("category", V.StrExactMatch(a, negate=m), negate=n, **kw)
            if k == "slotdep":
                return R.SlotDep(a, negate=n, **kw)
            return R.RepositoryDep("r" + a, negate=n, **kw)
        if fam == "use":
            if k == "static":
                return R.StaticUseDep(_tuple(a), _tuple(b), **kw)
            return R.UseDepDefault(k == "default+", _tuple(a), _tuple(b), **kw)
        if fam == "atom":
            return self.atom(st + a + b, negate_vers=n, **kw)
        if fam == "bool":
            ch = [self.leaves[c] for c in a]
            if k == "keyed":
                return P.KeyedAndRestriction(*ch, key="k2" if m else "k1", negate=n, **kw)
            cls = {"and": B.AndRestriction, "or": B.OrRestriction, "one": B.JustOneRestriction, "amo": B.AtMostOneOfRestriction}[k]
            if k in ("and", "or") and not m:
                return getattr(P, cls.__name__)(*ch, negate=n, **kw)
            return cls(*ch, node_type="package", negate=n, **kw)
        if fam == "depset":
            return self.DepSet.parse(a, V.ContainmentMatch, operators=self.ru_ops, attr="required_use")
        if fam == "func":
            if k == "func":
                return V.FunctionRestriction(self.funcs[a], n, **kw) if st == "pos" else V.FunctionRestriction(self.funcs[a], negate=n, **kw)
            return (V.FlatteningRestriction((str, tuple) if a == "g" else str, self.child, n, **kw) if st == "pos"
                    else V.FlatteningRestriction((str, tuple) if a == "g" else str, self.child, negate=n, **kw))
        raise tlc.MachineryError(f"unknown family {fam}")

    def universe(self, d):
        fam = d["fam"]
        if fam == "str":
            return self.strings
        if fam == "cont":
            return self.contvals
        if fam == "func":
            return self.funcvals if d["k"] == "func" else self.flatvals
        if fam == "depset":
            return self.usesets
        if fam == "misc" and d["k"] in ("eqm", "anym", "cm2"):
            return {"eqm": self.strings, "anym": self.lists, "cm2": self.contvals}[d["k"]]
        return self.pkgs

    def matches(self, d, obj):
        if d["fam"] == "depset":
            self.required_use._compiled_constraints.cache_clear()
            try:
                sols = {frozenset(k for k, v in s.items() if v) for s in self.required_use.find_constraint_satisfaction(obj, set(FLAGS3))}
            except Exception as e:
                return [f"E:{type(e).__name__}"] * len(self.usesets)
            return ["T" if u in sols else "F" for u in self.usesets]
        out = []
        for x in self.universe(d):
            try:
                out.append("T" if obj.match(x) else "F")
            except Exception as e:
                out.append(f"E:{type(e).__name__}")
        return out

    def package_type(self, d):
        return (d["fam"] in ("pkgr", "use", "atom", "bool", "atomver", "multi", "cond") or (d["fam"] == "vm" and d["k"] == "pvm")
                or (d["fam"] == "prattr" and d["k"] == "pr") or (d["fam"] == "misc" and d["k"] in ("subslot", "pkgdep", "negate")))


def observe_pair(env, x, y, tid):
    same_descr = x == y
    ox = env.render(x)
    oy = env.render(y, fresh=same_descr)
    eqs = [bool(ox == oy), bool(oy == ox)]
    hraised, heq = False, False
    try:
        heq = hash(ox) == hash(oy)
    except Exception:
        hraised = True
    eqs += [bool(ox == oy), bool(oy == ox)]
    ev = dict(tid=tid, i=0, ev="pair", fam=x["fam"], same=ox is oy, eqs=eqs, hraised=hraised, heq=heq,
              mx=env.matches(x, ox), my=env.matches(y, oy))
    return ev, ox, oy


def _names(pkgs):
    return [p.cpvstr for p in pkgs]


def cache_events(env, x, y, ox, oy, eqs, tid0):
    """the three restriction-keyed caches, asked for x then y"""
    out = []
    if env.package_type(x):
        cr = env.misc.caching_repo(env.tree, sorted)
        try:
            list(cr.match(ox))
            second = _names(cr.match(oy))
            fresh = _names(env.tree.itermatch(oy, sorter=sorted))
            out.append(dict(cache="caching_repo", second=second, fresh=fresh))
        except Exception as e:  # a query that cannot be answered at all is C08's business
            out.append(dict(cache="caching_repo", second=[f"E:{type(e).__name__}"], fresh=[f"E:{type(e).__name__}"]))
    if x["fam"] == "depset":
        ru = env.required_use
        fmt = lambda sols: [",".join(sorted(k for k, v in s.items() if v)) or "-" for s in sols]  # noqa: E731
        ru._compiled_constraints.cache_clear()
        list(ru.find_constraint_satisfaction(ox, set(FLAGS3)))
        second = fmt(ru.find_constraint_satisfaction(oy, set(FLAGS3)))
        ru._compiled_constraints.cache_clear()
        fresh = fmt(ru.find_constraint_satisfaction(oy, set(FLAGS3)))
        out.append(dict(cache="compiled_required_use", second=second, fresh=fresh))
    else:
        # snakeoil instance cache: a parent built from y while the parent built from x is alive
        mk = env.packages.AndRestriction if env.package_type(x) else env.values.AndRestriction
        try:
            keep = mk(ox)  # noqa: F841  (kept alive on purpose)
            via_cache = mk(oy)
            uncached = mk(oy, disable_inst_caching=True)
            out.append(dict(cache="instance_cache", second=[f"{i}:{v}" for i, v in enumerate(env.matches(x, via_cache))],
                            fresh=[f"{i}:{v}" for i, v in enumerate(env.matches(x, uncached))]))
        except TypeError:
            pass  # unhashable constructor argument: snakeoil refuses to cache, nothing to observe
    return [dict(tid=tid0 + n, i=0, ev="cache", fam=x["fam"], eqs=eqs, **o) for n, o in enumerate(out)]


# ---- random descriptions (code -> spec) ----
POOL = dict(
    vm=dict(k=["vm", "pvm", "cvm"], a=["<", "<=", "=", ">=", ">", "~"], b=["0.9", "1.0", "1.0-r1", "1.00", "2", "2-r1", "1.1"], n=[False, True], m=[False], st=[""]),
    str=dict(k=["exact", "glob", "regex"], a=["a", "A", "ab", "AB", "b", "aB"], b=["", "alt"], n=[False, True], m=[False, True], st=[""]),
    atomver=dict(k=["atom"], a=["=", "~", ">=", ">", "<=", "<", "=*"], b=["1.0", "1.00", "1.0-r0", "1", "1-r0", "1.1", "1.10", "1.1-r0", "01", "1.0.5", "1.00.5"],
                 n=[False, True], m=[False], st=[""]),
    multi=dict(k=["multi"], a=["category,package", "package,category", "slot,subslot", "subslot,slot", "category,slot", "slot,category", "category",
                               "package", "category,package,slot", "slot,package,category"], b=["first", "any"], n=[False, True], m=[False], st=[""]),
    prattr=dict(k=["pr", "getattr"], a=["category", "package", "slot", "subslot", "repo.repo_id", "key"], b=["dev-util", "0", "r0", "c/p"], n=[False, True],
                m=[False, True], st=[""]),
    cond=dict(k=["cond"], a=["a", "b", "a,b"], b=["1", "2", "12", "21", "11", "122"], n=[False, True], m=[False], st=[""]),
    misc=dict(k=["eqm", "anym", "always", "cm2", "subslot", "pkgdep", "negate", "faketype"], a=["0", "1"], b=[""], n=[False, True], m=[False], st=[""]),
    cont=dict(k=["cm", "udc+", "udc-"], a=["a", "b", "a,b", "b,a", "a,b,c", "c,a,b", "a,a"], b=[""], n=[False, True], m=[False, True], st=[""]),
    pkgr=dict(k=["catdep", "pkgr", "slotdep", "repodep"], a=["dev-util", "dev-lib", "c", "0", "1"], b=[""], n=[False, True], m=[False, True], st=[""]),
    use=dict(k=["static", "default+", "default-"], a=["", "x", "y", "x,y", "y,x", "a", "a,b", "b,a"], b=["", "x", "y", "b", "a,b", "b,a"], n=[False], m=[False], st=[""]),
    atom=dict(k=["atom"], a=["c/p", "=c/p-1.0", "~c/p-1.0", ">=c/p-1.0", "<c/p-2", "=c/p-1*", "dev-util/diffball"],
              b=["", ":0", ":1", ":0/0", ":0=", ":=", ":*", "::r0", ":0::r1", "[a]", "[a,b]", "[b,a]", "[-a,b]", "[b,-a]", "[a(+),b]", "[b,a(+)]", "[a(-),b]",
                 "[a(+),-b(-)]", "[-b(-),a(+)]", ":0[a,b]", ":0[b,a]", "[a?]", "[!a?,b]", "[b,!a?]", "[a=]"],
              n=[False, True], m=[False], st=["", "!", "!!"]),
    bool=dict(k=["and", "or", "one", "amo", "keyed"], a=["12", "21", "11", "1", "2", "122", "212"], b=[""], n=[False, True], m=[False, True], st=[""]),
    depset=dict(k=["ru"], a=["a b", "b a", "a a", "a", "a b c", "c b a", "^^ ( a b ) c", "c ^^ ( a b )", "^^ ( b a ) c", "|| ( a b )", "|| ( b a )",
                             "a? ( b )", "a? ( b ) c", "c a? ( b )", "!a? ( b c )", "!a? ( c b )", "?? ( a b )", "?? ( b a )", "?? ( a b ) ?? ( a b )"],
                b=[""], n=[False], m=[False], st=[""]),
    func=dict(k=["func", "flat"], a=["f", "g"], b=[""], n=[False, True], m=[False], st=["pos", "kw"]),
)


def random_descr(r_, fam):
    p = POOL[fam]
    return dict(fam=fam, **{f: r_.choice(p[f]) for f in ("k", "a", "b", "n", "m", "st")})


def valid(env, d):
    if d["fam"] == "pkgr":
        if d["k"] in ("slotdep", "repodep"):
            return d["a"] in ("0", "1")
        return d["a"] not in ("0", "1")
    if d["fam"] == "use":
        return bool(d["a"] or d["b"])
    if d["fam"] in ("atom", "atomver"):
        if d["fam"] == "atom" and d["n"] and d["a"] in ("c/p", "dev-util/diffball"):
            return False
        try:
            env.render(d)
        except Exception:
            return False  # not an atom pkgcore accepts: outside the domain (atom syntax is C03's business)
    return True


def mutate(r_, d):
    if r_.random() < 0.15:
        return dict(d)
    p = POOL[d["fam"]]
    f = r_.choice([x for x in ("k", "a", "b", "n", "m", "st") if len(p[x]) > 1])
    e = dict(d)
    e[f] = r_.choice(p[f])
    return e


def run(ck):
    use_repo()
    import logging

    logging.getLogger("pkgcore").setLevel(logging.CRITICAL + 1)  # ignore_missing=False logs every missing attribute
    env = Env()
    ck.rule = ("ordered pairs of independently constructed restrictions inside families of equal-looking variants (TLC-enumerated "
               "descriptions + seeded random descriptions with one-field mutations); non-trivial = distinct pair of two different "
               "objects that the code reports equal (the law's antecedent holds)")
    ck.assumptions = [
        "which restrictions are equal is not prescribed: only pairs the code itself reports equal are judged",
        "match vectors are taken over a fixed universe per family (45 packages / 10 strings / USE sets and (IUSE, USE) pairs / ...)",
        "DepSets have no match(): their meaning is observed as the set of USE assignments find_constraint_satisfaction accepts",
    ]
    events, meta = [], []

    def do_pair(x, y, origin, sample_cache):
        ev, ox, oy = observe_pair(env, x, y, len(events))
        events.append(ev)
        meta.append(dict(x=x, y=y, origin=origin, rx=repr(ox), ry=repr(oy)))
        ck.count()
        equal = any(ev["eqs"])
        if equal and not ev["same"]:
            ck.nontriv(("pair", repr(x), repr(y)))
        if (equal and not ev["same"]) or sample_cache:
            for ce in cache_events(env, x, y, ox, oy, ev["eqs"], len(events)):
                events.append(ce)
                meta.append(dict(x=x, y=y, origin=origin, rx=repr(ox), ry=repr(oy), cache=ce["cache"]))
        return ev

    if ck.replay_case:
        d = ck.replay_case["detail"]
        do_pair(d["x"], d["y"], d.get("origin", "replay"), True)
        ck.nontriv("replay2")
    else:
        # 1. design
        ck.laws("RestrictEq_Laws", label="Laws:RestrictEq_Laws")

        def mc(variant, scan, vers, maxe, inv, expect=None, workers=2):
            cfg = (f'SPECIFICATION Spec\nCONSTANTS\n Variant = "{variant}"\n Scan = {scan}\n Vers = {vers}\n Revs = {{0, 1}}\n MaxEntries = {maxe}\n'
                   + "".join(f"INVARIANT {i}\n" for i in inv))
            res = ck.mc("RestrictEq_MC", cfg_text=cfg, workers=workers, timeout=800, expect_ok=expect is None,
                        label=f"MC:RestrictEq_MC {variant} scan={scan} Vers={vers} MaxEntries={maxe}")
            if expect is not None and res.violated != expect:
                raise tlc.MachineryError(f"negative control {variant}/scan={scan}: expected {expect} violated, got {res.violated}")
            return res

        allinv = ["Transparent", "NoTwins", "StoreSound"]
        mc("fixed", "FALSE", "{1}" if ck.quick else "{1, 2}", 2 if ck.quick else 3, allinv, workers=4)
        mc("shipped", "TRUE", "{1}", 2, ["Transparent"], expect="Transparent")
        if not ck.quick:
            mc("fixed", "TRUE", "{1, 2}", 2, allinv, workers=4)
            mc("shipped", "FALSE", "{1}", 2, ["NoTwins"], expect="NoTwins")
        ck.extra["negative_controls"] = "shipped/scan violates Transparent; thorough: shipped/dict violates NoTwins (as expected)"
        # 2. spec -> code
        cases = ck.export("RestrictEq_Export", cfg_text=f"CONSTANT Full = {'FALSE' if ck.quick else 'TRUE'}\n", timeout=600)
        cases.sort(key=lambda c: repr(c))
        ck.extra["exported_pairs"] = len(cases)
        for n, case in enumerate(cases):
            if not (valid(env, case["x"]) and valid(env, case["y"])):
                continue  # e.g. "~" with a revision: not an atom (C03's business)
            do_pair(case["x"], case["y"], "export", n % 11 == 0)
        ck.exhaustive = True
        ck.sample(dict(direction="spec->code", pair=meta[len(meta) // 3], event=events[len(meta) // 3]))
        # 3. code -> spec
        r_ = rng(7)
        fams = list(POOL)
        done = 0
        while done < ck.pick(2500, 40000):
            x = random_descr(r_, r_.choice(fams))
            if not valid(env, x):
                continue
            y = mutate(r_, x)
            if not valid(env, y):
                continue
            do_pair(x, y, "random", done % 13 == 0)
            done += 1
        ck.sample(dict(direction="code->spec", pair=meta[-1], event=events[-1]))

    verdicts = []
    chunk = 30000
    for lo in range(0, len(events), chunk):
        verdicts += ck.trace("RestrictEq_Trace", events[lo:lo + chunk], timeout=ck.pick(300, 1200), heap="3g",
                             label=f"Trace:RestrictEq_Trace[{lo}:{min(len(events), lo + chunk)}]")
    ck.extra["pairs_reported_equal"] = sum(1 for e in events if e["ev"] == "pair" and any(e["eqs"]) and not e["same"])
    ck.extra["cache_experiments"] = sum(1 for e in events if e["ev"] == "cache")
    for v in verdicts:
        e, m = events[v["tid"]], meta[v["tid"]]
        x, y = m["x"], m["y"]
        detail = dict(fam=x["fam"], kx=x["k"], ky=y["k"], x=x, y=y, diff=sorted(f for f in x if x[f] != y[f]), rx=m["rx"], ry=m["ry"],
                      origin=m["origin"], eqs=e["eqs"])
        if e["ev"] == "pair":
            detail.update(hash_equal=e["heq"], differing_members=[i for i, (a, b) in enumerate(zip(e["mx"], e["my"])) if a != b][:10])
        else:
            detail.update(cache=e["cache"], second=e["second"][:20], fresh=e["fresh"][:20])
        ck.violation(v["clause"], detail)
