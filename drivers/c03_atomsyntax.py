"""C03 — atom syntax acceptance matches the PMS grammar for each EAPI, and accepted atoms round-trip.

MC          : AtomSyntax_MC — recogniser (Parse) and generator (Render / Features / Mut) of AtomSyntax.tla
              agree: every structure of a bounded universe x every EAPI is accepted exactly when the EAPI
              allows its features and is read back unchanged; every catalogued violation is rejected
              under every EAPI; the open cases come out 'Unspecified'.
spec -> code: AtomSyntax_Export: all those texts (valid renderings, violations, open cases) x EAPI 0-9 and
              'none' are handed to the real atom(text, eapi=...).
Every text is parsed twice, with atom(text, eapi=E) and with get_eapi(E).atom_kls(text) (the class ebuild and profile
dependency strings go through); both must give the specified verdict and equal atoms.
code -> spec: seeded random valid atoms from a richer grammar and single-edit mutations of them (inserted /
              deleted / replaced characters, missing versions, bad slot/USE/repo characters, version-like
              package-name tails), random EAPI.
Everything is judged by AtomSyntax_Trace with the recogniser Parse: accepted <=> valid, what the parser read
(blocker, operator, category, package, version, revision, slot, sub-slot, slot operator, repository, USE
items), str(atom) is a faithful text, atom(str(atom)) parses, compares equal and matches the same packages.

Carve-outs ('Unspecified', counted, not judged): '~' with a revision; slot / sub-slot starting with '+'
(PMS forbids, pkgcore's test suite pins it as accepted); upper-case version letter such as 1A (pinned by
pkgcore's test suite); repository id ending in '-<version>'.
Only whether a string is accepted is judged for invalid input, not the kind of exception raised.
EAPI 9 is registered but disabled on this image (bash < 5.3); atom() still resolves its options.
"""
from drivers.c04_atommatch import BackgroundMC
from pylib import tlc
from pylib.common import rng, use_repo

EAPIS = ["0", "1", "2", "3", "4", "5", "6", "7", "8", "9", "none"]
DUMMY = dict(blocks="", op="", cat=[], pkg=[], ver=[], rev=[], slot=[], subslot=[], slotop="", repo=[], use=[])


def cps(s):
    return [ord(c) for c in s]


class Binder:
    def __init__(self):
        from pkgcore.ebuild import errors
        from pkgcore.ebuild.atom import atom
        from pkgcore.test.misc import FakePkg, FakeRepo

        from pkgcore.ebuild import eapi as eapi_mod

        self.atom, self.Malformed, self.FakePkg, self.FakeRepo = atom, errors.MalformedAtom, FakePkg, FakeRepo
        self.get_eapi = eapi_mod.get_eapi
        self.repos = {}

    def repo(self, rid):
        r = self.repos.get(rid)
        if r is None:
            r = self.repos[rid] = self.FakeRepo(repo_id=rid)
        return r

    def parse(self, text, eapi):
        kw = {} if eapi == "none" else {"eapi": eapi}
        return self.atom(text, **kw)

    def attrs(self, a):
        return dict(
            blocks="!!" if a.blocks_strongly else "!" if a.blocks else "",
            op=a.op,
            cat=cps(a.category),
            pkg=cps(a.package),
            ver=cps(a.version or ""),
            rev=cps("" if a.revision is None else a.revision.data),
            slot=cps(a.slot or ""),
            subslot=cps(a.subslot or ""),
            slotop=a.slot_operator or "",
            repo=cps(a.repo_id or ""),
            use=[cps(u) for u in (a.use or ())],
        )

    def universe(self, a):
        """Packages around the atom: one that should match, and single-field variations of it."""
        key = a.key
        rev = "" if a.revision is None else a.revision.data
        v0 = (a.version + (f"-r{rev}" if rev else "")) if a.version else "1"
        flags = []
        for u in a.use or ():
            f = u.lstrip("!-").rstrip("?=")
            if f.endswith(")"):
                f = f[:-3]
            flags.append((f, u.startswith("-")))
        want = tuple(f for f, neg in flags if not neg)
        names = tuple(f for f, _ in flags)
        base = dict(ver=v0, slot=a.slot or "0", subslot=a.subslot or "0", repo=a.repo_id or "r", iuse=names, use=want)
        out = [base]
        for v in ("0", "99999", (a.version or "1"), (a.version or "1") + "-r7", (a.version or "1") + ".1", v0 + "0" if v0[-1].isdigit() else v0):
            out.append(dict(base, ver=v))
        out += [dict(base, slot="zz"), dict(base, subslot="zz"), dict(base, repo="zz"),
                dict(base, use=names), dict(base, use=()), dict(base, iuse=(), use=())]
        pkgs = []
        for d in out:
            try:
                pkgs.append(self.FakePkg(f'{key}-{d["ver"]}', slot=d["slot"], subslot=d["subslot"], iuse=d["iuse"], use=d["use"],
                                         repo=self.repo(d["repo"])))
            except Exception:
                pass
        return pkgs

    def observe(self, n, text, eapi):
        ev = dict(tid=n, i=0, chars=cps(text), eapi=eapi, accepted=False, raised="", attrs=DUMMY, rendered=[],
                  rt_ok=False, rt_equal=False, m1=[], m2=[], kls_accepted=False, kls_equal=True)
        # second entry point: the atom class of the EAPI object (used for ebuild / profile dependency strings)
        ak = None
        if eapi != "none":
            try:
                ak = self.get_eapi(eapi).atom_kls(text)
                ev["kls_accepted"] = True
            except Exception:
                pass
        try:
            a = self.parse(text, eapi)
        except self.Malformed:
            return ev
        except Exception as ex:  # not accepted either; the kind of failure is recorded, not judged
            ev["raised"] = type(ex).__name__
            return ev
        if eapi == "none":
            ev["kls_accepted"] = True
        elif ak is not None:
            ev["kls_equal"] = bool(ak == a and a == ak)
        ev.update(accepted=True, attrs=self.attrs(a), rendered=cps(str(a)))
        try:
            a2 = self.parse(str(a), eapi)
        except Exception as ex:
            ev["raised"] = "reparse:" + type(ex).__name__
            return ev
        ev.update(rt_ok=True, rt_equal=bool(a == a2 and a2 == a and not (a != a2)))
        try:
            pk = self.universe(a)
            ev.update(m1=[bool(a.match(p)) for p in pk], m2=[bool(a2.match(p)) for p in pk])
        except Exception as ex:
            ev["raised"] = "match:" + type(ex).__name__
            ev.update(m1=[True], m2=[False])
        return ev


# ------------------------------------------------------------------ random side (inputs only)
ALPHA = "abpqrxyzABZ0123456789" + "+-_.@!~<>=*:/[](),? \n"
KINDS = ["alpha", "beta", "pre", "rc", "p"]


def rand_name(r, chars, first):
    n = r.choice([1, 1, 2, 3, 5])
    return r.choice(first) + "".join(r.choice(chars) for _ in range(n - 1))


def rand_version(r):
    v = ".".join(str(r.choice([0, 1, 2, 10, 100, "01", "00", 20240101])) for _ in range(r.choice([1, 1, 2, 3])))
    if r.random() < 0.25:
        v += r.choice("abz")
    for _ in range(r.choice([0, 0, 0, 1, 2])):
        v += "_" + r.choice(KINDS) + r.choice(["", "", "0", "1", "12"])
    return v


def rand_valid(r):
    al = "abcxyzABC0123456789"
    cat = rand_name(r, al + "+_.-", al + "_")
    chunks = [rand_name(r, al + "+_", al + "_")] + [r.choice([rand_name(r, al + "+_", al + "_+"), "", "r1", "1a2", "2x", "1_p", "1.2"]) for _ in range(r.choice([0, 0, 1, 2]))]
    pkg = "-".join(chunks)
    op = r.choice(["", "", "<", "<=", "=", "=*", "~", ">=", ">"])
    s = r.choice(["", "", "", "!", "!!"])
    if op:
        s += ("=" if op == "=*" else op) + cat + "/" + pkg + "-" + rand_version(r)
        if op != "~" and r.random() < 0.3:
            s += "-r" + r.choice(["0", "1", "01", "123"])
        if op == "=*":
            s += "*"
    else:
        s += cat + "/" + pkg
    k = r.random()
    sl = al + "+_.-"
    if k < 0.2:
        s += ":" + rand_name(r, sl, al + "_")
    elif k < 0.3:
        s += ":" + rand_name(r, sl, al + "_") + "/" + rand_name(r, sl, al + "_")
    elif k < 0.4:
        s += ":" + rand_name(r, sl, al + "_") + r.choice(["=", "/" + rand_name(r, sl, al + "_") + "="])
    elif k < 0.5:
        s += r.choice([":=", ":*"])
    if r.random() < 0.15:
        s += "::" + rand_name(r, al + "_-", al + "_")
    if r.random() < 0.35:
        items = []
        for _ in range(r.choice([1, 1, 2, 3])):
            f = rand_name(r, al + "+_@-", al)
            d = r.choice(["", "", "(+)", "(-)"])
            items.append(r.choice(["", "-"]) + f + d if r.random() < 0.6 else r.choice(["", "!"]) + f + d + r.choice("?="))
        s += "[" + ",".join(items) + "]"
    return s


def mutate(r, s):
    k = r.randrange(10)
    if not s:
        return r.choice(ALPHA)
    i = r.randrange(len(s) + 1)
    if k <= 3:
        return s[:i] + r.choice(ALPHA) + s[i:]
    if k <= 5 and i < len(s):
        return s[:i] + s[i + 1:]
    if k <= 7 and i < len(s):
        return s[:i] + r.choice(ALPHA) + s[i + 1:]
    if k == 8:
        # version-like tail on the package name / missing version
        cut = s.find(":") if ":" in s else (s.find("[") if "[" in s else len(s))
        return s[:cut] + r.choice(["-1", "-1.2", "-1a", "-1_p1", "-1-r1", "-r1", "-1A", "-1_", "-1."]) + s[cut:]
    return s + r.choice(["\n", " ", ":", "::", "[]", "[", "]", "*", ":+a", ":-a", "::-r", "[_x]", "[x", "[x?=]", "[-x?]"])


def run(ck):
    use_repo()
    b = Binder()
    size = ck.pick(1, 2)
    ck.rule = ("every text of the TLC-enumerated universe (valid renderings, catalogued violations, open cases) under EAPI 0-9 and "
               "'none', plus seeded random valid atoms and single-edit mutations of them, handed to the real atom(); "
               "non-trivial = distinct (text, eapi) whose specified verdict is definite (Accept or Reject)")
    ck.assumptions = [
        "PMS 8.3 / 3.1 / 3.2 as transcribed in AtomSyntax.tla; '::repo' is pkgcore's extension, valid only without an EAPI",
        "'~' with revision, slot/sub-slot starting with '+', upper-case version letters and repository ids ending in -<version> are "
        "left open (counted, not judged); the last two / the '+' case are pinned by pkgcore's own test suite",
        "ASCII input; the kind of exception raised for invalid input is not judged",
    ]
    bg = BackgroundMC()
    if ck.replay_case:
        d = ck.replay_case["detail"]
        inputs = [(d["text"], d["eapi"], "replay")]
    else:
        bg.start("MC:recogniser == generator (structure x EAPI x violation)", "AtomSyntax_MC",
                 "SPECIFICATION Spec\nCONSTANT Size = %d\nINVARIANT RoundTrip\nINVARIANT Violations\nINVARIANT Open\n" % size)
        cases = ck.export("AtomSyntax_Export", cfg_text="CONSTANT Size = %d\n" % size, timeout=600)
        if not cases:
            raise tlc.MachineryError("empty export")
        inputs = [("".join(chr(c) for c in c_["text"]), c_["eapi"], c_["kind"]) for c_ in cases]
        ck.exhaustive = True
        r = rng(3)
        for _ in range(ck.pick(700, 12000)):
            s = rand_valid(r)
            e = r.choice(EAPIS + ["none", "none", "8"])
            inputs.append((s, e, "random-atom"))
            for _ in range(3):
                inputs.append((mutate(r, s), r.choice([e, e, r.choice(EAPIS)]), "random-edit"))
    seen, events, kinds = set(), [], []
    for text, eapi, kind in inputs:
        if (text, eapi) in seen:
            continue
        seen.add((text, eapi))
        events.append(b.observe(len(events), text, eapi))
        kinds.append(kind)
        ck.count()
    for k in (0, len(events) // 2, len(events) - 1):
        e = events[k]
        ck.sample(dict(text="".join(chr(c) for c in e["chars"]), eapi=e["eapi"], accepted=e["accepted"], kind=kinds[k]))
    verdicts = ck.trace("AtomSyntax_Trace", events, timeout=850, heap="3g")
    bg.join(ck)
    unspec = {v["tid"] for v in verdicts if v["clause"] == "Unspecified"}
    for n, e in enumerate(events):
        if n not in unspec:
            ck.nontriv((tuple(e["chars"]), e["eapi"]))
    ck.extra["unspecified_inputs"] = len(unspec)
    ck.extra["accepted_inputs"] = sum(1 for e in events if e["accepted"])
    for v in verdicts:
        if v["clause"] == "Unspecified":
            continue
        e = events[v["tid"]]
        text = "".join(chr(c) for c in e["chars"])
        ck.violation(v["clause"], dict(text=text, eapi=e["eapi"], kind=kinds[v["tid"]], accepted=e["accepted"], raised=e["raised"],
                                       rendered="".join(chr(c) for c in e["rendered"]),
                                       read={k: ("".join(chr(c) for c in x) if isinstance(x, list) and k != "use" else x) for k, x in e["attrs"].items() if k != "use"},
                                       use=["".join(chr(c) for c in u) for u in e["attrs"]["use"]]))
