"""C22 — contents sets behave like maps keyed by the normalised path (fs/contents.py, fs/fs.py).

Spec        : ContentsSet.tla — a set is a function normalised-path -> value; paths are token sequences
              (Norm = what normpath does to an absolute path); one operator per public operation:
              add / remove / del / discard / [] / in (argument: an entry or a path STRING in any spelling),
              update, union / intersection / difference / symmetric_difference (+ *_update),
              issubset / issuperset / isdisjoint (argument: another set, or a generator / list / tuple / Python
              set of entries, duplicates included; path strings as elements where only keys are needed),
              change_offset / insert_offset, add_missing_directories, clear, len, iteration.
MC          : ContentsSet_Laws (the algebra of keys, spelling independence, relocation is a bijection with
              inverse and composition, missing directories = least closed extension) and ContentsSet_MC
              (every operation sequence up to MaxOps over 4 paths x 2 spellings; invariants + action properties).
spec -> code: ContentsSet_Sim (TLC -simulate) chooses operation sequences incl. entry/string and
              set/generator argument kinds; they are executed on a real contentsSet.
code -> spec: seeded random sequences over random path pools, un-normalised spellings, all entry kinds.
Both are judged step by step by ContentsSet_Trace (re-synchronising on the observed set).

Carve-outs (counted, never judged):
  * which VALUE survives for a key present on both sides of union/intersection: either is accepted;
  * relocation when an entry does not lie under the old offset, or the old offset is not written in
    normal form (trailing slashes allowed): "Unspecified";
  * spellings starting with exactly two slashes (POSIX: implementation defined; normpath keeps them),
    relative paths; path strings as elements of union / intersection / symmetric_difference / update
    arguments (those need the entry itself).
"""
from pylib import tlc
from pylib.common import rng, seed, use_repo

KINDS = ["file", "dir", "sym", "fifo", "dev"]
BINPURE = ["union", "intersection", "difference", "symmetric_difference"]
BINUPD = ["intersection_update", "difference_update", "symmetric_difference_update"]
TESTS = ["issubset", "issuperset", "isdisjoint"]
KEYONLY = ["difference", "difference_update", "intersection_update"] + TESTS  # elements may be path strings
HOWS = ["set", "gen", "list", "tuple", "pyset"]
BYKEY = ["remove", "delitem", "discard", "getitem", "contains"]
RELOC = ["change_offset", "insert_offset"]
BAD_TOK = ("", ".", "..")


def render(toks):
    return "/" + "/".join(toks)


def tokens(loc):
    if loc == "/":
        return []
    if not loc.startswith("/"):
        return [""] + loc.split("/")  # a relative location is not a normalised absolute key
    return loc[1:].split("/")


def normal(toks):
    return not any(t in BAD_TOK for t in toks)


class World:
    def __init__(self):
        from pkgcore.fs import contents, fs

        self.contents, self.fs = contents, fs
        self.cls = {"file": fs.fsFile, "dir": fs.fsDir, "sym": fs.fsLink, "fifo": fs.fsFifo, "dev": fs.fsDev}
        self.reset()

    def reset(self):
        self.cs = self.contents.contentsSet()

    def mk(self, e):
        loc = render(e["sp"])
        if e["kind"] == "sym":
            return self.fs.fsLink(loc, "tgt", mode=e["id"], strict=False)
        return self.cls[e["kind"]](loc, mode=e["id"], strict=False)

    def kind_of(self, x):
        for k, c in self.cls.items():
            if isinstance(x, c):
                return k
        return "?"

    def val(self, x):
        m = getattr(x, "mode", None)
        return dict(id=m if isinstance(m, int) else -1, kind=self.kind_of(x))

    def project(self, cs):
        out = [dict(k=tokens(x.location), **self.val(x)) for x in cs]
        out.sort(key=lambda d: (d["k"], d["id"], d["kind"]))
        return out

    def other(self, a):
        """The argument of a set operation: its elements (entries, or path strings for kind "str") in the
        container named by `how`."""
        elems = [render(e["sp"]) if e["kind"] == "str" else self.mk(e) for e in a["arg"]]
        how = a["how"]
        if how == "set":
            return self.contents.contentsSet(elems)
        if how == "gen":
            return (x for x in elems)
        if how == "list":
            return list(elems)
        if how == "tuple":
            return tuple(elems)
        if how == "pyset":
            return set(elems)
        raise tlc.MachineryError(f"unknown argument container {how}")

    def apply(self, a):
        """Execute one action on self.cs; returns the observation fields."""
        cs, op = self.cs, a["op"]
        ev = dict(raised="", retb=False, retv=dict(id=0, kind="-"), res=[])
        ret = None
        try:
            if op in BYKEY:
                x = self.mk(a) if a["how"] == "entry" else render(a["sp"])
                if op == "remove":
                    cs.remove(x)
                elif op == "delitem":
                    del cs[x]
                elif op == "discard":
                    cs.discard(x)
                elif op == "getitem":
                    ev["retv"] = self.val(cs[x])
                else:
                    ev["retb"] = bool(x in cs)
            elif op == "add":
                cs.add(self.mk(a))
            elif op == "clear":
                cs.clear()
            elif op == "update" or op in BINUPD:
                getattr(cs, op)(self.other(a))
            elif op in BINPURE:
                ret = getattr(cs, op)(self.other(a))
            elif op in TESTS:
                ev["retb"] = bool(getattr(cs, op)(self.other(a)))
            elif op == "change_offset":
                ret = cs.change_offset(render(a["old"]), render(a["new"]))
            elif op == "insert_offset":
                ret = cs.insert_offset(render(a["new"]))
            elif op == "add_missing_directories":
                cs.add_missing_directories(mode=a["dirid"])
            else:
                raise tlc.MachineryError(f"unknown op {op}")
        except tlc.MachineryError:
            raise
        except Exception as e:  # judged by the trace spec (KeyError is part of the contract)
            ev["raised"] = type(e).__name__
        if ret is not None:
            ev["res"] = self.project(ret)
        ev["st"] = self.project(cs)
        ev["n"] = len(cs)
        if ret is not None and a["adopt"] and not ev["raised"]:
            self.cs = ret
        return ev


def full(a):
    out = dict(op="?", how="-", sp=[], id=1, kind="file", arg=[], old=[], new=[], dirid=9, adopt=False)
    out.update(a)
    return out


def unnormalised(a):
    return (not normal(a["sp"]) or not normal(a["old"]) or not normal(a["new"])
            or any(not normal(e["sp"]) for e in a["arg"]))


def run_history(w, tid, actions, events):
    w.reset()
    for i, a in enumerate(actions, 1):
        a = full(a)
        ev = w.apply(a)
        events.append(dict(tid=tid, i=i, **a, **ev))


# ---------------- random generator (stays inside the property's domain) ----------------
def respell(r_, toks):
    """A random spelling of the normalised path `toks`."""
    out = []
    for t in toks:
        x = r_.random()
        if x < 0.12:
            out.append("")
        elif x < 0.24:
            out.append(".")
        elif x < 0.32:
            out += [r_.choice(["x", "a"]), ".."] if out or r_.random() < 0.5 else ["..", "."]
        out.append(t)
    if r_.random() < 0.15:
        out.append(r_.choice(["", ".", ""]))
    while len(out) > 1 and out[0] == "":
        out.pop(0)  # never a leading "//"
    return out


def random_history(r_, steps):
    names = ["a", "b", "c", "d"]
    pool = []
    for _ in range(r_.randint(3, 7)):
        p = [r_.choice(names) for _ in range(r_.randint(1, 4))]
        pool.append(p)
        if r_.random() < 0.5 and len(p) > 1:
            pool.append(p[: r_.randint(1, len(p) - 1)])
    if r_.random() < 0.1:
        pool.append([])
    offsets = [[], ["a"], ["b"], ["a", "b"], ["d", "c"]]

    def ent(spell=True):
        p = r_.choice(pool)
        return dict(sp=respell(r_, p) if spell and r_.random() < 0.6 else list(p), id=r_.randint(1, 40),
                    kind=r_.choice(KINDS))

    keys = set()  # generator's idea of the present keys (only used to aim arguments at hits)
    hist = []
    for _ in range(steps):
        x = r_.random()
        if x < 0.16 or not hist:
            op = r_.choice(["add", "update", "update"]) if hist else "update"
        elif x < 0.40:
            op = r_.choice(BYKEY)
        elif x < 0.58:
            op = r_.choice(BINPURE)
        elif x < 0.70:
            op = r_.choice(BINUPD)
        elif x < 0.80:
            op = r_.choice(TESTS)
        elif x < 0.90:
            op = r_.choice(RELOC)
        elif x < 0.97:
            op = "add_missing_directories"
        else:
            op = "clear"
        a = dict(op=op)
        if op == "add":
            a.update(ent(), how="entry")
        elif op in BYKEY:
            e = ent()
            if keys and r_.random() < 0.7:
                e["sp"] = respell(r_, list(r_.choice(sorted(keys)))) if r_.random() < 0.7 else list(r_.choice(sorted(keys)))
            a.update(e, how=r_.choice(["entry", "str", "str"]))
        elif op == "update" or op in BINPURE or op in BINUPD or op in TESTS:
            arg = [ent() for _ in range(r_.randint(0, 5))]
            if keys and r_.random() < 0.6:
                for k in r_.sample(sorted(keys), min(len(keys), r_.randint(1, 3))):
                    arg.append(dict(sp=respell(r_, list(k)), id=r_.randint(1, 40), kind=r_.choice(KINDS)))
            if op in ("issubset",) and keys and r_.random() < 0.5:
                arg += [dict(sp=list(k), id=1, kind="file") for k in keys]
            if op in ("issuperset",) and keys and r_.random() < 0.5:
                arg = [dict(sp=respell(r_, list(k)), id=2, kind="dir") for k in r_.sample(sorted(keys), min(len(keys), 2))]
            if arg and r_.random() < 0.3:
                arg.append(dict(r_.choice(arg)))  # the same element twice
            how = r_.choice(HOWS)
            if op in KEYONLY and how != "set" and r_.random() < 0.5:
                for e in arg:
                    if r_.random() < 0.6:
                        e.update(kind="str", id=0)  # a path string instead of an entry
            r_.shuffle(arg)
            a.update(arg=arg, how=how, adopt=op in BINPURE and r_.random() < 0.5)
        elif op in RELOC:
            new = respell(r_, r_.choice(offsets)) if r_.random() < 0.5 else list(r_.choice(offsets))
            old = []
            if op == "change_offset":
                ks = sorted(keys)
                if ks and r_.random() < 0.85:
                    common = list(ks[0])
                    for k in ks[1:]:
                        n = 0
                        while n < min(len(common), len(k)) and common[n] == k[n]:
                            n += 1
                        common = common[:n]
                    old = common[: r_.randint(0, len(common))]
                else:
                    old = list(r_.choice(offsets))
                y = r_.random()
                if y < 0.25:
                    old = old + [""] * r_.randint(1, 2) if old else old
                elif y < 0.33:
                    old = respell(r_, old)
            a.update(old=old, new=new, adopt=r_.random() < 0.6)
        elif op == "add_missing_directories":
            a.update(dirid=r_.choice([9, 493, 509]))
        hist.append(full(a))
        yield hist[-1], keys


def run(ck):
    use_repo()
    ck.rule = ("operation sequences on one real contentsSet (all public set/map operations, arguments as entry / "
               "path string / other set / generator, list, tuple or Python set of entries or path strings, offsets, missing directories); chosen by TLC simulation "
               "of ContentsSet_Sim and by a seeded random generator over random path pools with un-normalised "
               "spellings; non-trivial = distinct sequence in which at least one argument is spelled un-normalised")
    ck.assumptions = [
        "paths are absolute and never start with exactly two slashes",
        "the surviving value of a key present on both sides of a union/intersection may be either side's",
        "relocation is judged only when every entry lies under the (normally written) old offset",
        "an entry's identity is carried in its mode attribute; created directories get the mode passed in",
    ]
    w = World()

    def judge(events, label):
        if not events:
            return
        verdicts = ck.trace("ContentsSet_Trace", events, label=label, timeout=ck.pick(200, 1500))
        by = {(e["tid"], e["i"]): e for e in events}
        for v in verdicts:
            e = by[(v["tid"], v["i"])]
            if v["clause"] == "OutsideDomain":
                raise tlc.MachineryError(f"generator left the property's domain: {e}")
            if v["clause"] == "Unspecified":
                ck.extra["unspecified_relocations"] = ck.extra.get("unspecified_relocations", 0) + 1
                continue
            hist = [{k: x[k] for k in ("op", "how", "sp", "id", "kind", "arg", "old", "new", "dirid", "adopt")}
                    for x in events if x["tid"] == e["tid"] and x["i"] <= e["i"]]
            ck.violation(v["clause"], dict(op=e["op"], how=e["how"], arg_normalised=not unnormalised(e),
                                           raised=e["raised"], history=hist,
                                           observed=dict(st=e["st"], res=e["res"], retb=e["retb"], retv=e["retv"])))

    if ck.replay_case:
        events = []
        run_history(w, 0, ck.replay_case["detail"]["history"], events)
        judge(events, "Trace:replay")
        ck.count()
        ck.nontriv("replay")
        ck.sample(ck.replay_case["detail"]["history"])
        return

    # 1. design  +  2. spec -> code (the three TLC runs are independent: run them side by side)
    maxops = ck.pick(2, 3)
    D = ck.pick(8, 10)
    nsim = ck.pick(8, 60)
    from concurrent.futures import ThreadPoolExecutor

    with ThreadPoolExecutor(3) as ex:
        f_laws = ex.submit(tlc.run, "ContentsSet_Laws", cfg_text="", assume_only=True, timeout=ck.pick(300, 1200))
        f_mc = ex.submit(
            tlc.run, "ContentsSet_MC",
            cfg_text=(f"SPECIFICATION Spec\nCONSTANT MaxOps = {maxops}\nINVARIANT KeysNormal\nINVARIANT ValsKnown\n"
                      "PROPERTY Shrinks\nPROPERTY Grows\nPROPERTY PureOps\nPROPERTY MissingClosed\nPROPERTY RelocBijective\n"),
            workers=ck.pick(4, 8), timeout=ck.pick(300, 2400))
        f_sim = ex.submit(
            tlc.run, "ContentsSet_Sim",
            cfg_text=f"SPECIFICATION SimSpec\nCONSTANTS\n MaxOps = 1000\n D = {D}\nCONSTRAINT SimBound\nINVARIANT Emit\n",
            simulate=f"num={nsim}", depth=D + 1, seed=seed() + 22, workers=1, timeout=ck.pick(300, 1500))
        laws, mc, sim = f_laws.result(), f_mc.result(), f_sim.result()
    ck.add_mc("MC:laws(key algebra, spelling independence, relocation, missing dirs)", laws)
    ck.add_mc(f"MC:ContentsSet_MC MaxOps={maxops}", mc)
    ck.add_mc(f"Simulate:ContentsSet_Sim num={nsim} depth={D}", sim)
    for name, res in (("ContentsSet_Laws", laws), ("ContentsSet_MC", mc)):
        if res.violated:
            raise tlc.MachineryError(f"{name}: model violates {res.violated}\n{res.out[-3000:]}")
    behs, seen = [], set()
    for p in sim.tagged("BEH"):
        key = repr(p[1])
        if key not in seen:
            seen.add(key)
            behs.append(p[1])
    if len(behs) < nsim:
        raise tlc.MachineryError(f"simulation produced only {len(behs)} behaviours\n{sim.out[-2000:]}")
    events = []
    for tid, beh in enumerate(behs):
        run_history(w, tid, beh, events)
        ck.count()
        if any(unnormalised(full(a)) for a in beh):
            ck.nontriv(("sim", repr(beh)))
    ck.sample(dict(direction="spec->code", history=[{k: a[k] for k in ("op", "how", "sp", "arg", "old", "new", "adopt")} for a in behs[0][:4]]))
    judge(events, "Trace:sim-behaviours")
    # 3. code -> spec
    r_ = rng(22)
    ntr = ck.pick(300, 3000)
    batch = 1500
    tid0 = 0
    while tid0 < ntr:
        events = []
        for tid in range(tid0, min(ntr, tid0 + batch)):
            w.reset()
            hist = []
            gen = random_history(r_, r_.randint(4, ck.pick(14, 24)))
            for i, (a, keys) in enumerate(gen, 1):
                ev = w.apply(a)
                events.append(dict(tid=tid, i=i, **a, **ev))
                hist.append(a)
                keys.clear()
                keys.update(tuple(d["k"]) for d in w.project(w.cs))
            ck.count()
            if any(unnormalised(a) for a in hist):
                ck.nontriv(("rnd", repr(hist)))
        if tid0 == 0:
            ck.sample(dict(direction="code->spec", last_event={k: events[-1][k] for k in ("op", "how", "sp", "arg", "old", "new", "st")}))
        judge(events, f"Trace:random-{tid0 // batch}")
        tid0 += batch
