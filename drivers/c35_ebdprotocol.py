"""C35 — the Python/daemon command protocol never deadlocks or desynchronises.

MC          : EbdProtocol_MC — both sides as processes over two FIFO pipes, every interleaving of
              up to MaxReq top-level requests (the whole processor API), daemon-side events (phase
              completion/failure, helper / inherit / bashrc requests, die, SIGINT/SIGTERM) and
              counted payloads; invariants NoDeadlock, OwnReply, NoMisread, action property
              UnknownEndsSession.  Vacuity guards: each known way of getting the protocol wrong
              (constants of EbdProtocol.tla) must make TLC find a violation.
spec -> code: EbdProtocol_Sim (TLC -simulate) chooses sessions; the daemon side of each session is
              played by a scripted fake daemon process (speaking the literals found in the bash sources
              of the current tree) against the REAL EbuildProcessor, which executes the session's
              top-level requests.
code -> spec: sessions with the REAL bash daemon (handshake, is_responsive, eclass preload incl. a
              broken eclass, metadata regeneration with inherit, environment dump, clear, die, shutdown).
All sessions are recorded through the PKGCORE_VERIF_TRACE hook and judged by EbdProtocol_Trace: the
Python automaton must follow every write/read/outcome, a request that never returns is PyHang, and
for real-daemon sessions every line read must be emittable by the daemon automaton.
"""
import json
import os
import re
import signal
import subprocess
import sys
import tempfile
import time

from pylib import tlc
from pylib.common import REPO, mktmp, rng, seed, use_repo

INTENDED = dict(PyClearReplyArg='"succeeded"', DSandboxRequest='"request_sandbox_summary"', DrainAfterEnvFail="TRUE",
                KillUnresponsive="TRUE", RawHelperLines="TRUE", FramingExact="TRUE", NBashrc="1")
ALL_KINDS = ["is_responsive", "preload_async", "preload_sync", "clear_preloaded", "set_metadata_path", "gen_metadata",
             "gen_env", "run_phase", "run_phase_file", "shutdown"]


def cfg(spec, consts, budget, maxreq, maxsig, maxchan, kinds=ALL_KINDS, extra="", more=None):
    c = dict(INTENDED)
    c.update(consts)
    c.update(more or {})
    lines = [f"SPECIFICATION {spec}", "CONSTANTS"]
    lines += [f"  {k} = {v}" for k, v in c.items()]
    lines += [f"  Budget = {budget}", f"  MaxReq = {maxreq}", f"  MaxSig = {maxsig}", f"  MaxChan = {maxchan}",
              "  Kinds = {" + ", ".join(f'"{k}"' for k in kinds) + "}"]
    return "\n".join(lines) + "\n" + extra


MC_PROPS = "CONSTRAINT ChanBound\nINVARIANT NoDeadlock\nINVARIANT OwnReply\nINVARIANT NoMisread\nPROPERTY UnknownEndsSession\n"

GUARDS = [  # (changed constants, invariant TLC must report)
    ({"KillUnresponsive": "FALSE"}, "NoDeadlock"),
    ({"DrainAfterEnvFail": "FALSE"}, "OwnReply"),
    ({"RawHelperLines": "FALSE"}, "NoMisread"),
    ({"FramingExact": "FALSE"}, "NoDeadlock"),
    ({"DSandboxRequest": '"__request_sandbox_summary"', "KillUnresponsive": "FALSE"}, "NoDeadlock"),
]


# --------------------------------------------------------------------------------------------
# literals the real bash sources use (the fake daemon speaks them, so a disagreement between
# processor.py and the bash files shows up without running bash)
def bash_literals():
    ebd = os.path.join(REPO, "data", "lib", "pkgcore", "ebd")
    main = open(os.path.join(ebd, "ebuild-daemon.bash")).read()
    lib = open(os.path.join(ebd, "ebuild-daemon-lib.bash")).read()
    m = re.search(r'__ebd_write_line "(\S*clear_preload\S*) succeeded"', main)
    s = re.search(r'__ebd_write_line "(\S*request_sandbox_summary)\b', lib)
    if not m or not s:
        raise tlc.MachineryError("cannot find the daemon's reply literals in the bash sources")
    return dict(clear=m.group(1), sandbox=s.group(1))


def concrete(msg, lit):
    """abstract daemon->python message -> bytes the fake daemon writes"""
    c, a = msg["cmd"], msg["arg"]
    table = {
        "yep!": "yep!\n", "metadata_path_received": "metadata_path_received\n", "env_received": "env_received\n",
        "env_receiving_failed": "env_receiving_failed\n", "logging_ack": "logging_ack\n",
        "request_inherit": "request_inherit foo\n", "key": "key DEPEND=x/y\n", "receive_env": "receive_env 6\nA=b c\n",
        "request_bashrcs": "request_bashrcs\n", "next": "next\n", "failed": "failed\n", "dying": "dying \n",
        "errline": " * ERROR: something failed\n", "dead": "dead\n", "SIGINT": "SIGINT\n", "SIGTERM": "SIGTERM\n",
        "doins": "doins\n", "h_nonfatal": "false\n", "h_cwd": "/var/tmp/work\n", "h_phase": "install\n", "h_opts": "-r\n",
        "h_args": "a.txt\0b.txt\0\n",
    }
    if c == "phases":
        return f"phases {a}{' ebd::x failed' if a == 'failed' else ''}\n"
    if c == "preload_eclass":
        return f"preload_eclass {a}\n"
    if c == "clear_preloaded_eclasses":
        return f"{lit['clear']} {a}\n"
    if c in ("request_sandbox_summary", "__request_sandbox_summary"):
        return f"{lit['sandbox']} /nonexistent/sandbox.log\n"
    if c == "dying" and msg.get("data"):
        return "dying gasp.txt\0\n"
    return table[c]


# --------------------------------------------------------------------------------------------
# lexing of recorded protocol text into abstract messages
SIZED = {"set_metadata_path": 1, "gen_metadata": 1, "gen_ebuild_env": 1}


def lex_w(data):
    line, nl, rest = data.partition("\n")
    words = line.split(" ")
    cmd = words[0]
    arg, need, have = "-", 0, 0
    if cmd in SIZED and len(words) > 1 and words[1].isdigit():
        need, have = int(words[1]), len(rest.encode())
    elif cmd == "start_receiving_env":
        arg = words[1] if len(words) > 1 else "-"
        if arg == "bytes" and len(words) > 2 and words[2].isdigit():
            need, have = int(words[2]), len(rest.encode())
    elif cmd == "path" and rest:
        return [dict(cmd="path", arg="-", need=0, have=0), dict(cmd="file", arg="-", need=0, have=0)]
    if need or have:
        # abstract framing: exact -> 1/1, surplus -> 1/2, deficit -> 2/1
        need, have = (1, 1) if need == have else ((1, 2) if need < have else (2, 1))
    return [dict(cmd=cmd or "blank", arg=arg, need=need, have=have)]


REAL_HELPERS = {"filter_env", "dodir", "keepdir", "doins", "dobin", "dosym", "dodoc", "has_version", "best_version"}


def lex_r(data):
    if data == "":
        return dict(cmd="EOF", arg="-", need=0, have=0)
    line = data.strip()
    cmd, _, rest = line.partition(" ")
    arg = rest.split(" ")[0] if rest else "-"
    if cmd in REAL_HELPERS:
        cmd = "doins"  # the abstract helper of the specification
    known_arg = {"phases", "preload_eclass", "clear_preloaded_eclasses", "clear_preload_eclasses"}
    return dict(cmd=cmd or "blank", arg=arg if cmd in known_arg else "-", need=0, have=0)


# --------------------------------------------------------------------------------------------
class Stub:
    pass


def stub_pkg(path="/nonexistent/pkg-1.ebuild"):
    from pkgcore.ebuild.eapi import get_eapi

    p = Stub()
    p.category, p.PF, p.P, p.PN, p.PV, p.PR, p.PVR = "cat", "pkg-1", "pkg-1", "pkg", "1", "r0", "1"
    p.ebuild = Stub()
    p.ebuild.path = path
    p.eapi = get_eapi("8")
    return p


def stub_ecache(path):
    e = Stub()
    ec = Stub()
    ec.path = path
    e.get_eclass = lambda name: ec
    e.eclasses = {}
    return e


def run_requests(ebp, reqs, tracefile, scratch, log):
    """Execute top-level requests on a processor; log req/end markers into the trace file."""
    from pkgcore.ebuild import processor

    good = os.path.join(scratch, "good.eclass")
    with open(good, "w") as f:
        f.write("foo() { :; }\n")
    pkg, ecache = stub_pkg(), stub_ecache(good)

    def mark(**kw):
        with open(tracefile, "a") as f:
            f.write(json.dumps(dict(dir="mark", **kw)) + "\n")

    mark(ev="ebp", id=id(ebp))
    for r in reqs:
        kind = r["kind"]
        if "real" in r:
            built = r["real"]()  # may run other processors: done before the request starts
            r = dict(r, real=lambda built=built: built)
        mark(ev="req", kind=kind, need=r.get("need", 0), have=r.get("have", 0))
        out = None
        try:
            if kind == "is_responsive":
                out = str(bool(ebp.is_responsive))
            elif kind == "preload_async":
                out = str(bool(ebp._preload_eclass(r.get("file", good), async_req=True)))
            elif kind == "preload_sync":
                ebp._preload_eclass(r.get("file", good), async_req=True)
                out = str(bool(ebp._consume_async_expects()))
            elif kind == "clear_preloaded":
                out = str(bool(ebp.clear_preloaded_eclasses()))
            elif kind == "set_metadata_path":
                ebp._metadata_paths = None
                ebp._ensure_metadata_paths(("/nonexistent-path",))
                out = "None"
            elif kind == "gen_metadata":
                ebp._metadata_paths = ("/dev/null",)  # the separate set_metadata_path request covers that exchange
                ebp.get_keys(stub_pkg(r["ebuild"]) if "ebuild" in r else pkg, ecache)
                out = "keys"
            elif kind == "gen_env":
                ebp._metadata_paths = ("/dev/null",)
                ebp.get_ebuild_environment(stub_pkg(r["ebuild"]) if "ebuild" in r else pkg, ecache)
                out = "env"
            elif kind in ("run_phase", "run_phase_file") and "real" in r:
                rp = r["real"]()
                res = ebp.run_phase(rp["phase"], rp["env"], tmpdir=rp["tmpdir"], logging=rp["logging"], sandbox=False,
                                    additional_commands=rp["handlers"])
                out = str(bool(res))
            elif kind in ("run_phase", "run_phase_file"):
                handlers = {"doins": fake_helper, "request_bashrcs": fake_bashrcs}
                env = {"FOO": "bar baz", "T": "/tmp"}
                env.update(r.get("env_extra", {}))
                res = ebp.run_phase("install", env, tmpdir=scratch if kind == "run_phase_file" else None,
                                    logging=os.path.join(scratch, "log") if kind == "run_phase_file" else None,
                                    additional_commands=handlers)
                out = str(bool(res))
            elif kind == "shutdown":
                ebp.shutdown_processor()
                out = "closed"
        except processor.ProcessorError as e:
            out = "EbdError" if type(e).__name__ == "EbdError" else "ProcessorError"
        except (processor.UnhandledCommand, processor.InternalError) as e:
            # what run_generic_phase / the callers do with a processor that raised
            name = type(e).__name__
            try:
                ebp.shutdown_processor()
            except Exception:
                pass
            out = name
        except KeyboardInterrupt:
            try:
                ebp.shutdown_processor(force=True)
            except Exception:
                pass
            out = "KeyboardInterrupt"
        except BrokenPipeError:
            out = "EPIPE"
        except RuntimeError as e:
            # processor.write() turns EPIPE (the daemon is gone) into RuntimeError
            out = "EPIPE" if e.args and isinstance(e.args[0], BrokenPipeError) else "exc:RuntimeError"
        except Exception as e:  # anything else is an outcome of its own
            out = "exc:" + type(e).__name__
        if out == "False" and kind == "clear_preloaded":
            pass
        mark(ev="end", out=out)
        if ebp.pid is None or out in ("closed", "EbdError", "KeyboardInterrupt", "UnhandledCommand", "InternalError", "EPIPE"):
            break
        if kind == "clear_preloaded" and out == "False":
            break  # the processor shut the daemon down


def fake_helper(ebd):
    # what IpcCommand.__call__ does with the channel: five reads, exactly one reply line
    for _ in range(5):
        ebd.read()
    ebd.write("0\x07")


def fake_bashrcs(ebd):
    ebd.write("path\n/nonexistent/bashrc")
    if not ebd.expect("next"):
        from pkgcore.ebuild.processor import chuck_UnhandledCommand

        chuck_UnhandledCommand(ebd, "bashrc transfer, didn't receive 'next' response. failure?")
    ebd.write("end_request")


def fake_daemon_main(rfd, wfd, script, lit):
    """The daemon side of one simulated session (runs in a forked child, own process group)."""
    os.setpgid(0, 0)
    signal.signal(signal.SIGTERM, signal.SIG_DFL)
    rf = os.fdopen(rfd, "rb", buffering=0)

    def readline():
        buf = b""
        while True:
            c = rf.read(1)
            if not c:
                return buf
            buf += c
            if c == b"\n":
                return buf

    def emit(lines):
        try:
            for m in lines:
                os.write(wfd, concrete(m, lit).encode())
        except OSError:
            os._exit(0)

    for st in script:
        if st["t"] == "read":
            line = readline()
            if not line:
                os._exit(0)
            words = line.decode(errors="replace").split()
            n = None
            if words and words[0] in SIZED and len(words) > 1 and words[1].isdigit():
                n = int(words[1])
            if words and words[0] == "start_receiving_env" and len(words) > 2 and words[1] == "bytes":
                n = int(words[2])
            if n:
                got = b""
                while len(got) < n:
                    c = rf.read(n - len(got))
                    if not c:
                        break
                    got += c
        emit(st["out"])
        if st["gone"]:
            os._exit(0)
    # script exhausted: behave like an idle daemon main loop (answers alive, leaves on shutdown / EOF)
    while True:
        line = readline()
        if not line or line.strip() == b"shutdown_daemon":
            os._exit(0)
        if line.strip() == b"alive":
            emit([dict(cmd="yep!", arg="-")])


BLOCKING_SYSCALLS = {"0", "61", "7", "23", "270", "271", "230", "35"}  # read wait4 poll select pselect6 ppoll nanosleep


def _descendants(pid):
    kids = {}
    for e in os.listdir("/proc"):
        if e.isdigit():
            try:
                with open(f"/proc/{e}/stat") as f:
                    pp = int(f.read().rsplit(")", 1)[1].split()[1])
                kids.setdefault(pp, []).append(int(e))
            except (OSError, ValueError, IndexError):
                pass
    out, todo = [], [pid]
    while todo:
        x = todo.pop()
        for k in kids.get(x, ()):
            out.append(k)
            todo.append(k)
    return out


def _proc_state(pid):
    """(state letter, cpu ticks, syscall nr) of a process, or None if it is gone."""
    try:
        with open(f"/proc/{pid}/stat") as f:
            st = f.read().rsplit(")", 1)[1].split()
        try:
            with open(f"/proc/{pid}/syscall") as f:
                sc = f.read().split()[0]
        except OSError:
            sc = "?"
        return st[0], int(st[11]) + int(st[12]), sc
    except (OSError, IndexError):
        return None


def _blocked_for_good(pid):
    """True iff the process sleeps in wait4(), or in read() on a pipe that holds no data."""
    try:
        with open(f"/proc/{pid}/stat") as f:
            state = f.read().rsplit(")", 1)[1].split()[0]
        if state == "Z":
            return None  # gone: neither blocked nor running
        if state != "S":
            return False
        with open(f"/proc/{pid}/syscall") as f:
            sc = f.read().split()
        if sc[0] == "61":
            return True
        if sc[0] != "0":
            return False
        fd = int(sc[1], 16)
        import fcntl
        import struct
        import termios

        target = os.readlink(f"/proc/{pid}/fd/{fd}")
        if not target.startswith("pipe:"):
            return False
        h = os.open(f"/proc/{pid}/fd/{fd}", os.O_RDONLY | os.O_NONBLOCK)
        try:
            n = struct.unpack("i", fcntl.ioctl(h, termios.FIONREAD, b"\0\0\0\0"))[0]
        finally:
            os.close(h)
        return n == 0
    except (OSError, ValueError, IndexError):
        return None


def _family(pid, sids):
    """Everything that can still make the harness progress: its descendants (one /proc scan) plus any
    process in a session one of them has ever been in -- a subshell of an already killed daemon is
    reparented to init but keeps the session.  `sids` accumulates across polls."""
    info = {}
    for e in os.listdir("/proc"):
        if e.isdigit():
            try:
                with open(f"/proc/{e}/stat") as f:
                    st = f.read().rsplit(")", 1)[1].split()
                info[int(e)] = (int(st[1]), int(st[3]))  # ppid, session
            except (OSError, ValueError, IndexError):
                pass
    kids = {}
    for p, (pp, _sid) in info.items():
        kids.setdefault(pp, []).append(p)
    fam, todo = set(), [pid]
    while todo:
        x = todo.pop()
        for k in kids.get(x, ()):
            if k not in fam:
                fam.add(k)
                todo.append(k)
    mine = os.getsid(0)
    for p in list(fam) + [pid]:
        if p in info and info[p][1] != mine:
            sids.add(info[p][1])
    fam |= {p for p, (_pp, sid) in info.items() if sid in sids and p != pid}
    return sorted(fam)


def _switches(pid):
    """context switches so far: a process that really sleeps the whole time has a constant count"""
    try:
        n = 0
        with open(f"/proc/{pid}/status") as f:
            for line in f:
                if "ctxt_switches" in line:
                    n += int(line.split()[1])
        return n
    except (OSError, ValueError, IndexError):
        return -1


def _deadlocked(pid, sids=None):
    """Logical deadlock of the harness and everything that could wake it: every live process is asleep
    in wait4() or in read() on an EMPTY pipe, and at least one of them besides the harness is alive
    (otherwise reads return EOF).  Returns a signature (pids with their context-switch counts) when
    deadlocked, else None; the caller requires the SAME signature on consecutive polls, which rules
    out a /proc scan that missed a short-lived child of a shell that forks one child after another
    (the shell's own counters move).  Independent of machine speed."""
    sids = set() if sids is None else sids
    me = _blocked_for_good(pid)
    if me is not True:
        return None
    fam = _family(pid, sids)
    kids = [(k, _blocked_for_good(k)) for k in fam]
    live = [(k, b) for k, b in kids if b is not None]
    if not live or not all(b for _k, b in live):
        return None
    return tuple((k, _switches(k)) for k in [pid] + [k for k, _b in live])


def _armed(tracefile):
    armed = False
    try:
        for x in open(tracefile):
            if '"timer"' in x:
                armed = json.loads(x)["armed"]
    except (OSError, ValueError):
        pass
    return armed


def wait_or_hang(pid, tracefile, wall):
    """Wait for the harness process.  A hang is a logical deadlock (see _deadlocked) observed on
    three polls in a row; if a (virtual) responsiveness timer is armed at that point it is delivered
    instead.  `wall` is only a last-resort machinery limit (exit 2), never a verdict."""
    t0 = time.time()
    streak, last, sids = 0, None, set()
    while True:
        r, _ = os.waitpid(pid, os.WNOHANG)
        if r:
            return False
        sig = _deadlocked(pid, sids)
        if sig is not None:
            streak = streak + 1 if sig == last else 1
            last = sig
            if streak >= 4:
                if _armed(tracefile):
                    os.kill(pid, signal.SIGALRM)
                    streak, last = 0, None
                    time.sleep(0.2)
                else:
                    for k in _family(pid, sids):
                        try:
                            os.kill(k, signal.SIGKILL)
                        except OSError:
                            pass
                    os.kill(pid, signal.SIGKILL)
                    os.waitpid(pid, 0)
                    return True
        else:
            streak, last = 0, None
        if time.time() - t0 > wall:
            diag = [(x, _proc_state(x), _blocked_for_good(x)) for x in [pid] + _descendants(pid)]
            try:
                diag.append(open(tracefile).read()[-600:])
            except OSError:
                pass
            wall = f"{wall} diag={diag}"
            for k in _descendants(pid):
                try:
                    os.kill(k, signal.SIGKILL)
                except OSError:
                    pass
            os.kill(pid, signal.SIGKILL)
            os.waitpid(pid, 0)
            raise tlc.MachineryError(f"replay harness exceeded {wall}s without being deadlocked")
        time.sleep(0.1)


def replay_session(hist, lit, scratch, idx, wall=300.0):
    """Run one simulated session in a forked harness; returns the raw trace records."""
    tracefile = os.path.join(scratch, f"trace{idx}.ndjson")
    open(tracefile, "w").close()
    reqs = [dict(kind=h["kind"], need=h["need"], have=h["have"]) for h in hist if h["who"] == "py"]
    script = [dict(t=h["t"], out=h["out"], gone=h["gone"]) for h in hist if h["who"] == "d"]
    pid = os.fork()
    if pid == 0:  # harness child
        try:
            os.setsid()  # own session: everything it starts is found by _family(), also after reparenting
            if os.environ.get("VERIF_C35_DEBUG"):
                import faulthandler
                faulthandler.enable(open(tracefile + ".fault", "w"))
                faulthandler.dump_traceback_later(5, file=open(tracefile + ".fault", "w"))
            os.environ["PKGCORE_VERIF_TRACE"] = tracefile
            from pkgcore.ebuild import processor

            c_r, c_w = os.pipe()
            d_r, d_w = os.pipe()
            dpid = os.fork()
            if dpid == 0:
                os.close(c_w)
                os.close(d_r)
                try:
                    fake_daemon_main(c_r, d_w, script, lit)
                finally:
                    os._exit(0)
            os.close(c_r)
            os.close(d_w)
            # virtual responsiveness timeout: never fires by the clock; the supervising parent delivers
            # SIGALRM when (and only when) it sees both processes provably blocked while a timer is armed
            def virtual_setitimer(which, secs, *a):
                with open(tracefile, "a") as f:
                    f.write(json.dumps(dict(dir="mark", ev="timer", armed=bool(secs))) + "\n")
                return (0.0, 0.0)

            signal.setitimer = virtual_setitimer
            ebp = processor.EbuildProcessor.__new__(processor.EbuildProcessor)
            ebp.ebd, ebp.sandbox, ebp.userpriv, ebp.custom_fds = "fake", False, False, None
            ebp._preloaded_eclasses, ebp._eclass_caching, ebp._outstanding_expects = {}, False, []
            ebp._metadata_paths, ebp.pid = None, dpid
            ebp.ebd_write = os.fdopen(c_w, "w")
            ebp.ebd_read = os.fdopen(d_r, "rb")
            ebp._readonly_vars = frozenset()
            ebp.processing_lock = False
            ebp._EbuildProcessor__sandbox_log = "/nonexistent/sandbox.log"
            processor.active_ebp_list.append(ebp)
            with open(tracefile, "a") as f:
                f.write(json.dumps(dict(dir="mark", ev="dpid", pid=dpid)) + "\n")
            run_requests(ebp, reqs, tracefile, scratch, None)
            try:
                os.killpg(dpid, signal.SIGKILL)
            except OSError:
                pass
        except BaseException as e:  # noqa
            with open(tracefile, "a") as f:
                f.write(json.dumps(dict(dir="mark", ev="harness-error", what=repr(e))) + "\n")
        finally:
            os._exit(0)
    hung = wait_or_hang(pid, tracefile, wall)
    recs = [json.loads(x) for x in open(tracefile) if x.strip()]
    for rec in recs:
        if rec.get("ev") == "dpid":
            try:
                os.killpg(rec["pid"], signal.SIGKILL)
            except OSError:
                pass
    if hung:
        recs.append(dict(dir="mark", ev="hang"))
    os.unlink(tracefile)
    return recs


def to_events(tid, recs, daemon):
    evs, i = [], 0
    mine = next((r["id"] for r in recs if r["dir"] == "mark" and r.get("ev") == "ebp"), None)
    started = False
    for rec in recs:
        d = rec["dir"]
        new = []
        if d == "mark" and rec.get("ev") == "req":
            started = True
        if d in ("w", "r", "raw") and (not started or (mine is not None and rec.get("ebp") != mine)):
            continue  # constructor handshake, or another processor (e.g. the one that regenerated metadata)
        if d == "mark":
            if rec["ev"] == "req":
                new = [dict(ev="req", kind=rec["kind"], need=rec["need"], have=rec["have"])]
            elif rec["ev"] == "end":
                new = [dict(ev="end", out=rec["out"])]
            elif rec["ev"] == "hang":
                new = [dict(ev="hang")]
            elif rec["ev"] in ("timer", "ebp", "dpid"):
                continue
            elif rec["ev"] == "harness-error":
                raise tlc.MachineryError(f"replay harness failed: {rec['what']}")
        elif d == "w":
            new = [dict(ev="w", m=m) for m in lex_w(rec["data"])]
        elif d == "r":
            new = [dict(ev="r", m=lex_r(rec["data"]))]
        elif d == "raw":
            continue  # counted payload glued to the receive_env line
        for e in new:
            i += 1
            e.update(tid=tid, i=i, daemon=daemon)
            e.setdefault("m", dict(cmd="-", arg="-", need=0, have=0))
            e.setdefault("kind", "-")
            e.setdefault("need", 0)
            e.setdefault("have", 0)
            e.setdefault("out", "-")
            evs.append(e)
    return evs


# --------------------------------------------------------------------------------------------
def wait_or_hang_real(pid, wall, tracefile=None):
    return wait_or_hang(pid, tracefile, wall)


def real_sessions(scratch, n_variants):
    """Sessions with the real bash daemon; returns list of (name, recs)."""
    out = []
    bad = os.path.join(scratch, "bad.eclass")
    with open(bad, "w") as f:
        f.write("foo() {\n")
    eb_ok = os.path.join(scratch, "pkg-1.ebuild")
    with open(eb_ok, "w") as f:
        f.write('EAPI=8\ninherit foo\nDESCRIPTION="d"\nSLOT=0\nKEYWORDS="~amd64"\nIUSE="a"\nsrc_install() { :; }\n')
    eb_die = os.path.join(scratch, "pkg-2.ebuild")
    with open(eb_die, "w") as f:
        f.write('EAPI=8\nDESCRIPTION="d"\nSLOT=0\ndie "global scope death"\n')
    eb_syn = os.path.join(scratch, "pkg-3.ebuild")
    with open(eb_syn, "w") as f:
        f.write('EAPI=8\nDESCRIPTION="d\nSLOT=0\n')
    def real_setup_phase(bashrc_bodies, ebuild_body, phase="setup", names=None):
        """Everything a real phase run needs, built lazily inside the harness process."""
        def build():
            from functools import partial

            from pkgcore.ebuild import ebd_ipc, processor
            from pkgcore.ebuild.atom import atom
            from pkgcore.pytest.plugin import EbuildRepo

            tmp = tempfile.mkdtemp(prefix="phase-", dir=scratch)
            repo = EbuildRepo(os.path.join(tmp, "repo"))
            repo.create_ebuild("cat/pkg-1", data=ebuild_body)
            repo.sync()
            pkg = max(repo._repo.itermatch(atom("cat/pkg")))
            for dname in ("T", "empty", "work", "home", "image"):
                os.makedirs(os.path.join(tmp, dname))
            T = os.path.join(tmp, "T")
            env = processor.expected_ebuild_env(pkg, depends=True)
            env.update({"PATH": os.environ["PATH"], "USE": "", "SLOT": "0", "INHERITED": "", "T": T, "PORTAGE_TMPDIR": tmp,
                        "WORKDIR": os.path.join(tmp, "work"), "D": os.path.join(tmp, "image/"), "ED": os.path.join(tmp, "image/"),
                        "HOME": os.path.join(tmp, "home"), "ROOT": "/", "PKGCORE_PKG_REPO": "fake",
                        "PKGCORE_EMPTYDIR": os.path.join(tmp, "empty")})
            paths = []
            for k, body in enumerate(bashrc_bodies):
                bp = os.path.join(tmp, names[k] if names else f"bashrc-{k}")
                with open(bp, "w") as f:
                    f.write(body)
                paths.append(bp)

            def request_bashrcs(ebd):  # the exchange of pkgcore.ebuild.ebd.ebd._request_bashrcs
                for bp in paths:
                    ebd.write(f"path\n{bp}")
                    if not ebd.expect("next"):
                        processor.chuck_UnhandledCommand(ebd, "bashrc transfer, didn't receive 'next' response. failure?")
                ebd.write("end_request")

            op = Stub()
            op.observer, op.pkg = None, pkg
            return dict(phase=phase, env=env, tmpdir=T, logging=os.path.join(tmp, "phase.log"),
                        handlers={"request_bashrcs": request_bashrcs,
                                  "request_inherit": partial(processor.inherit_handler, repo._repo.eclass_cache),
                                  "filter_env": ebd_ipc.FilterEnv(op)})
        return build

    setup_body = 'pkg_setup() { echo "setup ran: ${BRC_MARK}" > "${T}/setup-ran"; }\n'
    plans = [
        ("setup-phase-bashrcs", [dict(kind="run_phase_file", need=0, have=0,
                                      real=real_setup_phase(["BRC_MARK=one\n", 'BRC_MARK=${BRC_MARK}-two\n[[ -n ${C35_UNSET} ]] && echo dbg\n',
                                                             "BRC_MARK=${BRC_MARK}-three\nfalse\n"], setup_body)),
                                 dict(kind="is_responsive"), dict(kind="shutdown")]),
        ("setup-phase-dies", [dict(kind="run_phase_file", need=0, have=0,
                                   real=real_setup_phase(["X=1\n"], 'pkg_setup() { die "no way"; }\n'))]),
        # a tolerated failure: `nonfatal die -n` returns to its caller, nothing is sent to Python
        ("nonfatal-die-n", [dict(kind="run_phase_file", need=0, have=0,
                                 real=real_setup_phase(["X=1\n"], 'f() { die -n "tolerated"; }\npkg_setup() { nonfatal f; echo after > "${T}/after"; }\n')),
                            dict(kind="is_responsive"), dict(kind="shutdown")]),
        # line payloads are opaque: a path with backslashes (also as its last character, where a
        # shell `read` without -r would splice the next protocol line onto it) is still one line
        ("bashrc-paths-with-backslashes", [dict(kind="run_phase_file", need=0, have=0,
                                                real=real_setup_phase(["BRC_MARK=one\n", "BRC_MARK=${BRC_MARK}-two\n"], setup_body,
                                                                      names=["brc\\one", "brc two\\"])),
                                           dict(kind="is_responsive"), dict(kind="shutdown")]),
        ("regen-with-inherit", [dict(kind="set_metadata_path", need=1, have=1), dict(kind="gen_metadata", need=1, have=1, ebuild=eb_ok),
                                dict(kind="gen_metadata", need=1, have=1, ebuild=eb_ok), dict(kind="is_responsive"), dict(kind="shutdown")]),
        ("env-dump", [dict(kind="gen_env", need=1, have=1, ebuild=eb_ok), dict(kind="is_responsive"), dict(kind="shutdown")]),
        ("die-in-global-scope", [dict(kind="preload_async"), dict(kind="gen_metadata", need=1, have=1, ebuild=eb_die)]),
        ("syntax-error-ebuild", [dict(kind="gen_metadata", need=1, have=1, ebuild=eb_syn), dict(kind="is_responsive"), dict(kind="shutdown")]),
        ("handshake+responsive", [dict(kind="is_responsive"), dict(kind="is_responsive"), dict(kind="shutdown")]),
        ("preload+clear", [dict(kind="preload_async"), dict(kind="preload_sync"), dict(kind="clear_preloaded"),
                           dict(kind="is_responsive"), dict(kind="shutdown")]),
        ("metadata-path", [dict(kind="set_metadata_path", need=1, have=1), dict(kind="is_responsive"), dict(kind="shutdown")]),
        ("bad-eclass-then-shutdown", [dict(kind="preload_async", file=bad), dict(kind="shutdown")]),
        ("bad-eclass-sync", [dict(kind="preload_sync", file=bad), dict(kind="is_responsive"), dict(kind="shutdown")]),
        # a variable name bash refuses to export: the real daemon answers env_receiving_failed and its
        # main loop reports the abandoned request too; the next request must still get its own reply
        ("env-receiving-fails", [dict(kind="run_phase", need=1, have=1, env_extra={"BAD-NAME": "x"}),
                                 dict(kind="is_responsive"), dict(kind="shutdown")]),
        ("env-file-receiving-fails", [dict(kind="run_phase_file", need=0, have=0, env_extra={"BAD-NAME": "x"}),
                                      dict(kind="is_responsive"), dict(kind="shutdown")]),
    ][:n_variants]
    for idx, (name, reqs) in enumerate(plans):
        tracefile = os.path.join(scratch, f"real{idx}.ndjson")
        open(tracefile, "w").close()
        pid = os.fork()
        if pid == 0:
            try:
                os.setsid()
                os.environ["PKGCORE_VERIF_TRACE"] = tracefile
                from pkgcore.ebuild import processor

                ebp = processor.request_ebuild_processor()

                def virtual_setitimer(which, secs, *a):
                    with open(tracefile, "a") as f:
                        f.write(json.dumps(dict(dir="mark", ev="timer", armed=bool(secs))) + "\n")
                    return (0.0, 0.0)

                signal.setitimer = virtual_setitimer
                run_requests(ebp, reqs, tracefile, scratch, None)
                try:
                    if ebp.pid:
                        os.killpg(ebp.pid, signal.SIGKILL)
                except OSError:
                    pass
            except BaseException as e:  # noqa
                with open(tracefile, "a") as f:
                    f.write(json.dumps(dict(dir="mark", ev="harness-error", what=repr(e))) + "\n")
            finally:
                os._exit(0)
        hung = wait_or_hang_real(pid, 240, tracefile)
        recs = [json.loads(x) for x in open(tracefile) if x.strip()]
        if hung:
            recs.append(dict(dir="mark", ev="hang"))
        out.append((name, recs))
    return out


def run(ck):
    use_repo()
    ck.rule = ("sessions of up to 3 top-level processor requests (whole API) against daemon behaviours chosen by TLC "
               "simulation (scripted fake daemon) and against the real bash daemon; non-trivial = distinct session with at "
               "least one daemon-initiated event (helper/inherit/bashrc request, die, signal, failure reply)")
    ck.assumptions = [
        "pipes are FIFO and writes never block (payloads are small)",
        "the 10 s responsiveness timeout fires only on a daemon that is itself stuck waiting",
        "the fake daemon speaks the literals found in the bash sources of the current tree; bash itself runs only in the real-daemon sessions",
        "IPC helpers are represented by one helper that reads its five header lines and replies once (their own behaviour is C32)",
    ]
    lit = bash_literals()
    ck.extra["bash_literals"] = lit
    from pkgcore.ebuild import processor  # noqa: imported before forking the replay harnesses
    stub_pkg()
    # 1. model checking the intended protocol
    q = ck.quick
    res = ck.mc("EbdProtocol_MC", cfg_text=cfg("Spec", {}, 1, 2, 1, 8, extra=MC_PROPS), workers=ck.pick(6, 16),
                timeout=ck.pick(1500, 6000), label="MC:intended MaxReq=2 Budget=1 MaxSig=1")
    ck.mc("EbdProtocol_MC", cfg_text=cfg("Spec", {"NBashrc": "2"}, 1, 1, 1, 8, kinds=["run_phase", "run_phase_file", "shutdown"], extra=MC_PROPS),
          workers=ck.pick(4, 8), timeout=ck.pick(1500, 6000), label="MC:intended, two bashrcs, phase requests")
    if not q:
        ck.mc("EbdProtocol_MC", cfg_text=cfg("Spec", {}, 2, 3, 1, 10, extra=MC_PROPS), workers=16, timeout=3000,
              label="MC:intended MaxReq=3 Budget=2 MaxSig=1")
        ck.mc("EbdProtocol_MC", cfg_text=cfg("FairSpec", {}, 1, 2, 1, 8, extra="CONSTRAINT ChanBound\nPROPERTY Terminates\n"),
              workers=8, timeout=3000, label="MC:liveness Terminates")
    for consts, inv in (GUARDS[:2] if q else GUARDS):
        # each guard run checks only the invariant it is meant to break (a broken variant may break several
        # in the same state and TLC reports the first one listed)
        r = ck.mc("EbdProtocol_MC", cfg_text=cfg("Spec", consts, 1, 2, 1, 8, extra=f"CONSTRAINT ChanBound\nINVARIANT {inv}\n"), workers=4,
                  timeout=1500, label=f"MC:guard {consts}", expect_ok=False)
        if r.violated != inv:
            raise tlc.MachineryError(f"vacuity guard {consts}: expected TLC to violate {inv}, got {r.violated}")
    # 2. spec -> code
    scratch = mktmp("c35")
    events = []
    sessions = {}
    if ck.replay_case:
        behs = [ck.replay_case["detail"]["session"]]
    else:
        nsim = ck.pick(60, 1200)
        sim = tlc.run("EbdProtocol_Sim", cfg_text=cfg("SimSpec", {}, 2, 3, 1, 10, extra="CONSTRAINT SimBound\nINVARIANT Emit\n",
                                                          more={"D": 40}),
                      simulate=f"num={nsim}", depth=300, seed=seed() + 35, workers=1, timeout=900)
        ck.add_mc(f"Simulate:EbdProtocol_Sim num={nsim}", sim)
        behs = [p[1] for p in sim.tagged("BEH")]
        if len(behs) < nsim // 3:
            raise tlc.MachineryError(f"simulation produced only {len(behs)} sessions\n{sim.out[-1500:]}")
        # directed sessions: the corner cases the model singles out, always present
        behs = DIRECTED + behs
    for tid, hist in enumerate(behs):
        recs = replay_session(hist, lit, scratch, tid)
        evs = to_events(tid, recs, "scripted")
        if not evs:
            continue
        events += evs
        sessions[tid] = hist
        ck.count()
        if any(h["who"] == "d" and (h["t"] in ("act", "sig") or any(m["arg"] == "failed" or m["cmd"] == "env_receiving_failed" for m in h["out"])) for h in hist):
            ck.nontriv(json.dumps(hist, sort_keys=True))
    ck.sample(dict(direction="spec->code", session=[(h["who"], h["t"], h["kind"], [m["cmd"] for m in h["out"]]) for h in behs[min(3, len(behs) - 1)]]))
    # 3. code -> spec with the real daemon
    base = len(behs)
    if not ck.replay_case:
        for k, (name, recs) in enumerate(real_sessions(scratch, ck.pick(15, 15))):
            evs = to_events(base + k, recs, "real")
            events += evs
            sessions[base + k] = name
            ck.count()
            ck.nontriv("real:" + name)
            if k == 1:
                ck.sample(dict(direction="code->spec (real daemon)", session=name,
                               lines=[(e["ev"], e["m"]["cmd"], e["out"]) for e in evs][:40]))
    c = dict(INTENDED)
    cfgtxt = "SPECIFICATION TraceSpec\nCONSTANTS\n" + "\n".join(f"  {k} = {v}" for k, v in c.items()) + "\n  Budget = 1000\n"
    verdicts = ck.trace("EbdProtocol_Trace", events, cfg_text=cfgtxt, timeout=1500)
    idx = {(e["tid"], e["i"]): e for e in events}
    for v in verdicts:
        e = idx[(v["tid"], v["i"])]
        sess = sessions[v["tid"]]
        tr = [(x["ev"], x["m"]["cmd"], x["m"]["arg"], x["kind"], x["out"]) for x in events if x["tid"] == v["tid"] and x["i"] <= v["i"]][-14:]
        req = [x["kind"] for x in events if x["tid"] == v["tid"] and x["ev"] == "req" and x["i"] <= v["i"]]
        envfail = any(x["tid"] == v["tid"] and x["i"] <= v["i"] and x["ev"] == "r" and x["m"]["cmd"] == "env_receiving_failed" for x in events)
        notice_arg = isinstance(sess, list) and any(h["who"] == "d" and h["kind"] == "helper_notice_arg" for h in sess)
        ck.violation(v["clause"], dict(after_env_failure=envfail, helper_notice_arg=notice_arg, session=sess, at=dict(ev=e["ev"], cmd=e["m"]["cmd"], arg=e["m"]["arg"], out=e["out"]),
                                       request=req[-1] if req else "-", daemon=e["daemon"], tail=tr))


def H(who, t, kind="-", need=0, have=0, out=(), gone=False):
    return dict(who=who, t=t, kind=kind, need=need, have=have, out=[dict(cmd=c, arg=a, data=False) for c, a in out], gone=gone)


DIRECTED = [
    # batched asynchronous expectations are drained by the next synchronous one
    [H("py", "req", "preload_async"), H("d", "read", out=[("preload_eclass", "succeeded")]), H("py", "req", "is_responsive"),
     H("d", "read", out=[("yep!", "-")]), H("py", "req", "clear_preloaded"), H("d", "read", out=[("yep!", "-")]),
     H("d", "read", out=[("clear_preloaded_eclasses", "succeeded")])],
    [H("py", "req", "preload_async"), H("py", "req", "preload_async"), H("d", "read", out=[("preload_eclass", "succeeded")]),
     H("d", "read", out=[("preload_eclass", "succeeded")]), H("py", "req", "set_metadata_path", 1, 1),
     H("d", "read", out=[("metadata_path_received", "-")])],
    # clear_preloaded_eclasses answered by the daemon: Python must accept the reply and keep the daemon
    [H("py", "req", "clear_preloaded"), H("d", "read", out=[("yep!", "-")]), H("d", "read", out=[("clear_preloaded_eclasses", "succeeded")]),
     H("py", "req", "is_responsive"), H("d", "read", out=[("yep!", "-")])],
    # a failed async preload followed by shutdown: must not hang
    [H("py", "req", "preload_async"), H("d", "read", out=[("preload_eclass", "failed")]), H("py", "req", "shutdown"),
     H("d", "read", out=[("yep!", "-")])],
    # environment transfer fails: both report lines belong to run_phase
    [H("py", "req", "run_phase", 1, 1), H("d", "read"), H("d", "read", out=[("env_receiving_failed", "-"), ("phases", "failed")]),
     H("py", "req", "is_responsive"), H("d", "read", out=[("yep!", "-")]), H("py", "req", "shutdown"), H("d", "read", out=[("yep!", "-")]),
     H("d", "read", gone=True)],
    # the phase fails with a sandbox log: bash asks for the summary
    [H("py", "req", "run_phase", 1, 1), H("d", "read"), H("d", "read", out=[("env_received", "-")]), H("d", "read"), H("d", "read"),
     H("d", "act", "sandbox_fail", out=[("request_sandbox_summary", "-")]), H("d", "read", out=[("phases", "failed")])],
    # helper whose argument line starts with a notice word
    [H("py", "req", "run_phase", 1, 1), H("d", "read"), H("d", "read", out=[("env_received", "-")]), H("d", "read"), H("d", "read"),
     H("d", "act", "helper_notice_arg", out=[("doins", "-"), ("h_nonfatal", "-"), ("h_cwd", "-"), ("h_phase", "-"), ("h_opts", "-"), ("dying", "-")]),
     H("d", "read"), H("d", "act", "finish_ok", out=[("phases", "succeeded")])],
]
for _s in DIRECTED:
    for _h in _s:
        for _m in _h["out"]:
            if _m["cmd"] == "dying" and _h["kind"] == "helper_notice_arg":
                _m["data"] = True
