"""C34 -- saved-environment filtering removes exactly the named definitions (ebuild/filter_env.py).

design      : FilterEnv_Laws (the definition-level Filter: exactly the others are kept, order and
              bodies preserved, idempotent, kinds independent, whitelist = complement, sourced
              environment = restriction) over every dump up to a bound; FilterEnv_MC (the output
              windowing of process_scope as a state machine over token sequences: what is written is
              exactly Filter; the variant that forgets a pending window end must be caught).
spec -> code: FilterEnv_Export enumerates every specified configuration (name sets per kind incl. a
              name that never occurs, whitelist flags) over a six-definition dump (one name is both a
              variable and a function); for each the driver has BASH write the dump, runs the real
              pkgcore.ebuild.filter_env.main_run, sources the result in a fresh bash and reads the
              definitions back.
code -> spec: seeded random dumps: assignments in every quoting style bash emits ( name='..',
              name=$'..', name="..", name=([0]=".." ..) ) with values full of quotes, braces, $, #,
              newlines, non-ASCII; functions built from a bank of bodies with braces in quotes,
              parameter expansions, here-documents, case arms, comments, arithmetic, nested functions;
              random name patterns incl. near misses (prefix / suffix of a present name, cut at a random place).
              Names (opaque to the spec) are rendered from pools of identifiers that have shell keywords /
              declaration builtins as prefixes or ARE such words (function_exists, functionx, declare_y,
              export1, local_z, a variable called function ...); bash itself chooses the definition style
              (`name ()` for identifiers, `function my-f ()` for other names).  One dump in four / five has
              no final newline (a dump captured with $(...) or stripped).
Judge       : FilterEnv_Trace -- clauses RemovedStillDefined, KeptMissing, KeptBodyChanged,
              ExtraDefinition, NoStrayBytes, OutputIsKeptText, SourcesCleanly, FilterRuns.
Trust       : bash encodes (declare -p / ${v@Q} / ${v@A} / declare -f) and decodes (source, declare -p/-f);
              body identity = equality of what bash reports before and after.  The lexer inside
              filter_env.py is exercised, not modelled.
Carve-outs  : plain assignments and function definitions only (`declare`/`export` statements pass the
              filter untouched by design, see ebuild-env-utils.bash); names unique per kind in a dump
              (bash never writes duplicates); patterns are literal names (no regex metacharacters);
              whitelist mode with an empty pattern list is Unspecified and never generated.
"""
import io
import os
import shutil
import subprocess
import threading
import time
from concurrent.futures import ThreadPoolExecutor

from pylib import tlc
from pylib.common import mktmp, rng, use_repo

GEN = r'''
# stdin: NUL separated tokens.  CASE id ; S name style value ; A name n e1..en ; F name source ; END
emit_var() {  # name style
	local -n __r=$1
	local __c __d
	case $2 in
		A) __c=${__r@A} ;;
		Q) __c="$1=${__r@Q}" ;;
		*) declare -p "$1" > "${SCRATCH}/dp"; IFS= read -r -d '' __d < "${SCRATCH}/dp"   # no fork: forks are slow
		   __d=${__d%$'\n'}; __c=${__d#declare -* } ;;
	esac
	printf '%s\0' "${__c}"
}
while IFS= read -r -d '' tok; do
	case ${tok} in
		CASE) IFS= read -r -d '' id; printf 'CASE\0%s\0' "${id}"; __names_v=(); __names_f=() ;;
		S) IFS= read -r -d '' n; IFS= read -r -d '' st; IFS= read -r -d '' v
			declare -g "${n}=${v}"; __names_v+=("${n}")
			printf 'D\0var\0s\0%s\0001\0%s\0' "${n}" "${v}"; emit_var "${n}" "${st}" ;;
		A) IFS= read -r -d '' n; IFS= read -r -d '' cnt
			declare -g -a "${n}=()"; declare -n __a=${n}
			for ((k = 0; k < cnt; k++)); do IFS= read -r -d '' v; __a+=("${v}"); done
			__names_v+=("${n}")
			printf 'D\0var\0a\0%s\0%s\0' "${n}" "${cnt}"
			((cnt > 0)) && printf '%s\0' "${__a[@]}"
			unset -n __a
			emit_var "${n}" P ;;
		F) IFS= read -r -d '' n; IFS= read -r -d '' src
			if eval "${src}" 2>/dev/null && declare -F "${n}" >/dev/null; then
				__names_f+=("${n}")
				printf 'D\0func\0f\0%s\0001\0' "${n}"; declare -f "${n}"; printf '\0'; declare -f "${n}"; printf '\0'
			else
				printf 'BADFUNC\0%s\0' "${n}"
			fi ;;
		END) printf 'ENDCASE\0'
			((${#__names_v[@]})) && unset -v "${__names_v[@]}"
			((${#__names_f[@]})) && unset -f "${__names_f[@]}" ;;
	esac
done
'''

READ = r'''
# stdin: NUL separated tokens.  CASE id file nv v1..  nf f1.. ; per case a subshell sources the
# filtered text and reports what is defined.
declare -A __base
compgen -v > "${SCRATCH}/base"; compgen -A function >> "${SCRATCH}/base"
while IFS= read -r __n; do __base[${__n}]=1; done < "${SCRATCH}/base"
for __n in __n __base tok id file nv nf k vs fs PIPESTATUS BASH_ARGC BASH_ARGV BASH_LINENO BASH_SOURCE FUNCNAME _ ; do __base[${__n}]=1; done
while IFS= read -r -d '' tok; do
	[[ ${tok} == CASE ]] || continue
	IFS= read -r -d '' id; IFS= read -r -d '' file
	IFS= read -r -d '' nv; vs=(); for ((k = 0; k < nv; k++)); do IFS= read -r -d '' __n; vs+=("${__n}"); done
	IFS= read -r -d '' nf; fs=(); for ((k = 0; k < nf; k++)); do IFS= read -r -d '' __n; fs+=("${__n}"); done
	printf 'CASE\0%s\0' "${id}"
	(
		source "${file}" > "${SCRATCH}/stdout" 2> "${SCRATCH}/stderr" < /dev/null
		__rc=$?
		printf 'RC\0%s\0' "${__rc}"
		for __n in "${vs[@]}"; do
			if declare -p "${__n}" &>/dev/null; then
				declare -n __r=${__n}
				if [[ ${__r@a} == *[aA]* ]]; then
					printf 'V\0%s\0a\0%s\0' "${__n}" "${#__r[@]}"
					((${#__r[@]})) && printf '%s\0' "${__r[@]}"
				else
					printf 'V\0%s\0s\0001\0%s\0' "${__n}" "${__r}"
				fi
				unset -n __r
			fi
		done
		for __n in "${fs[@]}"; do
			if declare -F "${__n}" >/dev/null; then
				printf 'F\0%s\0' "${__n}"; declare -f "${__n}"; printf '\0'
			fi
		done
		compgen -v > "${SCRATCH}/nowv"; compgen -A function > "${SCRATCH}/nowf"
		declare -A __minev __minef
		for __n in "${vs[@]}"; do __minev[${__n}]=1; done
		for __n in "${fs[@]}"; do __minef[${__n}]=1; done
		while IFS= read -r __n; do
			[[ -n ${__base[${__n}]} || -n ${__minev[${__n}]} || ${__n} == __* ]] || printf 'X\0%s\0' "${__n}"
		done < "${SCRATCH}/nowv"
		while IFS= read -r __n; do
			[[ -n ${__base[${__n}]} || -n ${__minef[${__n}]} || ${__n} == __* ]] || printf 'X\0%s()\0' "${__n}"
		done < "${SCRATCH}/nowf"
		__o=; IFS= read -r -d '' __o < "${SCRATCH}/stdout"; printf 'OUT\0%s' "${__o}"
		__o=; IFS= read -r -d '' __o < "${SCRATCH}/stderr"; printf '%s\0' "${__o}"
		printf 'ENDCASE\0'
	)
done
'''

# function bodies (source form); bash rewrites them with declare -f
BODIES = [
    ": ;",
    'echo "}"',
    "echo '{'",
    'echo "${x:-"}"}"',
    'echo "${x:-}}"',
    "echo ${x%\\}}",
    "echo ${x//\\{/\\}}",
    "local y=${x:-{}",
    'echo "${x/\\}/{}" ${#x} ${x:1:2} ${!y} ${x^^}',
    'case $1 in\n a) echo 1;;\n b|c) echo "2)";;\n "}") echo brace;;\n *) : ;;\n esac',
    "cat <<EOF\n}\nfoo() {\nEOF",
    'cat <<-"EOF"\n\t{ $x\n\tEOF',
    "cat <<'X'\nva=1\nfb() { :; }\nX",
    "# comment with } and {\n :",
    "echo $(( (1+2) * 3 )); (( x++ ))",
    'echo $(echo ")" )',
    'if [[ $a == "}" ]]; then echo; fi',
    "for i in 1 2; do { echo $i; }; done",
    'echo "a # not comment }"; echo \\#; echo a#b',
    'arr=( "}" "{" ); echo "${arr[@]}"',
    'echo `echo "}"`',
    'inner() { echo "nested }"; }',
    "echo $'\\'}'",
    "va=5; vb=(1 2); both=x",
    'echo "$(echo "${x}")" \'$(\'',
    "[[ $x =~ ^a{2}$ ]] && echo ${BASH_REMATCH[0]}",
    "while read -r l; do echo \"$l\"; done < <(echo \"}\")",
    'echo \\} \\{ \\" \\\'',
    "x=${y:-'}'}",
    'echo "${y#"${y%%[![:space:]]*}"}"',
    "(cd /; echo sub) | { cat; }",
    'echo "multi\nline } string"',
    'echo ${x:+"${y}"} ${z:-${w:-"}"}}',
    "echo $(case $x in a) echo 1;; esac)",
    'cat <<< "}"',
    "echo $#; echo ${#}; echo $$ $! $? $-",
    "echo ${x#\\#} ${x%%\\#*}",
    "x=$'a\\'b}'",
    "echo \"$( echo '}' )\"",
    "echo $((x<<2)) $((1 << 3))",
    "(( x <<= 2 )); (( y = x<<1 ))",
    "[[ $x == *\\} ]] || [[ $x == @(a|b\\}) ]]",
    "echo {a,b}{1..3} $[1+2]",
    'local s="a\\"}b"',
    "echo 'it'\\''s }'",
    "true && { echo a; } || { echo b; }",
    "x=( [0]='}' [1]=\"{\" )",
    "echo ${x:-$(echo '}')}",
    'echo "${x:-$(echo "}")}"',
    "cat <<EOF\n$(echo ')')\n)\n${x:-\"}\"}\nEOF",
    "cat <<'EOF' | tr a b\n} # {\n'\nEOF",
    "echo a # trailing } comment\n echo b",
    "select o in a b; do break; done",
    "echo \"${x:-'}'}\"",
]

VALUE_ALPHABET = ["a", "b", "Z", "0", " ", " ", "\t", "\n", "'", '"', "\\", "$", "`", "{", "}", "(", ")", "=", "#", ";",
                  "&", "|", "<", ">", "*", "?", "~", "!", "[", "]", "%", "é", "漢", "\x01", "\x7f"]


def run_bash(script_text, stdin_bytes, scratch, timeout):
    path = os.path.join(scratch, "script.bash")
    with open(path, "w") as f:
        f.write(script_text)
    bash = shutil.which("bash") or "/bin/bash"
    p = subprocess.run([bash, "--norc", "--noprofile", path], input=stdin_bytes, capture_output=True, timeout=timeout,
                       cwd=scratch, env={"PATH": "/nonexistent", "SCRATCH": scratch, "LC_ALL": "C.UTF-8"})
    return p.stdout, p.stderr


def tok(*xs):
    return b"".join((x if isinstance(x, bytes) else str(x).encode("utf-8")) + b"\0" for x in xs)


def gen_dumps(cases, scratch):
    """cases: [{id, defs:[{kind,name,style,value|elems|source}]}] -> per id the list of
    dict(kind, name, body=(sub, fields...), chunk=text) as bash wrote them."""
    inp = []
    for c in cases:
        inp.append(tok("CASE", c["id"]))
        for d in c["defs"]:
            if d["kind"] == "func":
                inp.append(tok("F", d["name"], d["source"]))
            elif "elems" in d:
                inp.append(tok("A", d["name"], len(d["elems"]), *d["elems"]))
            else:
                inp.append(tok("S", d["name"], d["style"], d["value"]))
        inp.append(tok("END"))
    out, err = run_bash(GEN, b"".join(inp), scratch, 600)
    f = out.split(b"\0")
    res, k, cur, cur_id, bad = {}, 0, None, None, {}
    while k < len(f) - 1:
        t = f[k]
        if t == b"CASE":
            cur = []
            cur_id = int(f[k + 1])
            res[cur_id] = cur
            k += 2
        elif t == b"D":
            kind, sub, name, n = f[k + 1].decode(), f[k + 2].decode(), f[k + 3].decode(), int(f[k + 4])
            fields = tuple(f[k + 5:k + 5 + n])
            chunk = f[k + 5 + n].decode("utf-8")
            cur.append(dict(kind=kind, name=name, body=(sub,) + fields, chunk=chunk))
            k += 6 + n
        elif t == b"BADFUNC":
            bad.setdefault(cur_id, set()).add(f[k + 1].decode())  # a name bash refuses: not part of any dump
            k += 2
        elif t == b"ENDCASE":
            k += 1
        else:
            raise tlc.MachineryError(f"dump generator: unexpected token {t[:40]!r} (stderr {err[-300:]!r})")
    for c in cases:
        if c["id"] in bad:
            if c.get("src") != "random":
                raise tlc.MachineryError(f"bash rejected generated function(s) {sorted(bad[c['id']])}")
            c["defs"] = [d for d in c["defs"] if not (d["kind"] == "func" and d["name"] in bad[c["id"]])]
        if len(res.get(c["id"], ())) != len(c["defs"]):
            raise tlc.MachineryError(f"dump generator lost definitions of case {c['id']}: {err[-300:]!r}")
    return res


def read_back(items, scratch):
    """items: [(id, path, varnames, funcnames)] -> id -> dict(rc, after=[(kind,name,body)], extra, output, complete)"""
    inp = b"".join(tok("CASE", i, p, len(vs), *vs, len(fs), *fs) for i, p, vs, fs in items)
    out, err = run_bash(READ, inp, scratch, 900)
    f = out.split(b"\0")
    res, k, cur = {}, 0, None
    while k < len(f) - 1:
        t = f[k]
        if t == b"CASE":
            cur = dict(rc=-1, after=[], extra=[], output=b"", complete=False)
            res[int(f[k + 1])] = cur
            k += 2
        elif t == b"RC":
            cur["rc"] = int(f[k + 1])
            k += 2
        elif t == b"V":
            name, sub, n = f[k + 1].decode(), f[k + 2].decode(), int(f[k + 3])
            cur["after"].append(("var", name, (sub,) + tuple(f[k + 4:k + 4 + n])))
            k += 4 + n
        elif t == b"F":
            cur["after"].append(("func", f[k + 1].decode(), ("f", f[k + 2])))
            k += 3
        elif t == b"X":
            cur["extra"].append(f[k + 1].decode("utf-8", "replace"))
            k += 2
        elif t == b"OUT":
            cur["output"] = f[k + 1]
            k += 2
        elif t == b"ENDCASE":
            cur["complete"] = True
            k += 1
        else:
            # a sourced fragment wrote into the report stream or the subshell died: stop trusting this case
            k += 1
    return res


def cut(out_text, chunks):
    """Project the filtered text onto the input's definition texts: indices (1-based) + residue flag."""
    idx, pos, k, residue = [], 0, 0, False
    n = len(out_text)
    keys = [c.rstrip("\n") for c in chunks]
    while pos < n:
        if out_text[pos].isspace():
            pos += 1
            continue
        for j in range(k, len(keys)):
            if keys[j] and out_text.startswith(keys[j], pos):
                idx.append(j + 1)
                pos += len(keys[j])
                k = j + 1
                break
        else:
            residue = True
            nl = out_text.find("\n", pos)
            pos = n if nl < 0 else nl + 1
    return idx, residue


# Identifier pools.  Names are opaque to the spec; the lexer however looks for the words `function`,
# for `=`, blanks and parentheses, so the pools hold names that have shell keywords / declaration
# builtins as PREFIXES (function_exists, functionx, declare_y, export1, local_z ...), names that ARE such
# words (legal for variables), and names bash can only write in keyword style (`function my-f ()`).
VAR_WORDS = ["V", "v_", "_x", "Pk9", "function_v", "functionv", "functions", "function", "declare_y", "declare", "export1",
             "export", "local_z", "local", "readonly_r", "typeset_t", "if_x", "case_c", "done1", "fi_", "esac2", "in_",
             "select_s", "time_t", "then_x", "do_it", "for_x", "while1", "unset_u", "eval_e", "source_s", "let_l"]
FUNC_WORDS = ["f_", "pkg-", "my:", "src_", "function_exists", "functionx", "functions_sh", "function-x", "function_",
              "exists", "declare_f", "export_fn", "local_fn", "if_f", "case_f", "do_f", "done_f", "select_f", "time_f",
              "in_f", "then-f", "fi_f", "esac_f", "x"]
# renderings of the abstract names of FilterEnv_Export (va vb both / fa fb both / ghost)
NAME_POOLS = [
    dict(v=dict(va="va", vb="vb", both="both", ghost="ghost"), f=dict(fa="fa", fb="fb", both="both", ghost="ghost")),
    dict(v=dict(va="function_v", vb="declare_y", both="export1", ghost="v"),
         f=dict(fa="function_exists", fb="local_z", both="export1", ghost="exists")),
    dict(v=dict(va="functionv", vb="local1", both="functions", ghost="function"),
         f=dict(fa="functionx", fb="declare_f", both="functions", ghost="x")),
    dict(v=dict(va="export", vb="readonly_r", both="typeset_t", ghost="export_"),
         f=dict(fa="function-x", fb="if_f", both="typeset_t", ghost="function")),
]


def rand_value(r_):
    ln = r_.choice([0, 1, 2, 3, 5, 9, 20])
    return "".join(r_.choice(VALUE_ALPHABET) for _ in range(ln))


def rand_body(r_):
    return "\n".join(r_.choice(BODIES) for _ in range(r_.choice([1, 1, 2, 3])))


def mk_defs(r_, vnames, fnames):
    defs = []
    for n in vnames:
        if r_.random() < 0.25:
            defs.append(dict(kind="var", name=n, elems=[rand_value(r_) for _ in range(r_.randint(0, 3))]))
        else:
            defs.append(dict(kind="var", name=n, style=r_.choice("AQP"), value=rand_value(r_)))
    for n in fnames:
        defs.append(dict(kind="func", name=n, source=f"{n}() {{\n{rand_body(r_)}\n}}"))
    r_.shuffle(defs)
    return defs


def design_runs(ck, out):
    """TLC on the design; the runs go side by side, beside the bash work."""
    jobs = [("laws", "Laws:FilterEnv_Laws",
             lambda: tlc.run("FilterEnv_Laws", cfg_text=f"CONSTANTS\n MaxDefs = {ck.pick(2, 3)}\n", assume_only=True,
                             timeout=ck.pick(200, 800)))]
    for mt, live in ck.pick([(2, True)], [(3, True), (4, False)]):
        jobs.append(("mc", f"MC:FilterEnv_MC windowing MaxTok={mt}" + (" +liveness" if live else ""),
                     lambda mt=mt, live=live: tlc.run(
                         "FilterEnv_MC", cfg_text=f'SPECIFICATION Spec\nCONSTANTS\n MaxTok = {mt}\n Variant = "code"\n'
                         "INVARIANT Exact\nINVARIANT Progress\nINVARIANT AgreesWithFilter\n" + ("PROPERTY Terminates\n" if live else ""),
                         workers=ck.pick(2, 4), timeout=ck.pick(200, 840))))
    jobs.append(("guard", "MC:FilterEnv_MC variant no_final_window (must fail)",
                 lambda: tlc.run("FilterEnv_MC", cfg_text='SPECIFICATION Spec\nCONSTANTS\n MaxTok = 2\n Variant = "no_final_window"\nINVARIANT Exact\n',
                                 workers=2, timeout=300)))

    def one(job):
        try:
            return job[0], job[1], job[2]()
        except BaseException as e:  # re-raised in the main thread
            return "error", str(e), None

    with ThreadPoolExecutor(len(jobs)) as ex:
        out.extend(ex.map(one, jobs))


INTERNAL = {"tok", "src", "cnt", "file", "now", "base"}  # variables of the helper scripts


def near_misses(r_, names):
    """Names that are NOT the given ones but share a prefix / suffix with them (a cut at a random place,
    e.g. `exists` for function_exists) or extend them."""
    out = []
    for n in names:
        k = r_.randint(1, max(1, len(n) - 1))
        out += [n + r_.choice("x_1"), r_.choice("x_") + n, n[k:], n[:k]]
    return [x for x in out if x and x not in names and x[0] not in "0123456789-:" and "=" not in x]


def random_case(r_, cid):
    nv, nf = r_.randint(0, 6), r_.randint(0, 5)

    def pick(words, k):
        w = r_.choice(words)
        return w + (str(k) if len(w) < 3 else r_.choice(["", "", str(k)]))

    vn = sorted({pick(VAR_WORDS, k) for k in range(nv)})
    fn = sorted({pick(FUNC_WORDS, k) for k in range(nf)})
    near, nearf = near_misses(r_, vn), near_misses(r_, fn)
    # near misses that are also DEFINED: valid, harmless names only (a purely alphabetic function name could
    # be a reserved word or shadow a builtin the helper scripts use)
    present_v = sorted(set(vn + [n for n in near if r_.random() < 0.25 and n.replace("_", "a").isalnum()
                                 and len(n) >= 3 and n not in INTERNAL and not n.startswith("__")]))
    present_f = sorted(set(fn + [n for n in nearf if r_.random() < 0.25 and not n.isalpha() and len(n) >= 3
                                 and not n.startswith("__")]))
    vpool, fpool = sorted(set(present_v + near + ["ghost"])), sorted(set(present_f + nearf + ["ghost"]))
    vnames = r_.sample(vpool, r_.randint(0, min(4, len(vpool))))
    fnames = r_.sample(fpool, r_.randint(0, min(4, len(fpool))))
    return dict(id=cid, defs=mk_defs(r_, present_v, present_f),
                vnames=vnames, fnames=fnames, vwhite=bool(vnames) and r_.random() < 0.4,
                fwhite=bool(fnames) and r_.random() < 0.4, final_newline=r_.random() < 0.75, src="random")


def run(ck):
    use_repo()
    from pkgcore.ebuild import filter_env

    ck.rule = ("one real main_run + bash read-back per (dump, configuration); non-trivial = distinct (configuration, dump text) "
               "where at least one definition is removed and at least one is kept")
    ck.assumptions = [
        "bash writes the dump (declare -p / ${v@Q} / ${v@A} / declare -f) and reads the result back (source, declare -p/-f)",
        "plain assignments and function definitions only; names unique per kind; literal name patterns",
        "whitelist mode with no pattern is unspecified and not generated",
    ]
    r_ = rng(34)
    scratch = mktmp("c34")

    cases = []
    if ck.replay_case:
        d = ck.replay_case["detail"]
        cases.append(dict(id=0, defs=d["input"], vnames=d["vnames"], fnames=d["fnames"], vwhite=d["vwhite"], fwhite=d["fwhite"],
                          final_newline=d.get("final_newline", True), src="replay"))
    else:
        design, th = [], threading.Thread(target=lambda: design_runs(ck, design), daemon=True)
        th.start()
        exported = ck.export("FilterEnv_Export", timeout=300)
        exported.sort(key=lambda c: (c["vwhite"], c["fwhite"], sorted(c["vnames"]), sorted(c["fnames"])))
        if ck.quick:
            exported = exported[::6]
        else:
            ck.exhaustive = True
        for c in exported:
            pool = NAME_POOLS[len(cases) % len(NAME_POOLS)]  # rendering of the spec's opaque names
            cases.append(dict(id=len(cases), defs=mk_defs(r_, [pool["v"][n] for n in c["vars"]], [pool["f"][n] for n in c["funcs"]]),
                              vnames=[pool["v"][n] for n in c["vnames"]], fnames=[pool["f"][n] for n in c["fnames"]],
                              vwhite=c["vwhite"], fwhite=c["fwhite"], final_newline=len(cases) % 5 != 0, src="export"))
        for _ in range(ck.pick(100, 2500)):
            cases.append(random_case(r_, len(cases)))

    # batches: the spec-enumerated cases always run, the random supplement fills the time budget
    t_end = time.time() + ck.pick(25, 540)
    todo, cases, back = cases, [], {}
    for b0 in range(0, len(todo), 150):
        batch = todo[b0:b0 + 150]
        if cases and all(c["src"] == "random" for c in batch) and time.time() > t_end:
            ck.extra["random_cases_skipped_at_deadline"] = len(todo) - b0
            break
        dumps = gen_dumps(batch, scratch)
        items = []
        for c in batch:
            defs = dumps[c["id"]]
            text = "".join(d["chunk"] if d["chunk"].endswith("\n") else d["chunk"] + "\n" for d in defs)
            if not c.get("final_newline", True):
                text = text[:-1]  # a dump captured with $(...) / .strip(): the last definition has no newline
            c["text"], c["bdefs"] = text, defs
            out = io.BytesIO()
            c["raised"] = ""
            try:
                filter_env.main_run(out, text, list(c["vnames"]), list(c["fnames"]), c["vwhite"], c["fwhite"])
            except Exception as e:  # the lexer fell over: judged (FilterRuns), not a crash of the check
                c["raised"] = type(e).__name__ + ": " + str(e)[:200]
            c["out"] = out.getvalue()
            path = os.path.join(scratch, f"filtered-{c['id']}")
            with open(path, "wb") as f:
                f.write(c["out"])
            items.append((c["id"], path, [d["name"] for d in defs if d["kind"] == "var"], [d["name"] for d in defs if d["kind"] == "func"]))
            ck.count()
        back.update(read_back(items, scratch))
        for _i, path, _v, _f in items:
            os.unlink(path)
        cases.extend(batch)

    ids = {}

    def bid(body):
        return ids.setdefault(body, f"b{len(ids) + 1}")

    events = []
    for c in cases:
        rb = back.get(c["id"]) or dict(rc=-1, after=[], extra=[], output=b"report missing", complete=False)
        out_text = c["out"].decode("utf-8", "replace")
        idx, residue = cut(out_text, [d["chunk"] for d in c["bdefs"]])
        clean = rb["complete"] and rb["rc"] == 0 and rb["output"] == b""
        c["rb"], c["idx"], c["residue"] = rb, idx, residue
        events.append(dict(tid=c["id"], i=0, ev="filter",
                           defs=[dict(kind=d["kind"], name=d["name"], body=bid(d["body"])) for d in c["bdefs"]],
                           vnames=list(c["vnames"]), fnames=list(c["fnames"]), vwhite=c["vwhite"], fwhite=c["fwhite"],
                           after=[dict(kind=k, name=n, body=bid(b)) for k, n, b in rb["after"]],
                           extra=rb["extra"], outchunks=idx, residue=residue, clean=clean, raised=bool(c["raised"])))
        removed = len(c["bdefs"]) - len(idx)
        if removed and idx:
            ck.nontriv((tuple(c["vnames"]), tuple(c["fnames"]), c["vwhite"], c["fwhite"], c["text"]))
    ck.sample(dict(config={k: cases[0][k] for k in ("vnames", "fnames", "vwhite", "fwhite")}, dump=cases[0]["text"][:600],
                   filtered=cases[0]["out"].decode("utf-8", "replace")[:600]))
    if len(cases) > 1:
        c = cases[-1]
        ck.sample(dict(config={k: c[k] for k in ("vnames", "fnames", "vwhite", "fwhite")}, dump=c["text"][:600],
                       filtered=c["out"].decode("utf-8", "replace")[:600]))

    verdicts = ck.trace("FilterEnv_Trace", events, timeout=ck.pick(300, 1500))
    if not ck.replay_case:
        th.join()
        kinds = set()
        for kind, label, res in design:
            if kind == "error":
                raise tlc.MachineryError(label)
            ck.add_mc(label, res)
            kinds.add(kind)
            if kind == "guard":
                if res.violated != "Exact":
                    raise tlc.MachineryError("FilterEnv_MC: the broken windowing variant was not caught: model is vacuous")
            elif res.violated:
                raise tlc.MachineryError(f"{label}: {res.violated}\n{res.out[-2000:]}")
        if kinds != {"laws", "mc", "guard"}:
            raise tlc.MachineryError("design runs incomplete")
    by = {c["id"]: c for c in cases}
    for v in verdicts:
        c = by[v["tid"]]
        if v["clause"] == "OutsideDomain":
            raise tlc.MachineryError(f"generator left the domain: {c['vnames']} {c['fnames']} {c['vwhite']} {c['fwhite']}")
        want = {(d["kind"], d["name"]) for d in c["bdefs"]}
        got = {(k, n) for k, n, _b in c["rb"]["after"]}
        ck.violation(v["clause"], dict(
            input=c["defs"], vnames=list(c["vnames"]), fnames=list(c["fnames"]), vwhite=c["vwhite"], fwhite=c["fwhite"],
            final_newline=c.get("final_newline", True),
            dump=c["text"], filtered=c["out"].decode("utf-8", "replace"), raised=c["raised"],
            defined_after=sorted(f"{k}:{n}" for k, n in got), missing_after=sorted(f"{k}:{n}" for k, n in want - got),
            extra=c["rb"]["extra"], source_rc=c["rb"]["rc"], source_output=c["rb"]["output"].decode("utf-8", "replace")[:400],
            functions=sorted({ln for d in c["defs"] if d["kind"] == "func" for ln in d["source"].split("\n")[1:-1]}),
        ))
