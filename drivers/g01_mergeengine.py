"""G01 (growth) - MergeEngine orchestration: hooks, triggers, csets, operations (merge/engine.py,
merge/triggers.py base protocol, operations/domain.py).

MC          : MergeEngine_MC.  SpecE: every history of register / add_cset / replace_cset / csets[..] /
              hook calls (any order, trigger bodies failing in every way) over a 5-trigger universe, all
              three engine modes; invariants InvRun (PriorityOrdered, TiesInOrder, ExactlyOnce, Bracketed,
              PhaseScoped, StopsAtFailure, Notices, AskedOnly, OncePerRun, ComputedThisRun, PreservedKept - for
              whatever hook is called next), InvCoherent, InvPreservedOnce, InvRegistered; action properties
              PreservedStable, HooksGrowOnly, Regenerated, FailureFrame.  SpecO: finish() with retries of
              install / uninstall / replace operations under failing triggers and failing format / repository
              calls; InvOp (OpOrdered, UnderLock, NoRerun), InvDonePrefix, InvLockHeld, InvAbandon, DoneGrows,
              FinishCompletes, FailedStageNotDone.
              Vacuity guards: three deliberately broken engines (unstable priority sort, csets not dropped
              between hooks, no trigger_end after a failure) must be refuted by TLC.
spec -> code: MergeEngine_Sim (TLC -simulate) chooses engine histories and operation histories; they are
              executed on a REAL MergeEngine (recording triggers / observer / cset sources) and on REAL
              operations.domain install / uninstall / replace objects (fake package format, repository, lock);
              every operation is finally given up (the object is dropped) and what it leaves behind is judged.
              MergeEngine_Export enumerates every get_writable_fsobj case.
code -> spec: seeded random histories over a random universe of triggers (random priorities incl. ties and
              negatives, hooks incl. unknown ones, engine types, required csets as tuple / per-mode dict / all,
              bodies that read csets, call replace_cset, register other triggers), engines built with the real
              default plugin triggers (bodies stubbed, their registration data read from the classes) and with
              class level hooks; random operation histories.
Everything observed is judged by MergeEngine_Trace: exact result / log / state of every call from the
previously observed state, plus the user level statements on the observed log.

The driver renders (fake packages, recording triggers), calls pkgcore and projects: objects are named by
identity (<<source name, k-th evaluation>>), exceptions by class family.  No expected value is computed here.

Carve-outs / domain: cset sources do not raise and are acyclic; a trigger's body ends in one of: return,
Exception (ValueError), RuntimeError, ModificationError, BlockModification, KeyboardInterrupt; triggers added
through class level hooks are trigger objects; the operation's package format / repository calls return
True / False or raise; one engine per operation stage `start` (as the code creates it).
Modelled as the code does it, not judged (see report): replace_cset / add_cset do not invalidate what was
derived earlier in the same hook; a retried `start` stage creates a second tempspace and takes the lock again.
"""
import os
import shutil
import time
from concurrent.futures import ThreadPoolExecutor

from pylib import tlc
from pylib.common import mktmp, rng, seed, use_repo

MODES = ["install", "uninstall", "replace"]
INSTALL_HOOKS = ["sanity_check", "pre_merge", "merge", "post_merge", "final"]
UNINSTALL_HOOKS = ["sanity_check", "pre_unmerge", "unmerge", "post_unmerge", "final"]
HOOKS = {"install": INSTALL_HOOKS, "uninstall": UNINSTALL_HOOKS,
         "replace": INSTALL_HOOKS + [h for h in UNINSTALL_HOOKS if h not in INSTALL_HOOKS]}
BUILTIN = ["raw_new_cset", "new_cset", "install", "replace", "install_existing", "resolved_install",
           "raw_old_cset", "old_cset", "uninstall", "uninstall_existing", "modifying"]
BUILTIN_BY_MODE = {"install": BUILTIN[:6], "uninstall": BUILTIN[6:10], "replace": BUILTIN}
PRESERVED_BY_MODE = {"install": ["new_cset"], "uninstall": ["old_cset"], "replace": ["new_cset", "old_cset"]}
KINDS = ["ok", "plain", "runtime", "modify", "block", "interrupt"]
ENVCALLS = ["preinst", "postinst", "prerm", "postrm", "add_data", "remove_data", "repo_finish"]
NOVAL = ["-", 0]

MC_CONSTS = """  Trigs <- MCTrigs
  TPrio <- MCPrio
  THooks <- MCHooks
  TModes <- MCModes
  TReq <- MCReq
  TSupp <- MCSupp
  TAct <- MCAct
  UserNames <- MCUserNames
  Plugins <- MCPlugins
"""
E_PROPS = ("INVARIANT InvRun\nINVARIANT InvCoherent\nINVARIANT InvPreservedOnce\nINVARIANT InvRegistered\n"
           "PROPERTY PreservedStable\nPROPERTY HooksGrowOnly\nPROPERTY Regenerated\nPROPERTY FailureFrame\n")
O_PROPS = ("INVARIANT InvOp\nINVARIANT InvDonePrefix\nINVARIANT InvLockHeld\nINVARIANT InvAbandon\n"
           "PROPERTY DoneGrows\nPROPERTY FinishCompletes\nPROPERTY FailedStageNotDone\n")
GUARDS = [  # (broken variant, invariant TLC must report)
    ({"StableSort": "FALSE"}, "InvOrder"),
    ({"RegenPerHook": "FALSE"}, "InvLazy"),
    ({"EndOnFailure": "FALSE"}, "InvBracket"),
]


def mc_cfg(spec, steps, reg, switches=None, props="", more=""):
    sw = {"StableSort": "TRUE", "RegenPerHook": "TRUE", "EndOnFailure": "TRUE"}
    sw.update(switches or {})
    return (f"SPECIFICATION {spec}\nCONSTANTS\n  RunModes = {{\"install\", \"uninstall\", \"replace\"}}\n"
            f"  MaxSteps = {steps}\n  MaxReg = {reg}\n{more}" + "".join(f"  {k} = {v}\n" for k, v in sw.items()) + MC_CONSTS + props)


# the universe of MergeEngine_MC, in the driver's vocabulary (the Sim histories are replayed with it)
def _same(n):
    return {m: n for m in MODES}


def _noby():
    return {m: {"has": False, "names": []} for m in MODES}


def mc_universe():
    main = {"install": "new_cset", "uninstall": "old_cset", "replace": "new_cset"}
    by = _noby()
    by["install"] = {"has": True, "names": ["new_cset", "install"]}
    by["replace"] = {"has": True, "names": ["install", "uninstall"]}
    return dict(
        trigs=["ta", "tb", "tc", "td", "te"],
        prio={"ta": 50, "tb": 50, "tc": 10, "td": 90, "te": 50},
        hooks={"ta": ["pre_merge", "merge", "pre_unmerge", "unmerge", "bogus"], "tb": ["pre_merge", "pre_unmerge", "final"],
               "tc": ["sanity_check", "pre_merge", "pre_unmerge"], "td": ["merge", "post_merge", "unmerge"],
               "te": ["pre_merge", "pre_unmerge"]},
        modes={"ta": MODES, "tb": MODES, "tc": MODES, "td": ["install", "replace"], "te": MODES},
        req={"ta": {"kind": "dict", "names": [], "bymode": by},
             "tb": {"kind": "all", "names": [], "bymode": _noby()},
             "tc": {"kind": "tuple", "names": [], "bymode": _noby()},
             "td": {"kind": "tuple", "names": ["install"], "bymode": _noby()},
             "te": {"kind": "tuple", "names": ["u1"], "bymode": _noby()}},
        supp={"ta": True, "tb": False, "tc": True, "td": False, "te": True},
        act={"ta": {"k": "none", "n": _same("nosuch"), "t": ""}, "tb": {"k": "read", "n": _same("u1"), "t": ""},
             "tc": {"k": "replace", "n": main, "t": ""}, "td": {"k": "register", "n": _same("nosuch"), "t": "tc"},
             "te": {"k": "none", "n": _same("nosuch"), "t": ""}},
        usernames=["u1"],
        plugins=[],
    )


# --------------------------------------------------------------------------------------------
class _Plain(ValueError):
    pass


class _Runtime(RuntimeError):
    pass


class _Interrupt(KeyboardInterrupt):
    pass


class _EnvError(Exception):
    """a package format / repository call that raises"""


class Rec:
    """what was observed: items of the current call; objects named by identity"""

    def __init__(self):
        self.items = []
        self.reset_engine()
        self.current = ""  # trigger between trigger_start and trigger_end

    def reset_engine(self):
        self.labels = {}
        self.keep = []
        self.cnt = {}
        self.inj = 0

    def item(self, k, h="", t="", n="", v=NOVAL, a=()):
        self.items.append(dict(k=k, h=h, t=t, n=n, v=list(v), a=[list(x) for x in a]))

    def label(self, obj):
        return self.labels.get(id(obj), ["?", 0])

    def name(self, obj, label):
        if id(obj) not in self.labels:
            self.labels[id(obj)] = list(label)
            self.keep.append(obj)  # keeps id() unique
        return self.labels[id(obj)]

    def take(self):
        out, self.items = self.items, []
        return out


class World:
    """pkgcore objects of one universe"""

    def __init__(self, uni, scratch):
        from snakeoil import data_source

        from pkgcore.fs import contents, fs
        from pkgcore.merge import const, engine, errors, triggers
        from pkgcore.operations import domain as domain_ops

        self.uni = uni
        self.names = BUILTIN + list(uni["usernames"]) + ["nosuch"]
        self.scratch = scratch
        self.ds, self.contents, self.fs = data_source, contents, fs
        self.const, self.engine_mod, self.errors, self.triggers, self.domain_ops = const, engine, errors, triggers, domain_ops
        self.mode_const = {"install": const.INSTALL_MODE, "uninstall": const.UNINSTALL_MODE, "replace": const.REPLACE_MODE}
        self.mode_name = {v: k for k, v in self.mode_const.items()}
        self.rec = Rec()
        self.fail = {t: "ok" for t in uni["trigs"]}
        self.env = {c: "ok" for c in ENVCALLS}
        self.n = 0
        world = self

        class RecEngine(engine.MergeEngine):
            def execute_hook(self, hook):
                world.rec.item("hook", h=hook)
                return super().execute_hook(hook)

        self.RecEngine = RecEngine

        class RecTrigger(triggers.base):
            def __init__(self, tid):
                u = world.uni
                self.gid = tid
                self._label = tid
                self.priority = u["prio"][tid]
                self._hooks = tuple(u["hooks"][tid])
                ms = u["modes"][tid]
                self._engine_types = None if set(ms) == set(MODES) else tuple(world.mode_const[m] for m in ms)
                r = u["req"][tid]
                if r["kind"] == "all":
                    self.required_csets = None
                elif r["kind"] == "tuple":
                    self.required_csets = tuple(r["names"])
                else:
                    self.required_csets = {world.mode_const[m]: tuple(b["names"]) for m, b in r["bymode"].items() if b["has"]}
                self.suppress_exceptions = u["supp"][tid]

            def trigger(self, engine, *args):
                world.body(self, self.gid, engine, args)

        self.RecTrigger = RecTrigger

    # ---- naming ----
    def tid_of(self, trigger):
        gid = getattr(trigger, "gid", None)
        return gid if gid is not None else type(trigger).__name__

    def classify(self, e):
        er = self.errors
        if isinstance(e, _EnvError):
            return "raise"
        if isinstance(e, er.TriggerUnknownCset):
            return "unknowncset"
        if isinstance(e, er.BlockModification):
            return "block"
        if isinstance(e, er.ModificationError):
            return "modify"
        if isinstance(e, _Plain):
            return "plain"
        if isinstance(e, _Runtime):
            return "runtime"
        if isinstance(e, _Interrupt):
            return "interrupt"
        return type(e).__name__

    # ---- what a trigger body does (RecTrigger.trigger and the stubs put on real plugin triggers) ----
    def body(self, trig, tid, engine, args):
        rec = self.rec
        allcsets = len(args) == 1 and args[0] is engine.csets
        rec.item("call", h=getattr(engine, "phase", None) or "-", t=tid, n="ALL" if allcsets else "",
                 a=[] if allcsets else [rec.label(x) for x in args])
        act = self.uni["act"][tid]
        mode = self.mode_name[engine.mode]
        n = act["n"][mode]
        if act["k"] == "read":
            if n in engine.cset_sources:
                engine.csets[n]
        elif act["k"] == "replace":
            if n in engine.preserved_csets:
                self.do_replace(engine, n)
        elif act["k"] == "register":
            try:
                self.RecTrigger(act["t"]).register(engine)
            except self.errors.TriggerUnknownCset:
                pass
        kind = self.fail[tid]
        if kind == "plain":
            raise _Plain("body failed")
        if kind == "runtime":
            raise _Runtime("body failed")
        if kind == "modify":
            raise self.errors.ModificationError(trig, "body failed")
        if kind == "block":
            raise self.errors.BlockModification(trig, "body failed")
        if kind == "interrupt":
            raise _Interrupt()

    def do_replace(self, engine, n):
        rec = self.rec
        obj = self.contents.contentsSet()
        engine.replace_cset(n, obj)
        rec.inj += 1
        rec.item("replaced", n=n, v=rec.name(obj, ["*inj", rec.inj]))

    # ---- recording installed on an engine ----
    def wrap_source(self, name, fn):
        rec = self.rec

        def source(engine, csets):
            out = fn(engine, csets)
            rec.cnt[name] = rec.cnt.get(name, 0) + 1
            rec.item("eval", n=name, v=rec.name(out, [name, rec.cnt[name]]))
            return out

        return source

    def user_source(self, alias, deps):
        mk = self.contents.contentsSet

        def fn(engine, csets):
            vals = [csets[d] for d in deps]
            return vals[0] if alias else mk()

        return fn

    def attach(self, engine):
        """wrap every cset source, stub the bodies of real (plugin) triggers"""
        self.rec.reset_engine()
        for name in list(engine.cset_sources):
            engine.cset_sources[name] = self.wrap_source(name, engine.cset_sources[name])
        world = self
        for lst in engine.hooks.values():
            for t in lst:
                if not isinstance(t, self.RecTrigger) and "trigger" not in t.__dict__:
                    t.trigger = (lambda trig: lambda eng, *args: world.body(trig, type(trig).__name__, eng, args))(t)

    def observer(self):
        rec, world = self.rec, self

        class Observer:
            def trigger_start(self, hook, trigger):
                rec.current = world.tid_of(trigger)
                rec.item("start", h=hook, t=rec.current)

            def trigger_end(self, hook, trigger):
                rec.item("end", h=hook, t=world.tid_of(trigger))
                rec.current = ""

            def error(self, msg, *a, **kw):
                rec.item("error", t=rec.current)

            def warn(self, msg, *a, **kw):
                rec.item("warn", t=rec.current)

            def __getattr__(self, name):
                if name.startswith("__"):
                    raise AttributeError(name)
                return lambda *a, **kw: None

        return Observer()

    def fake_pkg(self):
        world = self

        class Pkg:
            contents = self.contents.contentsSet()

            def _repo_install_op(self, domain, observer):
                return world.format_op()

            def _repo_uninstall_op(self, domain, observer):
                return world.format_op()

            def _repo_replace_op(self, domain, old, observer):
                return world.format_op()

        return Pkg()

    def dirs(self, tag):
        self.n += 1
        base = os.path.join(self.scratch, f"{tag}{self.n}")
        tmp, root = os.path.join(base, "tmp"), os.path.join(base, "root")
        os.makedirs(tmp)
        os.makedirs(root)
        return base, tmp, root

    # ---- engine level calls ----
    def new_engine(self, a):
        mode, plugins, ch = a["m"], a["plugins"], a["ch"]
        base, tmp, root = self.dirs("e")
        self.base = base
        cls = self.RecEngine
        if ch:
            world = self
            table = {h: [] for h in HOOKS[mode]}
            for h, t in ch:
                table[h].append((lambda tid: lambda: world.RecTrigger(tid))(t))
            cls = type("ClassHookEngine", (self.RecEngine,), {f"{mode}_hooks": table})
        args = (tmp, self.fake_pkg(), self.fake_pkg()) if mode == "replace" else (tmp, self.fake_pkg())
        self.rec.reset_engine()
        self.eng = None
        try:
            eng = getattr(cls, mode)(*args, offset=root, observer=self.observer(), disable_plugins=not plugins)
        except Exception as e:
            return self.classify(e)
        self.attach(eng)
        self.eng = eng
        return "ok"

    def project(self, eng):
        rec = self.rec
        try:
            pvals = eng.preserved_csets._vals
            hvals = eng.csets._dicts[1]._vals
        except AttributeError as e:
            raise tlc.MachineryError(f"cannot see the engine's cset caches any more: {e}")
        pres = sorted(set(eng.preserve_csets))
        names = self.names

        def lab(vals, n):
            return rec.label(vals[n]) if n in vals else NOVAL

        return dict(
            mode=self.mode_name[eng.mode],
            hooks={h: [self.tid_of(t) for t in lst] for h, lst in eng.hooks.items()},
            defined=sorted(eng.cset_sources),
            pres=pres,
            pv={n: lab(pvals, n) for n in names},
            hv={n: lab(hvals, n) for n in names},
            cnt={n: rec.cnt.get(n, 0) for n in names},
            inj=rec.inj,
            phase=getattr(eng, "phase", None) or "-",
        )

    def apply_engine(self, a):
        """one public call on the engine; returns (res, log)"""
        ev, eng, rec = a["ev"], self.eng, self.rec
        rec.take()
        res = "ok"
        try:
            if ev == "register":
                self.RecTrigger(a["t"]).register(eng)
            elif ev == "addcset":
                fn = self.wrap_source(a["n"], self.user_source(a["alias"], a["deps"]))
                (eng.add_preserved_cset if a["pres"] else eng.add_cset)(a["n"], fn)
            elif ev == "replace":
                self.do_replace(eng, a["n"])
            elif ev == "peek":
                eng.csets[a["n"]]
            elif ev == "hook":
                getattr(eng, a["h"])()
            else:
                raise ValueError(ev)
        except BaseException as e:  # classified, judged by the trace spec
            if isinstance(e, (SystemExit, tlc.MachineryError)) or (isinstance(e, KeyboardInterrupt) and not isinstance(e, _Interrupt)):
                raise
            res = self.classify(e)
        return res, rec.take()

    # ---- operation level ----
    def format_op(self):
        world, rec = self, self.rec

        def outcome(name):
            v = world.env.get(name, "ok")
            if v == "raise":
                raise _EnvError(name)
            return v == "ok"

        class FormatOp:
            def add_triggers(self, domain_op, engine):
                rec.item("fmt", n="add_triggers")
                for t in world.op_fmt:
                    world.RecTrigger(t).register(engine)

            def preinst(self):
                rec.item("fmt", n="preinst")
                return outcome("preinst")

            def postinst(self):
                rec.item("fmt", n="postinst")
                return outcome("postinst")

            def prerm(self):
                rec.item("fmt", n="prerm")
                return outcome("prerm")

            def postrm(self):
                rec.item("fmt", n="postrm")
                return outcome("postrm")

            def finalize(self):
                rec.item("fmt", n="finalize")
                return True

            def cleanup(self, disable_observer=False):
                rec.item("fmt", n="cleanup")

        return FormatOp()

    def new_op(self, a):
        mode = a["m"]
        world, rec = self, self.rec
        base, tmp, root = self.dirs("o")
        self.base = base
        self.op_fmt, self.op_dom = list(a["fmt"]), list(a["dom"])
        self.op_tmp = tmp
        self.lock_count = 0

        def outcome(name):
            v = world.env.get(name, "ok")
            if v == "raise":
                raise _EnvError(name)
            return v == "ok"

        class Lock:
            def acquire_write_lock(self):
                rec.item("lock", n="acquire")
                world.lock_count += 1

            def release_write_lock(self):
                rec.item("lock", n="release")
                world.lock_count -= 1

            def acquire_read_lock(self):
                pass

            release_read_lock = acquire_read_lock

        class RepoOp:
            def add_data(self, domain):
                rec.item("repo", n="add_data")
                return outcome("add_data")

            def remove_data(self):
                rec.item("repo", n="remove_data")
                return outcome("remove_data")

            def finish(self):
                rec.item("repo", n="repo_finish")
                return outcome("repo_finish")

        def mk_repo_op(*args):
            rec.item("repo", n="create")
            return RepoOp()

        class RepoOperations:
            install = uninstall = replace = staticmethod(mk_repo_op)

        class Repo:
            lock = Lock()
            operations = RepoOperations()

        class Domain:
            pm_tmpdir = tmp

            @property
            def triggers(self):
                return [world.RecTrigger(t) for t in world.op_dom]

        base_cls = getattr(self.domain_ops, mode)
        def make_engine(*args, **kw):
            engine = getattr(world.RecEngine, mode)(*args, **kw)
            world.attach(engine)  # recording starts with the engine's life (a retried `start` builds a new one)
            return engine

        cls = type("RecOp", (base_cls,), {"engine_kls": staticmethod(make_engine)})
        obs = self.observer()
        if mode == "replace":
            self.op = cls(Domain(), Repo(), self.fake_pkg(), self.fake_pkg(), obs, root)
        else:
            self.op = cls(Domain(), Repo(), self.fake_pkg(), obs, root)

    def apply_finish(self):
        rec = self.rec
        rec.take()
        try:
            ret = self.op.finish()
            res = "ok" if ret else "false"
        except BaseException as e:
            if isinstance(e, (SystemExit, tlc.MachineryError)) or (isinstance(e, KeyboardInterrupt) and not isinstance(e, _Interrupt)):
                raise
            res = self.classify(e)
        return res, rec.take()

    def project_op(self):
        op = self.op
        live = getattr(op, "me", None) is not None
        ost = dict(done=sorted(getattr(op, "_stage_state", ())), locks=self.lock_count,
                   tmps=len(os.listdir(self.op_tmp)), live=live)
        return ost, (self.project(op.me) if live else None)

    def abandon_op(self):
        """the operation object is dropped; what its __del__ leaves behind"""
        import gc
        import weakref

        alive = weakref.ref(self.op)
        self.op = None  # no reference cycle holds the operation: its finalizer runs here
        if alive() is not None:
            gc.collect()
        if alive() is not None:
            raise tlc.MachineryError("the operation object is still referenced: cannot observe what giving it up does")
        self.rec.take()
        return dict(done=[], locks=self.lock_count, tmps=len(os.listdir(self.op_tmp)), live=False)

    def cleanup(self):
        base = getattr(self, "base", None)
        if base:
            shutil.rmtree(base, ignore_errors=True)
            self.base = None


# --------------------------------------------------------------------------------------------
def blank_state(w, mode="install"):
    return dict(mode=mode, hooks={h: [] for h in HOOKS[mode]}, defined=[], pres=[], pv={n: NOVAL for n in w.names},
                hv={n: NOVAL for n in w.names}, cnt={n: 0 for n in w.names}, inj=0, phase="-")


def event(w, tid, i, ev, **kw):
    e = dict(tid=tid, i=i, ev=ev, m="", plugins=False, ch=[], t="", h="", n="", alias=False, deps=[], pres=False,
             fail=dict(w.fail), env=dict(w.env), fmt=[], dom=[], res="ok", log=[], st=None,
             ost=dict(done=[], locks=0, tmps=0, live=False))
    e.update(kw)
    if e["st"] is None:
        e["st"] = blank_state(w)
    return e


def run_engine_history(w, tid, hist, events):
    """hist: input actions, the first one is `new`"""
    i = 0
    w.fail = {t: "ok" for t in w.uni["trigs"]}
    for a in hist:
        ev = a["ev"]
        if ev == "setfail":
            w.fail[a["t"]] = a["k"]
            continue
        i += 1
        if ev == "new":
            res = w.new_engine(a)
            st = w.project(w.eng) if w.eng is not None else blank_state(w, a["m"])
            events.append(event(w, tid, i, "new", m=a["m"], plugins=a["plugins"], ch=[list(x) for x in a["ch"]], res=res, st=st))
            if w.eng is None:
                break
            continue
        res, log = w.apply_engine(a)
        kw = {k: a[k] for k in ("t", "h", "n", "alias", "deps", "pres") if k in a}
        events.append(event(w, tid, i, ev, res=res, log=log, st=w.project(w.eng), **kw))
    w.cleanup()


def run_op_history(w, tid, hist, events):
    i = 0
    w.fail = {t: "ok" for t in w.uni["trigs"]}
    w.env = {c: "ok" for c in ENVCALLS}
    for a in hist:
        ev = a["ev"]
        if ev == "setfail":
            w.fail[a["t"]] = a["k"]
            continue
        if ev == "setenv":
            w.env[a["n"]] = a["k"]
            continue
        i += 1
        if ev == "opnew":
            w.new_op(a)
            events.append(event(w, tid, i, "opnew", m=a["m"], fmt=list(a["fmt"]), dom=list(a["dom"])))
            continue
        res, log = w.apply_finish()
        ost, st = w.project_op()
        events.append(event(w, tid, i, "finish", res=res, log=log, ost=ost, st=st))
    events.append(event(w, tid, i + 1, "abandon", ost=w.abandon_op()))
    w.cleanup()


# ---- get_writable_fsobj ----
def run_writable(w, tid, c):
    base, tmp, root = w.dirs("w")
    w.base = base
    ds, fs = w.ds, w.fs

    class Pkg:
        contents = w.contents.contentsSet()

    eng = w.engine_mod.MergeEngine.install(tmp, Pkg(), offset=root, observer=w.observer(), disable_plugins=True)
    eng.allow_reuse = c["allow"]
    src, path = None, None
    if c["src"] == "mem":
        src = ds.data_source(c["data"], mutable=c["mutable"])
    elif c["src"] != "none":
        d = {"intemp": tmp, "outside": os.path.join(base, "elsewhere"), "sibling": tmp + "-sibling"}[c["src"]]
        os.makedirs(d, exist_ok=True)
        path = os.path.join(d, "payload")
        with open(path, "w") as f:
            f.write(c["data"])
        src = ds.local_source(path, mutable=c["mutable"])
    fsobj = None if src is None else fs.fsFile("/usr/share/payload", data=src, strict=False)
    obs = dict(raised="", writable=False, content="?", where="?", intemp=False, srckept=False)
    try:
        r = eng.get_writable_fsobj(fsobj, prefer_reuse=c["prefer"], empty=c["empty"])
    except Exception as e:
        obs["raised"] = type(e).__name__
        r = None
    if r is not None:
        rpath = getattr(r, "path", None)
        try:
            with r.bytes_fileobj() as f:
                obs["content"] = f.read().decode()
        except Exception:
            obs["content"] = "?"
        try:
            h = r.bytes_fileobj(True)
            h.close()
            obs["writable"] = bool(getattr(r, "mutable", False))
        except Exception:
            obs["writable"] = False
        if src is not None and (r is src or (rpath is not None and rpath == path)):
            obs["where"] = "source"
        elif rpath is not None and rpath != path:
            obs["where"] = "fresh"
        obs["intemp"] = rpath is not None and os.path.realpath(rpath).startswith(os.path.realpath(tmp) + os.sep)
    if src is not None:
        try:
            with src.bytes_fileobj() as f:
                obs["srckept"] = f.read().decode() == c["data"]
        except Exception:
            obs["srckept"] = False
    w.cleanup()
    return event(w, tid, 1, "writable", c=c, obs=obs)


# --------------------------------------------------------------------------------------------
def plugin_universe(w):
    """registration data of the real default plugin triggers, read from the classes"""
    out = dict(trigs=[], prio={}, hooks={}, modes={}, req={}, supp={}, act={}, plugins=[])
    for cls in w.triggers.default_plugins_triggers():
        t = cls.__name__
        inst = cls()
        out["plugins"].append(t)
        out["trigs"].append(t)
        out["prio"][t] = int(inst.priority)
        out["hooks"][t] = list(inst._hooks)
        et = inst._engine_types
        out["modes"][t] = list(MODES) if et is None else [w.mode_name[x] for x in et]
        rc = inst.required_csets
        if rc is None:
            out["req"][t] = {"kind": "all", "names": [], "bymode": _noby()}
        elif isinstance(rc, tuple):
            out["req"][t] = {"kind": "tuple", "names": list(rc), "bymode": _noby()}
        else:
            by = _noby()
            for m, c in w.mode_const.items():
                if rc.get(c) is not None:
                    by[m] = {"has": True, "names": list(rc[c])}
            out["req"][t] = {"kind": "dict", "names": [], "bymode": by}
        out["supp"][t] = bool(inst.suppress_exceptions)
        out["act"][t] = {"k": "none", "n": _same("nosuch"), "t": ""}
    return out


def merge_universe(a, b):
    out = dict(a)
    out["trigs"] = list(a["trigs"]) + [t for t in b["trigs"] if t not in a["trigs"]]
    for k in ("prio", "hooks", "modes", "req", "supp", "act"):
        out[k] = dict(a[k])
        out[k].update(b[k])
    out["plugins"] = list(b.get("plugins") or a.get("plugins") or [])
    return out


def random_universe(r_, nt=10):
    trigs = [f"r{k}" for k in range(nt)]
    users = ["u1", "u2", "u3"]
    allhooks = HOOKS["replace"] + ["bogus"]
    uni = dict(trigs=trigs, prio={}, hooks={}, modes={}, req={}, supp={}, act={}, usernames=users, plugins=[])

    def names(k):
        pool = BUILTIN + users + (["nosuch"] if r_.random() < 0.1 else [])
        return [r_.choice(pool) for _ in range(k)]

    for t in trigs:
        uni["prio"][t] = r_.choice([-100, 0, 10, 50, 50, 50, 51, 90, 100])
        uni["hooks"][t] = [r_.choice(allhooks) for _ in range(r_.randint(1, 4))]
        uni["modes"][t] = r_.choice([MODES, MODES, ["install", "replace"], ["uninstall", "replace"], ["install"], ["uninstall"]])
        kind = r_.choice(["all", "tuple", "tuple", "dict"])
        by = _noby()
        if kind == "dict":
            for m in MODES:
                if r_.random() < 0.7:
                    by[m] = {"has": True, "names": [r_.choice(BUILTIN_BY_MODE[m] + users[:1]) for _ in range(r_.randint(0, 3))]}
        pool = [n for n in BUILTIN if all(n in BUILTIN_BY_MODE[m] for m in uni["modes"][t])] or BUILTIN
        uni["req"][t] = {"kind": kind, "bymode": by,
                         "names": [r_.choice(pool + users[:1]) for _ in range(r_.randint(0, 3))] if kind == "tuple" else []}
        uni["supp"][t] = r_.random() < 0.6
        k = r_.choice(["none", "none", "read", "read", "replace", "register"])
        uni["act"][t] = {"k": k, "n": {m: r_.choice(BUILTIN_BY_MODE[m] + users) if k == "read" else
                                       r_.choice(PRESERVED_BY_MODE[m] + users[:1]) for m in MODES},
                         "t": r_.choice(trigs) if k == "register" else ""}
    return uni


def random_engine_history(r_, uni, steps, plugins):
    mode = r_.choice(MODES)
    ch = []
    if r_.random() < 0.15:
        ch = [[r_.choice(HOOKS[mode]), r_.choice(uni["trigs"][:10])] for _ in range(r_.randint(1, 3))]
    hist = [dict(ev="new", m=mode, plugins=plugins, ch=ch)]
    users = list(uni["usernames"])
    defined = list(BUILTIN_BY_MODE[mode])
    bound = []
    fakes = [t for t in uni["trigs"] if t not in uni["plugins"]]
    for _ in range(steps):
        x = r_.random()
        if x < 0.30:
            hist.append(dict(ev="register", t=r_.choice(fakes)))
        elif x < 0.40:
            k = r_.randrange(len(users))
            # u_k may read builtin csets and user csets with a smaller index that are bound: never a cycle
            pool = list(BUILTIN_BY_MODE[mode]) + [u for u in users[:k] if u in bound]
            alias = r_.random() < 0.4
            deps = [r_.choice(pool)] if alias else [r_.choice(pool) for _ in range(r_.randint(0, 2))]
            hist.append(dict(ev="addcset", n=users[k], alias=alias, deps=deps, pres=r_.random() < 0.35))
            if users[k] not in bound:
                bound.append(users[k])
                defined.append(users[k])
        elif x < 0.45:
            hist.append(dict(ev="replace", n=r_.choice(PRESERVED_BY_MODE[mode] * 4 + defined)))
        elif x < 0.52:
            hist.append(dict(ev="peek", n=r_.choice(defined * 4 + ["nosuch"])))
        elif x < 0.72:
            hist.append(dict(ev="setfail", t=r_.choice(uni["trigs"]), k=r_.choice(KINDS + ["ok", "ok"])))
        else:
            hist.append(dict(ev="hook", h=r_.choice(HOOKS[mode])))
    return hist


def random_op_history(r_, uni, steps):
    mode = r_.choice(MODES)
    fakes = [t for t in uni["trigs"] if t not in uni["plugins"]]
    # triggers handed to an operation must be registrable (the domain configures them for the engine they meet)
    def registrable(t):
        q = uni["req"][t]
        if mode not in uni["modes"][t]:
            return True
        names = q["names"] if q["kind"] == "tuple" else (q["bymode"][mode]["names"] if q["kind"] == "dict" and q["bymode"][mode]["has"] else [])
        return all(n in BUILTIN_BY_MODE[mode] for n in names)

    ok = [t for t in fakes if registrable(t) and (uni["act"][t]["k"] != "register" or registrable(uni["act"][t]["t"]))]
    if r_.random() < 0.15:
        ok = fakes  # now and then an operation is handed a trigger its engine refuses
    fmt = [r_.choice(ok) for _ in range(r_.randint(0, 2))] if ok else []
    dom = [r_.choice(ok) for _ in range(r_.randint(1, 5))] if ok else []
    hist = [dict(ev="opnew", m=mode, fmt=fmt, dom=dom)]
    for _ in range(steps):
        x = r_.random()
        if x < 0.3:
            hist.append(dict(ev="setfail", t=r_.choice(dom + fmt + uni["plugins"]) if (dom or fmt or uni["plugins"]) else uni["trigs"][0],
                             k=r_.choice(["ok", "ok", "plain", "modify", "block", "runtime"])))
        elif x < 0.5:
            hist.append(dict(ev="setenv", n=r_.choice(ENVCALLS), k=r_.choice(["ok", "ok", "false", "raise"])))
        else:
            hist.append(dict(ev="finish"))
    hist.append(dict(ev="finish"))
    return hist


# --------------------------------------------------------------------------------------------
def header(uni):
    h = dict(tid=-1, i=0, ev="universe")
    h.update(uni)
    return h


def judge(ck, uni, events, inputs, label):
    """inputs: tid -> (kind, history) for the replay file"""
    if not events:
        return
    verdicts = ck.trace("MergeEngine_Trace", [header(uni)] + events, label=label, timeout=ck.pick(600, 2400),
                        env={"JAVA_TOOL_OPTIONS": "-Xss256m"})
    by = {(e["tid"], e["i"]): e for e in events}
    first_real = {}
    for v in verdicts:
        if v["clause"] != "OutsideDomain":
            first_real[v["tid"]] = min(first_real.get(v["tid"], 10**9), v["i"])
    for v in verdicts:
        e = by[(v["tid"], v["i"])]
        if v["clause"] == "OutsideDomain":
            if first_real.get(v["tid"], 10**9) < v["i"]:
                continue  # follows a deviation that was already reported for this history
            raise tlc.MachineryError(f"generator left the modelled domain: {label} {e}")
        kind, hist = inputs[v["tid"]]
        ck.violation(v["clause"], dict(kind=kind, call=e["ev"], at=v["i"], hook=e["h"], mode=hist[0].get("m", "") if isinstance(hist, list) else "",
                                       res=e["res"], universe=uni, history=hist,
                                       observed=dict(res=e["res"], log=e["log"], st=e["st"], ost=e["ost"], obs=e.get("obs"))))


def sim_to_hist(beh):
    out = []
    for a in beh:
        ev = a["ev"]
        if ev == "new":
            out.append(dict(ev="new", m=a["m"], plugins=False, ch=[]))
        elif ev == "opnew":
            out.append(dict(ev="opnew", m=a["m"], fmt=["tc"], dom=["ta", "tb", "td"]))
        elif ev == "addcset":
            out.append(dict(ev="addcset", n=a["n"], alias=a["alias"], deps=list(a["deps"]), pres=a["pres"]))
        elif ev in ("setfail",):
            out.append(dict(ev="setfail", t=a["t"], k=a["k"]))
        elif ev == "setenv":
            out.append(dict(ev="setenv", n=a["n"], k=a["k"]))
        elif ev == "register":
            out.append(dict(ev="register", t=a["t"]))
        elif ev == "hook":
            out.append(dict(ev="hook", h=a["h"]))
        elif ev in ("replace", "peek"):
            out.append(dict(ev=ev, n=a["n"]))
        elif ev == "finish":
            out.append(dict(ev="finish"))
        else:
            raise tlc.MachineryError(f"unknown simulated action {a}")
    return out


def interesting(events, tid):
    """non-trivial history: a hook run with two or more trigger bodies, or a failed call followed by another call"""
    mine = [e for e in events if e["tid"] == tid]
    multi = any(sum(1 for x in e["log"] if x["k"] == "call") >= 2 for e in mine)
    failed = any(e["res"] != "ok" and e["ev"] in ("hook", "finish") for e in mine[:-1])
    return multi or failed


# directed histories: the corners the model singles out, always present
def directed(uni_mc):
    eng = [
        # pre_merge edits reach the merge: new_cset computed once, install is that object in every hook
        [dict(ev="new", m="install", plugins=False, ch=[]), dict(ev="register", t="ta"), dict(ev="register", t="td"),
         dict(ev="hook", h="pre_merge"), dict(ev="hook", h="merge"), dict(ev="hook", h="post_merge"), dict(ev="peek", n="install")],
        # a tie in priority, a suppressed failure, then a failure that propagates, then the retry
        [dict(ev="new", m="replace", plugins=False, ch=[]), dict(ev="register", t="tb"), dict(ev="register", t="ta"),
         dict(ev="register", t="tc"), dict(ev="setfail", t="ta", k="plain"), dict(ev="hook", h="pre_merge"),
         dict(ev="setfail", t="tb", k="plain"), dict(ev="hook", h="pre_merge"), dict(ev="setfail", t="tb", k="ok"),
         dict(ev="hook", h="pre_merge"), dict(ev="hook", h="pre_unmerge"), dict(ev="hook", h="unmerge")],
        # unknown cset until it is added; replace_cset in the middle of a hook
        [dict(ev="new", m="uninstall", plugins=False, ch=[]), dict(ev="register", t="te"),
         dict(ev="addcset", n="u1", alias=True, deps=["uninstall"], pres=False), dict(ev="register", t="te"),
         dict(ev="register", t="tc"), dict(ev="register", t="tb"), dict(ev="hook", h="pre_unmerge"),
         dict(ev="replace", n="old_cset"), dict(ev="peek", n="u1"), dict(ev="hook", h="pre_unmerge")],
        # the real default plugin triggers, every hook of every mode
        *[[dict(ev="new", m=m, plugins=True, ch=[])] + [dict(ev="hook", h=h) for h in HOOKS[m]] for m in MODES],
        # class level hooks
        [dict(ev="new", m="install", plugins=False, ch=[["pre_merge", "ta"], ["pre_merge", "tc"], ["merge", "td"]]),
         dict(ev="hook", h="pre_merge"), dict(ev="hook", h="merge")],
        [dict(ev="new", m="uninstall", plugins=True, ch=[["unmerge", "tc"], ["final", "tb"]]),
         dict(ev="hook", h="unmerge"), dict(ev="hook", h="final")],
    ]
    ops = [
        [dict(ev="opnew", m=m, fmt=["tc"], dom=["ta", "tb", "td"]), dict(ev="finish")] for m in MODES
    ] + [
        # a merge that fails, then the retry
        [dict(ev="opnew", m="replace", fmt=[], dom=["ta", "td"]), dict(ev="setfail", t="td", k="modify"), dict(ev="finish"),
         dict(ev="setfail", t="td", k="ok"), dict(ev="setenv", n="prerm", k="false"), dict(ev="finish"),
         dict(ev="setenv", n="prerm", k="ok"), dict(ev="finish")],
        # a sanity check that blocks the operation
        [dict(ev="opnew", m="install", fmt=["tc"], dom=["ta"]), dict(ev="setfail", t="tc", k="block"), dict(ev="finish"),
         dict(ev="setfail", t="tc", k="ok"), dict(ev="finish")],
        # operations that fail and are given up
        *[[dict(ev="opnew", m=m, fmt=["tc"], dom=["ta", "td"]), dict(ev="setfail", t="ta", k="runtime"), dict(ev="finish")]
          for m in MODES],
        [dict(ev="opnew", m="uninstall", fmt=["tc"], dom=[]), dict(ev="setfail", t="tc", k="block"), dict(ev="finish")],
    ]
    return eng, ops


def run(ck):
    use_repo()
    ck.rule = ("engine histories (construct in one of the three modes, register triggers, add / replace csets, read csets, run "
               "hooks in any order with trigger bodies that succeed or raise) and operation histories (finish() with retries "
               "under failing triggers and failing format / repository calls), chosen by TLC simulation, by a seeded random "
               "generator over a random trigger universe, and directed ones (default plugin triggers, class level hooks); "
               "non-trivial = distinct history with a hook run that enters two or more trigger bodies, or with a failed "
               "hook / finish() that is followed by another call; plus every get_writable_fsobj case of the export")
    ck.assumptions = [
        "cset sources do not raise and are acyclic; trigger bodies end by returning or by raising one of ValueError, "
        "RuntimeError, ModificationError, BlockModification, KeyboardInterrupt",
        "objects are named by identity in the order the (wrapped) cset sources return them; the engine's caches are read "
        "from preserved_csets._vals / csets._dicts[1]._vals",
        "bodies of the real default plugin triggers are stubbed (their effect on the file system is C18-C23's subject); "
        "their registration data is read from the classes",
        "operation level: fake package format / repository / lock objects; snakeoil's ForcedDepends is trusted to run "
        "stage_depends in order",
    ]
    scratch = mktmp("g01")
    w0 = World(mc_universe(), scratch)
    plug = plugin_universe(w0)
    uni_mc = merge_universe(mc_universe(), plug)
    uni_mc["usernames"] = ["u1"]

    if ck.replay_case:
        d = ck.replay_case["detail"]
        uni = d["universe"]
        w = World(uni, scratch)
        events = []
        if d["kind"] == "engine":
            run_engine_history(w, 0, d["history"], events)
        elif d["kind"] == "op":
            run_op_history(w, 0, d["history"], events)
        else:
            events.append(run_writable(w, 0, d["history"]))
        judge(ck, uni, events, {0: (d["kind"], d["history"])}, "Trace:replay")
        ck.count()
        ck.sample(d["history"])
        ck.nontriv("replay")
        ck.nontriv("replay2")
        return

    # ---- 1. TLC jobs that do not need the implementation: model checking, guards, simulation, export ----
    stepsE, stepsO = ck.pick(4, 6), ck.pick(5, 8)
    DE, DO = ck.pick(9, 12), ck.pick(7, 10)
    nE, nO = ck.pick(60, 1500), ck.pick(40, 800)
    jobs = {
        "mcE": dict(module="MergeEngine_MC", cfg_text=mc_cfg("SpecE", stepsE, 4, props=E_PROPS), workers=ck.pick(4, 8),
                    timeout=ck.pick(600, 3000)),
        "mcO": dict(module="MergeEngine_MC", cfg_text=mc_cfg("SpecO", stepsO, 4, props=O_PROPS), workers=ck.pick(2, 4),
                    timeout=ck.pick(600, 3000)),
        "simE": dict(module="MergeEngine_Sim", cfg_text=mc_cfg("SimSpecE", 1000, 6, props="INVARIANT Emit\n", more=f"  D = {DE}\n"),
                     simulate=f"num={nE}", depth=DE + 2, seed=seed() + 101, workers=1, timeout=ck.pick(600, 1800)),
        "simO": dict(module="MergeEngine_Sim", cfg_text=mc_cfg("SimSpecO", 1000, 6, props="INVARIANT Emit\n", more=f"  D = {DO}\n"),
                     simulate=f"num={nO}", depth=DO + 2, seed=seed() + 102, workers=1, timeout=ck.pick(600, 1800)),
    }
    for k, (sw, inv) in enumerate(GUARDS):
        jobs[f"guard{k}"] = dict(module="MergeEngine_MC", cfg_text=mc_cfg("SpecE", 4, 4, switches=sw, props=f"INVARIANT {inv}\n"),
                                 workers=1, timeout=ck.pick(600, 1800))
    results = {}

    def launch(name, delay):
        time.sleep(delay)  # tlc.run numbers its scratch directories: keep the starts apart
        kw = dict(jobs[name])
        return tlc.run(kw.pop("module"), **kw)

    with ThreadPoolExecutor(len(jobs) + 1) as ex:
        futs = {name: ex.submit(launch, name, 0.15 * k) for k, name in enumerate(jobs)}
        fexp = ex.submit(lambda: (time.sleep(0.15 * len(jobs)), tlc.export_cases("MergeEngine_Export", timeout=600))[1])
        for name, f in futs.items():
            results[name] = f.result()
        wcases, wres = fexp.result()
    ck.add_mc(f"MC:MergeEngine_MC SpecE MaxSteps={stepsE}", results["mcE"])
    ck.add_mc(f"MC:MergeEngine_MC SpecO MaxSteps={stepsO}", results["mcO"])
    ck.add_mc(f"Simulate:MergeEngine_Sim SimSpecE num={nE} depth={DE}", results["simE"])
    ck.add_mc(f"Simulate:MergeEngine_Sim SimSpecO num={nO} depth={DO}", results["simO"])
    ck.add_mc("Export:MergeEngine_Export", wres)
    for name in ("mcE", "mcO"):
        if results[name].violated:
            raise tlc.MachineryError(f"MergeEngine_MC {name}: model violates {results[name].violated}\n{results[name].out[-3000:]}")
    for k, (sw, inv) in enumerate(GUARDS):
        r = results[f"guard{k}"]
        ck.add_mc(f"MC:guard {sw}", r)
        if r.violated != inv:
            raise tlc.MachineryError(f"vacuity guard {sw}: expected TLC to violate {inv}, got {r.violated}\n{r.out[-1500:]}")
    ck.extra["vacuity_guards_refuted"] = [f"{sw} -> {inv}" for sw, inv in GUARDS]
    behE = [sim_to_hist(p[1]) for p in results["simE"].tagged("BEH")]
    behO = [sim_to_hist(p[1]) for p in results["simO"].tagged("BEH")]
    if len(behE) < nE // 2 or len(behO) < nO // 2:
        raise tlc.MachineryError(f"simulation produced only {len(behE)} / {len(behO)} histories\n{results['simE'].out[-1500:]}")

    # ---- 2. spec -> code: simulated and directed histories on the real objects ----
    dir_eng, dir_ops = directed(uni_mc)
    w = World(uni_mc, scratch)
    events, inputs = [], {}
    tid = 0
    for hist in dir_eng + behE:
        run_engine_history(w, tid, hist, events)
        inputs[tid] = ("engine", hist)
        tid += 1
    for hist in dir_ops + behO:
        run_op_history(w, tid, hist, events)
        inputs[tid] = ("op", hist)
        tid += 1
    for t in range(tid):
        ck.count()
        if interesting(events, t):
            ck.nontriv(("sim", repr(inputs[t][1])))
    ck.sample(dict(direction="spec->code", kind="engine", history=behE[0]))
    ck.sample(dict(direction="spec->code", kind="op", history=behO[0]))
    wevents = []
    for c in wcases:
        wevents.append(run_writable(w, tid, c))
        inputs[tid] = ("writable", c)
        ck.count()
        ck.nontriv(("writable", repr(sorted(c.items()))))
        tid += 1
    ck.sample(dict(direction="spec->code", kind="writable", case=wcases[0], observed=wevents[0]["obs"]))
    judge(ck, uni_mc, events + wevents, inputs, "Trace:simulated+directed histories, writable cases")

    # ---- 3. code -> spec: random histories over random universes ----
    r_ = rng(1)
    for u in range(ck.pick(1, 6)):
        uni = merge_universe(random_universe(r_, ck.pick(10, 12)), plug)
        w = World(uni, scratch)
        events, inputs = [], {}
        tid = 0
        for _ in range(ck.pick(120, 500)):
            hist = random_engine_history(r_, uni, r_.randint(6, ck.pick(16, 24)), plugins=r_.random() < 0.25)
            run_engine_history(w, tid, hist, events)
            inputs[tid] = ("engine", hist)
            tid += 1
        for _ in range(ck.pick(40, 200)):
            hist = random_op_history(r_, uni, r_.randint(1, 8))
            run_op_history(w, tid, hist, events)
            inputs[tid] = ("op", hist)
            tid += 1
        for t in range(tid):
            ck.count()
            if interesting(events, t):
                ck.nontriv(("rnd", u, repr(inputs[t][1])))
        if u == 0:
            ck.sample(dict(direction="code->spec", kind="engine", history=inputs[0][1]))
        judge(ck, uni, events, inputs, f"Trace:random universe {u}")
