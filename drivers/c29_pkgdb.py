"""C29 - package database updates are crash-consistent (vdb/repo_ops.py, vdb/ondisk.py,
binpkg/repo_ops.py, binpkg/repository.py).

MC          : PkgDb_MC models the directory-level protocols (tmp dir + populate + rename, rmtree in
              place, rename-away + rmtree, single-file tmp + rename, unlink) as processes over
              FsModel; every reachable state is a crash point; invariant = PkgDb!JudgeView says the view
              of a fresh reader is the old or the new one.  Families: "safe" (every install, binpkg,
              vdb uninstall with rename-away) must satisfy Consistent; "head" (rmtree in place) MUST
              violate NeverPartial (vacuity guard + design finding: a half-removed package is listed);
              "window" (replace via two renames) must violate Consistent and satisfy
              ConsistentOutsideWindow (the only bad states lie between the two renames).
spec -> code: PkgDb_Export enumerates the scenario shapes of that configuration space
              (repo x op x category-exists x bystander x stale leftovers); each is instantiated on the real
              repository operations: vdb.ondisk.tree(..).operations.{install,uninstall,replace} and
              binpkg.repository.tree(..).operations.{install,uninstall,replace} fed with real built
              packages loaded from a source vdb.
code -> spec: (a) the recorded syscalls of every operation are replayed through FsModel by FsTrace
              (Units: the package entry is absent/complete - old or new - after EVERY syscall, Frame: only
              the repository is touched, FinalState: model == real disk, so the recorder missed
              nothing); (b) the operation is re-executed with a power cut before every mutation (and
              inside the steps the recorder cannot see into: the tarball writer); after each cut a FRESH
              tree(location) lists the packages and loads their metadata, contents and environment;
              PkgDb_Trace judges that view with the same JudgeView (Partial / Neither / Mixed /
              Collateral) and the uninterrupted result with ApplyOp (Effect); (c) the operation is re-executed
              with an I/O error (EIO / ENOSPC) injected at every mutation and inside the tarball writer: the
              operation's OWN error handling runs, and the view the handled failure leaves behind is judged
              with the same clauses (a handler that deletes the live old package, a failed final rename that
              leaves the old entry hidden).  PkgDb_MC has the matching Fault / HandlerStep transitions
              (AbortedConsistent; the naive "unlink both names" handler and replace-without-rollback MUST fail).
Carve-outs  : binpkg replace of a different version (the repository legitimately keeps both files);
              crash = stop before a Python-level mutation, no fsync/reordering model.
"""
import hashlib
import os
import shutil

from pylib import fsjudge, fsrec, tlc
from pylib.common import mktmp, rng, use_repo

LEVEL = "fault_enumeration"
CAT = "dev-util"


# ---------------------------------------------------------------------------------------------
# steps the recorder cannot see into (child processes, C-level file objects): bracket them with
# snapshots and tell the active recorder what changed, as ordinary syscall events
# ---------------------------------------------------------------------------------------------
def active_recorder():
    rec = getattr(os.rename, "__self__", None)
    return rec if isinstance(rec, fsrec.Recorder) and rec.active else None


def _rm_any(path):
    try:
        st = fsrec._real["lstat"](path)
    except OSError:
        return
    import stat as statmod

    if statmod.S_ISDIR(st.st_mode):
        fsrec._real_rmtree(path)
    else:
        fsrec._real["unlink"](path)


def diff_events(rec, before, after):
    """Render the difference of two snapshots as recorder events (creations parents first,
    removals children first)."""
    evs = []
    k = rec.n_mut

    def ev(op, rp, **kw):
        d = dict(k=k, op=op, rp=rp, unseen=True)
        d.update(kw)
        evs.append(d)

    for p in sorted(before, key=lambda x: (-x.count("/"), x)):
        if p not in after or after[p]["type"] != before[p]["type"] or (after[p]["ino"] != before[p]["ino"]):
            ev("rmdir" if before[p]["type"] == "dir" else "unlink", p)
    for p in sorted(after, key=lambda x: (x.count("/"), x)):
        a, b = after[p], before.get(p)
        fresh = b is None or b["type"] != a["type"] or b["ino"] != a["ino"]
        if fresh:
            if a["type"] == "dir":
                ev("mkdir", p, obj=a)
            elif a["type"] == "file":
                rec._h += 1
                ev("open", p, h=rec._h, created=True, truncated=False, obj=a)
                ev("close", p, h=rec._h)
            elif a["type"] == "sym":
                ev("symlink", p, obj=a)
            elif a["type"] == "fifo":
                ev("mkfifo", p, obj=a)
            else:
                ev("mknod", p, obj=a)
            continue
        if a["type"] == "file" and (a["cid"] != b["cid"] or a["size"] != b["size"]):
            rec._h += 1
            ev("open", p, h=rec._h, created=False, truncated=False, obj=a)
            ev("write", p, h=rec._h, n=a["size"], cid=a["cid"], size=a["size"])
            ev("close", p, h=rec._h)
        if a["mode"] != b["mode"]:
            ev("chmod", p, mode=a["mode"])
        if (a["uid"], a["gid"]) != (b["uid"], b["gid"]):
            ev("chown", p, uid=a["uid"], gid=a["gid"])
        if a["type"] != "dir" and a["mtime"] != b["mtime"] and not (a["type"] == "file" and a["cid"] != b["cid"]):
            ev("utime", p, mtime=a["mtime"])
    return evs


class Unseen:
    """Patches owner.name so that each call is bracketed by snapshots.  `cut` = (j, frac): the j-th
    unseen call (1-based, counted over all Unseen objects sharing `counter`) is interrupted: only the
    first `frac` of what it created survives (the last surviving file is cut in half), then the
    power goes off."""

    def __init__(self, owner, name, counter, cut=None, fault=None):
        # fault = (j, frac, errno): like cut, but instead of the power going off the j-th call raises
        # OSError(errno) after having done part of its work; the caller's own error handling runs
        self.owner, self.name, self.counter, self.cut, self.fault = owner, name, counter, cut, fault
        self.orig = getattr(owner, name)

    def __enter__(self):
        setattr(self.owner, self.name, self._call)
        return self

    def __exit__(self, *a):
        setattr(self.owner, self.name, self.orig)
        return False

    def _call(self, *a, **kw):
        rec = active_recorder()
        if rec is None:
            return self.orig(*a, **kw)
        if rec.dead:
            raise fsrec.PowerCut("power is off")
        self.counter[0] += 1
        j = self.counter[0]
        before = fsrec.snapshot(rec.root)
        exc = None
        try:
            res = self.orig(*a, **kw)
        except Exception as e:  # noqa
            exc = e
        after = fsrec.snapshot(rec.root)
        part = self.cut if self.cut and self.cut[0] == j else self.fault if self.fault and self.fault[0] == j else None
        if part:
            created = [p for p in sorted(after, key=lambda x: (x.count("/"), x)) if p not in before]
            keep = created[: int(len(created) * part[1] + 0.5)]
            for p in reversed(created[len(keep):]):
                _rm_any(os.path.join(rec.root, p))
            files = [p for p in keep if after[p]["type"] == "file"]
            if files:
                fp = os.path.join(rec.root, files[-1])
                fsrec._real["truncate"](fp, after[files[-1]]["size"] // 2)
            where = dict(k=rec.n_mut, op="unseen:" + self.name, rp=(files[-1] if files else (created[0] if created else ".")))
            if part is self.fault:
                rec.events.extend(diff_events(rec, before, fsrec.snapshot(rec.root)))
                rec.events.append(dict(k=rec.n_mut, op="fault", rp=where["rp"], failed_op=where["op"]))
                raise OSError(part[2], os.strerror(part[2]), os.path.join(rec.root, where["rp"]))
            rec.cut_event = where
            rec.dead = True
            raise fsrec.PowerCut("power cut inside " + self.name)
        rec.events.extend(diff_events(rec, before, after))
        if exc is not None:
            raise exc
        return res


class Stack:
    def __init__(self, cms):
        self.cms = cms

    def __enter__(self):
        for c in self.cms:
            c.__enter__()

    def __exit__(self, *a):
        for c in reversed(self.cms):
            c.__exit__(*a)
        return False


def fresh(root, setup):
    if os.path.lexists(root):
        fsrec._real_rmtree(root)
    fsrec._real["mkdir"](root)
    setup(root)


def crash_scenario(tid, root, setup, op, reader, units=(), views=(), frame=(), unseen=lambda counter, cut, fault=None: [], max_cuts=None,
                   after_crash=None, faults=True):
    """One operation: recorded run (FsTrace events) + a replay per crash point + (faults) a replay per
    mutation with an I/O error injected there (EIO / ENOSPC alternating; also inside the unseen steps):
    the operation's own error handling runs and the view it leaves behind is judged like a crash view.
    Returns (fs_events, info); info['crashes'] = [dict(k, kind, at_op, at_path, view, extra)]."""
    fresh(root, setup)
    before = fsrec.snapshot(root)
    old_view = reader(root)
    counter = [0]
    with Stack(unseen(counter, None)):
        rec, _res, exc = fsrec.count_mutations(root, lambda: op(root))
    n_unseen = counter[0]
    after = fsrec.snapshot(root)
    new_view = reader(root)
    if exc is not None:
        # the operation fails even when nothing disturbs it: judged through its (missing) effect on the view
        return [], dict(n_mut=rec.n_mut, n_unseen=n_unseen, ops=[e["op"] for e in rec.events], old_view=old_view, new_view=new_view,
                        crashes=[], failed=f"{type(exc).__name__}: {exc}")
    if fsrec.snapshot(root) != after:
        raise tlc.MachineryError("the reader modifies the repository it inspects")
    u = units(before, after)
    fs_events = [fsjudge.init_event(tid, before, units=u, views=views, frame=frame)]
    sysev = fsjudge.sys_events(tid, rec.events)
    fs_events += sysev
    fs_events.append(fsjudge.final_event(tid, len(sysev) + 1, after, check_mtime=False))
    info = dict(n_mut=rec.n_mut, n_unseen=n_unseen, ops=[e["op"] for e in rec.events], old_view=old_view, new_view=new_view,
                rec_events=rec.events, before=before, after=after, crashes=[])
    ks = list(range(1, rec.n_mut + 1))
    if max_cuts and len(ks) > max_cuts:
        step = len(ks) / max_cuts
        # keep EVERY mutation that touches a visible name (no path component starting with "." - both listings skip
        # dot names: staging dirs/files, .update.* temp files) plus every rename; sample the work inside hidden names
        def visible(e):
            paths = [e["rp"]] + [e[f] for f in ("src", "dst") if f in e]
            return e["op"] == "rename" or any(not any(c.startswith(".") for c in q.split("/")) for q in paths)

        structural = {e["k"] for e in rec.events if e["op"] not in ("close", "fault") and visible(e)}
        ks = sorted({ks[int(j * step)] for j in range(max_cuts)} | {1, rec.n_mut} | structural)
    write_ks = {e["k"] for e in rec.events if e["op"] == "write"}
    plan = [("cut", k, False) for k in ks] + [("cut-half", k, True) for k in ks if k in write_ks and k % (7 if max_cuts else 2) == 0]
    plan += [("unseen", j, False) for j in range(1, n_unseen + 1)]
    for kind, k, half in plan:
        fresh(root, setup)
        counter = [0]
        if kind == "unseen":
            with Stack(unseen(counter, (k, 0.5))):
                r, done = fsrec.run_with_cut(root, lambda: op(root), 10 ** 9)
        else:
            with Stack(unseen(counter, None)):
                r, done = fsrec.run_with_cut(root, lambda: op(root), k, half=half)
        if done:
            raise tlc.MachineryError(f"replay {kind}@{k} was not interrupted (non-deterministic operation?)")
        ce = r.cut_event or {}
        c = dict(k=k, kind=kind, at_op=ce.get("op", "?"), at_path=ce.get("rp", "?"), view=reader(root))
        if after_crash:
            c["extra"] = after_crash(root, c)
        info["crashes"].append(c)
    if faults:
        import errno

        fplan = [("eio", k) for k in ks] + [("eio-unseen", j) for j in range(1, n_unseen + 1)]
        for kind, k in fplan:
            fresh(root, setup)
            counter = [0]
            err = errno.ENOSPC if k % 2 else errno.EIO
            if kind == "eio-unseen":
                with Stack(unseen(counter, None, (k, 0.5, errno.ENOSPC))):
                    r, exc2 = fsrec.run_with_fault(root, lambda: op(root), 10 ** 9)
            else:
                with Stack(unseen(counter, None)):
                    r, exc2 = fsrec.run_with_fault(root, lambda: op(root), k, err=err)
            fe = next((e for e in r.events if e["op"] == "fault"), None)
            if fe is None:
                raise tlc.MachineryError(f"replay {kind}@{k}: no fault was injected (non-deterministic operation?)")
            info["crashes"].append(dict(k=k, kind=kind, at_op=fe.get("failed_op", "?"), at_path=fe.get("rp", "?"), view=reader(root),
                                        raised=type(exc2).__name__ if exc2 is not None else "-"))
    return fs_events, info


def traces_parallel(ck, pool, own_module, own_events, fs_events):
    """Run <own>_Trace and FsTrace concurrently; returns (own verdicts, [(verdict, fs event)])."""
    f1 = pool.submit(tlc.trace_check, own_module, own_events, timeout=900)
    f2 = pool.submit(tlc.trace_check, "FsTrace", fs_events, timeout=1500) if fs_events else None
    v1, r1 = f1.result()
    ck.add_mc(f"Trace:{own_module}", r1)
    ck.traces += len({e.get("tid") for e in own_events})
    out = []
    if f2:
        v2, r2 = f2.result()
        ck.add_mc("Trace:FsTrace", r2)
        ck.traces += len({e.get("tid") for e in fs_events})
        idx = {(e["tid"], e["i"]): e for e in fs_events}
        for v in v2:
            e = idx[(v["tid"], v["i"])]
            if v["clause"].startswith("Model_"):
                raise tlc.MachineryError(f"FsModel cannot follow recorded syscall {e}")
            out.append((v, e))
    return v1, out


# ---------------------------------------------------------------------------------------------
# packages
# ---------------------------------------------------------------------------------------------
def write_src_pkg(srcdir, imgdir, cat, pn, ver, variant, r_):
    """A built package in vdb format (what an ebuild build leaves behind) + its image directory."""
    import bz2

    pf = f"{pn}-{ver}"
    d = os.path.join(srcdir, cat, pf)
    os.makedirs(d)
    words = ["alpha", "beta", "gamma", "delta", "x y", "zeta"]
    desc = f"{variant} {pn} " + " ".join(r_.choice(words) for _ in range(r_.randint(1, 3)))
    meta = dict(SLOT=r_.choice(["0", "1/2", "3"]), DESCRIPTION=desc, EAPI=r_.choice(["7", "8"]), KEYWORDS="amd64 ~x86",
                IUSE="a b", USE="a", HOMEPAGE="http://localhost/" + variant, LICENSE="GPL-2", DEPEND="", RDEPEND=r_.choice(["", "dev-libs/y", ">=dev-libs/z-1"]),
                CHOST="x86_64-pc-linux-gnu", CFLAGS="-O2", repository="gentoo", DEFINED_PHASES="install")
    for k_, v in meta.items():
        with open(os.path.join(d, k_), "w") as f:
            f.write(v + "\n")
    img = os.path.join(imgdir, variant, pf)
    os.makedirs(os.path.join(img, "usr", "share"))
    lines = []
    nfiles = r_.randint(1, 3)
    for n in range(nfiles):
        p = os.path.join(img, "usr", "share", f"{pn}-{n}")
        with open(p, "w") as f:
            f.write(f"{variant} payload {n} " + "z" * r_.randint(0, 3000))
        os.utime(p, (1700000000 + n, 1700000000 + n))
    with open(os.path.join(d, "CONTENTS"), "w") as f:
        f.write("dir /usr\n")
    with open(os.path.join(d, "environment.bz2"), "wb") as f:
        f.write(bz2.compress(f"export VARIANT={variant}\nexport PN={pn}\n".encode()))
    with open(os.path.join(d, pf + ".ebuild"), "w") as f:
        f.write(f"# {variant} ebuild of {pf}\nEAPI={meta['EAPI']}\n")
    return img


def load_src(srcdir, img_of):
    from pkgcore.fs.livefs import scan
    from pkgcore.package.mutated import MutatedPkg
    from pkgcore.vdb import ondisk

    out = {}
    for p in ondisk.tree(srcdir, disable_cache=True):
        img = img_of[p.cpvstr]
        out[p.cpvstr] = MutatedPkg(p, {"contents": scan(img, offset=img)})
    return out


def pkg_digest(p, core=False):
    """Everything a consumer of the repository reads of a package, as one digest (projection only).
    core=True: the part every repository format keeps of a package handed to install/replace."""
    h = hashlib.sha1()

    def add(label, fn):
        try:
            v = fn()
        except Exception as e:  # a reader that chokes on the entry is part of the view
            v = f"error:{type(e).__name__}"
        h.update(f"{label}={v!r};".encode())

    def contents():
        out = []
        for o in p.contents:
            out.append(("f" if o.is_reg else "d" if o.is_dir else "o", o.location, "%032x" % o.chksums["md5"] if o.is_reg else ""))
        return sorted(out)

    add("slot", lambda: str(p.fullslot))
    add("desc", lambda: str(p.description))
    add("eapi", lambda: str(p.eapi))
    add("keywords", lambda: sorted(p.keywords))
    add("use", lambda: sorted(p.use))
    add("rdepend", lambda: str(p.rdepend))
    add("contents", contents)
    add("env", lambda: hashlib.sha1(p.environment.bytes_fileobj().read()).hexdigest())
    add("ebuild", lambda: hashlib.sha1(p.ebuild.bytes_fileobj().read()).hexdigest())
    if not core:
        add("homepage", lambda: tuple(p.homepage))
        add("repo", lambda: str(p.source_repository))
        add("license", lambda: str(p.license))
        add("iuse", lambda: sorted(p.iuse))
    return h.hexdigest()[:16]


def read_view(kind, location):
    """A fresh repository object on the (possibly crashed) on-disk state -> [{cpv, dg}]."""
    from pkgcore.binpkg import repository as binrepo
    from pkgcore.vdb import ondisk

    try:
        repo = ondisk.tree(location, disable_cache=True) if kind == "vdb" else binrepo.tree(location)
        pkgs = sorted(repo, key=lambda p: p.cpvstr)
    except Exception as e:  # noqa
        return [dict(cpv="<listing>", dg=f"error:{type(e).__name__}")]
    return [dict(cpv=p.cpvstr, dg=pkg_digest(p), core=pkg_digest(p, core=True)) for p in pkgs]


class Dom:
    pm_tmpdir = "/nonexistent-pm-tmpdir"


def do_op(kind, location, op, oldpkg, newpkg):
    """The repository operation as the merge engine / pmaint drive it."""
    from pkgcore.binpkg import repository as binrepo
    from pkgcore.vdb import ondisk

    repo = ondisk.tree(location, disable_cache=True) if kind == "vdb" else binrepo.tree(location)
    ops = repo.operations
    if op == "install":
        o = ops.install(newpkg)
    elif op == "uninstall":
        old = [p for p in repo if p.cpvstr == oldpkg.cpvstr][0]
        o = ops.uninstall(old)
    else:
        old = [p for p in repo if p.cpvstr == oldpkg.cpvstr][0]
        o = ops.replace(old, newpkg)
    if kind == "vdb":
        if op != "uninstall":
            o.add_data(Dom)
        if op != "install":
            o.remove_data()
    o.finish()


def role_of(kind, at_op, at_path, oldpf, newpf):
    """Projection of a crash point onto the protocol step it interrupts."""
    ext = ".tbz2" if kind == "bin" else ""
    base = os.path.basename(at_path)
    parent = os.path.basename(os.path.dirname(at_path))
    if at_op == "rename" and newpf and base == newpf + ext:
        return "install_new"
    if at_op == "rename" and base.startswith(".tmp.") and oldpf and oldpf in base:
        return "hide_old"
    if base.startswith(".tmp.") or parent.startswith(".tmp."):
        return "staging"
    if oldpf and (base == oldpf + ext or parent == oldpf):
        return "old_entry"
    if base in ("Packages", ".update.Packages"):
        return "cache"
    if base == CAT:
        return "category"
    if base in ("vdb", "bin"):
        return "repo_root"
    return "other"


def unit_of(snap, rel, kind):
    """FsTrace unit for a package entry (vdb: directory of files, binpkg: one file)."""
    if kind == "bin":
        return dict(root=rel, files=[dict(path=rel, cid=snap[rel]["cid"])])
    return dict(root=rel, files=[dict(path=p, cid=o["cid"]) for p, o in sorted(snap.items())
                                 if p.startswith(rel + "/") and o["type"] == "file"])


def run(ck):
    use_repo()
    import logging
    from concurrent.futures import ThreadPoolExecutor

    logging.getLogger("pkgcore").setLevel(logging.CRITICAL)  # injected I/O errors are logged by update_mtime()

    from pkgcore.binpkg import repo_ops as bin_ops

    ck.rule = ("scenario shapes exported by TLC (repo x op x category-exists x bystander x stale leftovers) instantiated with random built "
               "packages; EVERY mutation of the operation is a crash point (+ half writes, + a cut inside the tarball writer); "
               "non-trivial = distinct (shape, crash point) whose operation changes the fresh reader's view")
    ck.exhaustive = not ck.quick and not ck.replay_case  # every exported shape x every mutation (+ half of every second write)
    ck.assumptions = ["a power cut is a stop before a Python-level mutation (or after half a write); no fsync/reordering model",
                      "the tarball writer (bz2 stream / child process) is observed through before/after snapshots",
                      "binpkg replace of a different version is carved out (both files legitimately stay)"]

    # ---- design-level model checking (runs in the background while the real code is exercised) ----
    def mc(fam, handler, rollback, invs):
        return tlc.run("PkgDb_MC", cfg_text=f'SPECIFICATION Spec\nCONSTANTS\n Family = "{fam}"\n IOFaults = TRUE\n Handler = "{handler}"\n'
                       f' Rollback = {rollback}\n' + "".join(f"INVARIANT {i}\n" for i in invs), timeout=600, workers=1)

    import time

    t_ph = [time.time()]

    def _phase(name):
        ck.extra.setdefault("phase_s", {})[name] = round(time.time() - t_ph[0], 1)
        t_ph[0] = time.time()

    pool = ThreadPoolExecutor(6)
    mc_jobs = [
        ("MC:PkgDb safe (install, binpkg, vdb uninstall via rename-away) + I/O errors", ("safe", "tmp", "TRUE", ["Consistent", "AbortedConsistent", "NoError", "Completes", "NonVacuous"]), None),
        ("MC:PkgDb head rmtree in place (must violate NeverPartial)", ("head", "tmp", "TRUE", ["NeverPartial"]), "NeverPartial"),
        ("MC:PkgDb replace via two renames (must violate Consistent)", ("window", "tmp", "TRUE", ["Consistent"]), "Consistent"),
        ("MC:PkgDb replace via two renames + rollback: only the window is bad, handled failures end old-or-new",
         ("window", "tmp", "TRUE", ["ConsistentOutsideWindow", "AbortedConsistent", "NeverPartial", "NoCollateral", "NoError", "Completes"]), None),
        ("MC:PkgDb binpkg handler that also unlinks the final name (must violate AbortedConsistent)", ("safe", "both", "TRUE", ["AbortedConsistent"]), "AbortedConsistent"),
        ("MC:PkgDb replace without rollback: failed move-in leaves neither (must violate AbortedConsistent)", ("window", "tmp", "FALSE", ["AbortedConsistent"]), "AbortedConsistent"),
    ]
    futs = [(label, want, pool.submit(mc, *args)) for label, args, want in mc_jobs]

    shapes = ck.export("PkgDb_Export")
    _phase("export")
    if not shapes:
        raise tlc.MachineryError("PkgDb_Export produced no scenario shapes")

    def effective(s):  # shapes that differ only in an irrelevant flag collapse
        cat = s["cat"] or s["by"] or s["stale"] or s["op"] != "install"
        return (s["repo"], s["op"], cat, s["by"], s["stale"])

    uniq = {}
    for s in sorted(shapes, key=lambda s: (s["repo"], s["op"], s["cat"], s["by"], s["stale"])):
        uniq.setdefault(effective(s), dict(s, cat=effective(s)[2]))
    shapes = list(uniq.values())
    r_ = rng(29)
    if ck.replay_case:
        d = ck.replay_case["detail"]
        shapes = [s for s in shapes if all(s[f] == d["shape"][f] for f in ("repo", "op", "cat", "by", "stale"))]
        rounds = 1
    elif ck.quick:
        want = [("vdb", "install", False, False, False), ("vdb", "uninstall", True, True, True), ("vdb", "replace_same", True, False, True),
                ("vdb", "replace_diff", True, True, False), ("bin", "install", False, False, False), ("bin", "replace_same", True, True, True),
                ("bin", "uninstall", True, False, False)]
        shapes = [uniq[w] for w in want]
        rounds = 1
    else:
        rounds = 1

    work = mktmp("c29")
    fs_events, tr_events, meta = [], [], {}
    tid = 0
    for rnd in range(rounds):
        for shape in shapes:
            kind, op = shape["repo"], shape["op"]
            sdir = os.path.join(work, f"s{tid}")
            os.makedirs(sdir)
            newver = "2.0" if op == "replace_diff" else "1.0"
            imgs = {}
            imgs[f"{CAT}/foo-1.0"] = write_src_pkg(os.path.join(sdir, "src-old"), os.path.join(sdir, "img"), CAT, "foo", "1.0", "old", r_)
            img_new = write_src_pkg(os.path.join(sdir, "src-new"), os.path.join(sdir, "img"), CAT, "foo", newver, "new", r_)
            imgs[f"{CAT}/bar-3.1"] = write_src_pkg(os.path.join(sdir, "src-old"), os.path.join(sdir, "img"), CAT, "bar", "3.1", "old", r_)
            old_pkgs = load_src(os.path.join(sdir, "src-old"), imgs)
            new_pkgs = load_src(os.path.join(sdir, "src-new"), {f"{CAT}/foo-{newver}": img_new})
            oldpkg, newpkg, bypkg = old_pkgs[f"{CAT}/foo-1.0"], new_pkgs[f"{CAT}/foo-{newver}"], old_pkgs[f"{CAT}/bar-3.1"]
            oldpf, newpf = ("foo-1.0" if op != "install" else None), (f"foo-{newver}" if op != "uninstall" else None)
            ext = ".tbz2" if kind == "bin" else ""
            # the old state is produced by the real operations, once, and copied for every replay
            tmpl = os.path.join(sdir, "template")
            loc_t = os.path.join(tmpl, kind)
            os.makedirs(loc_t)
            if op != "install":
                do_op(kind, loc_t, "install", None, oldpkg)
            if shape["by"]:
                do_op(kind, loc_t, "install", None, bypkg)
            if shape["cat"] or shape["stale"]:
                os.makedirs(os.path.join(loc_t, CAT), exist_ok=True)
            if shape["stale"]:
                if kind == "vdb":
                    if newpf:
                        os.makedirs(os.path.join(loc_t, CAT, f".tmp.{newpf}"))
                        with open(os.path.join(loc_t, CAT, f".tmp.{newpf}", "SLOT"), "w") as f:
                            f.write("stale\n")
                        with open(os.path.join(loc_t, CAT, f".tmp.{newpf}", "JUNK"), "w") as f:
                            f.write("stale\n")
                    if oldpf:
                        os.makedirs(os.path.join(loc_t, CAT, f".tmp.{oldpf}.old"))
                        with open(os.path.join(loc_t, CAT, f".tmp.{oldpf}.old", "CONTENTS"), "w") as f:
                            f.write("stale\n")
                else:
                    with open(os.path.join(loc_t, CAT, f".tmp.{os.getpid()}.{newpf or oldpf}.tbz2"), "wb") as f:
                        f.write(b"stale junk")
            if kind == "bin":
                # age the old files: the Packages cache validates entries by whole-second mtime, a rebuild in the
                # very second of the previous build is outside the domain
                from pkgcore.binpkg import repository as binrepo

                for n in os.listdir(os.path.join(loc_t, CAT)) if os.path.isdir(os.path.join(loc_t, CAT)) else []:
                    if n.endswith(".tbz2") and not n.startswith(".tmp."):
                        os.utime(os.path.join(loc_t, CAT, n), (1700000000, 1700000000))
                rp = binrepo.tree(loc_t)
                for p in rp:
                    rp._get_metadata(p, force=True)
                rp.cache.commit(force=True)

            def setup(root, tmpl=tmpl):
                shutil.copytree(tmpl, root, symlinks=True, dirs_exist_ok=True)

            def op_fn(root, kind=kind, op=op, oldpkg=oldpkg, newpkg=newpkg):
                do_op(kind, os.path.join(root, kind), op, oldpkg, newpkg)

            def reader(root, kind=kind):
                return read_view(kind, os.path.join(root, kind))

            old_rel = f"{kind}/{CAT}/{oldpf}{ext}" if oldpf else None
            new_rel = f"{kind}/{CAT}/{newpf}{ext}" if newpf else None
            by_rel = f"{kind}/{CAT}/bar-3.1{ext}" if shape["by"] else None

            def units(before, after, old_rel=old_rel, new_rel=new_rel, by_rel=by_rel, kind=kind):
                u = []
                if old_rel:
                    u.append(unit_of(before, old_rel, kind))
                if new_rel:
                    u.append(unit_of(after, new_rel, kind))
                if by_rel:
                    u.append(unit_of(before, by_rel, kind))
                return u

            # the unit vectors the property allows: the old state and the new state
            if op == "install":
                views = [["absent"], ["complete"]]
            elif op == "uninstall":
                views = [["complete"], ["absent"]]
            elif op == "replace_same":
                views = [["complete", "partial"], ["partial", "complete"]]
            else:
                views = [["complete", "absent"], ["absent", "complete"]]
            if by_rel:
                views = [v + ["complete"] for v in views]

            def unseen(counter, cut, fault=None):
                return [Unseen(bin_ops.tar, "write_set", counter, cut, fault)]

            root = os.path.join(sdir, "root")
            evs, info = crash_scenario(tid, root, setup, op_fn, reader, units=units, views=views, frame=[kind],
                                       unseen=unseen, max_cuts=ck.pick(12, None))
            fs_events += evs
            srccore = pkg_digest(newpkg, core=True) if newpf else "-"
            base = dict(op=op, oldcpv=f"{CAT}/{oldpf}" if oldpf else "-", newcpv=f"{CAT}/{newpf}" if newpf else "-", srccore=srccore,
                        old=info["old_view"], new=info["new_view"])
            tr_events.append(dict(base, tid=tid, i=0, ev="done", view=[]))
            for n, c in enumerate(info["crashes"], 1):
                tr_events.append(dict(base, tid=tid, i=n, ev="fault" if c["kind"].startswith("eio") else "crash", view=c["view"]))
                ck.count()
                if info["old_view"] != info["new_view"]:
                    ck.nontriv((effective(shape), rnd, c["kind"], c["k"]))
            meta[tid] = dict(shape=shape, info=info, oldpf=oldpf, newpf=newpf, kind=kind, op=op)
            if tid < 3:
                ck.sample(dict(shape=shape, syscalls=len(info["ops"]), crash_points=len(info["crashes"]), old_view=info["old_view"],
                               new_view=info["new_view"]))
            ck.extra["crash_points"] = ck.extra.get("crash_points", 0) + len(info["crashes"])
            ck.extra["scenarios"] = ck.extra.get("scenarios", 0) + 1
            tid += 1
            shutil.rmtree(os.path.join(sdir, "root"), ignore_errors=True)

    _phase("scenarios")
    # ---- judge: reader views (PkgDb_Trace) ----
    def detail_of(m, c=None, ev=None):
        d = dict(shape=m["shape"], op=f"{m['kind']}.{m['op']}")
        if c is not None:
            d.update(kind=c["kind"], k=c["k"], at_op=c["at_op"], at_path=c["at_path"],
                     at_role=role_of(m["kind"], c["at_op"], c["at_path"], m["oldpf"], m["newpf"]), view=c["view"],
                     old_view=m["info"]["old_view"], new_view=m["info"]["new_view"])
        if ev is not None:
            p = "/".join(ev.get("dst") or ev.get("p") or [])
            d.update(event=ev.get("ev"), at_op=ev.get("op", ev.get("ev")), at_path=p, k=ev.get("k"),
                     at_role=role_of(m["kind"], ev.get("op", ""), p, m["oldpf"], m["newpf"]))
        return d

    own_verdicts, fs_verdicts = traces_parallel(ck, pool, "PkgDb_Trace", tr_events, fs_events)
    for v in own_verdicts:
        m = meta[v["tid"]]
        if v["i"] == 0:
            ck.violation(v["clause"], dict(detail_of(m), old_view=m["info"]["old_view"], new_view=m["info"]["new_view"],
                                           failed=m["info"].get("failed", "")))
        else:
            ck.violation(v["clause"], detail_of(m, c=m["info"]["crashes"][v["i"] - 1]))
    # ---- judge: recorded syscalls through FsModel (FsTrace) ----
    for v, e in fs_verdicts:
        ck.violation(v["clause"], detail_of(meta[e["tid"]], ev=e))

    _phase("traces")
    # ---- collect the design-level results ----
    for label, want, fut in futs:
        res = fut.result()
        ck.add_mc(label, res)
        if res.violated != want:
            raise tlc.MachineryError(f"{label}: expected {want or 'no violation'}, TLC reports {res.violated}\n{res.out[-2500:]}")
    pool.shutdown()
    _phase("mc_wait")
