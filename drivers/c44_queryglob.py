"""C44 — query strings with * globs select exactly the packages they describe (util/parserestrict.py).

MC          : QueryGlob_MC  — glob matching as a position-set machine agrees with the recursive definition on
                              every prefix of every subject (all patterns/subjects over {a,b,-,*} up to the bound);
              QueryGlob_MCQ — over the whole bounded query space x package universe: parse(render(q)) = q,
                              plain atoms select what atoms match, generalising never loses a package;
              GlsaVer_MC    — the PMS version order used for the operators is a total preorder.
spec -> code: QueryGlob_Export enumerates the universe and every query text of the factored space
              (all pairs of name patterns; slot x sub-slot patterns; operator x version x body form x slot x repo);
              each text is given to the real parse_match() and the restriction evaluated on every package.
code -> spec: seeded random query texts (grammar pieces + noise, incl. text outside the grammar) against random
              package universes.
Both are judged by QueryGlob_Trace, which parses the TEXT itself (ParseQ) and decides
reject / query / unspecified; clauses RejectBlocker, Accept, Extra_<field>, Missing.

Carve-outs (ParseQ answers "unspec": counted, not judged):
  * text outside  [op][cat/]pkg[-ver][:slot[/sub]][::repo]  with names over letters and '-', slots over
    letters/digits/._ , one '*' at a time ('**' is documented as disallowed);
  * category-less query with a version operator and a glob (documented: "cannot do prefix glob matches with
    version ops" / "atom syntax where the category can be dropped");
  * a revision next to a glob (parse_globbed_version: "limited version restrictions");
  * '=' with a trailing '*' version glob (C04's subject), '~' with a revision;
  * versions with a second spelling of equal value (leading zeros, '_alpha0': C01's subject).
"""
import json
import os

from pylib import tlc
from pylib.common import mktmp, rng, use_repo

INV = ("INVARIANT AgreesWithDefinition\nINVARIANT LiteralIsEquality\nINVARIANT StarMatchesAll\nINVARIANT PrefixSuffix\n")
INVQ = "INVARIANT RoundTrip\nINVARIANT PlainAtomLaw\nINVARIANT BlockersRejected\n"
INVQ2 = "INVARIANT Generalise\nINVARIANT OpsPartition\n"  # thorough only
INVV = ("INVARIANT AllPlain\nINVARIANT Reflexive\nINVARIANT Antisymmetric\nINVARIANT Transitive\nINVARIANT EqualIsSame\n"
        "INVARIANT ParseInvertsRender\nINVARIANT OpsAgree\n")


class _Repo:
    def __init__(self, repo_id):
        self.repo_id = repo_id


class Pkg:
    """The attributes package restrictions read, taken from a real VersionedCPV."""

    def __init__(self, cpv_mod, d):
        c = cpv_mod.VersionedCPV(f"{d['cat']}/{d['pkg']}-{d['ver']}")
        for a in ("category", "package", "version", "revision", "fullver", "key", "cpvstr"):
            setattr(self, a, getattr(c, a))
        self.slot, self.subslot, self.repo = d["slot"], d["sub"], _Repo(d["repo"])
        self.use, self.iuse, self.iuse_stripped = frozenset(), frozenset(), frozenset()
        self.d = d

    def __repr__(self):
        d = self.d
        return f"{d['cat']}/{d['pkg']}-{d['ver']}:{d['slot']}/{d['sub']}::{d['repo']}"


def observe(parserestrict, text, pkgs):
    try:
        r = parserestrict.parse_match(text)
    except parserestrict.ParseError as e:
        return True, str(e)[:120], [False] * len(pkgs)
    return False, "", [bool(r.match(p)) for p in pkgs]


def universe_event(tid, udicts):
    return dict(tid=tid, i=0, ev="universe", pkgs=[{k: list(v) for k, v in d.items()} for d in udicts])


# ---------------------------------------------------------------- random generation (inputs only)
NAMES = ["a", "ab", "ba", "b-a", "a-b", "abc", "c", "ca-b"]
VERS = ["1", "1.2", "1.2-r1", "1.10", "2", "2a", "1.2_alpha", "1.2_rc1", "1.2_p1", "0.9", "3.1.4", "1.2-r3", "10", "2_beta2_p1"]
SLOTS = ["0", "1", "1.2", "12", "a", "a_b", "2.0"]
REPOS = ["r", "s", "gentoo"]


def rand_universe(r_):
    n = r_.randint(8, 20)
    return [dict(cat=r_.choice(NAMES), pkg=r_.choice(NAMES), ver=r_.choice(VERS), slot=r_.choice(SLOTS),
                 sub=r_.choice(SLOTS), repo=r_.choice(REPOS)) for _ in range(n)]


def rand_pat(r_, pool, alphabet):
    base = r_.choice(pool)
    k = r_.random()
    if k < 0.3:
        return base
    if k < 0.4:
        return "*"
    s = list(base)
    for _ in range(r_.randint(1, 2)):
        op = r_.random()
        pos = r_.randint(0, len(s))
        if op < 0.5:  # replace a run by *
            end = r_.randint(pos, len(s))
            s[pos:end] = ["*"]
        elif op < 0.8:
            s.insert(pos, "*")
        else:
            s.insert(pos, r_.choice(alphabet))
    return "".join(s)


def rand_query(r_, uni):
    d = r_.choice(uni)
    out = ""
    op = r_.choice(["", "", "", "<", "<=", "=", "~", ">=", ">"])
    out += op
    hascat = r_.random() < (0.8 if op else 0.6)
    if hascat:
        out += rand_pat(r_, [d["cat"]] + NAMES, "ab-") + "/"
    out += rand_pat(r_, [d["pkg"]] + NAMES, "ab-") if hascat or not op or r_.random() < 0.1 else r_.choice([d["pkg"]] + NAMES)
    if op or r_.random() < 0.03:
        v = r_.choice([d["ver"]] + VERS)
        if "*" in out and r_.random() < 0.9:
            v = v.split("-")[0]
        out += "-" + v
    if r_.random() < 0.45:
        out += ":" + rand_pat(r_, [d["slot"]] + SLOTS, "12.")
        if r_.random() < 0.5:
            out += "/" + rand_pat(r_, [d["sub"]] + SLOTS, "12.")
    if r_.random() < 0.3:
        out += "::" + r_.choice([d["repo"]] + REPOS)
    if r_.random() < 0.08:  # noise: may leave the grammar (the judge decides)
        pos = r_.randint(0, len(out))
        out = out[:pos] + r_.choice("!*/:-=<~.1a") + out[pos:]
    return out


def run(ck):
    use_repo()
    from pkgcore.ebuild import cpv as cpv_mod
    from pkgcore.util import parserestrict

    ck.rule = ("query texts enumerated by TLC (factored space) and seeded random texts, each parsed by the real parse_match and "
               "evaluated on every package of the universe; non-trivial = distinct in-grammar query text (judged 'query' or "
               "'reject' by the trace spec) -- texts judged 'unspec' are counted in extra.unspecified, not as non-trivial")
    ck.assumptions = [
        "package objects expose category/package/version/revision/fullver/slot/subslot/repo.repo_id of a real VersionedCPV",
        "names over lower-case letters and '-', slots over letters/digits/._ ; versions with a single spelling (C01 covers the rest)",
        "glob = '*' only, matched against the whole field",
    ]
    size = ck.pick(1, 2)

    events, meta = [], {}  # meta: tid -> (universe dicts, package objects)

    def record(udicts, texts):
        pkgs = [Pkg(cpv_mod, d) for d in udicts]
        events.append(universe_event(len(events), udicts))
        first = len(events)
        for text in texts:
            raised, err, sel = observe(parserestrict, text, pkgs)
            meta[len(events)] = (udicts, pkgs)
            events.append(dict(tid=len(events), i=0, ev="query", text=list(text), raised=raised, err=err, sel=sel))
            ck.count()
        return events[first:]

    def judge(label):
        verdicts = ck.trace("QueryGlob_Trace", events, label=label, timeout=ck.pick(300, 2400))
        for v in verdicts:
            e = events[v["tid"]]
            c = v["clause"]
            if c == "OutsideDomain":
                raise tlc.MachineryError(f"generated universe/event leaves the domain: {e}")
            text = "".join(e["text"])
            if c.startswith("~"):
                ck.extra[c[1:]] = ck.extra.get(c[1:], 0) + 1
                if c != "~unspec":
                    ck.nontriv(text)
                continue
            udicts, pkgs = meta[v["tid"]]
            sel = [repr(p) for p, s in zip(pkgs, e["sel"]) if s]
            ck.violation(c, dict(text=text, raised=e["raised"], error=e["err"], selected=sel, universe=udicts))

    if ck.replay_case:
        d = ck.replay_case["detail"]
        ev = record(d["universe"], [d["text"]])
        judge("Trace:replay")
        ck.sample(dict(text=d["text"], raised=ev[0]["raised"]))
        ck.nontriv("replay-a")
        ck.nontriv("replay-b")
        return

    # 1. the design
    if not ck.quick:  # (the quick tier of C45 runs the small instance of this model)
        ck.mc("GlsaVer_MC", cfg_text="SPECIFICATION Spec\nCONSTANT Level = 2\n" + INVV, workers=4, timeout=1500,
              label="MC:GlsaVer_MC Level=2 (PMS version order)")
    mp, ms = ck.pick((3, 4), (4, 5))
    ck.mc("QueryGlob_MC", cfg_text=f"SPECIFICATION Spec\nCONSTANTS MaxPat = {mp}\n MaxSubj = {ms}\n" + INV, workers=4,
          timeout=ck.pick(200, 1500), label=f"MC:QueryGlob_MC MaxPat={mp} MaxSubj={ms}")
    # 2. laws of the query space; the same run writes the case file (QueryGlob_MCQ extends QueryGlob_Export)
    out = os.path.join(mktmp("export"), "c44-cases.ndjson")
    res = tlc.run("QueryGlob_MCQ", cfg_text=f"SPECIFICATION Spec\nCONSTANT Size = {size}\n" + INVQ + ck.pick("", INVQ2), workers=4,
                  timeout=ck.pick(200, 2000), env={"OUT": out}, allow_violation=False)
    ck.add_mc(f"MC+Export:QueryGlob_MCQ Size={size}", res)
    with open(out) as f:
        cases = [json.loads(line) for line in f if line.strip()]
    ck.exhaustive = False
    # 3. spec -> code
    udicts = sorted(({k: "".join(c[k]) for k in ("cat", "pkg", "ver", "slot", "sub", "repo")} for c in cases if c["kind"] == "pkg"),
                    key=lambda d: sorted(d.items()))
    texts = sorted("".join(c["text"]) for c in cases if c["kind"] == "query")
    if len(udicts) < 20 or len(texts) < 500:
        raise tlc.MachineryError(f"export too small: {len(udicts)} packages, {len(texts)} queries")
    ev = record(udicts, texts)
    k = next(k for k, e in enumerate(ev) if sum(e["sel"]) > 1 and "*" in e["text"] and ":" in e["text"])
    ck.sample(dict(direction="spec->code", text="".join(ev[k]["text"]), selected=sum(ev[k]["sel"]), of=len(udicts)))
    # 4. code -> spec
    r_ = rng(44)
    for u in range(ck.pick(6, 40)):
        uni = rand_universe(r_)
        qs = sorted({rand_query(r_, uni) for _ in range(ck.pick(200, 500))})
        ev = record(uni, qs)
        if u == 0:
            k = next((k for k, e in enumerate(ev) if any(e["sel"]) and "*" in e["text"]), 0)
            ck.sample(dict(direction="code->spec", text="".join(ev[k]["text"]), selected=sum(ev[k]["sel"]), of=len(uni)))
    judge("Trace:exported+random queries")
    if ck.extra.get("query", 0) < 500 or ck.extra.get("reject", 0) < 5:
        raise tlc.MachineryError(f"too few judged queries: {ck.extra}")
