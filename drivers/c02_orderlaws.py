"""C02 — equality, ordering and hashing of package versions (CPV objects) and atoms agree.

Spec        : specs/OrderLaws.tla — the clauses over the observable relations of a pair
              (eq, ne, lt, le, gt, ge, hash-equal), of the mirrored pair, of triples, and of what
              sorted() / set() / dict lookups do.  WHICH objects are equal is not prescribed.
Laws        : OrderLaws_Laws — a reference model (equality on a spelling-free key, hash of the key,
              lexicographic order with the PMS version order of Version.tla) breaks no clause on any
              pair / triple of the universes; hashing the spelling or an order that ignores a key
              attribute does (non-vacuity).
MC          : OrderLaws_MC — a hash set and a sorted list fed with the objects of a group in every
              order: with relations satisfying the clauses the containers agree with == (SetAgrees,
              FindsAll, SortedOK, ClassesTogether); negative control: with a hash of the spelling
              TLC must report SetAgrees violated.
spec -> code: OrderLaws_Export enumerates universes ("stars": a base object, every one-attribute
              variant incl. respellings 1.0/1.00/1.0-r0/01.0, _alpha/_alpha0, -r1/-r01, reversed USE
              deps, !/!!, slot, sub-slot, slot operator, repo, USE, negate_vers; thorough: also
              two-attribute variants over many bases) and "name universes" (every category x
              package combination as CPVs and atoms, every slot x sub-slot x repo combination)
              over a name family in which one name is a prefix of another continued by a
              character sorting below / above the separators "/", ":", "-" (cat, cat-x, cat+x,
              cat.x, cat0 ...), so that an operator comparing a concatenated string disagrees with
              one comparing the components; the driver builds the real objects and observes ALL
              ordered pairs, sorted(), set(), dict lookups.
code -> spec: seeded random groups of CPVs / atoms (random PMS versions of the C01 generator and
              their mutations, random attributes) observed the same way.
Judge       : OrderLaws_Trace (clauses Eq_ne, Eq_hash, Eq_not_lt, Eq_not_gt, Neq_ordered, Le_def,
              Ge_def, Sym_eq, Sym_ne, Converse_lt, Converse_le, Reflexive, Trans_lt, Trans_eq,
              Cong_lt_left, Cong_lt_right, Sort_ordered, Set_size, Dict_finds, NoRaise).

Domain / carve-outs:
  * a group holds objects of one kind: versioned CPVs, unversioned CPVs, or atoms (comparing a
    versioned with an unversioned CPV, or a CPV with an atom, is outside "package versions" /
    "atoms" and is not generated);
  * atoms are built with the default EAPI; USE deps are syntactically valid, one entry per flag;
  * hash equality is observed inside one process (PYTHONHASHSEED fixed by ./check).
"""
from pylib import tlc
from pylib.common import rng, use_repo

from drivers.c01_version import gen_version, mutate, render

# Name family (see OrderLaws_Univ): a plain name, an unrelated one, and the plain name continued by
# characters sorting below ("+", "-", ".") and above ("0") the separators "/", ":", "-", so that
# comparing a concatenated string ("cat/pkg", cpvstr, "slot/subslot") differs from comparing the parts.
CATS = {1: "cat", 2: "dog", 3: "cat-x", 4: "cat+x", 5: "cat.x", 6: "cat0"}
PKGS = {1: "pkg", 2: "qux", 3: "pkg-x", 4: "pkg+", 5: "pkg0"}
SLOTS = {1: "0", 2: "1", 3: "0.1"}
SUBS = {1: "1.1", 2: "2", 3: "1.1-a"}
REPOS = {1: "gentoo", 2: "overlay", 3: "gentoo-x"}
USES = {1: ["x"], 2: ["-x"], 3: ["x", "y"], 4: ["x", "-y"], 5: ["x?", "!y=", "z(+)"]}
OPS = {0: "", 1: "=", 2: "~", 3: ">=", 4: "<", 5: "=*"}
BLOCKS = {0: "", 1: "!", 2: "!!"}
RELS = ("eq", "ne", "lt", "le", "gt", "ge")


def thing_text(t, vtext):
    """pkgcore syntax of a thing (fam 1: CPV string, fam 2: atom string)."""
    cp = f"{CATS[t['cat']]}/{PKGS[t['pkg']]}"
    if t["fam"] == 1:
        return cp + ("-" + vtext if t["op"] else "")
    op = OPS[t["op"]]
    s = BLOCKS[t["blocks"]] + ("=" if op == "=*" else op) + cp
    if op:
        s += "-" + vtext + ("*" if op == "=*" else "")
    if t["slot"]:
        s += ":" + SLOTS[t["slot"]]
        if t["sub"]:
            s += "/" + SUBS[t["sub"]]
        if t["sop"] == 1:
            s += "="
    elif t["sop"]:
        s += ":=" if t["sop"] == 1 else ":*"
    if t["repo"]:
        s += "::" + REPOS[t["repo"]]
    if t["use"]:
        u = USES[t["use"]]
        s += "[" + ",".join(reversed(u) if t["perm"] else u) + "]"
    return s


class Builder:
    def __init__(self):
        from pkgcore.ebuild import atom, cpv

        self.atom, self.cpv = atom.atom, cpv

    def build(self, t, vtext):
        s = thing_text(t, vtext)
        if t["fam"] == 1:
            return s, (self.cpv.VersionedCPV(s) if t["op"] else self.cpv.UnversionedCPV(s))
        if t["neg"]:
            return s + " (negate_vers)", self.atom(s, negate_vers=True)
        return s, self.atom(s)


def observe(objs):
    """All seven relations of every ordered pair, plus the containers; no judgement here."""
    n = len(objs)
    ev = {k: [[False] * n for _ in range(n)] for k in RELS + ("heq", "bad", "found")}
    notes = {}
    hs = []
    for o in objs:
        try:
            hs.append(hash(o))
        except Exception as e:
            hs.append(e)
    for x in range(n):
        a = objs[x]
        for y in range(n):
            b = objs[y]
            try:
                if isinstance(hs[x], Exception):
                    raise hs[x]
                if isinstance(hs[y], Exception):
                    raise hs[y]
                ev["heq"][x][y] = hs[x] == hs[y]
                ev["eq"][x][y] = bool(a == b)
                ev["ne"][x][y] = bool(a != b)
                ev["lt"][x][y] = bool(a < b)
                ev["le"][x][y] = bool(a <= b)
                ev["gt"][x][y] = bool(a > b)
                ev["ge"][x][y] = bool(a >= b)
            except Exception as e:
                ev["bad"][x][y] = True
                notes[(x, y)] = f"{type(e).__name__}: {e}"[:160]
    ev.update(cont=True, order=list(range(1, n + 1)), setsize=0)
    try:
        ev["order"] = [i + 1 for i in sorted(range(n), key=lambda i: objs[i])]
        ev["setsize"] = len(set(objs))
        for x in range(n):
            d = {objs[x]: True}
            for y in range(n):
                ev["found"][x][y] = objs[y] in d
    except Exception as e:
        ev["cont"] = False
        notes["cont"] = f"{type(e).__name__}: {e}"[:160]
    return ev, notes


# ---------------------------------------------------------------- random groups (code -> spec)
def rand_thing(r, fam):
    t = dict(fam=fam, blocks=0, op=1 if fam == 1 else r.choice([0, 1, 1, 2, 3, 4, 5]), cat=r.choice(list(CATS)), pkg=r.choice(list(PKGS)),
             slot=0, sub=0, sop=0, repo=0, use=0, perm=0, neg=0)
    t["ver"] = gen_version(r)
    if fam == 2:
        t["blocks"] = r.choice([0, 0, 1, 2])
        t["slot"] = r.choice([0, 0, 1, 2, 3])
        t["sub"] = r.choice([0, 1, 2, 3]) if t["slot"] else 0
        t["sop"] = r.choice([0, 0, 1]) if t["slot"] else r.choice([0, 0, 1, 2])
        t["repo"] = r.choice([0, 0, 1, 2, 3])
        t["use"] = r.choice([0, 0, 1, 2, 3, 4, 5])
        t["perm"] = r.randint(0, 1) if t["use"] >= 3 else 0
        t["neg"] = r.choice([0, 0, 0, 1]) if t["op"] else 0
    return fix_thing(t)


def fix_thing(t):
    if t["op"] == 2:
        t["ver"] = dict(t["ver"], rev=[])
    if not t["op"]:
        t["neg"] = 0
    if not t["slot"]:
        t["sub"] = 0
    elif t["sop"] == 2:
        t["sop"] = 0
    if t["use"] < 3:
        t["perm"] = 0
    return t


def mutate_thing(r, t):
    w = dict(t)
    if t["fam"] == 1:
        f = r.choice(["ver", "ver", "ver", "ver", "cat", "pkg"])
    else:
        f = r.choice(["ver", "ver", "ver", "blocks", "op", "cat", "pkg", "slot", "sub", "sop", "repo", "use", "perm", "neg"])
    if f == "ver":
        w["ver"] = mutate(r, t["ver"])
    elif f in ("cat", "pkg"):
        w[f] = r.choice([x for x in (CATS if f == "cat" else PKGS) if x != t[f]])
    elif f == "blocks":
        w[f] = r.choice([x for x in (0, 1, 2) if x != t[f]])
    elif f == "op":
        w[f] = r.choice([x for x in range(6) if x != t[f]])
    elif f in ("slot", "sub", "repo"):
        w[f] = r.choice([x for x in (0, 1, 2, 3) if x != t[f]])
    elif f == "sop":
        w[f] = r.choice([x for x in (0, 1, 2) if x != t[f]])
    elif f == "use":
        w[f] = r.choice([x for x in range(6) if x != t[f]])
    else:
        w[f] = 1 - t[f]
    return fix_thing(w)


def rand_group(r):
    fam = r.choice([1, 2, 2])
    base = rand_thing(r, fam)
    grp = [base]
    while len(grp) < 8:
        x = r.random()
        src = r.choice(grp)
        grp.append(mutate_thing(r, src) if x < 0.75 else mutate_thing(r, mutate_thing(r, src)) if x < 0.9 else rand_thing(r, fam))
    return [(t, render(t["ver"])) for t in grp]


# ----------------------------------------------------------------
def mc_cfg(mode):
    return (f'SPECIFICATION Spec\nCONSTANT HashMode = "{mode}"\n'
            "INVARIANT TypeOK\nINVARIANT SetAgrees\nINVARIANT FindsAll\nINVARIANT SortedOK\nINVARIANT ClassesTogether\n")


def run(ck):
    use_repo()
    tier = "quick" if ck.quick else "thorough"
    ck.rule = ("every ordered pair (and triple) inside each TLC-enumerated universe and each random group, observed with the real "
               "==, !=, <, <=, >, >=, hash(), sorted(), set(), dict; non-trivial = distinct unordered pair of differently spelled "
               "objects of one group")
    ck.assumptions = [
        "groups are homogeneous: versioned CPVs, unversioned CPVs, or atoms (default EAPI)",
        "the clauses constrain consistency only; which objects are equal is left to the implementation",
        "hash equality observed within one process",
    ]
    # ---- 1. design
    if not ck.replay_case:  # (a replay only re-executes and re-judges the recorded group)
        ck.laws("OrderLaws_Laws", cfg_text=f'CONSTANT Tier = "{tier}"\n', label=f"Laws:OrderLaws_Laws({tier})", timeout=2400)
        ck.mc("OrderLaws_MC", cfg_text=mc_cfg("key"), workers=2, label="MC:OrderLaws_MC containers(hash of key)", timeout=900)
        neg = ck.mc("OrderLaws_MC", cfg_text=mc_cfg("spelling"), workers=1, label="MC:OrderLaws_MC negative control(hash of spelling)",
                    expect_ok=False, timeout=900)
        if neg.violated != "SetAgrees":
            raise tlc.MachineryError(f"negative control: expected SetAgrees to be violated with a spelling hash, got {neg.violated}")
        ck.exhaustive = True

    B = Builder()
    events, info = [], []

    def add(group, src):
        texts, objs = [], []
        for t, vtext in group:
            s, o = B.build(t, vtext)
            texts.append(s)
            objs.append(o)
        ev, notes = observe(objs)
        ev.update(tid=len(events), i=0, n=len(objs))
        events.append(ev)
        info.append(dict(texts=texts, notes=notes, src=src, things=[dict(t, vtext=v) for t, v in group]))
        n = len(objs)
        ck.count(n * n)
        for x in range(n):
            for y in range(x + 1, n):
                if texts[x] != texts[y]:
                    ck.nontriv((texts[x], texts[y]))

    if ck.replay_case:
        d = ck.replay_case["detail"]
        add([({k: v for k, v in t.items() if k != "vtext"}, t["vtext"]) for t in d["group"]], "replay")
    else:
        # ---- 2. spec -> code
        cases = ck.export("OrderLaws_Export", cfg_text=f'CONSTANT Tier = "{tier}"\n', label=f"Export:OrderLaws_Export({tier})", timeout=900)
        for c in cases:
            group = []
            for t in c["things"]:
                v = t["ver"]
                vtext = "".join(map(chr, v["text"]))
                t = dict(t, ver={k: v[k] for k in ("nums", "letter", "sufs", "rev")})
                group.append((t, vtext))
            add(group, "universe")
        ck.extra["universes"] = len(cases)
        ck.sample(dict(universe=info[0]["texts"][:12]))
        ck.sample(dict(universe=info[-1]["texts"][:12]))
        # ---- 3. code -> spec
        r = rng(2)
        for n in range(ck.pick(150, 6000)):
            add(rand_group(r), "random")
        ck.sample(dict(random_group=info[-1]["texts"]))

    # ---- 4. judge
    CH = 400
    for lo in range(0, len(events), CH):
        chunk = events[lo:lo + CH]
        verdicts = ck.trace("OrderLaws_Trace", chunk, label=f"Trace:OrderLaws_Trace[{lo}:{lo + len(chunk)}]", timeout=2400)
        for v in verdicts:
            e, inf = events[v["tid"]], info[v["tid"]]
            x, y, z = v["extra"][:3]
            tx = inf["texts"]
            detail = dict(kind={1: "cpv", 2: "atom"}[inf["things"][0]["fam"]], source=inf["src"],
                          x=tx[x - 1] if x else "", y=tx[y - 1] if y else "", z=tx[z - 1] if z else "")
            if x and y:
                detail["observed_xy"] = {k: e[k][x - 1][y - 1] for k in RELS + ("heq", "bad")}
                detail["differs"] = diff_attrs(inf["things"][x - 1], inf["things"][y - 1])
                if (x - 1, y - 1) in inf["notes"]:
                    detail["raised"] = inf["notes"][(x - 1, y - 1)]
            if not x:
                detail.update(group_texts=tx, order=e["order"], setsize=e["setsize"], raised=inf["notes"].get("cont", ""))
            detail["group"] = inf["things"]
            ck.violation(v["clause"], detail)


def diff_attrs(a, b):
    """Names of the attributes in which two things differ (descriptive, for finding signatures)."""
    out = sorted(k for k in a if k not in ("vtext",) and a[k] != b[k])
    return ",".join(out)
