"""C36 — fetching returns only verified files and uses every allowed attempt
(src/pkgcore/fetch/custom.py fetcher.fetch, src/pkgcore/fetch/base.py fetcher._verify).

MC          : Fetch_MC — the fetch loop as a state machine over attempt outcomes (what the fetch
              command writes x its exit status), every target kind (no checksums / size / hashes /
              both), every initial file, budgets 1..MaxBudget, 1..MaxUris URIs; the clauses of
              Fetch.tla are invariants of every finished run.  The same model with
              FinalVerify = FALSE (verify only *before* each attempt) must violate them
              (non-vacuity).
spec -> code: every finished behaviour of Fetch_MC (TLC prints the inputs: kind, budget, #URIs,
              initial file, outcome list) is replayed on the real fetcher.fetch.  The fetch
              command is a scripted agent that follows the scenario and logs what it found and
              left.  All behaviours run with custom.spawn_bash replaced by an in-process
              interpreter of that very command line (process creation costs 20-90 ms on this
              box); a sample runs through the real spawn_bash + bash agent.  Quick tier: all
              behaviours with budget <= 2 and <= 3 URIs plus a sample of the longer ones;
              thorough: all of them (budget <= 3, <= 4 URIs; the model itself is checked to 4 x 5).
code -> spec: seeded random scenarios (real sizes, random checksum subsets, true resume that
              appends, deletions, budgets up to 6, exhausted URI lists).
Every run is projected to sizes / equality with the reference content and judged by
Fetch_Trace (clauses Returned_unverified, Good_not_returned, Partial_not_kept, Resume_not_used,
Attempts_unused, Budget_exceeded, Unexpected_exception).

Carve-outs (Fetch.tla): after a complete-looking file with a wrong checksum the code raises
ChksumFailure at once -- the property is read over executed attempts; without checksums a
non-zero exit discards the file (pinned by tests/fetch/test_custom.py) and an empty file with
exit 0 is left open; an already verified file present before the first attempt is not required
to be returned by the completeness clause (it is by the code); a distfile whose reference content
is zero-length is only generated for targets that carry the size checksum (without it nothing
tells the correct empty file from an empty leftover).
"""
import os
import shutil

from pylib import tlc
from pylib.common import mktmp, rng, use_repo

AGENT_SH = r'''# sourced by bash -c:  . agent.sh <mode> <uri> <dest>      (builtins only)
mode=$1; uri=$2; dest=$3
n=$(<"$AG/count")
printf %s $((n+1)) > "$AG/count"
mapfile -t SCN < "$AG/scn"
entry=${SCN[$n]:-nothing 1}
set -- $entry
act=$1; arg=$2; code=$3
printf '%s %s\n' "$mode" "$uri" >> "$AG/log"
if [[ -e $dest ]]; then printf %s "$(<"$dest")" > "$AG/pre.$n"; fi
good=$(<"$AG/fx.good")
case $act in
  nothing) ;;
  rm) rm -f "$dest" 2>/dev/null || : ;;
  put) if [[ $arg == empty ]]; then : > "$dest"; else printf %s "$(<"$AG/fx.$arg")" > "$dest"; fi ;;
  cut) printf %s "${good:0:$arg}" > "$dest" ;;
  more) pre=""; [[ -e $dest ]] && pre=$(<"$dest"); printf %s "${good:${#pre}:$arg}" >> "$dest" ;;
esac
if [[ -e $dest ]]; then printf %s "$(<"$dest")" > "$AG/post.$n"; fi
return $code
'''
# `rm` above is not a builtin: the bash agent is only given scenarios without it.


class Bench:
    """One scratch DISTDIR + agent directory, reused for many runs."""

    FILENAME = "dist-1.0.tar"

    def __init__(self, name):
        self.root = mktmp(name)
        self.distdir = os.path.join(self.root, "distdir")
        self.ag = os.path.join(self.root, "agent")
        os.makedirs(self.distdir)
        os.makedirs(self.ag)
        with open(os.path.join(self.ag, "agent.sh"), "w") as f:
            f.write(AGENT_SH)
        self.dest = os.path.join(self.distdir, self.FILENAME)

    def reset(self):
        for d in (self.distdir, self.ag):
            for x in os.listdir(d):
                if x != "agent.sh":
                    os.unlink(os.path.join(d, x))


def fixtures(good):
    """The files a scripted command can leave, relative to the reference content."""
    if not good:  # the distfile itself is empty: only the good file and longer ones exist
        return dict(good="", partial="", oversize="++", corrupt="", empty="")
    half = max(1, len(good) // 2)
    flip = "x" if good[0] != "x" else "y"
    return dict(good=good, partial=good[:half] if len(good) > 1 else "", oversize=good + "++", corrupt=flip + good[1:], empty="")


def read(path):
    try:
        with open(path) as f:
            return f.read()
    except FileNotFoundError:
        return None


def facts(content, good):
    """Projection of a file: existence, size, expected size, equality with the reference."""
    if content is None:
        return dict(ex=False, sz=0, esz=len(good), same=False)
    return dict(ex=True, sz=len(content), esz=len(good), same=content == good)


def act_of(w):
    return ("nothing", "-") if w == "nothing" else ("put", w)


def run_case(mods, bench, case, real_bash):
    """Execute one scenario on the real fetcher; return the trace event (without tid/i)."""
    custom, errors, fetchable, handlers, data_source = mods
    good = case["good"]
    fx = fixtures(good)
    bench.reset()
    init = None if case["init"] == "missing" else (case["init_content"] if "init_content" in case else fx[case["init"]])
    if init is not None:
        with open(bench.dest, "w") as f:
            f.write(init)
    chksums = {}
    for chf in case["chk"]:
        chksums[chf] = len(good) if chf == "size" else handlers[chf](data_source.data_source(good.encode()))
    uris = [f"http://mirror{k}.invalid/{bench.FILENAME}" for k in range(case["nuris"])]
    target = fetchable(bench.FILENAME, uri=uris, chksums=chksums)
    fetcher = custom.fetcher(
        distdir=bench.distdir,
        command=f". {bench.ag}/agent.sh fetch ${{URI}} ${{DISTDIR}}/${{FILE}}",
        resume_command=f". {bench.ag}/agent.sh resume ${{URI}} ${{DISTDIR}}/${{FILE}}",
        userpriv=False,
        attempts=case["budget"],
        AG=bench.ag,
    )
    steps = case["steps"]  # [[act, arg, exit], ...]
    log = []  # (mode, uri, pre, post, exit)

    def fake_spawn(cmd, **kw):
        tok = cmd.split()
        if len(tok) != 5 or tok[0] != "." or tok[1] != os.path.join(bench.ag, "agent.sh") or tok[4] != bench.dest:
            raise tlc.MachineryError(f"unexpected fetch command line {cmd!r}")
        if kw.get("env", {}).get("AG") != bench.ag:
            raise tlc.MachineryError(f"fetch command environment lost: {kw!r}")
        n = len(log)
        act, arg, code = steps[n] if n < len(steps) else ("nothing", "-", 1)
        pre = read(bench.dest)
        if act == "rm":
            if pre is not None:
                os.unlink(bench.dest)
        elif act == "put":
            with open(bench.dest, "w") as f:
                f.write(fx[arg])
        elif act == "cut":
            with open(bench.dest, "w") as f:
                f.write(good[: int(arg)])
        elif act == "more":
            have = len(pre or "")
            with open(bench.dest, "a") as f:
                f.write(good[have : have + int(arg)])
        log.append((tok[2], tok[3], pre, read(bench.dest), int(code)))
        return int(code)

    if real_bash:
        for k, v in fx.items():
            with open(os.path.join(bench.ag, "fx." + k), "w") as f:
                f.write(v)
        with open(os.path.join(bench.ag, "count"), "w") as f:
            f.write("0")
        with open(os.path.join(bench.ag, "scn"), "w") as f:
            f.write("".join(f"{a} {b} {c}\n" for a, b, c in steps))
        saved = None
    else:
        saved = custom.spawn_bash
        custom.spawn_bash = fake_spawn
    result, exc = "other", ""
    try:
        try:
            ret = fetcher.fetch(target)
            result = "path" if ret == bench.dest else "other"
            exc = "" if result == "path" else f"returned {ret!r}"
        except errors.ChksumFailure as e:
            result, exc = "chksum", type(e).__name__
        except errors.FetchFailed as e:
            result, exc = "failed", f"{type(e).__name__}: {e.message}"
        except tlc.MachineryError:
            raise
        except Exception as e:  # judged (Unexpected_exception)
            result, exc = "other", f"{type(e).__name__}: {e}"
    finally:
        if saved is not None:
            custom.spawn_bash = saved
    if real_bash:
        lines = (read(os.path.join(bench.ag, "log")) or "").splitlines()
        for n, line in enumerate(lines):
            mode, uri = line.split()
            code = steps[n][2] if n < len(steps) else 1
            log.append((mode, uri, read(os.path.join(bench.ag, f"pre.{n}")), read(os.path.join(bench.ag, f"post.{n}")), int(code)))
    final = read(bench.dest)
    atts, prev = [], init
    for mode, uri, pre, post, code in log:
        atts.append(dict(pre=facts(pre, good), cmd=mode, post=facts(post, good), exit=code, kept=pre is not None and pre == prev))
        prev = post
    return dict(kind=case["kind"], budget=case["budget"], nuris=case["nuris"], init=facts(init, good), atts=atts,
                result=result, final=facts(final, good), finalkept=final is not None and final == prev,
                exc=exc, uris=[x[1] for x in log])


KIND_CHK = {"none": [], "size": ["size"], "hash": ["sha512", "blake2b"], "both": ["size", "sha512", "blake2b"]}


def case_of_beh(beh, good="reference-content"):
    if beh.get("zero"):
        good = ""
    return dict(kind=beh["kind"], budget=beh["budget"], nuris=beh["nuris"], init=beh["init"], chk=KIND_CHK[beh["kind"]], good=good,
                steps=[[*act_of(o["w"]), o["exit"]] for o in beh["outcomes"]])


def random_case(r_, allchf, with_rm):
    hashes = r_.sample(allchf, r_.randint(0, 3))
    size = r_.random() < 0.6
    # a zero-length distfile needs the size checksum to be told from an empty leftover (carve-out)
    lengths = [0, 0, 1, 2, 7, 64, 900, 3000] if size else [1, 2, 7, 64, 900, 3000]
    good = "".join(r_.choice("abcdefghijklmnopqrstuvwxyz0123456789") for _ in range(r_.choice(lengths)))
    kind = ("both" if hashes else "size") if size else ("hash" if hashes else "none")
    chk = (["size"] if size else []) + hashes
    case = dict(kind=kind, budget=r_.randint(1, 6), nuris=r_.randint(1, 7), chk=chk, good=good)
    c = r_.random()
    if c < 0.45:
        case["init"] = "missing"
    elif c < 0.7 and len(good) > 1:
        case["init"], case["init_content"] = "partial", good[: r_.randint(1, len(good) - 1)]
    else:
        case["init"] = r_.choice(["empty", "corrupt", "oversize", "good", "partial"])
    steps = []
    for _ in range(case["budget"] + 1):
        c = r_.random()
        if c < 0.15:
            a = ("nothing", "-")
        elif c < 0.35:
            a = ("cut", str(r_.randint(0, len(good))))
        elif c < 0.6:
            a = ("more", str(r_.choice([1, len(good) // 3 + 1, len(good)])))
        elif c < 0.65 and with_rm:
            a = ("rm", "-")
        else:
            a = ("put", r_.choice(["good", "good", "corrupt", "oversize", "empty", "partial"]))
        steps.append([a[0], a[1], r_.choice([0, 0, 1, 92])])
    case["steps"] = steps
    return case


def case_key(case):
    return repr((case["kind"], case["budget"], case["nuris"], case["init"], case.get("init_content"), case["chk"], len(case["good"]), case["steps"]))


MC_INV = ("INVARIANT TypeOK\nINVARIANT NoReturnedUnverified\nINVARIANT NoGoodNotReturned\nINVARIANT NoPartialNotKept\n"
          "INVARIANT NoResumeNotUsed\nINVARIANT NoAttemptsUnused\nINVARIANT NoBudgetExceeded\nINVARIANT CorruptNeverReturned\n"
          "INVARIANT Bounded\nINVARIANT Emit\n")


def mc_cfg(maxbudget, maxuris, final=True, emit=False):
    return (f"SPECIFICATION Spec\nCONSTANTS\n MaxBudget = {maxbudget}\n MaxUris = {maxuris}\n"
            f" FinalVerify = {'TRUE' if final else 'FALSE'}\n EmitRuns = {'TRUE' if emit else 'FALSE'}\n" + MC_INV)


def run(ck):
    use_repo()
    from snakeoil import data_source
    from snakeoil.chksum import get_handlers

    from pkgcore.fetch import custom, errors, fetchable

    handlers = get_handlers()
    mods = (custom, errors, fetchable, handlers, data_source)
    allchf = sorted(x for x in handlers if x != "size")
    ck.rule = ("one run of the real fetcher.fetch per scenario (target kind, attempt budget, number of URIs, initial file, "
               "list of (what the fetch command writes, exit status)); all finished behaviours of Fetch_MC plus seeded "
               "random scenarios; non-trivial = distinct scenario in which at least one fetch command was executed")
    ck.assumptions = [
        "the file is classified by size and by equality with the reference content; checksum values come from snakeoil's handlers",
        "after a complete-looking file with a wrong checksum fetch() may stop (ChksumFailure): clauses range over executed attempts",
        "without checksums: a non-zero exit status discards the file (pinned by the repo tests); empty file + exit 0 is left open",
        "most runs replace custom.spawn_bash by an in-process interpreter of the same agent command line; a sample uses real bash",
    ]
    bench = Bench("c36")
    events, cases = [], []

    def execute(case, real):
        ev = run_case(mods, bench, case, real)
        ev.update(tid=len(events), i=0, real=real)
        events.append(ev)
        cases.append(case)
        ck.count()
        if ev["atts"]:
            ck.nontriv(case_key(case))
        return ev

    if ck.replay_case:
        d = ck.replay_case["detail"]
        execute(d["case"], bool(d.get("real_bash")))
        ck.sample(events[0])
    else:
        # 1. the design, exhaustively; and the unverified-last-attempt loop must be rejected
        if not ck.quick:
            ck.mc("Fetch_MC", cfg_text=mc_cfg(4, 5), workers=4, timeout=800, label="MC:Fetch_MC MaxBudget=4 MaxUris=5")
            bad = ck.mc("Fetch_MC", cfg_text=mc_cfg(2, 2, final=False), workers=1, timeout=120, expect_ok=False,
                        label="MC:Fetch_MC FinalVerify=FALSE (must violate)")
            if bad.violated != "NoGoodNotReturned":
                raise tlc.MachineryError(f"the loop without final verification was not rejected as expected: {bad.violated}")
        # 2. spec -> code: every finished behaviour (the same run checks the invariants)
        res = ck.mc("Fetch_MC", cfg_text=mc_cfg(3, 4, emit=True), workers=1, timeout=ck.pick(200, 800),
                    label="MC+Behaviours:Fetch_MC MaxBudget=3 MaxUris=4")
        behs = [p[1] for p in res.tagged("BEH")]
        if len(behs) < 1000:
            raise tlc.MachineryError(f"only {len(behs)} behaviours enumerated\n{res.out[-2000:]}")
        ck.extra["behaviours_enumerated"] = len(behs)
        r_ = rng(36)
        if ck.quick:  # the complete sub-space budget <= 2, <= 3 URIs, and a sample of the rest
            small = [b for b in behs if b["budget"] <= 2 and b["nuris"] <= 3]
            rest = [b for b in behs if not (b["budget"] <= 2 and b["nuris"] <= 3)]
            behs = small + r_.sample(rest, min(len(rest), 1200))
            ck.extra["behaviours_replayed"] = f"all {len(small)} with budget<=2 and <=3 URIs + {len(behs) - len(small)} sampled"
        ck.exhaustive = True
        for beh in behs:
            execute(case_of_beh(beh), False)
        ck.sample(dict(direction="spec->code", scenario=behs[len(behs) // 2]))
        # ... a sample of them through the real spawn_bash and the bash agent
        with_att = [b for b in behs if b["outcomes"]]
        for beh in r_.sample(with_att, min(len(with_att), ck.pick(25, 100))):
            execute(case_of_beh(beh, good="Reference content"), True)
        # 3. code -> spec: random realistic scenarios
        for _ in range(ck.pick(1500, 25000)):
            execute(random_case(r_, allchf, True), False)
        for _ in range(ck.pick(10, 40)):
            execute(random_case(r_, allchf, False), True)
        ck.sample(dict(direction="code->spec", scenario={k: v for k, v in cases[-1].items() if k != "good"}, observed=events[-1]["result"]))

    slim = [{k: v for k, v in e.items() if k not in ("exc", "uris", "real")} for e in events]
    verdicts = []
    for lo in range(0, len(slim), 60000):
        verdicts += ck.trace("Fetch_Trace", slim[lo : lo + 60000], label=f"Trace:Fetch_Trace[{lo}:]", timeout=1200)
    for v in verdicts:
        e, case = events[v["tid"]], cases[v["tid"]]
        if v["clause"] == "OutsideDomain":
            raise tlc.MachineryError(f"scenario outside the domain: {case}")
        last = e["atts"][-1] if e["atts"] else None
        ck.violation(v["clause"], dict(
            case=case, real_bash=e["real"], kind=e["kind"], budget=e["budget"], nuris=e["nuris"], executed=len(e["atts"]),
            result=e["result"], exc=e["exc"],
            verified_file_left_by=[k + 1 for k, a in enumerate(e["atts"]) if a["post"]["ex"] and a["post"]["sz"] == a["post"]["esz"]],
            last_budgeted_attempt_unverified=bool(last and len(e["atts"]) == e["budget"] and e["result"] != "path"),
        ))
    shutil.rmtree(bench.root, ignore_errors=True)
