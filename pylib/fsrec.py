"""Filesystem mutation recorder, crash / fault injector and snapshots (DESIGN.md §4.5).

Recorder(root) is a context manager that replaces the mutating entry points of `os`, `shutil`
and `builtins.open` (pkgcore and snakeoil call them as module attributes, so this catches every
Python-level mutation made in this process) and records one event per mutation *after* it
succeeded.  Each event carries the path as resolved by the kernel at call time (`rp`: parent
directory canonicalised, or the whole path for symlink-following calls) relative to `root`.

Crash injection: `cut_at=k` raises PowerCut (a BaseException) instead of performing mutation
number k and "switches the machine off": every later mutation attempt raises PowerCut as well, so
no cleanup handler can touch the disk.  `cut_half=True` lets a write event store the first half of
its data first.  `fault_at=k` raises OSError(EIO) once instead and lets the program's own error
handling run.

File objects opened for writing are proxied so that each write()/truncate()/close() is an event
and data reaches the disk write by write (flush after every write), making the on-disk state after
event k well defined.
"""
import builtins
import errno
import hashlib
import io
import os
import shutil
import stat as statmod


class PowerCut(BaseException):
    """Simulated power loss."""


_real = {}
for _n in ("rename", "replace", "unlink", "remove", "rmdir", "mkdir", "symlink", "link", "chmod", "chown", "lchown",
           "utime", "mkfifo", "mknod", "truncate", "open", "write", "close", "ftruncate", "fchmod", "fchown", "lstat",
           "stat", "readlink", "listdir", "fsync"):
    _real[_n] = getattr(os, _n)
_real_open = builtins.open
_real_io_open = io.open
_real_rmtree = shutil.rmtree


def cid_of_bytes(b):
    return "c" + hashlib.sha1(b).hexdigest()[:10]


def cid_of_file(path):
    try:
        with _real_open(path, "rb") as f:
            return cid_of_bytes(f.read())
    except OSError:
        return "c?"


def _fd_content(fd):
    """(cid, size) of the file an open descriptor refers to, as it is on disk right now."""
    try:
        with _real_open(f"/proc/self/fd/{fd}", "rb") as f:
            b = f.read()
        return cid_of_bytes(b), len(b)
    except OSError:
        return "c?", 0


# How much a buffered write proxy may hold before write() itself flushes (None: unbounded, data reaches the
# disk at flush()/close() only).  A real file object flushes inside write() once its buffer (8 KiB) is full, so
# an I/O error or a power cut can strike INSIDE write(), before the writer's own close()/discard logic runs;
# scenarios that want both shapes of a write as crash points alternate between None and a small limit.
BUFFER_LIMIT = None


class buffer_limit:
    def __init__(self, limit):
        self.limit = limit

    def __enter__(self):
        global BUFFER_LIMIT
        self.old, BUFFER_LIMIT = BUFFER_LIMIT, self.limit
        return self

    def __exit__(self, *a):
        global BUFFER_LIMIT
        BUFFER_LIMIT = self.old
        return False


class _FileProxy:
    """Write-mode file object.

    Pure write modes ("w", "a", "x" without "+") are BUFFERED like a real file object: write()
    only queues data; the bytes reach the disk at flush()/close() (one "write" event per flush,
    which is the crash point: a power cut before it loses everything queued, `cut_half` lets the
    first half through).  So a protocol that renames a temp file before closing it is seen as it
    would be after a real crash: an empty/short file under the final name.
    Update modes ("+") are written through (write, flush) call by call.
    """

    def __init__(self, rec, f, path, h, buffered=False):
        d = self.__dict__
        d["_rec"], d["_f"], d["_path"], d["_h"], d["_closed_ev"] = rec, f, path, h, False
        d["_buffered"], d["_pending"] = buffered, []

    def __getattr__(self, name):
        return getattr(self._f, name)

    def __setattr__(self, name, value):
        try:
            setattr(self._f, name, value)
        except AttributeError:
            self.__dict__[name] = value

    def __iter__(self):
        return iter(self._f)

    def __enter__(self):
        return self

    def __exit__(self, *a):
        self.close()
        return False

    def _put(self, data):
        """Move data to the disk as one recorded write (crash point)."""
        rec = self._rec
        n = len(data)
        half = rec._before("write", self._path)
        if half:
            part = data[: n // 2]
            self._f.write(part)
            self._f.flush()
            c, sz = _fd_content(self._f.fileno())
            rec._emit("write", self._path, h=self._h, n=len(part), partial=True, after_cut=True, cid=c, size=sz)
            rec._die()
        r = self._f.write(data)
        self._f.flush()
        c, sz = _fd_content(self._f.fileno())
        rec._emit("write", self._path, h=self._h, n=n, cid=c, size=sz)
        return r

    def write(self, data):
        if self._rec.dead:
            raise PowerCut("power is off")
        if self._buffered:
            self._pending.append(data)
            if BUFFER_LIMIT is not None and sum(len(x) for x in self._pending) > BUFFER_LIMIT:
                self.flush()  # like a real file object whose buffer is full: the data hits the disk inside write()
            return len(data)
        return self._put(data)

    def writelines(self, lines):
        for x in lines:
            self.write(x)

    def flush(self):
        if self._rec.dead:
            raise PowerCut("power is off")
        if self._pending:
            data = self._pending[0][:0].join(self._pending)
            self.__dict__["_pending"] = []
            if len(data):
                self._put(data)
        return self._f.flush()

    def tell(self):
        if self._pending:
            return self._f.tell() + sum(len(x) for x in self._pending)
        return self._f.tell()

    def seek(self, *a):
        self.flush()
        return self._f.seek(*a)

    def truncate(self, size=None):
        rec = self._rec
        self.flush()
        rec._before("ftruncate", self._path)
        self._f.flush()
        r = self._f.truncate(size) if size is not None else self._f.truncate()
        c, sz = _fd_content(self._f.fileno())
        rec._emit("ftruncate", self._path, h=self._h, cid=c, size=sz)
        return r

    def close(self):
        if self._f.closed:
            return
        rec = self._rec
        if not rec.dead:
            try:
                self.flush()
            except PowerCut:
                self._drop()
                raise
        if rec.dead:
            self._drop()
            return
        self._f.close()
        if not self._closed_ev:
            self.__dict__["_closed_ev"] = True
            rec._emit("close", self._path, h=self._h, mutating=False)

    def __del__(self):
        # a real file object flushes when it is collected
        try:
            if not self._f.closed and not self._rec.dead and self._rec.active:
                self.close()
        except BaseException:
            pass

    def _drop(self):
        # power is off: drop the descriptor without flushing anything more
        self.__dict__["_pending"] = []
        try:
            _real["close"](self._f.fileno())
        except (OSError, ValueError):
            pass
        try:
            self._f.close()
        except (OSError, ValueError):
            pass


class Recorder:
    MUTATING = True

    def __init__(self, root, cut_at=None, cut_half=False, fault_at=None, fault_errno=errno.EIO, fault_ops=None):
        self.root = os.path.realpath(root)
        self.events = []
        self.n_mut = 0  # number of mutation attempts seen so far (1-based index of the next = n_mut+1)
        self.cut_at = cut_at
        self.cut_half = cut_half
        self.fault_at = fault_at
        self.fault_errno = fault_errno
        self.fault_ops = fault_ops
        self.dead = False
        self.cut_event = None
        self.fds = {}  # os-level fd -> (path, handle id)
        self._h = 0
        self.active = False

    # ---- path helpers ----
    def _rel(self, p):
        if p == self.root:
            return "."
        if p.startswith(self.root + "/"):
            return p[len(self.root) + 1:]
        return p

    def _resolve(self, path, follow=False, dir_fd=None):
        path = os.fspath(path)
        if isinstance(path, bytes):
            path = os.fsdecode(path)
        if dir_fd is not None and not os.path.isabs(path):
            base = _real["readlink"](f"/proc/self/fd/{dir_fd}")
            path = os.path.join(base, path)
        path = os.path.abspath(path)
        if follow:
            return self._rel(os.path.realpath(path))
        d, b = os.path.split(path)
        return self._rel(os.path.join(os.path.realpath(d), b))

    def _inside(self, rp):
        return not os.path.isabs(rp)

    # ---- event plumbing ----
    def _before(self, op, rp):
        """Called before a mutation is performed.  Returns True when the caller should perform a
        half write and then cut."""
        if not self.active or not self._inside(rp):
            return False
        if self.dead:
            raise PowerCut("power is off")
        self.n_mut += 1
        k = self.n_mut
        if self.cut_at is not None and k == self.cut_at:
            self.cut_event = dict(k=k, op=op, rp=rp)
            if self.cut_half and op == "write":
                return True
            self._die()
        if self.fault_at is not None and k == self.fault_at and (self.fault_ops is None or op in self.fault_ops):
            self.events.append(dict(k=k, op="fault", rp=rp, failed_op=op))
            raise OSError(self.fault_errno, os.strerror(self.fault_errno), rp)
        return False

    def _die(self):
        self.dead = True
        raise PowerCut("power cut")

    def _emit(self, op, rp, mutating=True, **kw):
        if not self.active or not self._inside(rp):
            return
        ev = dict(k=self.n_mut, op=op, rp=rp)
        ev.update(kw)
        self.events.append(ev)

    def _abs(self, rp):
        return os.path.join(self.root, rp) if rp != "." else self.root

    def _describe(self, rp):
        """lstat based description of the object now at rp (used to tell the model what a
        creating call produced and what the bytes of a file are)."""
        try:
            st = _real["lstat"](self._abs(rp))
        except OSError:
            return dict(type="absent")
        return describe_stat(self._abs(rp), st)

    # ---- wrappers ----
    def _w_rename(self, src, dst, *, src_dir_fd=None, dst_dir_fd=None):
        a, b = self._resolve(src, dir_fd=src_dir_fd), self._resolve(dst, dir_fd=dst_dir_fd)
        self._before("rename", b if self._inside(b) else a)
        _real["rename"](src, dst, src_dir_fd=src_dir_fd, dst_dir_fd=dst_dir_fd)
        self._emit("rename", b if self._inside(b) else a, src=a, dst=b)

    def _w_unlink(self, path, *, dir_fd=None):
        rp = self._resolve(path, dir_fd=dir_fd)
        self._before("unlink", rp)
        _real["unlink"](path, dir_fd=dir_fd)
        self._emit("unlink", rp)

    def _w_rmdir(self, path, *, dir_fd=None):
        rp = self._resolve(path, dir_fd=dir_fd)
        self._before("rmdir", rp)
        _real["rmdir"](path, dir_fd=dir_fd)
        self._emit("rmdir", rp)

    def _w_mkdir(self, path, mode=0o777, *, dir_fd=None):
        rp = self._resolve(path, dir_fd=dir_fd)
        self._before("mkdir", rp)
        _real["mkdir"](path, mode, dir_fd=dir_fd)
        self._emit("mkdir", rp, obj=self._describe(rp))

    def _w_symlink(self, src, dst, target_is_directory=False, *, dir_fd=None):
        rp = self._resolve(dst, dir_fd=dir_fd)
        self._before("symlink", rp)
        _real["symlink"](src, dst, dir_fd=dir_fd)
        self._emit("symlink", rp, obj=self._describe(rp))

    def _w_link(self, src, dst, *, src_dir_fd=None, dst_dir_fd=None, follow_symlinks=True):
        a, b = self._resolve(src, dir_fd=src_dir_fd), self._resolve(dst, dir_fd=dst_dir_fd)
        self._before("link", b)
        _real["link"](src, dst, src_dir_fd=src_dir_fd, dst_dir_fd=dst_dir_fd, follow_symlinks=follow_symlinks)
        self._emit("link", b, src=a)

    def _w_chmod(self, path, mode, *, dir_fd=None, follow_symlinks=True):
        if isinstance(path, int):
            return self._w_fchmod(path, mode)
        rp = self._resolve(path, follow=follow_symlinks, dir_fd=dir_fd)
        self._before("chmod", rp)
        _real["chmod"](path, mode, dir_fd=dir_fd, follow_symlinks=follow_symlinks)
        self._emit("chmod", rp, mode=statmod.S_IMODE(mode))

    def _w_chown(self, path, uid, gid, *, dir_fd=None, follow_symlinks=True):
        rp = self._resolve(path, follow=follow_symlinks, dir_fd=dir_fd)
        self._before("chown", rp)
        _real["chown"](path, uid, gid, dir_fd=dir_fd, follow_symlinks=follow_symlinks)
        self._emit("chown", rp, uid=uid, gid=gid)

    def _w_lchown(self, path, uid, gid):
        rp = self._resolve(path)
        self._before("chown", rp)
        _real["lchown"](path, uid, gid)
        self._emit("chown", rp, uid=uid, gid=gid)

    def _w_utime(self, path, times=None, *, ns=None, dir_fd=None, follow_symlinks=True):
        rp = self._resolve(path, follow=follow_symlinks, dir_fd=dir_fd)
        self._before("utime", rp)
        kw = {}
        if ns is not None:
            kw["ns"] = ns
        _real["utime"](path, times, dir_fd=dir_fd, follow_symlinks=follow_symlinks, **kw)
        st = _real["lstat"](self._abs(rp))
        self._emit("utime", rp, mtime=int(st.st_mtime))

    def _w_mkfifo(self, path, mode=0o666, *, dir_fd=None):
        rp = self._resolve(path, dir_fd=dir_fd)
        self._before("mkfifo", rp)
        _real["mkfifo"](path, mode, dir_fd=dir_fd)
        self._emit("mkfifo", rp, obj=self._describe(rp))

    def _w_mknod(self, path, mode=0o600, device=0, *, dir_fd=None):
        rp = self._resolve(path, dir_fd=dir_fd)
        self._before("mknod", rp)
        _real["mknod"](path, mode, device, dir_fd=dir_fd)
        self._emit("mknod", rp, obj=self._describe(rp))

    def _w_truncate(self, path, length):
        if isinstance(path, int):
            return self._w_ftruncate(path, length)
        rp = self._resolve(path, follow=True)
        self._before("truncate", rp)
        _real["truncate"](path, length)
        self._emit("truncate", rp, size=length, cid=cid_of_file(self._abs(rp)))

    # fd level
    def _w_os_open(self, path, flags, mode=0o777, *, dir_fd=None):
        acc = flags & os.O_ACCMODE
        writing = acc in (os.O_WRONLY, os.O_RDWR) or flags & (os.O_CREAT | os.O_TRUNC)
        if not writing or flags & getattr(os, "O_DIRECTORY", 0) or flags & getattr(os, "O_PATH", 0):
            return _real["open"](path, flags, mode, dir_fd=dir_fd)
        rp = self._resolve(path, follow=not (flags & os.O_NOFOLLOW), dir_fd=dir_fd)
        if not self.active or not self._inside(rp):
            return _real["open"](path, flags, mode, dir_fd=dir_fd)
        existed = os.path.lexists(self._abs(rp))
        creates = bool(flags & os.O_CREAT) and not existed
        truncs = bool(flags & os.O_TRUNC) and existed
        if creates or truncs:
            self._before("open", rp)
        fd = _real["open"](path, flags, mode, dir_fd=dir_fd)
        self._h += 1
        self.fds[fd] = (rp, self._h)
        self._emit("open", rp, h=self._h, created=creates, truncated=truncs, obj=self._describe(rp),
                   mutating=creates or truncs)
        return fd

    def _w_os_write(self, fd, data):
        ent = self.fds.get(fd)
        if ent is None:
            return _real["write"](fd, data)
        rp, h = ent
        half = self._before("write", rp)
        if half:
            part = bytes(data)[: len(data) // 2]
            _real["write"](fd, part)
            c, sz = _fd_content(fd)
            self._emit("write", rp, h=h, n=len(part), partial=True, after_cut=True, cid=c, size=sz)
            self._die()
        n = _real["write"](fd, data)
        c, sz = _fd_content(fd)
        self._emit("write", rp, h=h, n=n, cid=c, size=sz)
        return n

    def _w_os_close(self, fd):
        ent = self.fds.pop(fd, None)
        _real["close"](fd)
        if ent is not None and not self.dead:
            self._emit("close", ent[0], h=ent[1], mutating=False)

    def _w_ftruncate(self, fd, length):
        ent = self.fds.get(fd)
        if ent is None:
            return _real["ftruncate"](fd, length)
        self._before("ftruncate", ent[0])
        _real["ftruncate"](fd, length)
        c, sz = _fd_content(fd)
        self._emit("ftruncate", ent[0], h=ent[1], cid=c, size=sz)

    def _w_fchmod(self, fd, mode):
        ent = self.fds.get(fd)
        if ent is None:
            try:
                rp = self._rel(os.path.realpath(_real["readlink"](f"/proc/self/fd/{fd}")))
            except OSError:
                return _real["fchmod"](fd, mode)
        else:
            rp = ent[0]
        self._before("chmod", rp)
        _real["fchmod"](fd, mode)
        self._emit("chmod", rp, mode=statmod.S_IMODE(mode))

    def _w_fchown(self, fd, uid, gid):
        try:
            rp = self._rel(os.path.realpath(_real["readlink"](f"/proc/self/fd/{fd}")))
        except OSError:
            return _real["fchown"](fd, uid, gid)
        self._before("chown", rp)
        _real["fchown"](fd, uid, gid)
        self._emit("chown", rp, uid=uid, gid=gid)

    # builtins.open
    def _w_open(self, file, mode="r", *args, **kw):
        if isinstance(file, int) or not any(c in mode for c in "wax+"):
            return _real_open(file, mode, *args, **kw)
        try:
            rp = self._resolve(file, follow=True)
        except (TypeError, OSError):
            return _real_open(file, mode, *args, **kw)
        if not self.active or not self._inside(rp):
            return _real_open(file, mode, *args, **kw)
        existed = os.path.lexists(self._abs(rp))
        creates = not existed and ("w" in mode or "a" in mode or "x" in mode)
        truncs = existed and "w" in mode
        if "r" in mode and not existed:
            return _real_open(file, mode, *args, **kw)  # raises ENOENT, no mutation
        if creates or truncs:
            self._before("open", rp)
        f = _real_open(file, mode, *args, **kw)
        self._h += 1
        self._emit("open", rp, h=self._h, created=creates, truncated=truncs, obj=self._describe(rp), omode=mode,
                   mutating=creates or truncs)
        return _FileProxy(self, f, rp, self._h, buffered="+" not in mode)

    def _w_rmtree(self, path, ignore_errors=False, onerror=None, *, onexc=None, dir_fd=None):
        # go through our own unlink/rmdir wrappers (deterministic order: sorted names, depth first)
        def walk(p):
            try:
                names = sorted(_real["listdir"](p))
            except OSError:
                if ignore_errors:
                    return
                raise
            for n in names:
                q = os.path.join(p, n)
                st = _real["lstat"](q)
                if statmod.S_ISDIR(st.st_mode):
                    walk(q)
                else:
                    self._w_unlink(q)
            self._w_rmdir(p)

        try:
            st = _real["lstat"](path)
            if statmod.S_ISLNK(st.st_mode):
                raise OSError("Cannot call rmtree on a symbolic link")
            walk(os.fspath(path))
        except OSError:
            if not ignore_errors:
                raise

    _PATCHES = {
        "rename": "_w_rename", "replace": "_w_rename", "unlink": "_w_unlink", "remove": "_w_unlink",
        "rmdir": "_w_rmdir", "mkdir": "_w_mkdir", "symlink": "_w_symlink", "link": "_w_link", "chmod": "_w_chmod",
        "chown": "_w_chown", "lchown": "_w_lchown", "utime": "_w_utime", "mkfifo": "_w_mkfifo", "mknod": "_w_mknod",
        "truncate": "_w_truncate", "open": "_w_os_open", "write": "_w_os_write", "close": "_w_os_close",
        "ftruncate": "_w_ftruncate", "fchmod": "_w_fchmod", "fchown": "_w_fchown",
    }

    def __enter__(self):
        for name, meth in self._PATCHES.items():
            setattr(os, name, getattr(self, meth))
        builtins.open = self._w_open
        io.open = self._w_open
        shutil.rmtree = self._w_rmtree
        self.active = True
        return self

    def __exit__(self, *exc):
        self.active = False
        for name in self._PATCHES:
            setattr(os, name, _real[name])
        builtins.open = _real_open
        io.open = _real_io_open
        shutil.rmtree = _real_rmtree
        for fd in list(self.fds):
            self.fds.pop(fd, None)
        return False

    def mutations(self):
        return self.n_mut


def describe_stat(path, st):
    m = st.st_mode
    d = dict(mode=statmod.S_IMODE(m), uid=st.st_uid, gid=st.st_gid, mtime=int(st.st_mtime), ino=st.st_ino,
             nlink=st.st_nlink, size=0, cid="-", target="-")
    if statmod.S_ISDIR(m):
        d["type"] = "dir"
    elif statmod.S_ISLNK(m):
        d["type"] = "sym"
        d["target"] = _real["readlink"](path)
    elif statmod.S_ISREG(m):
        d["type"] = "file"
        d["size"] = st.st_size
        d["cid"] = cid_of_file(path)
    elif statmod.S_ISFIFO(m):
        d["type"] = "fifo"
    elif statmod.S_ISCHR(m) or statmod.S_ISBLK(m):
        d["type"] = "dev"
        d["target"] = f"{os.major(st.st_rdev)}:{os.minor(st.st_rdev)}:{'c' if statmod.S_ISCHR(m) else 'b'}"
    else:
        d["type"] = "other"
    return d


def snapshot(root):
    """{relative path: description} of everything below root (root itself excluded)."""
    root = os.path.realpath(root)
    out = {}

    def walk(p, rel):
        for n in sorted(_real["listdir"](p)):
            q = os.path.join(p, n)
            r = n if not rel else rel + "/" + n
            st = _real["lstat"](q)
            out[r] = describe_stat(q, st)
            if statmod.S_ISDIR(st.st_mode):
                walk(q, r)

    walk(root, "")
    return out


def inode_groups(snap):
    """Partition of regular-file paths by inode (only groups with more than one member)."""
    g = {}
    for p, d in snap.items():
        if d["type"] == "file":
            g.setdefault(d["ino"], []).append(p)
    return sorted(sorted(v) for v in g.values() if len(v) > 1)


def count_mutations(root, fn):
    """Run fn() under a recorder without injection; returns (recorder, result, exception)."""
    rec = Recorder(root)
    res = exc = None
    with rec:
        try:
            res = fn()
        except Exception as e:  # noqa
            exc = e
    return rec, res, exc


def run_with_cut(root, fn, k, half=False):
    """Run fn() cutting the power at mutation k.  Returns (recorder, finished_normally)."""
    import gc
    import sys

    rec = Recorder(root, cut_at=k, cut_half=half)
    done = False
    old_hook = sys.unraisablehook
    sys.unraisablehook = lambda a: None if isinstance(a.exc_value, PowerCut) else old_hook(a)
    try:
        with rec:
            try:
                fn()
                done = True
            except PowerCut:
                pass
            except Exception:
                # the program turned the cut into an exception of its own: still a cut
                if not rec.dead:
                    raise
            # finalizers of half-done objects (AtomicWriteFile.__del__ ...) must run while the
            # power is still off, not later against the real disk
            sys.exc_info()
            gc.collect()
    finally:
        sys.unraisablehook = old_hook
    return rec, done


def run_with_fault(root, fn, k, err=errno.EIO, ops=None):
    """Run fn() with OSError(err) injected at mutation k; the program's own handlers run.
    Returns (recorder, exception or None)."""
    import gc

    rec = Recorder(root, fault_at=k, fault_errno=err, fault_ops=ops)
    exc = None
    with rec:
        try:
            fn()
        except Exception as e:  # noqa
            exc = e.with_traceback(None)
        gc.collect()  # finalizers (AtomicWriteFile.__del__ -> discard) belong to the recorded run
    return rec, exc
