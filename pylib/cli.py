"""./check dispatcher."""
import glob
import importlib
import os
import sys

HERE = os.path.dirname(os.path.dirname(os.path.abspath(__file__)))
sys.path.insert(0, HERE)

from pylib import harness, tlc  # noqa: E402
from pylib.common import SPECS  # noqa: E402


def selftest():
    bad = 0
    mods = sorted(glob.glob(os.path.join(SPECS, "*.tla")))
    from concurrent.futures import ThreadPoolExecutor

    def one(p):
        return p, tlc.sany(os.path.basename(p)[:-4])

    with ThreadPoolExecutor(8) as ex:
        for p, (ok, out) in ex.map(one, mods):
            if not ok:
                bad += 1
                print(f"SANY FAILED {p}\n{out[-1500:]}")
    print(f"selftest: {len(mods)} modules parsed, {bad} failed")
    return 1 if bad else 0


def main():
    if len(sys.argv) < 2:
        print(__doc__)
        return 2
    if sys.argv[1] == "--selftest":
        return selftest()
    pid = sys.argv[1].upper()
    cands = glob.glob(os.path.join(HERE, "drivers", pid.lower() + "_*.py")) + glob.glob(
        os.path.join(HERE, "drivers", pid.lower() + ".py")
    )
    if len(cands) != 1:
        print(f"no unique driver for {pid}: {cands}", file=sys.stderr)
        return 2
    mod = importlib.import_module("drivers." + os.path.basename(cands[0])[:-3])
    return harness.main(pid, mod.run, sys.argv[2:], level=getattr(mod, "LEVEL", "model_checking"))


if __name__ == "__main__":
    sys.exit(main())
