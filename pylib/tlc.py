"""Thin runner around TLC / SANY.

Three modes are used by the checks (DESIGN.md §2.1):
  mc      exhaustive model checking of X_MC.tla with a cfg
  export  config-less run of a module whose ASSUME writes cases through ndJsonSerialize
  trace   X_Trace.tla reading IOEnv.TRACE_FILE, verdicts printed with PrintT

A machinery failure (parse error, timeout, TLC crash) raises MachineryError: the caller
exits 2, it is never turned into a verdict.
"""
import os
import re
import shutil
import subprocess
import time

from . import tlaval
from .common import SPECS, mktmp

JAR = "/opt/veriftools/tla/tla2tools.jar:/opt/veriftools/tla/CommunityModules-deps.jar"


class MachineryError(RuntimeError):
    pass


class TLCResult:
    def __init__(self):
        self.rc = None
        self.out = ""
        self.generated = 0
        self.distinct = 0
        self.depth = 0
        self.prints = []  # parsed PrintT tuples
        self.violated = None  # name of violated invariant / property, "deadlock", "assumption"
        self.error_trace = []  # list of state dict texts (raw) when a violation was found
        self.wall = 0.0
        self.coverage = {}

    def tagged(self, tag):
        return [p for p in self.prints if isinstance(p, list) and p and p[0] == tag]


_counter = [0]


def _extract_prints(out):
    """Find every top-level `<<...>>` value that starts a line (PrintT output), bracket matched."""
    res = []
    i = 0
    n = len(out)
    pat = re.compile(r'^<<\s*"', re.M)
    while True:
        m = pat.search(out, i)
        if not m:
            break
        j = m.start()
        depth = 0
        k = j
        instr = False
        while k < n:
            c = out[k]
            if instr:
                if c == "\\":
                    k += 1
                elif c == '"':
                    instr = False
            elif c == '"':
                instr = True
            elif out.startswith("<<", k):
                depth += 1
                k += 1
            elif out.startswith(">>", k):
                depth -= 1
                k += 1
                if depth == 0:
                    break
            k += 1
        text = out[j : k + 1]
        try:
            res.append(tlaval.parse(text))
        except tlaval.ParseError:
            pass
        i = k + 1
    return res


def run(
    module,
    cfg_text=None,
    cfg_file=None,
    env=None,
    workers=1,
    timeout=600,
    simulate=None,
    depth=None,
    coverage=False,
    seed=None,
    deadlock=False,
    extra=(),
    heap=None,
    allow_violation=True,
    dfs=False,
    assume_only=False,
):
    """Run TLC on specs/<module>.tla.  cfg_text (generated) wins over cfg_file (in specs/)."""
    _counter[0] += 1
    work = mktmp(f"tlc{_counter[0]}")
    meta = os.path.join(work, "meta")
    if cfg_text is None and cfg_file is None:
        cfg_text = ""
    if cfg_text is not None:
        cfg_path = os.path.join(work, module + ".cfg")
        with open(cfg_path, "w") as f:
            f.write(cfg_text)
    else:
        cfg_path = os.path.join(SPECS, cfg_file)
    jopts = ["-XX:+UseParallelGC"]
    if heap:
        jopts.append(f"-Xmx{heap}")
    if dfs:
        jopts.append("-Dtlc2.tool.queue.IStateQueue=StateDeque")
    cmd = ["java", *jopts, "-cp", JAR, "tlc2.TLC", "-metadir", meta, "-noGenerateSpecTE",
           "-config", cfg_path, "-workers", str(workers)]
    if not deadlock:
        cmd.append("-deadlock")  # -deadlock DISABLES deadlock checking
    if simulate:
        cmd += ["-simulate", simulate]
    if depth:
        cmd += ["-depth", str(depth)]
    if coverage:
        cmd += ["-coverage", "1"]
    if seed is not None:
        cmd += ["-seed", str(seed)]
    cmd += list(extra)
    cmd.append(module)
    e = dict(os.environ)
    e.pop("JAVA_TOOL_OPTIONS", None)
    if env:
        e.update({k: str(v) for k, v in env.items()})
    t0 = time.time()
    try:
        p = subprocess.run(cmd, cwd=SPECS, env=e, capture_output=True, text=True, timeout=timeout)
    except subprocess.TimeoutExpired as ex:
        subprocess.run(["pkill", "-f", meta], check=False)
        raise MachineryError(f"TLC timeout after {timeout}s on {module}") from ex
    finally:
        shutil.rmtree(meta, ignore_errors=True)
    r = TLCResult()
    r.wall = time.time() - t0
    r.rc = p.returncode
    r.out = p.stdout + p.stderr
    m = re.search(r"(\d+) states generated, (\d+) distinct states found", r.out)
    if m:
        r.generated, r.distinct = int(m.group(1)), int(m.group(2))
    m = re.search(r"depth of the complete state graph search is (\d+)", r.out)
    if m:
        r.depth = int(m.group(1))
    if simulate:
        m = re.search(r"(\d+) states checked", r.out)
        if m and not r.generated:
            r.generated = r.distinct = int(m.group(1))
    r.prints = _extract_prints(r.out)
    m = re.search(r"Invariant (\S+) is violated", r.out)
    if m:
        r.violated = m.group(1)
    elif re.search(r"Action property (\S+) is violated", r.out):
        r.violated = re.search(r"Action property (\S+) is violated", r.out).group(1)
    elif "Temporal properties were violated" in r.out or re.search(r"Temporal property \S+ was violated", r.out):
        m2 = re.search(r"Temporal property (\S+) was violated", r.out)
        r.violated = m2.group(1) if m2 else "temporal"
    elif "Deadlock reached" in r.out:
        r.violated = "deadlock"
    elif re.search(r"Assumption .* is false", r.out):
        r.violated = "assumption"
    if coverage:
        for m in re.finditer(r"<(\w+) line \d+, col \d+ to line \d+, col \d+ of module (\w+)>: (\d+):(\d+)", r.out):
            r.coverage[m.group(1)] = (int(m.group(3)), int(m.group(4)))
    if assume_only and "did not specify the initial state predicate" in r.out and r.violated is None:
        # constant-level module: every ASSUME was evaluated (a false one is reported as
        # "assumption"), there is no behaviour spec to run
        r.rc = 0
        return r
    fatal = (
        r.rc not in (0, 10, 11, 12, 13)
        or "Parsing or semantic analysis failed" in r.out
        or ("Error:" in r.out and r.violated is None and r.rc != 0)
    )
    if fatal:
        raise MachineryError(f"TLC failed on {module} (rc={r.rc}):\n{r.out[-3000:]}")
    if r.violated and not allow_violation:
        raise MachineryError(f"TLC reports {r.violated} on {module}:\n{r.out[-3000:]}")
    return r


def sany(module):
    p = subprocess.run(
        ["java", "-cp", JAR, "tla2sany.SANY", module + ".tla"], cwd=SPECS, capture_output=True, text=True, timeout=120
    )
    ok = p.returncode == 0 and "Semantic errors" not in p.stdout and "Fatal errors" not in p.stdout \
        and "Could not" not in p.stdout and "*** Errors" not in p.stdout
    return ok, p.stdout + p.stderr


def export_cases(module, out_name="cases.ndjson", env=None, timeout=600, heap=None, cfg_text="", workers=1):
    """Run a config-less module whose ASSUME serialises cases to IOEnv.OUT; return parsed cases."""
    import json

    out = os.path.join(mktmp("export"), f"{module}.{out_name}")
    e = {"OUT": out}
    if env:
        e.update(env)
    r = run(module, cfg_text=cfg_text, env=e, timeout=timeout, heap=heap, allow_violation=False, workers=workers,
            assume_only=True)
    if not os.path.exists(out):
        raise MachineryError(f"export {module}: no output file\n{r.out[-2000:]}")
    with open(out) as f:
        cases = [json.loads(line) for line in f if line.strip()]
    os.unlink(out)
    return cases, r


def write_trace(events, name="trace.ndjson"):
    import json

    _counter[0] += 1
    path = os.path.join(mktmp("traces"), f"{_counter[0]}-{name}")
    with open(path, "w") as f:
        for ev in events:
            f.write(json.dumps(ev, separators=(",", ":")) + "\n")
    return path


def trace_check(module, events, env=None, timeout=900, heap=None, cfg_text=None):
    """Validate recorded events with specs/<module>.tla (a *_Trace module).

    Contract of every *_Trace module: variable l walks Tr; for each failing clause it prints
    <<"VERDICT", tid, i, clause>>, and after the last event <<"TRACE-END", n>>.
    Returns (verdicts, result).  A run that does not reach TRACE-END with n == len(events) is a
    machinery failure.
    """
    if not events:
        raise MachineryError("empty trace")
    path = write_trace(events, module + ".ndjson")
    e = {"TRACE_FILE": path}
    if env:
        e.update(env)
    if cfg_text is None:
        cfg_text = "SPECIFICATION TraceSpec\n"
    r = run(module, cfg_text=cfg_text, env=e, workers=1, timeout=timeout, heap=heap, allow_violation=False)
    ends = r.tagged("TRACE-END")
    if not ends or ends[-1][1] != len(events):
        raise MachineryError(f"trace {module}: TLC did not consume the whole trace ({ends} vs {len(events)})\n{r.out[-3000:]}")
    os.unlink(path)
    verdicts = [dict(tid=v[1], i=v[2], clause=v[3], extra=v[4:]) for v in r.tagged("VERDICT")]
    return verdicts, r
