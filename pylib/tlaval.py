"""Parser for TLA+ values as TLC prints them (PrintT output, -simulate trace files).

Sequences/tuples -> list, sets -> frozenset-like sorted list tagged as ('set', [...]) is
avoided: sets become Python lists wrapped in TlaSet (a list subclass) so they stay
JSON-serialisable; records and functions -> dict (function keys rendered to str when not str).
"""


class TlaSet(list):
    pass


class ParseError(ValueError):
    pass


def parse(text):
    v, i = _val(text, _ws(text, 0))
    i = _ws(text, i)
    if i != len(text):
        raise ParseError(f"trailing text at {i}: {text[i:i+40]!r}")
    return v


def _ws(s, i):
    n = len(s)
    while i < n and s[i] in " \t\r\n":
        i += 1
    return i


def _val(s, i):
    n = len(s)
    if i >= n:
        raise ParseError("unexpected end")
    c = s[i]
    if s.startswith("<<", i):
        return _seq(s, i + 2, ">>", list)
    if c == "{":
        return _seq(s, i + 1, "}", TlaSet)
    if c == "[":
        return _rec(s, i + 1)
    if c == "(":
        return _fun(s, i + 1)
    if c == '"':
        return _str(s, i + 1)
    if c == "-" or c.isdigit():
        j = i + 1
        while j < n and s[j].isdigit():
            j += 1
        return int(s[i:j]), j
    j = i
    while j < n and (s[j].isalnum() or s[j] == "_"):
        j += 1
    word = s[i:j]
    if word == "TRUE":
        return True, j
    if word == "FALSE":
        return False, j
    if word:
        return word, j  # model value
    raise ParseError(f"cannot parse at {i}: {s[i:i+40]!r}")


def _seq(s, i, close, ctor):
    out = ctor()
    i = _ws(s, i)
    if s.startswith(close, i):
        return out, i + len(close)
    while True:
        v, i = _val(s, _ws(s, i))
        out.append(v)
        i = _ws(s, i)
        if s.startswith(close, i):
            return out, i + len(close)
        if i < len(s) and s[i] == ",":
            i += 1
            continue
        raise ParseError(f"expected , or {close} at {i}: {s[i:i+40]!r}")


def _rec(s, i):
    out = {}
    i = _ws(s, i)
    if s.startswith("]", i):
        return out, i + 1
    while True:
        i = _ws(s, i)
        j = i
        while j < len(s) and (s[j].isalnum() or s[j] == "_"):
            j += 1
        key = s[i:j]
        i = _ws(s, j)
        if not s.startswith("|->", i):
            raise ParseError(f"expected |-> at {i}: {s[i:i+40]!r}")
        v, i = _val(s, _ws(s, i + 3))
        out[key] = v
        i = _ws(s, i)
        if s.startswith("]", i):
            return out, i + 1
        if s[i] == ",":
            i += 1
            continue
        raise ParseError(f"expected , or ] at {i}")


def _fun(s, i):
    # (k1 :> v1 @@ k2 :> v2)
    out = {}
    while True:
        k, i = _val(s, _ws(s, i))
        i = _ws(s, i)
        if not s.startswith(":>", i):
            raise ParseError(f"expected :> at {i}")
        v, i = _val(s, _ws(s, i + 2))
        out[k if isinstance(k, str) else _key(k)] = v
        i = _ws(s, i)
        if s.startswith("@@", i):
            i += 2
            continue
        if s.startswith(")", i):
            return out, i + 1
        raise ParseError(f"expected @@ or ) at {i}")


def _key(k):
    if isinstance(k, (list, dict)):
        import json

        return json.dumps(k, sort_keys=True)
    return str(k)


def _str(s, i):
    out = []
    n = len(s)
    while i < n:
        c = s[i]
        if c == "\\":
            d = s[i + 1]
            out.append({"n": "\n", "t": "\t", "r": "\r", "f": "\f", '"': '"', "\\": "\\"}.get(d, d))
            i += 2
        elif c == '"':
            return "".join(out), i + 1
        else:
            out.append(c)
            i += 1
    raise ParseError("unterminated string")


def to_tla(v):
    """Render a Python value as a TLA+ expression (for generated cfg / modules)."""
    if isinstance(v, bool):
        return "TRUE" if v else "FALSE"
    if isinstance(v, int):
        return str(v)
    if isinstance(v, str):
        return '"' + v.replace("\\", "\\\\").replace('"', '\\"') + '"'
    if isinstance(v, (TlaSet, set, frozenset)):
        return "{" + ", ".join(to_tla(x) for x in v) + "}"
    if isinstance(v, (list, tuple)):
        return "<<" + ", ".join(to_tla(x) for x in v) + ">>"
    if isinstance(v, dict):
        return "[" + ", ".join(f"{k} |-> {to_tla(x)}" for k, x in v.items()) + "]"
    raise TypeError(type(v))
