"""Turn fsrec recordings / snapshots into events for specs/FsTrace.tla."""
WILD = dict(cid="*", mode=-2, uid=-2, gid=-2, mtime=-2, target="*")


def comps(rp):
    return [] if rp in (".", "") else rp.split("/")


def desc(obj, **override):
    """Descriptor for FsModel.Fits from a snapshot description (or 'absent')."""
    if obj is None or obj.get("type") == "absent":
        return dict(type="absent", **WILD)
    d = dict(type=obj["type"], cid=obj["cid"], mode=obj["mode"], uid=obj["uid"], gid=obj["gid"], mtime=obj["mtime"],
             target=obj["target"])
    d.update(override)
    return d


def _obj(o):
    return dict(type=o["type"], cid=o["cid"], size=o["size"], mode=o["mode"], uid=o["uid"], gid=o["gid"],
                mtime=o["mtime"], target=o["target"])


def init_event(tid, snap, watch=(), units=(), views=(), frame=()):
    """snap: fsrec.snapshot() before the operation."""
    ino_map, inodes, names = {}, [], []
    for p in sorted(snap):
        o = snap[p]
        if o["ino"] not in ino_map:
            inodes.append(_obj(o))
            ino_map[o["ino"]] = len(inodes)
        names.append(dict(path=comps(p), ino=ino_map[o["ino"]]))
    return dict(tid=tid, i=0, ev="init", names=names, inodes=inodes,
                watch=[dict(path=comps(w["path"]), allowed=list(w["allowed"])) for w in watch],
                units=[dict(root=comps(u["root"]), files=[dict(path=comps(f["path"]), cid=f["cid"]) for f in u["files"]])
                       for u in units],
                views=[list(v) for v in views], frame=[comps(f) for f in frame])


def sys_events(tid, rec_events, start=1):
    out = []
    i = start
    for e in rec_events:
        ev = dict(tid=tid, i=i, ev="sys", op=e["op"], k=e["k"], p=comps(e["rp"]))
        for f in ("h", "created", "truncated", "cid", "size", "mode", "uid", "gid", "mtime"):
            if f in e:
                ev[f] = e[f]
        if "obj" in e:
            ev["obj"] = _obj(e["obj"]) if e["obj"].get("type") != "absent" else dict(type="absent", cid="-", size=0, mode=0, uid=0, gid=0, mtime=-1, target="-")
        if "src" in e:
            ev["src"] = comps(e["src"])
        if "dst" in e:
            ev["dst"] = comps(e["dst"])
        out.append(ev)
        i += 1
    return out


def final_event(tid, i, snap, check_mtime=True):
    grp = {}
    rows = []
    for p in sorted(snap):
        o = snap[p]
        g = grp.setdefault(o["ino"], len(grp) + 1)
        d = desc(o)
        if not check_mtime:
            d["mtime"] = -2
        d["size"] = o["size"]
        rows.append(dict(path=comps(p), obj=d, grp=g))
    return dict(tid=tid, i=i, ev="final", snap=rows)


def reader_event(tid, i, k, view, allowed, **extra):
    return dict(tid=tid, i=i, ev="reader", k=k, view=view, allowed=list(allowed), **extra)
