"""Crash-consistency scaffolding shared by the 'replaced atomically' properties
(C24 CONTENTS, C27 cache entries, C28 Manifest, C30 world file, C29/C47 directory units).

scenario(...) runs ONE operation three ways and returns FsTrace events:
  1. recorded, uninterrupted  -> init + sys* + final events: the syscall sequence is replayed through
     FsModel and the watch/units/frame clauses are evaluated after every syscall (= at every crash point);
  2. re-executed with a power cut at every mutation k (and with a half write at every write event),
     after which the REAL reader is run -> one "reader" event per crash point, allowed views = what the
     reader reports on the untouched old state and on the completed new state;
  3. optionally re-executed with an EIO fault at every mutation (the program's own handlers run),
     reader afterwards must also see old or new.
"""
import os
import shutil

from . import fsjudge, fsrec


def _fresh(root, setup):
    if os.path.lexists(root):
        fsrec._real_rmtree(root)
    fsrec._real["mkdir"](root)
    setup(root)


def _view(reader, root):
    try:
        return reader(root)
    except Exception as e:  # a reader that chokes on the on-disk state is a view of its own
        return {"error": type(e).__name__}


def scenario(tid, root, setup, op, reader=None, watch_paths=(), units=None, views=None, frame=(), faults=False,
             max_cuts=None, extra_allowed=(), check_mtime=True, label=""):
    """Returns (events, info).  setup(root) builds the old state; op(root) performs the operation;
    reader(root) -> JSON-able view.  watch_paths: relative paths whose object must at every point be
    what it was before or what it is at the end."""
    events = []
    _fresh(root, setup)
    before = fsrec.snapshot(root)
    old_view = _view(reader, root) if reader else None
    rec, res, exc = fsrec.count_mutations(root, lambda: op(root))
    if exc is not None:
        raise exc
    after = fsrec.snapshot(root)
    new_view = _view(reader, root) if reader else None
    after2 = fsrec.snapshot(root)  # the reader itself must not have changed anything we compare
    watch = [dict(path=p, allowed=[fsjudge.desc(before.get(p)), fsjudge.desc(after.get(p))]) for p in watch_paths]
    u = units(before, after) if units else []
    events.append(fsjudge.init_event(tid, before, watch=watch, units=u, views=views or [], frame=frame))
    sysev = fsjudge.sys_events(tid, rec.events)
    events += sysev
    events.append(fsjudge.final_event(tid, len(sysev) + 1, after, check_mtime=check_mtime))
    info = dict(n_mut=rec.n_mut, ops=[e["op"] for e in rec.events], old_view=old_view, new_view=new_view,
                reader_mutates=(after != after2))
    if reader is None:
        return events, info
    allowed = [old_view, new_view] + list(extra_allowed)
    i = len(sysev) + 2
    ks = list(range(1, rec.n_mut + 1))
    if max_cuts and len(ks) > max_cuts:
        step = len(ks) / max_cuts
        ks = sorted({ks[int(j * step)] for j in range(max_cuts)} | {1, rec.n_mut})
    write_ks = {e["k"] for e in rec.events if e["op"] == "write"}
    for k in ks:
        for half in ([False, True] if k in write_ks else [False]):
            _fresh(root, setup)
            r, done = fsrec.run_with_cut(root, lambda: op(root), k, half=half)
            v = _view(reader, root)
            ce = r.cut_event or {}
            events.append(fsjudge.reader_event(tid, i, k, v, allowed, kind="cut-half" if half else "cut",
                                               at_op=ce.get("op", "?"), at_path=ce.get("rp", "?"), label=label))
            i += 1
        if faults:
            _fresh(root, setup)
            r, exc2 = fsrec.run_with_fault(root, lambda: op(root), k)
            v = _view(reader, root)
            events.append(fsjudge.reader_event(tid, i, k, v, allowed, kind="eio",
                                               at_op=next((e.get("failed_op") for e in r.events if e["op"] == "fault"), "?"),
                                               at_path=next((e.get("rp") for e in r.events if e["op"] == "fault"), "?"),
                                               label=label))
            i += 1
    info["crash_points"] = i - len(sysev) - 2
    return events, info


def judge(ck, events, label="Trace:FsTrace", by_tid=None):
    """Run FsTrace over the events; Model_* verdicts are machinery failures."""
    from . import tlc

    verdicts = ck.trace("FsTrace", events, label=label, timeout=1500)
    idx = {(e["tid"], e["i"]): e for e in events}
    out = []
    for v in verdicts:
        e = idx[(v["tid"], v["i"])]
        if v["clause"].startswith("Model_"):
            raise tlc.MachineryError(f"FsModel cannot follow recorded syscall {e}")
        out.append((v, e))
    return out
