"""Shared paths and helpers for the /verif machinery."""
import atexit
import os
import random
import shutil
import sys
import tempfile

VERIF = os.path.dirname(os.path.dirname(os.path.abspath(__file__)))
SPECS = os.path.join(VERIF, "specs")
EVIDENCE = os.path.join(VERIF, "evidence")
REPLAYS = os.path.join(VERIF, "replays")
# Checks run against /repo's working tree; VERIF_REPO lets a developer point the
# same checks at a scratch worktree (used to try seeded changes and fix patches).
REPO = os.environ.get("VERIF_REPO", "/repo")
if os.path.realpath(REPO) != "/repo":
    # runs against a scratch tree (seeded changes, fix trials) must not overwrite the evidence and
    # replays of the real tree
    EVIDENCE = os.path.join("/tmp", "verif-alt", os.path.basename(REPO.rstrip("/")), "evidence")
    REPLAYS = os.path.join("/tmp", "verif-alt", os.path.basename(REPO.rstrip("/")), "replays")

_tmp_root = None


def tmp_root():
    """A private scratch directory, removed at exit."""
    global _tmp_root
    if _tmp_root is None:
        base = os.environ.get("VERIF_TMP") or None
        if base:
            os.makedirs(base, exist_ok=True)
        _tmp_root = tempfile.mkdtemp(prefix="verif-", dir=base)
        atexit.register(shutil.rmtree, _tmp_root, True)
    return _tmp_root


def mktmp(name):
    p = os.path.join(tmp_root(), name)
    os.makedirs(p, exist_ok=True)
    return p


def seed():
    try:
        return int(os.environ.get("VERIF_SEED", "0"))
    except ValueError:
        return 0


def rng(extra=0):
    return random.Random(seed() * 1000003 + extra)


def use_repo():
    """Make `import pkgcore` resolve to REPO/src (the current working tree)."""
    src = os.path.join(REPO, "src")
    if sys.path[0] != src:
        sys.path.insert(0, src)
    # the harness itself must be importable from drivers too
    if VERIF not in sys.path:
        sys.path.append(VERIF)
    import logging

    logging.getLogger("pkgcore").setLevel(logging.ERROR)
    import pkgcore  # noqa

    got = os.path.realpath(os.path.dirname(pkgcore.__file__))
    want = os.path.realpath(os.path.join(src, "pkgcore"))
    if got != want:
        raise SystemExit(f"machinery failure: pkgcore imported from {got}, wanted {want}")
    return pkgcore
