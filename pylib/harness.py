"""Check life-cycle: collect coverage and violations, apply known findings, write evidence."""
import hashlib
import json
import os
import sys
import time
import traceback

from . import tlc
from .common import EVIDENCE, REPLAYS, VERIF, seed

FINDINGS_FILE = os.path.join(VERIF, "known_findings.json")


def load_findings(pid):
    try:
        with open(FINDINGS_FILE) as f:
            data = json.load(f)
    except FileNotFoundError:
        return []
    return [x for x in data.get("findings", []) if x.get("property") == pid and x.get("status") == "known"]


def _flat(detail, prefix=""):
    out = {}
    for k, v in detail.items():
        if isinstance(v, dict):
            out.update(_flat(v, prefix + k + "."))
        else:
            out[prefix + k] = v
    return out


def finding_matches(finding, clause, detail):
    if finding.get("clause") not in (None, clause):
        return False
    flat = _flat(detail)
    for k, want in (finding.get("match") or {}).items():
        if k not in flat:
            return False
        got = flat[k]
        if isinstance(want, dict) and "in" in want:
            if got not in want["in"]:
                return False
        elif isinstance(want, dict) and "re" in want:
            import re

            if not isinstance(got, str) or not re.fullmatch(want["re"], got):
                return False
        elif got != want:
            return False
    return True


class Check:
    def __init__(self, pid, tier, level="model_checking"):
        self.pid = pid
        self.tier = tier
        self.level = level
        self.t0 = time.time()
        self.states = 0
        self.transitions = 0
        self.traces = 0
        self.evaluations = 0
        self.nontrivial = set()
        self.samples = []
        self.rule = ""
        self.assumptions = []
        self.extra = {}
        self.mc_runs = []
        self.violations = []  # (clause, detail)
        self.exhaustive = None
        self.replay_case = None  # set in --replay mode

    # ---- configuration helpers -------------------------------------------------
    @property
    def quick(self):
        return self.tier == "quick"

    def pick(self, quick, thorough):
        return quick if self.tier == "quick" else thorough

    # ---- coverage --------------------------------------------------------------
    def add_mc(self, label, res):
        """Record a TLC run (MC / export / trace) in the evidence."""
        self.states += res.distinct
        self.transitions += res.generated
        self.mc_runs.append(
            dict(run=label, distinct=res.distinct, generated=res.generated, depth=res.depth, wall_s=round(res.wall, 2))
        )

    def count(self, n=1):
        self.evaluations += n

    def nontriv(self, key):
        """Register one distinct non-trivial case (by a hashable/JSON-able key)."""
        if not isinstance(key, (str, int, tuple)):
            key = json.dumps(key, sort_keys=True, default=str)
        if len(self.nontrivial) < 2_000_000:
            self.nontrivial.add(hash(key))

    def sample(self, obj, limit=6):
        if len(self.samples) < limit:
            self.samples.append(obj)

    # ---- TLC wrappers ----------------------------------------------------------
    def mc(self, module, cfg_text=None, cfg_file=None, label=None, expect_ok=True, **kw):
        res = tlc.run(module, cfg_text=cfg_text, cfg_file=cfg_file, **kw)
        self.add_mc(label or f"MC:{module}", res)
        if expect_ok and res.violated:
            # The *design model* breaks its own invariant: that is a statement about the
            # specification, reported as machinery failure unless the caller handles it.
            raise tlc.MachineryError(f"{module}: model violates {res.violated}\n{res.out[-3000:]}")
        return res

    def laws(self, module, cfg_text="", label=None, **kw):
        """Constant-level module: TLC evaluates its ASSUMEs (no behaviour)."""
        res = tlc.run(module, cfg_text=cfg_text, assume_only=True, **kw)
        self.add_mc(label or f"Laws:{module}", res)
        if res.violated:
            raise tlc.MachineryError(f"{module}: {res.violated}\n{res.out[-3000:]}")
        return res

    def export(self, module, label=None, **kw):
        cases, res = tlc.export_cases(module, **kw)
        self.add_mc(label or f"Export:{module}", res)
        return cases

    def trace(self, module, events, label=None, **kw):
        """Validate events; returns verdict dicts (tid, i, clause)."""
        verdicts, res = tlc.trace_check(module, events, **kw)
        self.add_mc(label or f"Trace:{module}", res)
        self.traces += len({e.get("tid") for e in events})
        return verdicts

    # ---- verdicts --------------------------------------------------------------
    def violation(self, clause, detail):
        self.violations.append((clause, detail))

    def finish(self):
        known = load_findings(self.pid)
        new, matched = [], {}
        for clause, detail in self.violations:
            for idx, f in enumerate(known):
                if finding_matches(f, clause, detail):
                    matched.setdefault(idx, 0)
                    matched[idx] += 1
                    break
            else:
                new.append((clause, detail))
        for idx in sorted(matched):
            f = known[idx]
            print(f"KNOWN-FINDING: property={self.pid} {f.get('what', f.get('clause'))} [{matched[idx]} occurrence(s) this run]")
        replay_paths = []
        if new:
            d = os.path.join(REPLAYS, self.pid)
            os.makedirs(d, exist_ok=True)
            seen = set()
            per_clause = {}
            for clause, detail in new:
                blob = json.dumps({"property": self.pid, "clause": clause, "detail": detail}, sort_keys=True, default=str)
                h = hashlib.sha1(blob.encode()).hexdigest()[:12]
                if h in seen:
                    continue
                per_clause[clause] = per_clause.get(clause, 0) + 1
                if per_clause[clause] > 3 or len(seen) >= 15:
                    continue
                seen.add(h)
                path = os.path.join(d, f"{clause}-{h}.json")
                with open(path, "w") as fh:
                    fh.write(blob)
                replay_paths.append((clause, path))
            for clause, path in replay_paths:
                print(f"VIOLATION property={self.pid} replay={path} clause={clause}")
        self.write_evidence(len(new), len(self.violations) - len(new))
        return 1 if new else 0

    def write_evidence(self, n_viol, n_known):
        cov = dict(
            states=self.states,
            transitions=self.transitions,
            traces_validated_against_impl=self.traces,
            evaluations=self.evaluations,
            distinct_nontrivial=len(self.nontrivial),
            rule=self.rule,
            samples=self.samples or ["(no sample recorded)"],
            tlc_runs=self.mc_runs,
            known_finding_occurrences=n_known,
        )
        if self.exhaustive is not None:
            cov["exhaustive"] = bool(self.exhaustive)
        cov.update(self.extra)
        ev = dict(
            property_id=self.pid,
            tier=self.tier,
            seed=seed(),
            level=self.level,
            coverage=cov,
            assumptions=self.assumptions,
            wall_s=round(time.time() - self.t0, 2),
            violations=n_viol,
        )
        os.makedirs(EVIDENCE, exist_ok=True)
        tmp = os.path.join(EVIDENCE, f".{self.pid}.json.tmp")
        with open(tmp, "w") as f:
            json.dump(ev, f, indent=1, default=str)
        os.replace(tmp, os.path.join(EVIDENCE, f"{self.pid}.json"))


def main(pid, run, argv=None, level="model_checking"):
    """Entry used by ./check: run(ck) does the work."""
    import argparse

    ap = argparse.ArgumentParser()
    ap.add_argument("--tier", default=os.environ.get("VERIF_TIER", "quick"), choices=["quick", "thorough"])
    ap.add_argument("--replay", default=None)
    a = ap.parse_args(argv)
    ck = Check(pid, a.tier, level)
    if a.replay:
        with open(a.replay) as f:
            ck.replay_case = json.load(f)
    try:
        run(ck)
        rc = ck.finish()
    except tlc.MachineryError as e:
        print(f"MACHINERY-FAILURE property={pid}: {e}", file=sys.stderr)
        return 2
    except Exception:
        traceback.print_exc()
        print(f"MACHINERY-FAILURE property={pid}: driver crashed", file=sys.stderr)
        return 2
    return rc
