---------------------------- MODULE CacheStore ----------------------------
(* C27: on-disk metadata cache, one file per package (src/pkgcore/cache/__init__.py,
   flat_hash.py; layouts "flat" = flat_hash.database, "md5" = flat_hash.md5_cache).

   An entry as handed to  cache[cpv] = values :
     vals   : set of [k, v]          metadata keys and their single-line values (k unique)
     hasecl : BOOLEAN                whether inherited-eclass data is present at all
     ecl    : set of [name, dir, mtime, md5]   one record per inherited eclass
     chf    : [mtime, md5]           validation datum of the ebuild itself
   The layout decides which validation data exist: "flat" keeps eclass directory + mtime and the
   ebuild mtime, "md5" keeps md5 checksums only.  Unused fields are "-" / 0.                    *)
EXTENDS Integers, Sequences, FiniteSets

Layouts == {"flat", "md5"}
TupleLen(layout) == IF layout = "flat" THEN 3 ELSE 2
ChfKey(layout)   == IF layout = "flat" THEN "_mtime_" ELSE "_md5_"
EclKey           == "_eclasses_"

EclKept(layout, x) == IF layout = "flat" THEN [name |-> x.name, dir |-> x.dir, mtime |-> x.mtime, md5 |-> "-"]
                      ELSE [name |-> x.name, dir |-> "-", mtime |-> 0, md5 |-> x.md5]
ChfKept(layout, c) == IF layout = "flat" THEN [mtime |-> c.mtime, md5 |-> "-"] ELSE [mtime |-> 0, md5 |-> c.md5]

\* what reading back must return: the KNOWN keys with their values, the eclass data, the validation datum
Kept(layout, known, e) ==
  [vals   |-> {kv \in e.vals : kv.k \in known},
   hasecl |-> e.hasecl,
   ecl    |-> IF e.hasecl THEN {EclKept(layout, x) : x \in e.ecl} ELSE {},
   chf    |-> ChfKept(layout, e.chf)]

RoundTripVals(layout, known, stored, loaded) == loaded.vals = Kept(layout, known, stored).vals
RoundTripEcl(layout, known, stored, loaded)  == /\ loaded.hasecl = Kept(layout, known, stored).hasecl
                                                /\ loaded.ecl = Kept(layout, known, stored).ecl
RoundTripChf(layout, known, stored, loaded)  == loaded.chf = Kept(layout, known, stored).chf

(* ------------------------------------------------------------------------------------------
   The file format, token level.  A file is a set of lines [k, f] : key and the tab-separated
   fields of the value; a field is text [t |-> "s", s, n |-> 0] or a number [t |-> "n", s |-> "", n].
   Render / Parse transcribe base.__setitem__ / deconstruct_eclasses / flat_hash._setitem and
   _getitem / _parse_data / reconstruct_eclasses.  CacheStore_Laws checks Parse(Render(e)) = Kept(e).
   ------------------------------------------------------------------------------------------ *)
Txt(s) == [t |-> "s", s |-> s, n |-> 0]
Num(n) == [t |-> "n", s |-> "", n |-> n]

EclFields(layout, x) == IF layout = "flat" THEN <<Txt(x.name), Txt(x.dir), Num(x.mtime)>> ELSE <<Txt(x.name), Txt(x.md5)>>
RECURSIVE Flatten(_, _)
Flatten(layout, eseq) == IF eseq = <<>> THEN <<>> ELSE EclFields(layout, Head(eseq)) \o Flatten(layout, Tail(eseq))

\* eseq: the eclass records in the order the caller's dict yields them
Render(layout, e, eseq) ==
  {[k |-> kv.k, f |-> <<Txt(kv.v)>>] : kv \in e.vals}
  \cup (IF e.hasecl THEN {[k |-> EclKey, f |-> Flatten(layout, eseq)]} ELSE {})
  \cup {[k |-> ChfKey(layout), f |-> IF layout = "flat" THEN <<Num(e.chf.mtime)>> ELSE <<Txt(e.chf.md5)>>]}

Chunk(layout, f, j) == LET b == (j - 1) * TupleLen(layout) IN
  IF layout = "flat" THEN [name |-> f[b + 1].s, dir |-> f[b + 2].s, mtime |-> f[b + 3].n, md5 |-> "-"]
  ELSE [name |-> f[b + 1].s, dir |-> "-", mtime |-> 0, md5 |-> f[b + 2].s]

Corrupt == [state |-> "corrupt"]
Missing == [state |-> "absent"]
\* lines = the lines of a COMPLETE or PARTIAL file
Parse(layout, known, lines) ==
  LET has(k)  == \E ln \in lines : ln.k = k
      line(k) == CHOOSE ln \in lines : ln.k = k
  IN IF ~has(ChfKey(layout)) THEN Corrupt                  \* no validation datum: not a usable entry
     ELSE IF has(EclKey) /\ Len(line(EclKey).f) % TupleLen(layout) # 0 THEN Corrupt
     ELSE [state  |-> "ok",
           vals   |-> {[k |-> ln.k, v |-> ln.f[1].s] : ln \in {x \in lines : x.k \in known \ {EclKey, ChfKey(layout)}}},
           hasecl |-> has(EclKey),
           ecl    |-> IF has(EclKey) THEN {Chunk(layout, line(EclKey).f, j) : j \in 1..(Len(line(EclKey).f) \div TupleLen(layout))}
                      ELSE {},
           chf    |-> IF layout = "flat" THEN [mtime |-> line("_mtime_").f[1].n, md5 |-> "-"]
                      ELSE [mtime |-> 0, md5 |-> line("_md5_").f[1].s]]
Ok(x) == [state |-> "ok", vals |-> x.vals, hasecl |-> x.hasecl, ecl |-> x.ecl, chf |-> x.chf]

(* ------------------------------------------------------------------------------------------
   Reader-level statement of atomicity (used by CacheStore_MC on the model and by
   CacheStore_Trace on what the real readers returned after a cut):
     got  : what  cache[cpv]  returned   ("absent", "corrupt" or an entry)
     keys : what  list(cache.keys())  returned
   ------------------------------------------------------------------------------------------ *)
GetOldOrNew(got, old, new)       == got = old \/ got = new
KeysOnlyPackages(keys, pkgs)     == keys \subseteq pkgs          \* nothing that is not a package is listed
KeysKeepOthers(keys, before, me) == (before \ {me}) \subseteq keys \* nobody else's entry disappears
=========================================================================
