---------------------------- MODULE PermHarden_Export ----------------------------
(* spec -> code: the whole finite input space, kind x uid class x gid class x EVERY mode 0..4095,
   cut into content sets of Chunk entries (one engine run each).                              *)
EXTENDS PermHarden, TLC, Json, IOUtils, SequencesExt
CONSTANTS KindsX, Chunk, OwnerPairs
OwnerSet == {ug \in Owners \X Owners : OwnerPairs = "all" \/ ug[1] = ug[2]}
Cases == {[kind |-> k, uid |-> ug[1], gid |-> ug[2],
           modes |-> [j \in 1..Chunk |-> base * Chunk + j - 1 + TypeBits(k)]] :
            k \in KindsX, ug \in OwnerSet, base \in 0..((4096 \div Chunk) - 1)}
ASSUME ndJsonSerialize(IOEnv.OUT, SetToSeq(Cases))
=========================================================================
