---------------------------- MODULE AtomIntersect_Trace ----------------------------
(* code -> spec for C05.  Tr[1] is a header {atoms:[...]}; every other event is
     {tid, i, a, b, ab, ba, raised}   a, b : indexes into the header,
                                      ab = a.intersects(b), ba = b.intersects(a) (real code),
                                      raised : "" or the exception either call raised.
   Clauses: IntersectsRaised, Symmetric (ab # ba), Complete (a witness definitely matches both
   but they are not reported as intersecting), Witnessed_<part> (reported as intersecting but
   <part> admits no package matching both); "Unspecified" marks pairs that are not judged. *)
EXTENDS AtomIntersect, TraceLib
VARIABLE l
H == Tr[1]
A(k) == [H.atoms[k] EXCEPT !.deps = AsSet(@)]
Judge(e) ==
    LET a == A(e.a)  b == A(e.b)  exp == Intersects3(a, b) IN
    IF e.raised # "" THEN {"IntersectsRaised"}
    ELSE (IF e.ab = e.ba THEN {} ELSE {"Symmetric"})
         \cup (IF exp = "U" THEN {"Unspecified"}
               ELSE IF exp = "T" THEN (IF e.ab /\ e.ba THEN {} ELSE {"Complete"})
               ELSE (IF e.ab \/ e.ba THEN {"Witnessed_" \o FirstImpossible(a, b)} ELSE {}))
TraceInit == l = 1
TraceNext == /\ l < Len(Tr)
             /\ l' = l + 1
             /\ Report(Tr[l'].tid, Tr[l'].i, Judge(Tr[l']))
             /\ EndMark(l')
TraceSpec == TraceInit /\ [][TraceNext]_l
=========================================================================
