---------------------------- MODULE DepSet_Export ----------------------------
(* spec -> code (C09): every well-formed structure of at most MaxNodes nodes that a flavour can
   write down, rendered to tokens, plus every one-token corruption of that rendering, plus the
   nesting family (groups in groups, depth 2-3, with conditionals elsewhere).  The
   driver turns the tokens into text and feeds it to the real DepSet.parse of that flavour. *)
EXTENDS DepSet, TLC, Json, IOUtils, SequencesExt
CONSTANTS MaxNodes, FlagNames, CorruptNodes   \* corruptions of the structures up to CorruptNodes nodes

\* vocabulary of a flavour
LeafNamesOf(fl) == IF fl = "dep" THEN {"cat/x", "cat/y"} ELSE {"x", "y"}
LeavesOf(fl) == {Leaf(v, FALSE) : v \in LeafNamesOf(fl)}
                \cup (IF fl = "required_use" THEN {Leaf("x", TRUE)} ELSE {})
                \cup (IF fl = "src_uri" THEN {Renamed("x", "r")} ELSE {})
KindsOf(fl) == {t \in GroupKinds : IF t = "all" THEN FlavourOf(fl).plain ELSE OpOf(t) \in FlavourOf(fl).ops}

Forests(fl, n) == ForestsN(LeavesOf(fl), KindsOf(fl), FlagNames, n)

(* Nesting family: a group of every kind of the flavour nested directly in a group of every kind
   (depth 2 and 3, inner group first or last), every group with at least two distinct members so that
   nothing collapses while parsing, together with a conditional elsewhere in the text (a sibling at
   the top, a member of the outer group, or a member of the inner group).  Flattening, reordering or
   dropping a level while evaluating changes the meaning for some (U, T) unless the kinds allow it. *)
NL(fl, n) == Leaf((IF fl = "dep" THEN "cat/" ELSE "") \o n, FALSE)
Nest(fl) ==
  LET a == NL(fl, "a")  b == NL(fl, "b")  c == NL(fl, "c")  d == NL(fl, "d")  e == NL(fl, "e")
      K == KindsOf(fl)
      CondOf(neg, x) == Cond("u", neg, <<x>>)
  IN UNION {
       {<<Grp(k[1], <<Grp(k[2], <<a, b>>), c>>), CondOf(neg, d)>>,           \* conditional beside the nest
        <<CondOf(neg, d), Grp(k[1], <<c, Grp(k[2], <<a, b>>)>>)>>,
        <<Grp(k[1], <<Grp(k[2], <<a, b>>), CondOf(neg, c), d>>)>>,           \* ... member of the outer group
        <<Grp(k[1], <<Grp(k[2], <<CondOf(neg, a), b, c>>), d>>)>>,           \* ... member of the inner group
        <<CondOf(neg, Grp(k[1], <<Grp(k[2], <<a, b>>), c>>)), d>>}           \* ... around the nest
       : <<k, neg>> \in (K \X K) \X BOOLEAN}
     \cup {<<Grp(k[1], <<Grp(k[2], <<Grp(k[3], <<a, b>>), c>>), d>>), CondOf(FALSE, e)>> : k \in K \X K \X K}
     \cup {<<Grp(k[1], <<d, Grp(k[2], <<c, Grp(k[3], <<a, CondOf(FALSE, b), e>>)>>)>>)>> : k \in K \X K \X K}

Gen(fl, m) == UNION {{Render(a) : a \in Forests(fl, n)} : n \in 1..m}
\* (`->` is an ordinary word outside SRC_URI: no arrow corruptions there)
Texts(fl) == Gen(fl, MaxNodes) \cup {Render(a) : a \in Nest(fl)}
             \cup {c \in UNION {Corruptions(s) : s \in Gen(fl, CorruptNodes)} :
                     FlavourOf(fl).arrows \/ \A k \in DOMAIN c : c[k].k # "arrow"}
Cases == UNION {{[fl |-> fl, toks |-> s] : s \in Texts(fl) \ {<<>>}} : fl \in FlavourNames}
ASSUME ndJsonSerialize(IOEnv.OUT, SetToSeq(Cases))
=========================================================================
