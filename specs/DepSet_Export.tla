---------------------------- MODULE DepSet_Export ----------------------------
(* spec -> code (C09): every well-formed structure of at most MaxNodes nodes that a flavour can
   write down, rendered to tokens, plus every one-token corruption of that rendering.  The
   driver turns the tokens into text and feeds it to the real DepSet.parse of that flavour. *)
EXTENDS DepSet, TLC, Json, IOUtils, SequencesExt
CONSTANTS MaxNodes, FlagNames, CorruptNodes   \* corruptions of the structures up to CorruptNodes nodes

\* vocabulary of a flavour
LeafNamesOf(fl) == IF fl = "dep" THEN {"cat/x", "cat/y"} ELSE {"x", "y"}
LeavesOf(fl) == {Leaf(v, FALSE) : v \in LeafNamesOf(fl)}
                \cup (IF fl = "required_use" THEN {Leaf("x", TRUE)} ELSE {})
                \cup (IF fl = "src_uri" THEN {Renamed("x", "r")} ELSE {})
KindsOf(fl) == {t \in GroupKinds : IF t = "all" THEN FlavourOf(fl).plain ELSE OpOf(t) \in FlavourOf(fl).ops}

Forests(fl, n) == ForestsN(LeavesOf(fl), KindsOf(fl), FlagNames, n)

Gen(fl, m) == UNION {{Render(a) : a \in Forests(fl, n)} : n \in 1..m}
\* (`->` is an ordinary word outside SRC_URI: no arrow corruptions there)
Texts(fl) == Gen(fl, MaxNodes)
             \cup {c \in UNION {Corruptions(s) : s \in Gen(fl, CorruptNodes)} :
                     FlavourOf(fl).arrows \/ \A k \in DOMAIN c : c[k].k # "arrow"}
Cases == UNION {{[fl |-> fl, toks |-> s] : s \in Texts(fl) \ {<<>>}} : fl \in FlavourNames}
ASSUME ndJsonSerialize(IOEnv.OUT, SetToSeq(Cases))
=========================================================================
