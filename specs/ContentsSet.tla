---------------------------- MODULE ContentsSet ----------------------------
(* C22: pkgcore.fs.contents.contentsSet behaves like a map keyed by the NORMALISED path.

   Paths.  TLC cannot look inside strings, so a path is the sequence of the tokens
   between its slashes: "/a//b/./c/" = <<"a", "", "b", ".", "c", "">> ; "/" = <<>>.
   A SPELLING is any such token sequence (tokens may be "", "." or ".."); the
   normalised path (what os.path.normpath yields for an absolute path) is Norm(spelling).
   Carve-out: a spelling never starts with exactly two slashes (POSIX leaves "//x"
   implementation defined and normpath keeps it), and every path is absolute.

   An ENTRY is [sp |-> spelling it was created with, id |-> Nat, kind |-> STRING]:
   its key is Norm(sp); what the map stores is its value [id, kind] (id stands for the
   object's identity/attributes: two entries may share a key and differ in id).

   A contents set is a function  m : (finite set of normalised paths) -> value.
   Arguments of the set algebra are given as a sequence of elements: the elements of
   "another set", or of any other iterable (generator, list, tuple, Python set - duplicates
   of a key included).  An element is an entry or - wherever only the KEY of an element is
   needed (difference, intersection_update, the subset/superset/disjoint tests) - a path
   string in any spelling, written as an element of kind "str".  Rel(arg) is the relation
   key -> values they denote.  Where map semantics leaves the surviving VALUE of a shared key open
   (union/intersection: mine or theirs?) both are permitted: the spec fixes the key set
   exactly and requires every value to come from a permitted source.                  *)
EXTENDS Integers, Sequences, FiniteSets

(* ------------------------------ paths ------------------------------ *)
RECURSIVE NormFrom(_, _)
NormFrom(toks, acc) ==
  IF toks = <<>> THEN acc
  ELSE LET t == Head(toks) IN
       NormFrom(Tail(toks),
                IF t = "" \/ t = "." THEN acc
                ELSE IF t = ".." THEN (IF acc = <<>> THEN acc ELSE SubSeq(acc, 1, Len(acc) - 1))
                ELSE Append(acc, t))
Norm(toks)     == NormFrom(toks, <<>>)
IsNormal(toks) == \A i \in DOMAIN toks : toks[i] \notin {"", ".", ".."}
\* the domain of spellings the property quantifies over (no leading "//")
SpellOK(toks)  == Len(toks) <= 1 \/ toks[1] # ""

IsPrefix(p, k) == Len(p) <= Len(k) /\ SubSeq(k, 1, Len(p)) = p
\* proper ancestors other than the root
Ancestors(k)   == {SubSeq(k, 1, n) : n \in 1..(Len(k) - 1)}

RECURSIVE StripTrail(_)
StripTrail(t) == IF t # <<>> /\ t[Len(t)] = "" THEN StripTrail(SubSeq(t, 1, Len(t) - 1)) ELSE t

(* ------------------------------ maps ------------------------------- *)
Empty      == <<>>
Put(m, k, v) == [x \in DOMAIN m \cup {k} |-> IF x = k THEN v ELSE m[x]]
Drop(m, K)   == [x \in DOMAIN m \ K |-> m[x]]
Mine(m, k)   == IF k \in DOMAIN m THEN {m[k]} ELSE {}

Val(e) == [id |-> e.id, kind |-> e.kind]
Key(e) == Norm(e.sp)
Rel(arg)     == {<<Key(arg[i]), Val(arg[i])>> : i \in DOMAIN arg}
RKeys(R)     == {p[1] : p \in R}
\* values an argument can contribute for key k (a path string names a key, it carries no value)
RVals(R, k)  == {p[2] : p \in {q \in R : q[1] = k /\ q[2].kind # "str"}}

\* dict.update / repeated add: the last entry of a key wins
RECURSIVE PutAll(_, _)
PutAll(m, arg) == IF arg = <<>> THEN m ELSE PutAll(Put(m, Key(Head(arg)), Val(Head(arg))), Tail(arg))

\* update from an UNORDERED container (a Python set): which of several elements of one key comes
\* last is not defined, any of them may win
UpdateAnyOK(m2, m, R) ==
  /\ DOMAIN m2 = DOMAIN m \cup RKeys(R)
  /\ \A k \in DOMAIN m2 : m2[k] \in (IF k \in RKeys(R) THEN RVals(R, k) ELSE {m[k]})
UpdateAnyResults(m, R) ==
  LET D == DOMAIN m \cup RKeys(R) IN
  {f \in [D -> UNION {RVals(R, k) : k \in RKeys(R)} \cup {m[k] : k \in DOMAIN m}] : UpdateAnyOK(f, m, R)}

(* --------------------------- set algebra ---------------------------- *)
BinKeys(b, m, R) ==
  LET D == DOMAIN m  K == RKeys(R) IN
  CASE b = "union"                -> D \cup K
    [] b = "intersection"         -> D \cap K
    [] b = "difference"           -> D \ K
    [] b = "symmetric_difference" -> (D \ K) \cup (K \ D)
BinAllowed(b, m, R, k) ==
  IF b = "difference" THEN Mine(m, k) ELSE Mine(m, k) \cup RVals(R, k)
BinOK(b, res, m, R) ==
  /\ DOMAIN res = BinKeys(b, m, R)
  /\ \A k \in DOMAIN res : res[k] \in BinAllowed(b, m, R, k)
BinResults(b, m, R) ==
  LET D == BinKeys(b, m, R) IN
  {f \in [D -> UNION {BinAllowed(b, m, R, k) : k \in D}] : \A k \in D : f[k] \in BinAllowed(b, m, R, k)}

IsSubset(m, R)   == DOMAIN m \subseteq RKeys(R)
IsSuperset(m, R) == RKeys(R) \subseteq DOMAIN m
IsDisjoint(m, R) == DOMAIN m \cap RKeys(R) = {}

(* ---------------------------- relocation ---------------------------- *)
\* the old offset must be written normalised (trailing slashes allowed) and every entry must
\* lie under it; anything else is outside what "replaces the old prefix" speaks about
OldOffsetOK(old) == IsNormal(StripTrail(old))
ChangeOffset(m, old, new) ==
  LET o == Norm(old)  n == Norm(new) IN
  IF ~OldOffsetOK(old) \/ \E k \in DOMAIN m : ~IsPrefix(o, k)
  THEN [ok |-> FALSE, m |-> m]
  ELSE [ok |-> TRUE,
        m  |-> [k2 \in {n \o SubSeq(k, Len(o) + 1, Len(k)) : k \in DOMAIN m}
                  |-> m[o \o SubSeq(k2, Len(n) + 1, Len(k2))]]]

(* ----------------------- missing directories ------------------------ *)
MissingDirs(m)        == UNION {Ancestors(k) : k \in DOMAIN m} \ DOMAIN m
AddMissingDirs(m, dv) == [k \in DOMAIN m \cup MissingDirs(m) |-> IF k \in DOMAIN m THEN m[k] ELSE dv]
Closed(m)             == \A k \in DOMAIN m : Ancestors(k) \subseteq DOMAIN m

(* ------------------ one public operation (an action) ----------------- *)
(* a = [op, how, sp, id, kind, arg, old, new, dirid, adopt]
     op    : method name
     how   : "entry" | "str" for lookup/removal arguments; for set arguments the container:
             "set" (a contentsSet) | "gen" | "list" | "tuple" | "pyset"
             (binding-level choice; the abstract meaning does not depend on it)
     sp,id,kind : the entry / the spelling of the string argument
     arg   : Seq(entry), the other set / generator
     old,new : spellings of offsets ; dirid : id given to created directories
     adopt : the caller continues with the returned set (s = s.union(..))              *)
BinPure == {"union", "intersection", "difference", "symmetric_difference"}
BinUpd  == {"intersection_update", "difference_update", "symmetric_difference_update"}
Tests   == {"issubset", "issuperset", "isdisjoint"}
Reloc   == {"change_offset", "insert_offset"}
ByKey   == {"remove", "delitem", "discard", "getitem", "contains"}
Others  == {"add", "update", "clear", "add_missing_directories"}
\* operations that need only the keys of their argument: its elements may be path strings
KeyOnly == {"difference", "difference_update", "intersection_update"} \cup Tests
AllOps  == BinPure \cup BinUpd \cup Tests \cup Reloc \cup ByKey \cup Others
BaseOf(op) == CASE op = "intersection_update" -> "intersection"
                [] op = "difference_update" -> "difference"
                [] op = "symmetric_difference_update" -> "symmetric_difference"
                [] OTHER -> op
ReturnsMap(op) == op \in BinPure \cup Reloc

ActionOK(a) ==
  /\ a.op \in AllOps
  /\ SpellOK(a.sp) /\ SpellOK(a.old) /\ SpellOK(a.new)
  /\ \A i \in DOMAIN a.arg : SpellOK(a.arg[i].sp)
  /\ \A i \in DOMAIN a.arg : a.arg[i].kind = "str" => (a.op \in KeyOnly /\ a.how # "set")

\* KeyError expected
Raises(m, a) == a.op \in {"remove", "delitem", "getitem"} /\ Norm(a.sp) \notin DOMAIN m

OldOf(a) == IF a.op = "insert_offset" THEN <<>> ELSE a.old
Specified(m, a) == a.op \in Reloc => ChangeOffset(m, OldOf(a), a.new).ok

\* the set itself after the call
PostOK(m2, m, a) ==
  LET k == Norm(a.sp) IN
  CASE a.op = "add"     -> m2 = Put(m, k, Val(a))
    [] a.op \in {"remove", "delitem", "discard"} -> m2 = Drop(m, {k})
    [] a.op = "clear"   -> m2 = Empty
    [] a.op = "update"  -> IF a.how = "pyset" THEN UpdateAnyOK(m2, m, Rel(a.arg)) ELSE m2 = PutAll(m, a.arg)
    [] a.op \in BinUpd  -> BinOK(BaseOf(a.op), m2, m, Rel(a.arg))
    [] a.op = "add_missing_directories" -> m2 = AddMissingDirs(m, [id |-> a.dirid, kind |-> "dir"])
    [] OTHER            -> m2 = m
Posts(m, a) ==
  LET k == Norm(a.sp) IN
  CASE a.op = "add"     -> {Put(m, k, Val(a))}
    [] a.op \in {"remove", "delitem", "discard"} -> {Drop(m, {k})}
    [] a.op = "clear"   -> {Empty}
    [] a.op = "update"  -> IF a.how = "pyset" THEN UpdateAnyResults(m, Rel(a.arg)) ELSE {PutAll(m, a.arg)}
    [] a.op \in BinUpd  -> BinResults(BaseOf(a.op), m, Rel(a.arg))
    [] a.op = "add_missing_directories" -> {AddMissingDirs(m, [id |-> a.dirid, kind |-> "dir"])}
    [] OTHER            -> {m}

\* returned set (ReturnsMap ops, Specified)
RetMapOK(res, m, a) ==
  IF a.op \in BinPure THEN BinOK(a.op, res, m, Rel(a.arg))
  ELSE res = ChangeOffset(m, OldOf(a), a.new).m
RetMaps(m, a) ==
  IF a.op \in BinPure THEN BinResults(a.op, m, Rel(a.arg))
  ELSE {ChangeOffset(m, OldOf(a), a.new).m}
\* returned boolean ("contains" and Tests)
RetBool(m, a) ==
  CASE a.op = "contains"   -> Norm(a.sp) \in DOMAIN m
    [] a.op = "issubset"   -> IsSubset(m, Rel(a.arg))
    [] a.op = "issuperset" -> IsSuperset(m, Rel(a.arg))
    [] a.op = "isdisjoint" -> IsDisjoint(m, Rel(a.arg))
\* returned value of a successful getitem
RetVal(m, a) == m[Norm(a.sp)]
=========================================================================
