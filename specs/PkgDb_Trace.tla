---------------------------- MODULE PkgDb_Trace ----------------------------
(* code -> spec for C29.  Events recorded by drivers/c29_pkgdb.py:
     ev "done"  : an uninterrupted operation: op, oldcpv, newcpv, old / new = the views a fresh reader
                  reports before / after, srccore = core digest (slot, description, eapi, keywords, use,
                  rdepend, contents, environment, ebuild) of the package handed to the operation as read
                  from its source repository.   Clause Effect: new = ApplyOp(op, old, ..) for the entry
                  the reader now lists; clause Stored: that entry carries the source's core digest.
     ev "crash" : the same operation re-executed with a power cut before mutation k (or inside an
                  unseen step); view = what a fresh reader reports afterwards.
                  Clauses Partial / Neither / Mixed / Collateral from JudgeView(old, new, view).
     ev "fault" : the same operation re-executed with an I/O error (EIO / ENOSPC) injected at mutation k (or
                  inside an unseen step); the operation's OWN error handling ran and the operation
                  aborted; view = what a fresh reader reports afterwards.  Same clauses: where a handled
                  failure leaves the repository is a state every later reader (and any crash) sees.
   Views arrive as arrays of {cpv, dg, core}.                                                       *)
EXTENDS PkgDb, TraceLib
VARIABLE l

EntrySet(seq) == {Ent(seq[k].cpv, seq[k].dg) : k \in DOMAIN seq}

Judge(e) ==
  LET old == EntrySet(e.old)
      new == EntrySet(e.new)
      newdgs == {x.dg : x \in {y \in new : y.cpv = e.newcpv}} \cup {"-"}
      cores  == {e.new[k].core : k \in {j \in DOMAIN e.new : e.new[j].cpv = e.newcpv}}
  IN CASE e.ev = "done" ->
            (IF OpApplicable(e.op, old, e.oldcpv, e.newcpv) THEN {} ELSE {"Applicable"})
            \cup (IF \E d \in newdgs : new = ApplyOp(e.op, old, e.oldcpv, e.newcpv, d) THEN {} ELSE {"Effect"})
            \cup (IF e.op = "uninstall" \/ cores = {e.srccore} THEN {} ELSE {"Stored"})
       [] e.ev \in {"crash", "fault"} -> JudgeView(old, new, EntrySet(e.view))
       [] OTHER -> {"UnknownEvent"}

TraceInit == l = 0
TraceNext == /\ l < Len(Tr) /\ l' = l + 1
             /\ Report(Tr[l'].tid, Tr[l'].i, Judge(Tr[l']))
             /\ EndMark(l')
TraceSpec == TraceInit /\ [][TraceNext]_l
=========================================================================
