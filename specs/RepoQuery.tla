---------------------------- MODULE RepoQuery ----------------------------
(* C08: repository queries return exactly the matching packages
   (src/pkgcore/repository/prototype.py, multiplex.py, filtered.py, misc.py).

   A package is a record [c, p, v, r]: category / package / version INDICES and the index of the
   repository holding it.  The indices are ordered the way the names the driver renders for them
   are ordered by pkgcore (category, then package, then version), so <<c, p, v>> compared
   lexicographically IS the natural sorter order.  The restriction is a BoolTree over leaf ids;
   truth(x) is the set of leaf ids whose restriction matches x (observed, or defined by the
   small leaf model below in the design check).

     Answer        what a query must yield (as a set; each member exactly once)
     PairAnswer    unversioned query: the category/package pairs whose unversioned object matches
     StackAnswer   query over a stack of repositories = union of the per-repository answers
     InSorterOrder a sorted query yields its answer in sorter order
     Candidates    DESIGN of the candidate pruning done before matching (tree._identify_candidates):
                   per DNF clause the category / package restrictions that are REQUIRED by it;
                   PruneSound says pruning by them never loses a member of the answer.            *)
EXTENDS BoolTree, Integers

Answer(pkgs, t, truth(_)) == {x \in pkgs : Eval(t, truth(x))}
StackAnswer(pkgs, stack, t, truth(_)) == UNION {Answer({x \in pkgs : x.r = r}, t, truth) : r \in stack}
PairAnswer(pairs, t, truth(_)) == {cp \in pairs : Eval(t, truth(cp))}

\* A repository that is updated through its own API (notify_add_package / notify_remove_package) holds,
\* at query time, the members that were there or added and not removed since.  A category/package pair
\* is part of the contents iff at least one member with that name is (a name listed without any
\* version holds no package).  members: sequence of [c, p, v, r, ..]; absent: set of member indices.
PairHolds(members, absent, pr) == \E k \in DOMAIN members :
    k \notin absent /\ members[k].r = pr.r /\ members[k].c = pr.c /\ members[k].p = pr.p
AfterAdd(absent, k) == absent \ {k}
AfterRemove(absent, k) == absent \cup {k}

KeyLess(a, b) == \/ a[1] < b[1]
                 \/ a[1] = b[1] /\ a[2] < b[2]
                 \/ a[1] = b[1] /\ a[2] = b[2] /\ a[3] < b[3]
\* s: sequence of keys <<c, p, v>>;  dir = "asc" | "desc".  Equal keys (same package in two
\* repositories of a stack) may come in either order.
InSorterOrder(s, dir) == \A i, j \in DOMAIN s : i < j =>
                            IF dir = "asc" THEN ~KeyLess(s[j], s[i]) ELSE ~KeyLess(s[i], s[j])
NoDuplicates(s) == \A i, j \in DOMAIN s : i # j => s[i] # s[j]

(* ---- design of candidate pruning ---------------------------------------------------------
   LeafAttr[id] in {"c", "p", "o"}: the leaf restricts the category, the package name, or
   something else; LeafVal[id]: the index it compares with (exact match stands for any
   value restriction on that attribute).                                                      *)
LeafHoldsCP(LeafAttr, LeafVal, l, cp) ==      \* l: a "leaf" literal on c or p; honours its negate flag
    ((IF LeafAttr[l.id] = "c" THEN cp[1] ELSE cp[2]) = LeafVal[l.id]) # l.neg

\* required restrictions of one DNF clause on attribute a: only DIRECT, plain leaf members count
\* (what sits inside a Negate wrapper or a counting node need not hold)
Required(LeafAttr, cl, a) == {l \in cl : l.k = "leaf" /\ LeafAttr[l.id] = a}

Candidates(LeafAttr, LeafVal, t, allpairs) ==
    LET D == RefDNF(t)
        R(cl, a) == Required(LeafAttr, cl, a)
        uniform(a) == \A c1, c2 \in D : (R(c1, a) = {}) = (R(c2, a) = {})
        holds(l, cp) == LeafHoldsCP(LeafAttr, LeafVal, l, cp)
        anyOf(a) == {cp \in allpairs : \E cl \in D : \E l \in R(cl, a) : holds(l, cp)}
        C == UNION {R(cl, "c") : cl \in D}
        P == UNION {R(cl, "p") : cl \in D}
    IN IF \E cl \in D : R(cl, "c") = {} /\ R(cl, "p") = {} THEN allpairs     \* an unconstrained clause
       ELSE IF ~uniform("c") THEN (IF ~uniform("p") THEN allpairs ELSE anyOf("p"))
       ELSE IF ~uniform("p") THEN anyOf("c")
       ELSE {cp \in allpairs : /\ (C = {} \/ \E l \in C : holds(l, cp))
                               /\ (P = {} \/ \E l \in P : holds(l, cp))}

\* what the tree shipped at the snapshot collects instead: every category/package leaf found
\* by walking through the clause members' sub-nodes, its negate flag dropped
RECURSIVE LeavesInside(_)
LeavesInside(l) == IF l.k = "leaf" THEN {l} ELSE IF l.k = "not" THEN {}
                   ELSE UNION {LeavesInside(l.ch[i]) : i \in DOMAIN l.ch}
ShippedRequired(LeafAttr, cl, a) ==
    {[x EXCEPT !.neg = FALSE] : x \in {y \in UNION {LeavesInside(l) : l \in cl} : LeafAttr[y.id] = a}}
ShippedCandidates(LeafAttr, LeafVal, t, allpairs) ==
    LET D == RefDNF(t)
        R(cl, a) == ShippedRequired(LeafAttr, cl, a)
        uniform(a) == \A c1, c2 \in D : (R(c1, a) = {}) = (R(c2, a) = {})
        holds(l, cp) == LeafHoldsCP(LeafAttr, LeafVal, l, cp)
        anyOf(a) == {cp \in allpairs : \E cl \in D : \E l \in R(cl, a) : holds(l, cp)}
        C == UNION {R(cl, "c") : cl \in D}
        P == UNION {R(cl, "p") : cl \in D}
    IN IF \E cl \in D : R(cl, "c") = {} /\ R(cl, "p") = {} THEN allpairs
       ELSE IF ~uniform("c") THEN (IF ~uniform("p") THEN allpairs ELSE anyOf("p"))
       ELSE IF ~uniform("p") THEN anyOf("c")
       ELSE {cp \in allpairs : /\ (C = {} \/ \E l \in C : holds(l, cp))
                               /\ (P = {} \/ \E l \in P : holds(l, cp))}
=========================================================================
