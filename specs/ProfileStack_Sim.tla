---------------------------- MODULE ProfileStack_Sim ----------------------------
(* G03 spec -> code: TLC (simulation mode) chooses a repository format and a history of
   Open / Get / Edit / DropAll over the ProfileStack_MC diamond, every node file editable from the
   menus (directories, unparsable files and parent lines naming nothing included).  Only the INPUTS
   are recorded; drivers/g03_profilestack.py builds the tree in a temporary directory, performs the
   calls on real OnDiskProfile objects and ProfileStack_Trace judges what they returned.          *)
EXTENDS ProfileStack_MC
CONSTANT D
VARIABLES hist, t0, done
NoC == [st |-> "file", v |-> <<>>]
H(ev, o, x, node, file, c) == [ev |-> ev, o |-> o, x |-> x, node |-> node, file |-> file, c |-> c]
SimEdits == {<<n, f>> : n \in {Root, "n1", "n2", "n3", "n4"}, f \in Files} \ {<<Root, "P">>}
SimInit == Init /\ hist = <<>> /\ t0 = s.disk /\ done = FALSE
Finish == Len(hist) = D /\ ~done /\ done' = TRUE /\ UNCHANGED <<vars, hist, t0>>
Act == /\ Len(hist) < D /\ UNCHANGED <<t0, done>>
       /\ \/ \E o \in Objs, leaf \in OpenLeaves : Open(o, leaf) /\ hist' = Append(hist, H("open", o, leaf, "-", "-", NoC))
          \/ \E o \in Objs, a \in GetAttrs : Get(o, a) /\ hist' = Append(hist, H("get", o, a, "-", "-", NoC))
          \/ \E e \in SimEdits : \E c \in Menu(e[1], e[2]) : Edit(e[1], e[2], c) /\ hist' = Append(hist, H("edit", "-", "-", e[1], e[2], c))
          \/ DropAll /\ hist' = Append(hist, H("dropall", "-", "-", "-", "-", NoC))
SimNext == Act \/ Finish
SimSpec == SimInit /\ [][SimNext]_<<vars, hist, t0, done>>
Emit == ~done \/ PrintT(<<"BEH", t0, hist>>)
=========================================================================
