----------------------------- MODULE OrderLaws_MC -----------------------------
(* C02, design level: why the clauses matter.  The objects of a group are put, in
   every possible order, into a hash set (lookup by hash, then ==; as Python's
   set/dict do) and into a list kept sorted by insertion with < (as bisect.insort
   / list.sort do).  With relations that satisfy the clauses the containers agree
   with equality whatever the insertion order:
       SetAgrees    the set holds exactly one object per class of ==
       SortedOK     no later element is < an earlier one
       ClassesTogether  equal objects end up next to each other in the list
       FindsAll     every inserted object is found again
   HashMode = "spelling" (hash of the text, what the property forbids) is the
   negative control: TLC must then report SetAgrees violated.                  *)
EXTENDS OrderLaws_Univ, TLC, Sequences

CONSTANT HashMode
VARIABLES grp, seen, stored, sorted
vars == <<grp, seen, stored, sorted>>

\* the relations, tabulated once for all things of all groups
AllThings == UNION Groups
ObsT == TLCEval([x \in AllThings |-> TLCEval([y \in AllThings |-> RefObs(HashMode, x, y)])])
Eq(x, y)     == ObsT[x][y].eq
Lt(x, y)     == ObsT[x][y].lt
HashEq(x, y) == ObsT[x][y].heq

Init == grp \in Groups /\ seen = {} /\ stored = <<>> /\ sorted = <<>>

\* set.add(x): probe the bucket of hash(x), compare with ==
SetAdd(s, x) == IF \E p \in 1..Len(s) : HashEq(s[p], x) /\ Eq(s[p], x) THEN s ELSE Append(s, x)
\* insort: in front of the first element that x is < of
InsPos(s, x) == IF \E p \in 1..Len(s) : Lt(x, s[p])
                THEN CHOOSE p \in 1..Len(s) : Lt(x, s[p]) /\ \A q \in 1..(p - 1) : ~Lt(x, s[q])
                ELSE Len(s) + 1
Insort(s, x) == LET p == InsPos(s, x) IN SubSeq(s, 1, p - 1) \o <<x>> \o SubSeq(s, p, Len(s))

Insert(x) == /\ x \notin seen
             /\ seen' = seen \cup {x}
             /\ stored' = SetAdd(stored, x)
             /\ sorted' = Insort(sorted, x)
             /\ UNCHANGED grp
Next == \E x \in grp : Insert(x)
Spec == Init /\ [][Next]_vars

TypeOK    == seen \subseteq grp /\ Len(sorted) = Cardinality(seen)
SetAgrees == Len(stored) = Cardinality({{y \in seen : Eq(x, y)} : x \in seen})
FindsAll  == \A x \in seen : \E p \in 1..Len(stored) : HashEq(stored[p], x) /\ Eq(stored[p], x)
SortedOK  == \A p, q \in 1..Len(sorted) : p < q => ~Lt(sorted[q], sorted[p])
ClassesTogether == \A p, q, r \in 1..Len(sorted) : (p < q /\ q < r /\ Eq(sorted[p], sorted[r])) => Eq(sorted[p], sorted[q])
=============================================================================
