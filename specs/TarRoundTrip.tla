---------------------------- MODULE TarRoundTrip ----------------------------
(* C25: binary package tarballs round-trip their contents (src/pkgcore/fs/tar.py).

   A contents set is a PATH-KEYED set of entries
     [path : Seq(name) (non empty, below the root), type : "dir" | "file" | "sym" | "fifo" | "dev",
      mode, uid, gid, msec, musec : Nat,               \* permission bits, owner, mtime (s, us)
      target : STRING, tabs : BOOLEAN, tcomps : Seq(name),   \* sym: target text + its structure
      cid : Nat,                                        \* file: identity of the data bytes
      major, minor : Nat, devkind : "c" | "b" | "-",    \* dev
      dev, ino : Nat]                                   \* file: device and inode NUMBER on that device,
                                                        \*       ino 0 = no inode information
   Inode numbers are unique per device only: files are hard links of each other when they agree on
   dev AND on a non-zero ino; the inode GROUPS are the partition of the file paths by <<dev, ino>>
   (ino 0 = singleton).  A set may span several devices whose inode numbers collide.

   An archive is a SEQUENCE of members  [name, kind : "dir"|"reg"|"lnk"|"sym"|"fifo"|"dev", link, ent]
   ("lnk" = tar hard link member: no data, `link` names another member; ent carries the attributes).

   The specification:   Read(Write(s))  ~  Expected(s)  =  Resolve(s) + missing parent directories
   where Resolve places every entry where a live merge would put it: the directory part of each
   path is walked through the set's own symlinks the way the kernel does (chains, nested and
   absolute links included); ~ compares path, type, mode, owner, mtime, target, data, device and
   the inode groups as PARTITIONS (inode numbers themselves are not preserved).                *)
EXTENDS Naturals, Sequences, SequencesExt, FiniteSets

Fuel == 24          \* symlink hops allowed while resolving one path (the kernel allows 40)

PathsOf(s)   == {e.path : e \in s}
PathKeyed(s) == \A a, b \in s : a.path = b.path => a = b
EntryAt(s, p) == CHOOSE e \in s : e.path = p
SymsOf(s)    == {e \in s : e.type = "sym"}
FilesOf(s)   == {e \in s : e.type = "file"}

SameInode(a, b) == a.ino # 0 /\ a.ino = b.ino /\ a.dev = b.dev
\* hard links are ONE object: they cannot differ in attributes or data
GroupsConsistent(s) == \A a, b \in FilesOf(s) : SameInode(a, b) =>
                          /\ a.mode = b.mode /\ a.uid = b.uid /\ a.gid = b.gid
                          /\ a.msec = b.msec /\ a.musec = b.musec /\ a.cid = b.cid

(* ------------------------------------------------------------------------------------------
   Resolution of symlinked directories ("as for a live merge")
   A symlink table is a set of [loc, tabs, tcomps]: the link at (physical) location loc points to
   tcomps, relative to its own directory unless tabs.                                          *)
TabAt(tab, p) == CHOOSE t \in tab : t.loc = p
RECURSIVE Walk(_, _, _, _)
\* pre: physical directory reached so far; rest: components still to walk (all of them are
\* followed: this walks a DIRECTORY path)
Walk(tab, pre, rest, fuel) ==
    IF rest = <<>> THEN [ok |-> TRUE, p |-> pre]
    ELSE LET c == Head(rest)  r == Tail(rest) IN
         IF c = "." THEN Walk(tab, pre, r, fuel)
         ELSE IF c = ".." THEN Walk(tab, IF pre = <<>> THEN pre ELSE Front(pre), r, fuel)
         ELSE LET cand == Append(pre, c) IN
              IF \E t \in tab : t.loc = cand
              THEN IF fuel = 0 THEN [ok |-> FALSE, p |-> <<>>]
                   ELSE LET t == TabAt(tab, cand) IN
                        Walk(tab, IF t.tabs THEN <<>> ELSE pre, t.tcomps \o r, fuel - 1)
              ELSE Walk(tab, cand, r, fuel)
\* where an object named `path` really lands: directory part resolved, last component kept
Place(tab, path) == LET w == Walk(tab, <<>>, Front(path), Fuel) IN
                    [ok |-> w.ok, p |-> IF w.ok THEN Append(w.p, Last(path)) ELSE path]

\* the links are themselves named by logical paths: iterate to their physical locations
LogicalTab(s) == {[loc |-> e.path, tabs |-> e.tabs, tcomps |-> e.tcomps] : e \in SymsOf(s)}
Relocate(tab0, tab) == {[loc |-> Place(tab, t.loc).p, tabs |-> t.tabs, tcomps |-> t.tcomps] : t \in tab0}
RECURSIVE FixTab(_, _, _)
FixTab(tab0, tab, n) == LET t2 == Relocate(tab0, tab) IN
                        IF n = 0 \/ t2 = tab THEN tab ELSE FixTab(tab0, t2, n - 1)
PhysTab(s) == FixTab(LogicalTab(s), LogicalTab(s), Cardinality(SymsOf(s)) + 1)

Resolve(s) == LET tab == PhysTab(s) IN {[e EXCEPT !.path = Place(tab, e.path).p] : e \in s}

ProperPrefixes(p) == {SubSeq(p, 1, k) : k \in 1..(Len(p) - 1)}
MissingDirs(r) == (UNION {ProperPrefixes(e.path) : e \in r}) \ PathsOf(r)

\* The domain in which "as for a live merge" has one answer:
\*  - the link table converges and no walk runs out of hops (no symlink loops),
\*  - no two entries land on the same place (which one wins is a matter of merge order),
\*  - nothing lands below a non-directory.
Resolvable(s) ==
    LET tab == PhysTab(s) IN
    /\ Relocate(LogicalTab(s), tab) = tab
    /\ \A e \in s : Place(tab, e.path).ok
    /\ Cardinality(LogicalTab(s)) = Cardinality(tab)
InDomain(s) ==
    /\ PathKeyed(s)
    /\ GroupsConsistent(s)
    /\ \A e \in s : e.path # <<>> /\ \A k \in DOMAIN e.path : e.path[k] \notin {".", "..", ""}
    /\ Resolvable(s)
    /\ LET r == Resolve(s) IN
       /\ Cardinality(PathsOf(r)) = Cardinality(s)
       /\ \A e \in r : \A q \in ProperPrefixes(e.path) : q \in PathsOf(r) => EntryAt(r, q).type = "dir"

(* ------------------------------------------------------------------------------------------
   Equivalence of what was read (out) with what is expected (exp), clause by clause.
   `extra` are the paths at which a directory may have been supplied for a missing parent.     *)
SameGroup(s, p, q) == p = q \/ SameInode(EntryAt(s, p), EntryAt(s, q))
GroupsEqual(out, exp) ==
    LET fp == {e.path : e \in FilesOf(exp)} \cap {e.path : e \in FilesOf(out)} IN
    \A p \in fp, q \in fp : SameGroup(out, p, q) <=> SameGroup(exp, p, q)
Common(out, exp) == PathsOf(out) \cap PathsOf(exp)
Differ(out, exp, F(_)) == {p \in Common(out, exp) : F(EntryAt(out, p)) # F(EntryAt(exp, p))}
FType(e)   == e.type
FMode(e)   == e.mode
FOwner(e)  == <<e.uid, e.gid>>
FMtime(e)  == <<e.msec, e.musec>>
FTarget(e) == IF e.type = "sym" THEN e.target ELSE ""
FData(e)   == IF e.type = "file" THEN e.cid ELSE 0
FDevice(e) == IF e.type = "dev" THEN <<e.devkind, e.major, e.minor>> ELSE <<>>

(* ------------------------------------------------------------------------------------------
   Archive model: Write and Read                                                              *)
Member(e, kind, link) == [name |-> e.path, kind |-> kind, link |-> link, ent |-> e]
KindOf(e) == IF e.type = "file" THEN "reg" ELSE e.type

\* writer: a file whose inode was already written becomes a "lnk" member naming the FIRST member
\* of its group; everything else carries itself.  order: the set as a sequence (directories first
\* in the real writer; the result must not depend on the order).
RECURSIVE WriteFrom(_, _, _)
WriteFrom(order, arch, seen) ==       \* seen: set of <<dev, ino, path of the first member>>
    IF order = <<>> THEN arch
    ELSE LET e == Head(order)
             hit == {x \in seen : e.type = "file" /\ e.ino # 0 /\ x[1] = e.dev /\ x[2] = e.ino} IN
         IF hit # {}
         THEN WriteFrom(Tail(order), Append(arch, Member(e, "lnk", (CHOOSE x \in hit : TRUE)[3])), seen)
         ELSE WriteFrom(Tail(order), Append(arch, Member(e, KindOf(e), <<>>)),
                        IF e.type = "file" /\ e.ino # 0 THEN seen \cup {<<e.dev, e.ino, e.path>>} ELSE seen)
WriteSeq(order) == WriteFrom(order, <<>>, {})

\* reader, step 1: members -> raw entries with fresh inode numbers.  A "lnk" member takes the inode
\* of the member it names (which may itself be a lnk: chains x -> y -> z) and its data.
LastNamed(arch, upto, name) ==       \* index of the last member before position upto with that name, 0 if none
    LET ks == {k \in 1..(upto - 1) : arch[k].name = name} IN
    IF ks = {} THEN 0 ELSE CHOOSE k \in ks : \A j \in ks : j <= k
RECURSIVE InoOfMember(_, _)
InoOfMember(arch, k) ==              \* inode number given to member k: index of the data-bearing member
    IF arch[k].kind # "lnk" THEN k
    ELSE LET t == LastNamed(arch, k, arch[k].link) IN IF t = 0 THEN 0 ELSE InoOfMember(arch, t)
LinksResolvable(arch) == \A k \in DOMAIN arch : arch[k].kind = "lnk" =>
                            /\ InoOfMember(arch, k) # 0
                            /\ arch[InoOfMember(arch, k)].kind = "reg"
RawEntry(arch, k) ==
    LET m == arch[k] IN
    IF m.kind \in {"reg", "lnk"}
    THEN [m.ent EXCEPT !.path = m.name, !.type = "file", !.dev = 1, !.ino = InoOfMember(arch, k),   \* one device: the archive
                       !.cid = IF InoOfMember(arch, k) = 0 THEN 0 ELSE arch[InoOfMember(arch, k)].ent.cid]
    ELSE [m.ent EXCEPT !.path = m.name, !.type = m.kind, !.dev = 0, !.ino = 0]
\* later members replace earlier ones of the same name (path keyed)
RawRead(arch) == {RawEntry(arch, k) : k \in {j \in DOMAIN arch : \A i \in DOMAIN arch : arch[i].name = arch[j].name => i <= j}}
\* reader, step 2: resolve symlinked directories; step 3: supply missing parents (attributes of
\* those are not specified: DirStub marks them)
DirStub(p) == [path |-> p, type |-> "dir", mode |-> 0, uid |-> 0, gid |-> 0, msec |-> 0, musec |-> 0,
               target |-> "", tabs |-> FALSE, tcomps |-> <<>>, cid |-> 0, major |-> 0, minor |-> 0,
               devkind |-> "-", dev |-> 0, ino |-> 0]
ReadArchive(arch) == LET r == Resolve(RawRead(arch)) IN r \cup {DirStub(p) : p \in MissingDirs(r)}
Expected(s)       == LET r == Resolve(s) IN r \cup {DirStub(p) : p \in MissingDirs(r)}

\* full equivalence (used by the laws / MC; the trace spec reports it clause by clause)
Equivalent(out, exp, extra) ==
    /\ PathsOf(out) = PathsOf(exp)
    /\ \A p \in PathsOf(out) :
          LET a == EntryAt(out, p)  b == EntryAt(exp, p) IN
          IF p \in extra THEN a.type = "dir"
          ELSE /\ FType(a) = FType(b) /\ FMode(a) = FMode(b) /\ FOwner(a) = FOwner(b) /\ FMtime(a) = FMtime(b)
               /\ FTarget(a) = FTarget(b) /\ FData(a) = FData(b) /\ FDevice(a) = FDevice(b)
    /\ GroupsEqual(out, exp)
=========================================================================
