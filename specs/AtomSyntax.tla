---------------------------- MODULE AtomSyntax ----------------------------
(* C03: the PMS package dependency specification grammar (PMS 8.3, names: 3.1, versions: 3.2),
   per EAPI, over text given as a sequence of code points.

   Two independent definitions:
     * a RECOGNISER   Parse(text, eapi) -> [v \in {"Accept","Reject","Unspecified"}, why, st]
       (st = the structure read: blocks, op, cat, pkg, ver, rev, slot, subslot, slotop, repo, use)
     * a GENERATOR    Render(st) / Features(st) / Allowed(features, eapi), plus a catalogue of
       violations Mut(st, m) of a valid structure.
   AtomSyntax_MC checks them against each other.

   EAPI features (PMS table 8.x): slot deps >= 1; "!!" and USE deps >= 2; (+)/(-) defaults >= 4;
   sub-slots and the slot operators := :* >= 5; "::repo" is pkgcore's extension, valid only when
   no EAPI is given (eapi = "none").

   "Unspecified" (not judged):
     - "~" together with a revision                       (PMS does not say);
     - a slot / sub-slot that begins with "+"            (PMS 3.1.3 forbids it, pkgcore's own test
                                                           suite pins it as accepted);
     - an upper-case version letter (1A)                  (PMS: lower case only; pinned by pkgcore's
                                                           test suite) - whenever reading [A-Z] as a
                                                           version letter changes the verdict;
     - a repository id that ends in "-<version>"          (PMS: must also be a valid package name). *)
EXTENDS AtomVer

(* ---------------- characters ---------------- *)
Digit(c) == c >= 48 /\ c <= 57
Lower(c) == c >= 97 /\ c <= 122
Upper(c) == c >= 65 /\ c <= 90
Alnum(c) == Digit(c) \/ Lower(c) \/ Upper(c)
CatChar(c)  == Alnum(c) \/ c \in {43, 95, 46, 45}          \* + _ . -
PkgChar(c)  == Alnum(c) \/ c \in {43, 95, 45}              \* + _ -
SlotChar(c) == Alnum(c) \/ c \in {43, 95, 46, 45}          \* + _ . -
RepoChar(c) == Alnum(c) \/ c \in {95, 45}                  \* _ -
FlagChar(c) == Alnum(c) \/ c \in {43, 95, 64, 45}          \* + _ @ -

Pos(s, c) == {i \in 1..Len(s) : s[i] = c}
Cut(s, i, j) == IF i > j THEN <<>> ELSE SubSeq(s, i, j)
StartsWith(s, p) == Len(s) >= Len(p) /\ SubSeq(s, 1, Len(p)) = p
AllDigits(s) == \A i \in 1..Len(s) : Digit(s[i])
\* the pieces of s between the separators at positions seps (a set of texts)
Pieces(s, seps) == LET starts == {0} \cup seps
                       nxt(p) == AvLeast({q \in seps : q > p} \cup {Len(s) + 1})
                   IN {Cut(s, p + 1, nxt(p) - 1) : p \in starts}

(* ---------------- names (PMS 3.1) ---------------- *)
ValidCat(s)   == s # <<>> /\ (\A i \in 1..Len(s) : CatChar(s[i])) /\ s[1] \notin {45, 46, 43}
NameChars(s)  == s # <<>> /\ (\A i \in 1..Len(s) : PkgChar(s[i])) /\ s[1] \notin {45, 43}
ValidSlot(s)  == s # <<>> /\ (\A i \in 1..Len(s) : SlotChar(s[i])) /\ s[1] \notin {45, 46}   \* leading "+": see Unspecified
ValidFlag(s)  == s # <<>> /\ Alnum(s[1]) /\ (\A i \in 1..Len(s) : FlagChar(s[i]))
RepoChars(s)  == s # <<>> /\ (\A i \in 1..Len(s) : RepoChar(s[i])) /\ s[1] # 45

(* ---------------- versions (PMS 3.2) ---------------- *)
SufWords == {<<97, 108, 112, 104, 97>>, <<98, 101, 116, 97>>, <<112, 114, 101>>, <<114, 99>>, <<112>>}
IsSuffix1(s) == \E w \in SufWords : StartsWith(s, w) /\ AllDigits(Cut(s, Len(w) + 1, Len(s)))
\* digits(.digits)* followed by at most one letter (upper case only when loose)
IsMain(s, loose) ==
    /\ s # <<>>
    /\ LET n == Len(s)
           hasL == Lower(s[n]) \/ (loose /\ Upper(s[n]))
           d == IF hasL THEN Cut(s, 1, n - 1) ELSE s
       IN /\ d # <<>>
          /\ \A i \in 1..Len(d) : Digit(d[i]) \/ d[i] = 46
          /\ Digit(d[1]) /\ Digit(d[Len(d)])
          /\ \A i \in 1..(Len(d) - 1) : ~(d[i] = 46 /\ d[i + 1] = 46)
IsVersion(s, loose) ==
    LET us == Pos(s, 95)
        main == IF us = {} THEN s ELSE Cut(s, 1, AvLeast(us) - 1)
        sufs == IF us = {} THEN {} ELSE Pieces(Cut(s, AvLeast(us) + 1, Len(s)), {i - AvLeast(us) : i \in us \ {AvLeast(us)}})
    IN IsMain(main, loose) /\ \A x \in sufs : IsSuffix1(x)
IsRev(s) == Len(s) >= 2 /\ s[1] = 114 /\ AllDigits(Cut(s, 2, Len(s)))

\* a name must not end in "-" followed by something matching the version syntax (which may carry -rN)
EndsInVersion(s, loose) ==
    LET hy == Pos(s, 45) IN
    hy # {} /\
    LET l == AvMost(hy)  last == Cut(s, l + 1, Len(s)) IN
    \/ IsVersion(last, loose)
    \/ /\ IsRev(last) /\ hy \ {l} # {}
       /\ IsVersion(Cut(s, AvMost(hy \ {l}) + 1, l - 1), loose)
ValidName(s, loose) == NameChars(s) /\ ~EndsInVersion(s, loose)

(* ---------------- EAPIs ---------------- *)
Eapis == {"0", "1", "2", "3", "4", "5", "6", "7", "8", "9", "none"}
EapiNum(e) == CASE e = "0" -> 0 [] e = "1" -> 1 [] e = "2" -> 2 [] e = "3" -> 3 [] e = "4" -> 4 [] e = "5" -> 5
                [] e = "6" -> 6 [] e = "7" -> 7 [] e = "8" -> 8 [] e = "9" -> 9 [] e = "none" -> 99
\* features: "slot", "subslot", "slotop", "use", "usedefault", "strongblock", "repo"
FeatureOK(f, e) == CASE f = "slot" -> EapiNum(e) >= 1
                     [] f = "subslot" -> EapiNum(e) >= 5
                     [] f = "slotop" -> EapiNum(e) >= 5
                     [] f = "use" -> EapiNum(e) >= 2
                     [] f = "usedefault" -> EapiNum(e) >= 4
                     [] f = "strongblock" -> EapiNum(e) >= 2
                     [] f = "repo" -> e = "none"
Allowed(fs, e) == \A f \in fs : FeatureOK(f, e)

(* ---------------- USE dependency items (PMS 8.3.4) ----------------
   item ::= ["-"] flag [default]  |  ["!"] flag [default] ("=" | "?")        default ::= "(+)" | "(-)" *)
ItemCore(x) == LET n == Len(x)
                   cond == n >= 1 /\ x[n] \in {61, 63}                     \* = ?
                   y == IF cond THEN Cut(x, 1, n - 1) ELSE x
                   pre == y # <<>> /\ ((cond /\ y[1] = 33) \/ (~cond /\ y[1] = 45))   \* ! resp. -
                   z == IF pre THEN Cut(y, 2, Len(y)) ELSE y
                   m == Len(z)
                   dflt == m >= 3 /\ z[m] = 41 /\ z[m - 2] = 40 /\ z[m - 1] \in {43, 45}   \* (+) (-)
               IN [flag |-> IF dflt THEN Cut(z, 1, m - 3) ELSE z, dflt |-> dflt]
ValidItem(x) == ValidFlag(ItemCore(x).flag)

(* ---------------- the recogniser ---------------- *)
NoSt == [blocks |-> "", op |-> "", cat |-> <<>>, pkg |-> <<>>, ver |-> <<>>, rev |-> <<>>, slot |-> <<>>, subslot |-> <<>>,
         slotop |-> "", repo |-> <<>>, use |-> {}]
R(why) == [v |-> "Reject", why |-> why, st |-> NoSt]

\* cat/name[-ver[-rN]] : returns [ok, cat, pkg, ver, rev]
ParseCpv(t, versioned, glob, loose) ==
    LET sl == Pos(t, 47) IN
    IF Cardinality(sl) # 1 THEN [ok |-> FALSE, why |-> "key"]
    ELSE LET k == AvLeast(sl)  cat == Cut(t, 1, k - 1)  pv == Cut(t, k + 1, Len(t)) IN
         IF ~ValidCat(cat) THEN [ok |-> FALSE, why |-> "category"]
         ELSE IF ~versioned
              THEN IF ValidName(pv, loose) THEN [ok |-> TRUE, cat |-> cat, pkg |-> pv, ver |-> <<>>, rev |-> <<>>]
                   ELSE [ok |-> FALSE, why |-> "package"]
              ELSE LET hy == Pos(pv, 45) IN
                   IF hy = {} THEN [ok |-> FALSE, why |-> "version"]
                   ELSE LET l == AvMost(hy)  last == Cut(pv, l + 1, Len(pv))  isr == IsRev(last) IN
                        IF isr /\ hy \ {l} = {} THEN [ok |-> FALSE, why |-> "version"]
                        ELSE LET l2 == IF isr THEN AvMost(hy \ {l}) ELSE l
                                 vt == IF isr THEN Cut(pv, l2 + 1, l - 1) ELSE last
                                 nm == Cut(pv, 1, l2 - 1)
                             IN IF ~IsVersion(vt, loose) THEN [ok |-> FALSE, why |-> "version"]
                                ELSE IF ~ValidName(nm, loose) THEN [ok |-> FALSE, why |-> "package"]
                                ELSE [ok |-> TRUE, cat |-> cat, pkg |-> nm, ver |-> vt, rev |-> IF isr THEN Cut(last, 2, Len(last)) ELSE <<>>]

Parse(s, e) ==
    IF s = <<>> THEN R("empty") ELSE
    (* 1. USE part *)
    LET lb == Pos(s, 91)  rb == Pos(s, 93)
        hasUse == lb # {}
        u == IF hasUse THEN AvLeast(lb) ELSE Len(s) + 1
        useShape == ~hasUse \/ (Cardinality(lb) = 1 /\ rb = {Len(s)})
        body == Cut(s, u + 1, Len(s) - 1)
        items == IF hasUse /\ useShape THEN Pieces(body, Pos(body, 44)) ELSE {}
        rest == Cut(s, 1, u - 1)
    IN
    IF ~hasUse /\ rb # {} THEN R("use") ELSE
    IF ~useShape THEN R("use") ELSE
    IF hasUse /\ \E x \in items : ~ValidItem(x) THEN R("use") ELSE
    (* 2. slot / repository part *)
    LET co == Pos(rest, 58)
        hasCo == co # {}
        c == IF hasCo THEN AvLeast(co) ELSE Len(rest) + 1
        dep == Cut(rest, 1, c - 1)
        tail == Cut(rest, c + 1, Len(rest))
        \* position (in tail) of the first "::" ; 0 = the colon that opened the tail is its first half
        dbl == {i \in 1..(Len(tail) - 1) : tail[i] = 58 /\ tail[i + 1] = 58}
        repoOnly == hasCo /\ tail # <<>> /\ tail[1] = 58
        hasRepo == repoOnly \/ dbl # {}
        slotText == IF repoOnly THEN <<>> ELSE IF dbl # {} THEN Cut(tail, 1, AvLeast(dbl) - 1) ELSE tail
        repo == IF repoOnly THEN Cut(tail, 2, Len(tail)) ELSE IF dbl # {} THEN Cut(tail, AvLeast(dbl) + 2, Len(tail)) ELSE <<>>
        \* slot text:  "*" | "=" | name ["/" name] ["="]
        isOp == slotText \in {<<42>>, <<61>>}
        trailEq == ~isOp /\ slotText # <<>> /\ slotText[Len(slotText)] = 61
        names == IF trailEq THEN Cut(slotText, 1, Len(slotText) - 1) ELSE slotText
        sls == Pos(names, 47)
        slot == IF isOp THEN <<>> ELSE IF sls = {} THEN names ELSE Cut(names, 1, AvLeast(sls) - 1)
        subslot == IF isOp \/ sls = {} THEN <<>> ELSE Cut(names, AvLeast(sls) + 1, Len(names))
        slotop == IF isOp THEN (IF slotText = <<42>> THEN "*" ELSE "=") ELSE IF trailEq THEN "=" ELSE ""
        hasSlotPart == hasCo /\ ~repoOnly
        slotOK == ~hasSlotPart \/ isOp \/ (ValidSlot(slot) /\ (sls = {} \/ ValidSlot(subslot)))
    IN
    IF hasSlotPart /\ ~slotOK THEN R("slot") ELSE
    IF hasRepo /\ ~RepoChars(repo) THEN R("repo") ELSE
    (* 3. blocker, operator *)
    LET nb == IF StartsWith(dep, <<33, 33>>) THEN 2 ELSE IF StartsWith(dep, <<33>>) THEN 1 ELSE 0
        d1 == Cut(dep, nb + 1, Len(dep))
        op0 == IF StartsWith(d1, <<60, 61>>) THEN "<=" ELSE IF StartsWith(d1, <<62, 61>>) THEN ">="
               ELSE IF StartsWith(d1, <<60>>) THEN "<" ELSE IF StartsWith(d1, <<62>>) THEN ">"
               ELSE IF StartsWith(d1, <<61>>) THEN "=" ELSE IF StartsWith(d1, <<126>>) THEN "~" ELSE ""
        d2 == Cut(d1, (IF op0 \in {"<=", ">="} THEN 3 ELSE IF op0 = "" THEN 1 ELSE 2), Len(d1))
        glob == op0 = "=" /\ d2 # <<>> /\ d2[Len(d2)] = 42
        op == IF glob THEN "=*" ELSE op0
        cpvText == IF glob THEN Cut(d2, 1, Len(d2) - 1) ELSE d2
        strict == ParseCpv(cpvText, op # "", glob, FALSE)
        loose == ParseCpv(cpvText, op # "", glob, TRUE)
        feats == (IF hasSlotPart /\ ~isOp THEN {"slot"} ELSE {}) \cup (IF subslot # <<>> THEN {"subslot"} ELSE {})
                 \cup (IF slotop # "" THEN {"slotop"} ELSE {}) \cup (IF hasUse THEN {"use"} ELSE {})
                 \cup (IF \E x \in items : ItemCore(x).dflt THEN {"usedefault"} ELSE {})
                 \cup (IF nb = 2 THEN {"strongblock"} ELSE {}) \cup (IF hasRepo THEN {"repo"} ELSE {})
    IN
    IF ~strict.ok /\ ~loose.ok THEN R(strict.why) ELSE
    IF ~Allowed(feats, e) THEN R("eapi") ELSE
    IF strict.ok # loose.ok THEN [v |-> "Unspecified", why |-> "uppercase-version-letter", st |-> NoSt] ELSE
    IF op = "~" /\ strict.rev # <<>> THEN [v |-> "Unspecified", why |-> "tilde-with-revision", st |-> NoSt] ELSE
    IF (slot # <<>> /\ slot[1] = 43) \/ (subslot # <<>> /\ subslot[1] = 43) THEN [v |-> "Unspecified", why |-> "slot-leading-plus", st |-> NoSt] ELSE
    IF hasRepo /\ EndsInVersion(repo, TRUE) THEN [v |-> "Unspecified", why |-> "repo-version-tail", st |-> NoSt] ELSE
    [v |-> "Accept", why |-> "",
     st |-> [blocks |-> IF nb = 2 THEN "!!" ELSE IF nb = 1 THEN "!" ELSE "", op |-> op, cat |-> strict.cat, pkg |-> strict.pkg,
             ver |-> strict.ver, rev |-> strict.rev, slot |-> slot, subslot |-> subslot, slotop |-> slotop, repo |-> repo, use |-> items]]

(* ---------------- the generator ---------------- *)
\* structure: same fields as st, use = SEQUENCE of item texts (written order)
RECURSIVE JoinWith(_, _)
JoinWith(seq, sep) == IF seq = <<>> THEN <<>> ELSE IF Len(seq) = 1 THEN seq[1]
                      ELSE JoinWith(SubSeq(seq, 1, Len(seq) - 1), sep) \o sep \o seq[Len(seq)]
OpText(op) == CASE op = "" -> <<>> [] op = "<" -> <<60>> [] op = "<=" -> <<60, 61>> [] op = "=" -> <<61>> [] op = "=*" -> <<61>>
                [] op = "~" -> <<126>> [] op = ">=" -> <<62, 61>> [] op = ">" -> <<62>>
BlockText(b) == CASE b = "" -> <<>> [] b = "!" -> <<33>> [] b = "!!" -> <<33, 33>>
SlotPartText(g) == IF g.slot # <<>>
                   THEN <<58>> \o g.slot \o (IF g.subslot # <<>> THEN <<47>> \o g.subslot ELSE <<>>) \o (IF g.slotop = "=" THEN <<61>> ELSE <<>>)
                   ELSE IF g.slotop = "=" THEN <<58, 61>> ELSE IF g.slotop = "*" THEN <<58, 42>> ELSE <<>>
CpvText(g) == g.cat \o <<47>> \o g.pkg
              \o (IF g.op # "" THEN <<45>> \o g.ver \o (IF g.rev # <<>> THEN <<45, 114>> \o g.rev ELSE <<>>) ELSE <<>>)
              \o (IF g.op = "=*" THEN <<42>> ELSE <<>>)
UsePartText(g) == IF g.use = <<>> THEN <<>> ELSE <<91>> \o JoinWith(g.use, <<44>>) \o <<93>>
RepoPartText(g) == IF g.repo # <<>> THEN <<58, 58>> \o g.repo ELSE <<>>
Render(g) == BlockText(g.blocks) \o OpText(g.op) \o CpvText(g) \o SlotPartText(g) \o RepoPartText(g) \o UsePartText(g)
Features(g) == (IF g.slot # <<>> THEN {"slot"} ELSE {}) \cup (IF g.subslot # <<>> THEN {"subslot"} ELSE {})
               \cup (IF g.slotop # "" THEN {"slotop"} ELSE {}) \cup (IF g.use # <<>> THEN {"use"} ELSE {})
               \cup (IF \E k \in DOMAIN g.use : \E i \in 1..Len(g.use[k]) : g.use[k][i] = 40 THEN {"usedefault"} ELSE {})
               \cup (IF g.blocks = "!!" THEN {"strongblock"} ELSE {}) \cup (IF g.repo # <<>> THEN {"repo"} ELSE {})
Normal(g) == [g EXCEPT !.use = {g.use[k] : k \in DOMAIN g.use}]

(* ---------------- catalogue of violations of a valid structure g ----------------
   every Mut(g, m) is invalid under every EAPI (checked by AtomSyntax_MC)               *)
HeadText(g) == BlockText(g.blocks) \o OpText(g.op) \o CpvText(g)
WithSlot(g, t) == HeadText(g) \o <<58>> \o t \o RepoPartText(g) \o UsePartText(g)
WithRepo(g, t) == HeadText(g) \o SlotPartText(g) \o <<58, 58>> \o t \o UsePartText(g)
WithUse(g, t) == HeadText(g) \o SlotPartText(g) \o RepoPartText(g) \o <<91>> \o t \o <<93>>
WithCpv(g, t) == BlockText(g.blocks) \o OpText(g.op) \o t \o (IF g.op = "=*" THEN <<42>> ELSE <<>>) \o SlotPartText(g) \o RepoPartText(g) \o UsePartText(g)
VerOf(g) == IF g.op = "" THEN <<>> ELSE <<45>> \o g.ver \o (IF g.rev # <<>> THEN <<45, 114>> \o g.rev ELSE <<>>)
Mutations == {"slot_dash", "slot_dot", "slot_badchar", "slot_empty", "subslot_empty", "subslot_dash", "subslot_dot", "subslot_badchar", "subslot_dash_op", "slot_empty_sub", "slotop_target", "slotop_double",
              "slot_comma", "repo_empty", "repo_dash", "repo_badchar", "repo_twice",
              "use_empty", "use_empty_item", "use_first_char", "use_badchar", "use_neg_cond", "use_bang_plain", "use_two_conds",
              "use_bad_default", "use_default_first", "use_unclosed", "use_trailing", "use_before_slot", "use_nested", "use_double_neg",
              "op_no_version", "version_no_op", "glob_not_eq", "glob_dot", "glob_inner", "three_bangs", "bang_after_op", "no_slash", "two_slashes",
              "empty_cat", "empty_pkg", "cat_dash", "cat_badchar", "pkg_plus", "pkg_dash", "pkg_badchar", "ver_bad_suffix", "ver_trailing_dot", "ver_double_dot",
              "ver_letter_mid", "ver_two_letters", "ver_suffix_junk", "rev_no_digits", "rev_junk", "name_version_tail", "name_version_rev_tail",
              "trailing_space", "leading_space", "trailing_newline", "inner_newline", "empty"}
Mut(g, m) ==
  CASE m = "slot_dash"      -> WithSlot(g, <<45, 49>>)
    [] m = "slot_dot"       -> WithSlot(g, <<46, 49>>)
    [] m = "slot_badchar"   -> WithSlot(g, <<49, 64, 50>>)
    [] m = "slot_empty"     -> HeadText(g) \o <<58>> \o UsePartText(g)
    [] m = "subslot_empty"  -> WithSlot(g, <<49, 47>>)
    [] m = "subslot_dash"   -> WithSlot(g, <<49, 47, 45, 49>>)
    [] m = "subslot_dot"    -> WithSlot(g, <<48, 47, 46, 49>>)
    [] m = "subslot_badchar" -> WithSlot(g, <<49, 47, 49, 64, 50>>)
    [] m = "subslot_dash_op" -> WithSlot(g, <<48, 47, 45, 97, 61>>)
    [] m = "slot_empty_sub" -> WithSlot(g, <<47, 49>>)
    [] m = "slotop_target"  -> WithSlot(g, <<42, 49>>)
    [] m = "slotop_double"  -> WithSlot(g, <<49, 61, 61>>)
    [] m = "slot_comma"     -> WithSlot(g, <<49, 44, 50>>)
    [] m = "repo_empty"     -> WithRepo(g, <<>>)
    [] m = "repo_dash"      -> WithRepo(g, <<45, 114>>)
    [] m = "repo_badchar"   -> WithRepo(g, <<114, 46, 120>>)
    [] m = "repo_twice"     -> WithRepo(g, <<114, 58, 58, 115>>)
    [] m = "use_empty"      -> WithUse(g, <<>>)
    [] m = "use_empty_item" -> WithUse(g, <<120, 44>>)
    [] m = "use_first_char" -> WithUse(g, <<95, 120>>)
    [] m = "use_badchar"    -> WithUse(g, <<120, 46, 121>>)
    [] m = "use_neg_cond"   -> WithUse(g, <<45, 120, 63>>)
    [] m = "use_bang_plain" -> WithUse(g, <<33, 120>>)
    [] m = "use_two_conds"  -> WithUse(g, <<120, 63, 61>>)
    [] m = "use_bad_default" -> WithUse(g, <<120, 40, 42, 41>>)
    [] m = "use_default_first" -> WithUse(g, <<40, 43, 41, 120>>)
    [] m = "use_unclosed"   -> HeadText(g) \o SlotPartText(g) \o RepoPartText(g) \o <<91, 120>>
    [] m = "use_trailing"   -> WithUse(g, <<120>>) \o <<97>>
    [] m = "use_before_slot" -> HeadText(g) \o <<91, 120, 93, 58, 49>>
    [] m = "use_nested"     -> WithUse(g, <<91, 120, 93>>)
    [] m = "use_double_neg" -> WithUse(g, <<45, 45, 120>>)
    [] m = "op_no_version"  -> BlockText(g.blocks) \o (IF g.op = "" THEN <<62>> ELSE OpText(g.op)) \o g.cat \o <<47>> \o g.pkg \o SlotPartText(g)
    [] m = "version_no_op"  -> BlockText(g.blocks) \o g.cat \o <<47>> \o g.pkg \o (IF g.op = "" THEN <<45, 49>> ELSE VerOf(g)) \o SlotPartText(g)
    [] m = "glob_not_eq"    -> BlockText(g.blocks) \o <<62>> \o g.cat \o <<47>> \o g.pkg \o <<45, 49, 42>>
    [] m = "glob_dot"       -> BlockText(g.blocks) \o <<61>> \o g.cat \o <<47>> \o g.pkg \o <<45, 49, 46, 42>>
    [] m = "glob_inner"     -> BlockText(g.blocks) \o <<61>> \o g.cat \o <<47>> \o g.pkg \o <<45, 49, 42, 45, 114, 49>>
    [] m = "three_bangs"    -> <<33, 33, 33>> \o OpText(g.op) \o CpvText(g)
    [] m = "bang_after_op"  -> <<62, 33>> \o g.cat \o <<47>> \o g.pkg \o <<45, 49>>
    [] m = "no_slash"       -> BlockText(g.blocks) \o OpText(g.op) \o g.pkg \o VerOf(g) \o (IF g.op = "=*" THEN <<42>> ELSE <<>>)
    [] m = "two_slashes"    -> WithCpv(g, g.cat \o <<47>> \o g.cat \o <<47>> \o g.pkg \o VerOf(g))
    [] m = "empty_cat"      -> WithCpv(g, <<47>> \o g.pkg \o VerOf(g))
    [] m = "empty_pkg"      -> WithCpv(g, g.cat \o <<47>> \o (IF g.op = "" THEN <<>> ELSE Cut(VerOf(g), 2, Len(VerOf(g)))))
    [] m = "cat_dash"       -> WithCpv(g, <<45>> \o g.cat \o <<47>> \o g.pkg \o VerOf(g))
    [] m = "cat_badchar"    -> WithCpv(g, g.cat \o <<64>> \o <<47>> \o g.pkg \o VerOf(g))
    [] m = "pkg_plus"       -> WithCpv(g, g.cat \o <<47, 43>> \o g.pkg \o VerOf(g))
    [] m = "pkg_dash"       -> WithCpv(g, g.cat \o <<47, 45>> \o g.pkg \o VerOf(g))
    [] m = "pkg_badchar"    -> WithCpv(g, g.cat \o <<47>> \o g.pkg \o <<46>> \o <<120>> \o VerOf(g))
    [] m = "ver_bad_suffix" -> <<61>> \o g.cat \o <<47>> \o g.pkg \o <<45, 49, 95, 102, 111, 111>>
    [] m = "ver_trailing_dot" -> <<61>> \o g.cat \o <<47>> \o g.pkg \o <<45, 49, 46>>
    [] m = "ver_double_dot" -> <<61>> \o g.cat \o <<47>> \o g.pkg \o <<45, 49, 46, 46, 50>>
    [] m = "ver_letter_mid" -> <<61>> \o g.cat \o <<47>> \o g.pkg \o <<45, 49, 97, 46, 50>>
    [] m = "ver_two_letters" -> <<61>> \o g.cat \o <<47>> \o g.pkg \o <<45, 49, 97, 98>>
    [] m = "ver_suffix_junk" -> <<61>> \o g.cat \o <<47>> \o g.pkg \o <<45, 49, 95, 112, 49, 120>>
    [] m = "rev_no_digits"  -> <<61>> \o g.cat \o <<47>> \o g.pkg \o <<45, 49, 45, 114>>
    [] m = "rev_junk"       -> <<61>> \o g.cat \o <<47>> \o g.pkg \o <<45, 49, 45, 114, 49, 97>>
    [] m = "name_version_tail" -> WithCpv(g, g.cat \o <<47>> \o g.pkg \o <<45, 50>> \o VerOf(g))
    [] m = "name_version_rev_tail" -> WithCpv(g, g.cat \o <<47>> \o g.pkg \o <<45, 50, 95, 112, 49, 45, 114, 51>> \o VerOf(g))
    [] m = "trailing_space" -> Render(g) \o <<32>>
    [] m = "leading_space"  -> <<32>> \o Render(g)
    [] m = "trailing_newline" -> Render(g) \o <<10>>
    [] m = "inner_newline"  -> BlockText(g.blocks) \o OpText(g.op) \o g.cat \o <<10, 47>> \o g.pkg \o VerOf(g) \o (IF g.op = "=*" THEN <<42>> ELSE <<>>)
    [] m = "empty"          -> <<>>
=========================================================================
