---------------------------- MODULE UseStack_Sim ----------------------------
(* spec -> code: TLC (simulation mode) chooses histories of stack operations over a pool of
   K objects; each is printed once it reaches depth D and replayed on real ChunkedDataDict
   objects by drivers/c11_usestack.py.  hist holds only the INPUTS of the operations.       *)
EXTENDS UseStack, FiniteSets
CONSTANTS D, K
VARIABLES logs, live, frozen, hist, pend
vars == <<logs, live, frozen, hist, pend>>
Objs == 0..(K - 1)

SimToks == {<<"+", f>> : f \in {"x", "y", "p_a", "p_b"}} \cup {<<"-", f>> : f \in {"x", "y", "p_a", "p_b", "*", "p_*"}}
Consistent(T) == ~\E f \in Flags : <<"+", f>> \in T /\ <<"-", f>> \in T
NegOf(T) == {t[2] : t \in {u \in T : u[1] = "-"}}
PosOf(T) == {t[2] : t \in {u \in T : u[1] = "+"}}
Chunks(n) == {T \in SUBSET SimToks : Cardinality(T) <= n /\ Consistent(T)}
E1 == {[sc |-> sc, neg |-> NegOf(T), pos |-> PosOf(T)] : sc \in ScopeNames, T \in Chunks(2)}
\* update_from_stream with two entries: a smaller alphabet (the pairs are what matters)
E2 == {[sc |-> sc, neg |-> NegOf(T), pos |-> PosOf(T)] : sc \in {"glob", "cat_cat", "any_a", "eq_a1", "any_c"},
                                                        T \in {{<<"+", "x">>}, {<<"-", "x">>}, {<<"-", "*">>}, {<<"+", "p_a">>}, {<<"-", "p_*">>}}}
AsEntry(r) == Entry(r.sc, r.neg, r.pos)

A(op, obj, other, unf, cached, neg, pos, entries) ==
    [op |-> op, obj |-> obj, other |-> other, unfreeze |-> unf, cached |-> cached, neg |-> neg, pos |-> pos, entries |-> entries]
Step(a) == hist' = Append(hist, a)

\* the kind of the next operation is chosen first (uniformly), its arguments second: otherwise the
\* simulator, which picks uniformly among ALL successors, would almost always pick an add
Kinds == {"new", "global", "add1", "add2", "merge", "freeze", "clone", "optimize"}
Possible(k) == CASE k = "new" -> live # Objs
                 [] k \in {"global", "add1", "add2", "freeze"} -> live \ frozen # {}
                 [] k = "merge" -> live \ frozen # {} /\ Cardinality(live) >= 2
                 [] OTHER -> TRUE

Init == pend = "none" /\ logs = [o \in Objs |-> <<>>] /\ live = {0} /\ frozen = {} /\ hist = <<A("new", 0, 0, FALSE, FALSE, {}, {}, <<>>)>>
New(o)       == o \notin live /\ live' = live \cup {o} /\ UNCHANGED <<logs, frozen>> /\ Step(A("new", o, 0, FALSE, FALSE, {}, {}, <<>>))
Global(o, c) == o \in live \ frozen /\ logs' = [logs EXCEPT ![o] = AddBareGlobal(@, c.neg, c.pos)]
                /\ UNCHANGED <<live, frozen>> /\ Step(A("global", o, 0, FALSE, FALSE, c.neg, c.pos, <<>>))
Add1(o, e)   == o \in live \ frozen /\ logs' = [logs EXCEPT ![o] = AddEntries(@, <<AsEntry(e)>>)]
                /\ UNCHANGED <<live, frozen>> /\ Step(A("add", o, 0, FALSE, FALSE, {}, {}, <<e>>))
Add2(o, e, f) == o \in live \ frozen /\ logs' = [logs EXCEPT ![o] = AddEntries(@, <<AsEntry(e), AsEntry(f)>>)]
                /\ UNCHANGED <<live, frozen>> /\ Step(A("add", o, 0, FALSE, FALSE, {}, {}, <<e, f>>))
MergeOp(o, p) == o \in live \ frozen /\ p \in live /\ p # o /\ logs' = [logs EXCEPT ![o] = Merge(@, logs[p])]
                /\ UNCHANGED <<live, frozen>> /\ Step(A("merge", o, p, FALSE, FALSE, {}, {}, <<>>))
Freeze(o)    == o \in live \ frozen /\ frozen' = frozen \cup {o} /\ UNCHANGED <<logs, live>> /\ Step(A("freeze", o, 0, FALSE, FALSE, {}, {}, <<>>))
Clone(o, p, u) == o \in live /\ p # o /\ logs' = [logs EXCEPT ![p] = logs[o]] /\ live' = live \cup {p}
                /\ frozen' = (IF o \in frozen /\ ~u THEN frozen \cup {p} ELSE frozen \ {p})
                /\ Step(A("clone", o, p, u, FALSE, {}, {}, <<>>))
Optimize(o, c) == o \in live /\ UNCHANGED <<logs, live, frozen>> /\ Step(A("optimize", o, 0, FALSE, c, {}, {}, <<>>))

Do(k) == CASE k = "new"      -> \E o \in Objs : New(o)
          [] k = "freeze"   -> \E o \in Objs : Freeze(o)
          [] k = "add1"     -> \E o \in Objs, e \in E1 : Add1(o, e)
          [] k = "global"   -> \E o \in Objs, e \in E1 : e.sc = "glob" /\ Global(o, e)
          [] k = "add2"     -> \E o \in Objs, e \in E2, f \in E2 : Add2(o, e, f)
          [] k = "merge"    -> \E o \in Objs, p \in Objs : MergeOp(o, p)
          [] k = "clone"    -> \E o \in Objs, p \in Objs, u \in BOOLEAN : Clone(o, p, u)
          [] k = "optimize" -> \E o \in Objs, c \in BOOLEAN : Optimize(o, c)
Next == \/ pend = "none" /\ \E k \in Kinds : Possible(k) /\ pend' = k /\ UNCHANGED <<logs, live, frozen, hist>>
        \/ pend # "none" /\ Do(pend) /\ pend' = "none"
SimSpec == Init /\ [][Next]_vars
Emit == Len(hist) # D \/ pend # "none" \/ PrintT(<<"BEH", hist>>)
SimBound == Len(hist) <= D
=========================================================================
