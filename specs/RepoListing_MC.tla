---------------------------- MODULE RepoListing_MC ----------------------------
(* C08, updates: design of the listing caches of repository.prototype.tree.
   A tree answers queries from three lazily filled caches -- categories, packages per category,
   versions per (category, package) -- and is told about changes through notify_add_package /
   notify_remove_package, which must invalidate or patch them.  contents is the truth (what the
   backend would list).  TLC explores every history of reads, adds and removes over a small universe.
     Coherent   every filled cache equals the backend's listing, hence
     Complete   the packages a full scan (categories -> packages -> versions through the caches)
                finds are exactly the contents: no query can miss or invent a package.
   InvalidateOnlyNewCategory = TRUE models an add that refreshes the category / package listings
   only for a category it has not seen (expected violation: negative control).                 *)
EXTENDS Naturals, FiniteSets, TLC
CONSTANTS Cats, Names, Vers, InvalidateOnlyNewCategory
VARIABLES contents, catc, pkgc, verc
vars == <<contents, catc, pkgc, verc>>

Pkg == [c : Cats, p : Names, v : Vers]
None == [ok |-> FALSE, v |-> {}]
Some(S) == [ok |-> TRUE, v |-> S]
TCats == {x.c : x \in contents}
TNames(c) == {x.p : x \in {y \in contents : y.c = c}}
TVers(c, p) == {x.v : x \in {y \in contents : y.c = c /\ y.p = p}}

Init == /\ contents \in SUBSET Pkg
        /\ catc = None /\ pkgc = [c \in Cats |-> None] /\ verc = [cp \in Cats \X Names |-> None]
\* lazy fills (what a query does on a cache miss)
ReadCats == ~catc.ok /\ catc' = Some(TCats) /\ UNCHANGED <<contents, pkgc, verc>>
ReadNames(c) == ~pkgc[c].ok /\ c \in TCats /\ pkgc' = [pkgc EXCEPT ![c] = Some(TNames(c))] /\ UNCHANGED <<contents, catc, verc>>
ReadVers(c, p) == ~verc[<<c, p>>].ok /\ p \in TNames(c)
                  /\ verc' = [verc EXCEPT ![<<c, p>>] = Some(TVers(c, p))] /\ UNCHANGED <<contents, catc, pkgc>>
KnownVers(c, p) == IF verc[<<c, p>>].ok THEN verc[<<c, p>>].v ELSE TVers(c, p)
Add(x) == /\ x \notin contents
          /\ LET known == KnownVers(x.c, x.p)                 \* read before the backend changes
                 seen  == IF catc.ok THEN x.c \in catc.v ELSE x.c \in TCats
                 skip  == InvalidateOnlyNewCategory /\ seen
             IN /\ contents' = contents \cup {x}
                /\ catc' = IF skip THEN catc ELSE None
                /\ pkgc' = IF skip THEN pkgc ELSE [pkgc EXCEPT ![x.c] = None]
                /\ verc' = [verc EXCEPT ![<<x.c, x.p>>] = Some(known \cup {x.v})]
Remove(x) == /\ x \in contents
             /\ LET left == KnownVers(x.c, x.p) \ {x.v}
                    names == IF pkgc[x.c].ok THEN pkgc[x.c].v ELSE TNames(x.c)
                IN /\ contents' = contents \ {x}
                   /\ verc' = [verc EXCEPT ![<<x.c, x.p>>] = IF left = {} THEN None ELSE Some(left)]
                   /\ pkgc' = IF left = {} THEN [pkgc EXCEPT ![x.c] = None] ELSE pkgc
                   /\ catc' = IF left = {} /\ names = {x.p} THEN None ELSE catc
Next == \/ ReadCats \/ (\E c \in Cats : ReadNames(c)) \/ (\E c \in Cats, p \in Names : ReadVers(c, p))
        \/ (\E x \in Pkg : Add(x) \/ Remove(x))
Spec == Init /\ [][Next]_vars

Coherent == /\ catc.ok => catc.v = TCats
            /\ \A c \in Cats : pkgc[c].ok => pkgc[c].v = TNames(c)
            /\ \A c \in Cats, p \in Names : verc[<<c, p>>].ok => verc[<<c, p>>].v = TVers(c, p)
\* what a full scan through the caches (falling back to the backend on a miss) yields
SeenCats == IF catc.ok THEN catc.v ELSE TCats
SeenNames(c) == IF pkgc[c].ok THEN pkgc[c].v ELSE TNames(c)
Scan == {x \in Pkg : x.c \in SeenCats /\ x.p \in SeenNames(x.c) /\ x.v \in KnownVers(x.c, x.p)}
Complete == Scan = contents
=========================================================================
