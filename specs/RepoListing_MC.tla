---------------------------- MODULE RepoListing_MC ----------------------------
(* C08, updates: design of the listing caches of repository.prototype.tree.
   A tree answers queries from three lazily filled caches -- categories, packages per category,
   versions per (category, package) -- and is told about changes through notify_add_package /
   notify_remove_package, which must invalidate or patch them.  contents is the truth (what the
   backend would list).  TLC explores every history of reads, adds and removes over a small universe.
     Coherent   every filled cache equals the backend's listing, hence
     Complete   the packages a full scan (categories -> packages -> versions through the caches)
                finds are exactly the contents: no query can miss or invent a package.
     NoRaise    an update notification for a package the repository holds never fails
   InvalidateOnlyNewCategory = TRUE models an add that refreshes the category / package listings
   only for a category it has not seen (expected violation: negative control).
   RemoveOrder = "mutate_first" models a backend (repository.util.SimpleTree at the snapshot) that
   drops the package from its own store BEFORE the listing caches are consulted by the
   notification: cold listings are then read from a store that no longer knows the package
   (expected violation of NoRaise); "notify_first" is the repaired order.                        *)
EXTENDS Naturals, FiniteSets, TLC
CONSTANTS Cats, Names, Vers, InvalidateOnlyNewCategory, RemoveOrder
VARIABLES contents, catc, pkgc, verc, raised
vars == <<contents, catc, pkgc, verc, raised>>

Pkg == [c : Cats, p : Names, v : Vers]
None == [ok |-> FALSE, v |-> {}]
Some(S) == [ok |-> TRUE, v |-> S]
TCats == {x.c : x \in contents}
TNames(c) == {x.p : x \in {y \in contents : y.c = c}}
TVers(c, p) == {x.v : x \in {y \in contents : y.c = c /\ y.p = p}}

Init == /\ contents \in SUBSET Pkg
        /\ catc = None /\ pkgc = [c \in Cats |-> None] /\ verc = [cp \in Cats \X Names |-> None]
        /\ raised = FALSE
\* lazy fills (what a query does on a cache miss)
ReadCats == ~catc.ok /\ catc' = Some(TCats) /\ UNCHANGED <<contents, pkgc, verc, raised>>
ReadNames(c) == ~pkgc[c].ok /\ c \in TCats /\ pkgc' = [pkgc EXCEPT ![c] = Some(TNames(c))] /\ UNCHANGED <<contents, catc, verc, raised>>
ReadVers(c, p) == ~verc[<<c, p>>].ok /\ p \in TNames(c)
                  /\ verc' = [verc EXCEPT ![<<c, p>>] = Some(TVers(c, p))] /\ UNCHANGED <<contents, catc, pkgc, raised>>
KnownVers(c, p) == IF verc[<<c, p>>].ok THEN verc[<<c, p>>].v ELSE TVers(c, p)
Add(x) == /\ x \notin contents
          /\ LET known == KnownVers(x.c, x.p)                 \* read before the backend changes
                 seen  == IF catc.ok THEN x.c \in catc.v ELSE x.c \in TCats
                 skip  == InvalidateOnlyNewCategory /\ seen
             IN /\ contents' = contents \cup {x}
                /\ catc' = IF skip THEN catc ELSE None
                /\ pkgc' = IF skip THEN pkgc ELSE [pkgc EXCEPT ![x.c] = None]
                /\ verc' = [verc EXCEPT ![<<x.c, x.p>>] = Some(known \cup {x.v})]
                /\ UNCHANGED raised
\* the listings as the notification sees them when the backend store is S (cached value, else read from S)
CatsIn(S) == {y.c : y \in S}
NamesIn(S, c) == {y.p : y \in {z \in S : z.c = c}}
VersIn(S, c, p) == {y.v : y \in {z \in S : z.c = c /\ z.p = p}}
CatsView(S) == IF catc.ok THEN catc.v ELSE CatsIn(S)
\* packages.get(c, ()): a category the view does not know has no names; a stale view that still knows a
\* category the store dropped fails (KeyError from the backend), as does a versions read of a dropped name
NamesFails(S, c) == ~pkgc[c].ok /\ c \in CatsView(S) /\ c \notin CatsIn(S)
NamesView(S, c) == IF pkgc[c].ok THEN pkgc[c].v ELSE IF c \in CatsView(S) THEN NamesIn(S, c) ELSE {}
VersFails(S, c, p) == ~verc[<<c, p>>].ok /\ (p \notin NamesView(S, c) \/ VersIn(S, c, p) = {})
RemoveFails(S, x) ==
    \/ VersFails(S, x.c, x.p)
    \/ /\ (IF verc[<<x.c, x.p>>].ok THEN verc[<<x.c, x.p>>].v ELSE VersIn(S, x.c, x.p)) \ {x.v} = {}
       /\ ~pkgc[x.c].ok /\ (x.c \notin CatsView(S) \/ NamesFails(S, x.c))
Remove(x) == /\ x \in contents
             /\ RemoveOrder = "mutate_first" /\ RemoveFails(contents \ {x}, x)
             /\ contents' = contents \ {x} /\ raised' = TRUE /\ UNCHANGED <<catc, pkgc, verc>>
          \/ /\ x \in contents
             /\ ~(RemoveOrder = "mutate_first" /\ RemoveFails(contents \ {x}, x))
             /\ UNCHANGED raised
             /\ LET left == KnownVers(x.c, x.p) \ {x.v}
                    names == IF pkgc[x.c].ok THEN pkgc[x.c].v ELSE TNames(x.c)
                IN /\ contents' = contents \ {x}
                   /\ verc' = [verc EXCEPT ![<<x.c, x.p>>] = IF left = {} THEN None ELSE Some(left)]
                   /\ pkgc' = IF left = {} THEN [pkgc EXCEPT ![x.c] = None] ELSE pkgc
                   /\ catc' = IF left = {} /\ names = {x.p} THEN None ELSE catc
Next == \/ ReadCats \/ (\E c \in Cats : ReadNames(c)) \/ (\E c \in Cats, p \in Names : ReadVers(c, p))
        \/ (\E x \in Pkg : Add(x) \/ Remove(x))
Spec == Init /\ [][Next]_vars

Coherent == /\ catc.ok => catc.v = TCats
            /\ \A c \in Cats : pkgc[c].ok => pkgc[c].v = TNames(c)
            /\ \A c \in Cats, p \in Names : verc[<<c, p>>].ok => verc[<<c, p>>].v = TVers(c, p)
\* what a full scan through the caches (falling back to the backend on a miss) yields
SeenCats == IF catc.ok THEN catc.v ELSE TCats
SeenNames(c) == IF pkgc[c].ok THEN pkgc[c].v ELSE TNames(c)
Scan == {x \in Pkg : x.c \in SeenCats /\ x.p \in SeenNames(x.c) /\ x.v \in KnownVers(x.c, x.p)}
Complete == Scan = contents
NoRaise == ~raised
=========================================================================
