---------------------------- MODULE FsModel ----------------------------
(* A POSIX-like filesystem model (DESIGN.md 4.5) used by the merge / crash-consistency
   properties C18-C21, C24, C27-C30, C47.

   State record s:
     names   : set of [path |-> Seq(STRING), ino |-> Nat]      directory entries (root = <<>>, implicit)
     inodes  : Seq(Obj)      inode table, index = ino, never reused
     handles : set of [h |-> Nat, ino |-> Nat]                  open write handles
   Obj == [type : {"file","dir","sym","fifo","dev"}, cid, size, mode, uid, gid, mtime, target]
     cid   : content id of a regular file's bytes (supplied by the recorder for every write)
     mtime : the last value set by utime, or -1 when something else changed it since

   One operator per syscall: s |-> [s |-> s', ok |-> BOOLEAN]; ok = FALSE when the POSIX
   precondition does not hold (then the state is unchanged).  Paths arrive already resolved
   (parent directory canonical), so no symlink traversal happens in the model.            *)
EXTENDS Integers, Sequences, SequencesExt, FiniteSets

Unknown == -1

R(s, ok) == [s |-> s, ok |-> ok]

HasName(s, p)  == \E n \in s.names : n.path = p
EntryOf(s, p)  == CHOOSE n \in s.names : n.path = p
InoOf(s, p)    == EntryOf(s, p).ino
ObjAt(s, p)    == s.inodes[InoOf(s, p)]
IsDirAt(s, p)  == p = <<>> \/ (HasName(s, p) /\ ObjAt(s, p).type = "dir")
Parent(p)      == SubSeq(p, 1, Len(p) - 1)
ParentOk(s, p) == Len(p) >= 1 /\ IsDirAt(s, Parent(p))
Children(s, p) == {n \in s.names : Len(n.path) = Len(p) + 1 /\ IsPrefix(p, n.path)}
Below(s, p)    == {n \in s.names : Len(n.path) > Len(p) /\ IsPrefix(p, n.path)}
NLink(s, i)    == Cardinality({n \in s.names : n.ino = i})

\* a directory's mtime becomes unknown when an entry is added to / removed from it
Touch(s, p) == IF p # <<>> /\ HasName(s, p)
               THEN [s EXCEPT !.inodes[InoOf(s, p)].mtime = Unknown] ELSE s

MkObj(o) == [type |-> o.type, cid |-> o.cid, size |-> o.size, mode |-> o.mode, uid |-> o.uid, gid |-> o.gid,
             mtime |-> Unknown, target |-> o.target]

\* create a new inode described by o under name p
Create(s, p, o) ==
  IF ~ParentOk(s, p) \/ HasName(s, p) THEN R(s, FALSE)
  ELSE LET i == Len(s.inodes) + 1
           s1 == [s EXCEPT !.inodes = Append(@, MkObj(o)), !.names = @ \cup {[path |-> p, ino |-> i]}]
       IN R(Touch(s1, Parent(p)), TRUE)

Open(s, p, h, created, truncated, o) ==
  IF created THEN
      LET c == Create(s, p, o) IN
      IF ~c.ok THEN c
      ELSE R([c.s EXCEPT !.handles = @ \cup {[h |-> h, ino |-> Len(c.s.inodes)]}], TRUE)
  ELSE IF ~HasName(s, p) \/ ObjAt(s, p).type # "file" THEN R(s, FALSE)
  ELSE LET i == InoOf(s, p)
           s1 == IF truncated THEN [s EXCEPT !.inodes[i].cid = o.cid, !.inodes[i].size = 0, !.inodes[i].mtime = Unknown]
                 ELSE s
       IN R([s1 EXCEPT !.handles = @ \cup {[h |-> h, ino |-> i]}], TRUE)

HandleIno(s, h) == (CHOOSE x \in s.handles : x.h = h).ino
HasHandle(s, h) == \E x \in s.handles : x.h = h

\* the recorder reports the content id / size of the whole file after the write
Write(s, h, cid, size) ==
  IF ~HasHandle(s, h) THEN R(s, FALSE)
  ELSE LET i == HandleIno(s, h) IN
       R([s EXCEPT !.inodes[i].cid = cid, !.inodes[i].size = size, !.inodes[i].mtime = Unknown], TRUE)

Close(s, h) == R([s EXCEPT !.handles = {x \in @ : x.h # h}], TRUE)

SetContentAt(s, p, cid, size) ==
  IF ~HasName(s, p) \/ ObjAt(s, p).type # "file" THEN R(s, FALSE)
  ELSE LET i == InoOf(s, p) IN
       R([s EXCEPT !.inodes[i].cid = cid, !.inodes[i].size = size, !.inodes[i].mtime = Unknown], TRUE)

Rewrite(p, src, dst) == dst \o SubSeq(p, Len(src) + 1, Len(p))

Rename(s, src, dst) ==
  IF ~HasName(s, src) \/ ~ParentOk(s, dst) \/ src = dst THEN R(s, HasName(s, src) /\ src = dst)
  ELSE LET e == EntryOf(s, src)
           srcdir == s.inodes[e.ino].type = "dir"
       IN IF srcdir THEN
              IF IsPrefix(src, dst) THEN R(s, FALSE)
              ELSE IF HasName(s, dst) /\ (ObjAt(s, dst).type # "dir" \/ Children(s, dst) # {}) THEN R(s, FALSE)
              ELSE LET moved == {n \in s.names : IsPrefix(src, n.path)}
                       kept  == {n \in s.names : ~IsPrefix(src, n.path) /\ n.path # dst}
                       s1 == [s EXCEPT !.names = kept \cup {[path |-> Rewrite(n.path, src, dst), ino |-> n.ino] : n \in moved}]
                   IN R(Touch(Touch(s1, Parent(src)), Parent(dst)), TRUE)
          ELSE IF HasName(s, dst) /\ ObjAt(s, dst).type = "dir" THEN R(s, FALSE)
          ELSE IF HasName(s, dst) /\ InoOf(s, dst) = e.ino THEN R(s, TRUE)   \* same file: no-op
          ELSE LET s1 == [s EXCEPT !.names = {n \in @ : n.path # src /\ n.path # dst} \cup {[path |-> dst, ino |-> e.ino]}]
               IN R(Touch(Touch(s1, Parent(src)), Parent(dst)), TRUE)

Unlink(s, p) ==
  IF ~HasName(s, p) \/ ObjAt(s, p).type = "dir" THEN R(s, FALSE)
  ELSE R(Touch([s EXCEPT !.names = {n \in @ : n.path # p}], Parent(p)), TRUE)

Rmdir(s, p) ==
  IF ~HasName(s, p) \/ ObjAt(s, p).type # "dir" \/ Children(s, p) # {} THEN R(s, FALSE)
  ELSE R(Touch([s EXCEPT !.names = {n \in @ : n.path # p}], Parent(p)), TRUE)

Link(s, src, dst) ==
  IF ~HasName(s, src) \/ ObjAt(s, src).type = "dir" \/ HasName(s, dst) \/ ~ParentOk(s, dst) THEN R(s, FALSE)
  ELSE R(Touch([s EXCEPT !.names = @ \cup {[path |-> dst, ino |-> InoOf(s, src)]}], Parent(dst)), TRUE)

Chmod(s, p, mode) ==
  IF ~HasName(s, p) THEN R(s, FALSE) ELSE R([s EXCEPT !.inodes[InoOf(s, p)].mode = mode], TRUE)
Chown(s, p, uid, gid) ==
  IF ~HasName(s, p) THEN R(s, FALSE)
  ELSE LET i == InoOf(s, p) IN
       R([s EXCEPT !.inodes[i].uid = IF uid = -1 THEN @ ELSE uid, !.inodes[i].gid = IF gid = -1 THEN @ ELSE gid], TRUE)
Utime(s, p, mtime) ==
  IF ~HasName(s, p) THEN R(s, FALSE) ELSE R([s EXCEPT !.inodes[InoOf(s, p)].mtime = mtime], TRUE)

(* ---------- views used by the properties ---------- *)
\* description of what is at p: "absent" or the object (hard-link identity excluded)
Absent == [type |-> "absent"]
Look(s, p) == IF HasName(s, p) THEN ObjAt(s, p) ELSE Absent

\* does the object at p fit a descriptor d?  Fields of d equal to "*" / -2 are wildcards.
Fits(o, d) ==
  IF d.type = "absent" THEN o.type = "absent"
  ELSE /\ o.type = d.type
       /\ (d.cid = "*" \/ o.cid = d.cid)
       /\ (d.mode = -2 \/ o.mode = d.mode)
       /\ (d.uid = -2 \/ o.uid = d.uid)
       /\ (d.gid = -2 \/ o.gid = d.gid)
       /\ (d.mtime = -2 \/ o.mtime = Unknown \/ o.mtime = d.mtime)
       /\ (d.target = "*" \/ o.target = d.target)
=========================================================================
