---- MODULE TarRoundTrip_MC_TTrace_1790037118 ----
EXTENDS Sequences, TLCExt, Toolbox, TarRoundTrip_MC, Naturals, TLC

_expression ==
    LET TarRoundTrip_MC_TEExpression == INSTANCE TarRoundTrip_MC_TEExpression
    IN TarRoundTrip_MC_TEExpression!expression
----

_trace ==
    LET TarRoundTrip_MC_TETrace == INSTANCE TarRoundTrip_MC_TETrace
    IN TarRoundTrip_MC_TETrace!trace
----

_inv ==
    ~(
        TLCGet("level") = Len(_TETrace)
        /\
        phase = ("done")
        /\
        todo = ({})
        /\
        cset = ({[type |-> "file", ino |-> 1, path |-> <<"d", "f1">>, cid |-> 1, mode |-> 419, uid |-> 1002, gid |-> 101, msec |-> 1500000011, musec |-> 250000, target |-> "", tabs |-> FALSE, tcomps |-> <<>>, major |-> 0, minor |-> 0, devkind |-> "-"], [type |-> "file", ino |-> 1, path |-> <<"l", "f4">>, cid |-> 1, mode |-> 419, uid |-> 1002, gid |-> 101, msec |-> 1500000011, musec |-> 250000, target |-> "", tabs |-> FALSE, tcomps |-> <<>>, major |-> 0, minor |-> 0, devkind |-> "-"]})
        /\
        cache = ({<<<<"d", "f1">>, 1>>, <<<<"l", "f4">>, 2>>})
        /\
        rpos = (2)
        /\
        raw = ({[type |-> "file", ino |-> 1, path |-> <<"d", "f1">>, cid |-> 1, mode |-> 419, uid |-> 1002, gid |-> 101, msec |-> 1500000011, musec |-> 250000, target |-> "", tabs |-> FALSE, tcomps |-> <<>>, major |-> 0, minor |-> 0, devkind |-> "-"], [type |-> "file", ino |-> 2, path |-> <<"l", "f4">>, cid |-> 1, mode |-> 419, uid |-> 1002, gid |-> 101, msec |-> 1500000011, musec |-> 250000, target |-> "", tabs |-> FALSE, tcomps |-> <<>>, major |-> 0, minor |-> 0, devkind |-> "-"]})
        /\
        arch = (<<[name |-> <<"d", "f1">>, kind |-> "reg", link |-> <<>>, ent |-> [type |-> "file", ino |-> 1, path |-> <<"d", "f1">>, cid |-> 1, mode |-> 419, uid |-> 1002, gid |-> 101, msec |-> 1500000011, musec |-> 250000, target |-> "", tabs |-> FALSE, tcomps |-> <<>>, major |-> 0, minor |-> 0, devkind |-> "-"]], [name |-> <<"l", "f4">>, kind |-> "reg", link |-> <<>>, ent |-> [type |-> "file", ino |-> 1, path |-> <<"l", "f4">>, cid |-> 1, mode |-> 419, uid |-> 1002, gid |-> 101, msec |-> 1500000011, musec |-> 250000, target |-> "", tabs |-> FALSE, tcomps |-> <<>>, major |-> 0, minor |-> 0, devkind |-> "-"]]>>)
        /\
        seen = ({<<1, <<"d", "f1">>>>})
    )
----

_init ==
    /\ phase = _TETrace[1].phase
    /\ raw = _TETrace[1].raw
    /\ arch = _TETrace[1].arch
    /\ cset = _TETrace[1].cset
    /\ rpos = _TETrace[1].rpos
    /\ todo = _TETrace[1].todo
    /\ seen = _TETrace[1].seen
    /\ cache = _TETrace[1].cache
----

_next ==
    /\ \E i,j \in DOMAIN _TETrace:
        /\ \/ /\ j = i + 1
              /\ i = TLCGet("level")
        /\ phase  = _TETrace[i].phase
        /\ phase' = _TETrace[j].phase
        /\ raw  = _TETrace[i].raw
        /\ raw' = _TETrace[j].raw
        /\ arch  = _TETrace[i].arch
        /\ arch' = _TETrace[j].arch
        /\ cset  = _TETrace[i].cset
        /\ cset' = _TETrace[j].cset
        /\ rpos  = _TETrace[i].rpos
        /\ rpos' = _TETrace[j].rpos
        /\ todo  = _TETrace[i].todo
        /\ todo' = _TETrace[j].todo
        /\ seen  = _TETrace[i].seen
        /\ seen' = _TETrace[j].seen
        /\ cache  = _TETrace[i].cache
        /\ cache' = _TETrace[j].cache

\* Uncomment the ASSUME below to write the states of the error trace
\* to the given file in Json format. Note that you can pass any tuple
\* to `JsonSerialize`. For example, a sub-sequence of _TETrace.
    \* ASSUME
    \*     LET J == INSTANCE Json
    \*         IN J!JsonSerialize("TarRoundTrip_MC_TTrace_1790037118.json", _TETrace)

=============================================================================

 Note that you can extract this module `TarRoundTrip_MC_TEExpression`
  to a dedicated file to reuse `expression` (the module in the 
  dedicated `TarRoundTrip_MC_TEExpression.tla` file takes precedence 
  over the module `TarRoundTrip_MC_TEExpression` below).

---- MODULE TarRoundTrip_MC_TEExpression ----
EXTENDS Sequences, TLCExt, Toolbox, TarRoundTrip_MC, Naturals, TLC

expression == 
    [
        \* To hide variables of the `TarRoundTrip_MC` spec from the error trace,
        \* remove the variables below.  The trace will be written in the order
        \* of the fields of this record.
        phase |-> phase
        ,raw |-> raw
        ,arch |-> arch
        ,cset |-> cset
        ,rpos |-> rpos
        ,todo |-> todo
        ,seen |-> seen
        ,cache |-> cache
        
        \* Put additional constant-, state-, and action-level expressions here:
        \* ,_stateNumber |-> _TEPosition
        \* ,_phaseUnchanged |-> phase = phase'
        
        \* Format the `phase` variable as Json value.
        \* ,_phaseJson |->
        \*     LET J == INSTANCE Json
        \*     IN J!ToJson(phase)
        
        \* Lastly, you may build expressions over arbitrary sets of states by
        \* leveraging the _TETrace operator.  For example, this is how to
        \* count the number of times a spec variable changed up to the current
        \* state in the trace.
        \* ,_phaseModCount |->
        \*     LET F[s \in DOMAIN _TETrace] ==
        \*         IF s = 1 THEN 0
        \*         ELSE IF _TETrace[s].phase # _TETrace[s-1].phase
        \*             THEN 1 + F[s-1] ELSE F[s-1]
        \*     IN F[_TEPosition - 1]
    ]

=============================================================================



Parsing and semantic processing can take forever if the trace below is long.
 In this case, it is advised to uncomment the module below to deserialize the
 trace from a generated binary file.

\*
\*---- MODULE TarRoundTrip_MC_TETrace ----
\*EXTENDS IOUtils, TarRoundTrip_MC, TLC
\*
\*trace == IODeserialize("TarRoundTrip_MC_TTrace_1790037118.bin", TRUE)
\*
\*=============================================================================
\*

---- MODULE TarRoundTrip_MC_TETrace ----
EXTENDS TarRoundTrip_MC, TLC

trace == 
    <<
    ([phase |-> "write",todo |-> {[type |-> "file", ino |-> 1, path |-> <<"d", "f1">>, cid |-> 1, mode |-> 419, uid |-> 1002, gid |-> 101, msec |-> 1500000011, musec |-> 250000, target |-> "", tabs |-> FALSE, tcomps |-> <<>>, major |-> 0, minor |-> 0, devkind |-> "-"], [type |-> "file", ino |-> 1, path |-> <<"l", "f4">>, cid |-> 1, mode |-> 419, uid |-> 1002, gid |-> 101, msec |-> 1500000011, musec |-> 250000, target |-> "", tabs |-> FALSE, tcomps |-> <<>>, major |-> 0, minor |-> 0, devkind |-> "-"]},cset |-> {[type |-> "file", ino |-> 1, path |-> <<"d", "f1">>, cid |-> 1, mode |-> 419, uid |-> 1002, gid |-> 101, msec |-> 1500000011, musec |-> 250000, target |-> "", tabs |-> FALSE, tcomps |-> <<>>, major |-> 0, minor |-> 0, devkind |-> "-"], [type |-> "file", ino |-> 1, path |-> <<"l", "f4">>, cid |-> 1, mode |-> 419, uid |-> 1002, gid |-> 101, msec |-> 1500000011, musec |-> 250000, target |-> "", tabs |-> FALSE, tcomps |-> <<>>, major |-> 0, minor |-> 0, devkind |-> "-"]},cache |-> {},rpos |-> 0,raw |-> {},arch |-> <<>>,seen |-> {}]),
    ([phase |-> "write",todo |-> {[type |-> "file", ino |-> 1, path |-> <<"l", "f4">>, cid |-> 1, mode |-> 419, uid |-> 1002, gid |-> 101, msec |-> 1500000011, musec |-> 250000, target |-> "", tabs |-> FALSE, tcomps |-> <<>>, major |-> 0, minor |-> 0, devkind |-> "-"]},cset |-> {[type |-> "file", ino |-> 1, path |-> <<"d", "f1">>, cid |-> 1, mode |-> 419, uid |-> 1002, gid |-> 101, msec |-> 1500000011, musec |-> 250000, target |-> "", tabs |-> FALSE, tcomps |-> <<>>, major |-> 0, minor |-> 0, devkind |-> "-"], [type |-> "file", ino |-> 1, path |-> <<"l", "f4">>, cid |-> 1, mode |-> 419, uid |-> 1002, gid |-> 101, msec |-> 1500000011, musec |-> 250000, target |-> "", tabs |-> FALSE, tcomps |-> <<>>, major |-> 0, minor |-> 0, devkind |-> "-"]},cache |-> {},rpos |-> 0,raw |-> {},arch |-> <<[name |-> <<"d", "f1">>, kind |-> "reg", link |-> <<>>, ent |-> [type |-> "file", ino |-> 1, path |-> <<"d", "f1">>, cid |-> 1, mode |-> 419, uid |-> 1002, gid |-> 101, msec |-> 1500000011, musec |-> 250000, target |-> "", tabs |-> FALSE, tcomps |-> <<>>, major |-> 0, minor |-> 0, devkind |-> "-"]]>>,seen |-> {<<1, <<"d", "f1">>>>}]),
    ([phase |-> "write",todo |-> {},cset |-> {[type |-> "file", ino |-> 1, path |-> <<"d", "f1">>, cid |-> 1, mode |-> 419, uid |-> 1002, gid |-> 101, msec |-> 1500000011, musec |-> 250000, target |-> "", tabs |-> FALSE, tcomps |-> <<>>, major |-> 0, minor |-> 0, devkind |-> "-"], [type |-> "file", ino |-> 1, path |-> <<"l", "f4">>, cid |-> 1, mode |-> 419, uid |-> 1002, gid |-> 101, msec |-> 1500000011, musec |-> 250000, target |-> "", tabs |-> FALSE, tcomps |-> <<>>, major |-> 0, minor |-> 0, devkind |-> "-"]},cache |-> {},rpos |-> 0,raw |-> {},arch |-> <<[name |-> <<"d", "f1">>, kind |-> "reg", link |-> <<>>, ent |-> [type |-> "file", ino |-> 1, path |-> <<"d", "f1">>, cid |-> 1, mode |-> 419, uid |-> 1002, gid |-> 101, msec |-> 1500000011, musec |-> 250000, target |-> "", tabs |-> FALSE, tcomps |-> <<>>, major |-> 0, minor |-> 0, devkind |-> "-"]], [name |-> <<"l", "f4">>, kind |-> "reg", link |-> <<>>, ent |-> [type |-> "file", ino |-> 1, path |-> <<"l", "f4">>, cid |-> 1, mode |-> 419, uid |-> 1002, gid |-> 101, msec |-> 1500000011, musec |-> 250000, target |-> "", tabs |-> FALSE, tcomps |-> <<>>, major |-> 0, minor |-> 0, devkind |-> "-"]]>>,seen |-> {<<1, <<"d", "f1">>>>}]),
    ([phase |-> "read",todo |-> {},cset |-> {[type |-> "file", ino |-> 1, path |-> <<"d", "f1">>, cid |-> 1, mode |-> 419, uid |-> 1002, gid |-> 101, msec |-> 1500000011, musec |-> 250000, target |-> "", tabs |-> FALSE, tcomps |-> <<>>, major |-> 0, minor |-> 0, devkind |-> "-"], [type |-> "file", ino |-> 1, path |-> <<"l", "f4">>, cid |-> 1, mode |-> 419, uid |-> 1002, gid |-> 101, msec |-> 1500000011, musec |-> 250000, target |-> "", tabs |-> FALSE, tcomps |-> <<>>, major |-> 0, minor |-> 0, devkind |-> "-"]},cache |-> {},rpos |-> 0,raw |-> {},arch |-> <<[name |-> <<"d", "f1">>, kind |-> "reg", link |-> <<>>, ent |-> [type |-> "file", ino |-> 1, path |-> <<"d", "f1">>, cid |-> 1, mode |-> 419, uid |-> 1002, gid |-> 101, msec |-> 1500000011, musec |-> 250000, target |-> "", tabs |-> FALSE, tcomps |-> <<>>, major |-> 0, minor |-> 0, devkind |-> "-"]], [name |-> <<"l", "f4">>, kind |-> "reg", link |-> <<>>, ent |-> [type |-> "file", ino |-> 1, path |-> <<"l", "f4">>, cid |-> 1, mode |-> 419, uid |-> 1002, gid |-> 101, msec |-> 1500000011, musec |-> 250000, target |-> "", tabs |-> FALSE, tcomps |-> <<>>, major |-> 0, minor |-> 0, devkind |-> "-"]]>>,seen |-> {<<1, <<"d", "f1">>>>}]),
    ([phase |-> "read",todo |-> {},cset |-> {[type |-> "file", ino |-> 1, path |-> <<"d", "f1">>, cid |-> 1, mode |-> 419, uid |-> 1002, gid |-> 101, msec |-> 1500000011, musec |-> 250000, target |-> "", tabs |-> FALSE, tcomps |-> <<>>, major |-> 0, minor |-> 0, devkind |-> "-"], [type |-> "file", ino |-> 1, path |-> <<"l", "f4">>, cid |-> 1, mode |-> 419, uid |-> 1002, gid |-> 101, msec |-> 1500000011, musec |-> 250000, target |-> "", tabs |-> FALSE, tcomps |-> <<>>, major |-> 0, minor |-> 0, devkind |-> "-"]},cache |-> {<<<<"d", "f1">>, 1>>},rpos |-> 1,raw |-> {[type |-> "file", ino |-> 1, path |-> <<"d", "f1">>, cid |-> 1, mode |-> 419, uid |-> 1002, gid |-> 101, msec |-> 1500000011, musec |-> 250000, target |-> "", tabs |-> FALSE, tcomps |-> <<>>, major |-> 0, minor |-> 0, devkind |-> "-"]},arch |-> <<[name |-> <<"d", "f1">>, kind |-> "reg", link |-> <<>>, ent |-> [type |-> "file", ino |-> 1, path |-> <<"d", "f1">>, cid |-> 1, mode |-> 419, uid |-> 1002, gid |-> 101, msec |-> 1500000011, musec |-> 250000, target |-> "", tabs |-> FALSE, tcomps |-> <<>>, major |-> 0, minor |-> 0, devkind |-> "-"]], [name |-> <<"l", "f4">>, kind |-> "reg", link |-> <<>>, ent |-> [type |-> "file", ino |-> 1, path |-> <<"l", "f4">>, cid |-> 1, mode |-> 419, uid |-> 1002, gid |-> 101, msec |-> 1500000011, musec |-> 250000, target |-> "", tabs |-> FALSE, tcomps |-> <<>>, major |-> 0, minor |-> 0, devkind |-> "-"]]>>,seen |-> {<<1, <<"d", "f1">>>>}]),
    ([phase |-> "read",todo |-> {},cset |-> {[type |-> "file", ino |-> 1, path |-> <<"d", "f1">>, cid |-> 1, mode |-> 419, uid |-> 1002, gid |-> 101, msec |-> 1500000011, musec |-> 250000, target |-> "", tabs |-> FALSE, tcomps |-> <<>>, major |-> 0, minor |-> 0, devkind |-> "-"], [type |-> "file", ino |-> 1, path |-> <<"l", "f4">>, cid |-> 1, mode |-> 419, uid |-> 1002, gid |-> 101, msec |-> 1500000011, musec |-> 250000, target |-> "", tabs |-> FALSE, tcomps |-> <<>>, major |-> 0, minor |-> 0, devkind |-> "-"]},cache |-> {<<<<"d", "f1">>, 1>>, <<<<"l", "f4">>, 2>>},rpos |-> 2,raw |-> {[type |-> "file", ino |-> 1, path |-> <<"d", "f1">>, cid |-> 1, mode |-> 419, uid |-> 1002, gid |-> 101, msec |-> 1500000011, musec |-> 250000, target |-> "", tabs |-> FALSE, tcomps |-> <<>>, major |-> 0, minor |-> 0, devkind |-> "-"], [type |-> "file", ino |-> 2, path |-> <<"l", "f4">>, cid |-> 1, mode |-> 419, uid |-> 1002, gid |-> 101, msec |-> 1500000011, musec |-> 250000, target |-> "", tabs |-> FALSE, tcomps |-> <<>>, major |-> 0, minor |-> 0, devkind |-> "-"]},arch |-> <<[name |-> <<"d", "f1">>, kind |-> "reg", link |-> <<>>, ent |-> [type |-> "file", ino |-> 1, path |-> <<"d", "f1">>, cid |-> 1, mode |-> 419, uid |-> 1002, gid |-> 101, msec |-> 1500000011, musec |-> 250000, target |-> "", tabs |-> FALSE, tcomps |-> <<>>, major |-> 0, minor |-> 0, devkind |-> "-"]], [name |-> <<"l", "f4">>, kind |-> "reg", link |-> <<>>, ent |-> [type |-> "file", ino |-> 1, path |-> <<"l", "f4">>, cid |-> 1, mode |-> 419, uid |-> 1002, gid |-> 101, msec |-> 1500000011, musec |-> 250000, target |-> "", tabs |-> FALSE, tcomps |-> <<>>, major |-> 0, minor |-> 0, devkind |-> "-"]]>>,seen |-> {<<1, <<"d", "f1">>>>}]),
    ([phase |-> "done",todo |-> {},cset |-> {[type |-> "file", ino |-> 1, path |-> <<"d", "f1">>, cid |-> 1, mode |-> 419, uid |-> 1002, gid |-> 101, msec |-> 1500000011, musec |-> 250000, target |-> "", tabs |-> FALSE, tcomps |-> <<>>, major |-> 0, minor |-> 0, devkind |-> "-"], [type |-> "file", ino |-> 1, path |-> <<"l", "f4">>, cid |-> 1, mode |-> 419, uid |-> 1002, gid |-> 101, msec |-> 1500000011, musec |-> 250000, target |-> "", tabs |-> FALSE, tcomps |-> <<>>, major |-> 0, minor |-> 0, devkind |-> "-"]},cache |-> {<<<<"d", "f1">>, 1>>, <<<<"l", "f4">>, 2>>},rpos |-> 2,raw |-> {[type |-> "file", ino |-> 1, path |-> <<"d", "f1">>, cid |-> 1, mode |-> 419, uid |-> 1002, gid |-> 101, msec |-> 1500000011, musec |-> 250000, target |-> "", tabs |-> FALSE, tcomps |-> <<>>, major |-> 0, minor |-> 0, devkind |-> "-"], [type |-> "file", ino |-> 2, path |-> <<"l", "f4">>, cid |-> 1, mode |-> 419, uid |-> 1002, gid |-> 101, msec |-> 1500000011, musec |-> 250000, target |-> "", tabs |-> FALSE, tcomps |-> <<>>, major |-> 0, minor |-> 0, devkind |-> "-"]},arch |-> <<[name |-> <<"d", "f1">>, kind |-> "reg", link |-> <<>>, ent |-> [type |-> "file", ino |-> 1, path |-> <<"d", "f1">>, cid |-> 1, mode |-> 419, uid |-> 1002, gid |-> 101, msec |-> 1500000011, musec |-> 250000, target |-> "", tabs |-> FALSE, tcomps |-> <<>>, major |-> 0, minor |-> 0, devkind |-> "-"]], [name |-> <<"l", "f4">>, kind |-> "reg", link |-> <<>>, ent |-> [type |-> "file", ino |-> 1, path |-> <<"l", "f4">>, cid |-> 1, mode |-> 419, uid |-> 1002, gid |-> 101, msec |-> 1500000011, musec |-> 250000, target |-> "", tabs |-> FALSE, tcomps |-> <<>>, major |-> 0, minor |-> 0, devkind |-> "-"]]>>,seen |-> {<<1, <<"d", "f1">>>>}])
    >>
----


=============================================================================

---- CONFIG TarRoundTrip_MC_TTrace_1790037118 ----
CONSTANTS
    Variant = "nolink"
    MaxEntries = 3

INVARIANT
    _inv

CHECK_DEADLOCK
    \* CHECK_DEADLOCK off because of PROPERTY or INVARIANT above.
    FALSE

INIT
    _init

NEXT
    _next

CONSTANT
    _TETrace <- _trace

ALIAS
    _expression
=============================================================================
\* Generated on Tue Sep 22 00:32:27 UTC 2026