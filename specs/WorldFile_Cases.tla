---------------------------- MODULE WorldFile_Cases ----------------------------
(* The bounded universe shared by WorldFile_MC (design check) and WorldFile_Export (cases replayed
   on the real WorldFile): one package, slots of every shape, a few pre-existing entries.       *)
EXTENDS WorldFile
Key == "a/b"
\* slots as character sequences: none, "0", one char, multi-char, dotted, with underscore, with a zero inside
SlotsFull  == {<<>>, <<"0">>, <<"1">>, <<"1", "2">>, <<"1", ".", "2">>, <<"a", "_", "b">>, <<"1", "0">>}
SlotsSmall == {<<>>, <<"0">>, <<"1">>, <<"1", "2">>}
Req(cs, rm) == [key |-> Key, slot |-> IF cs = <<>> THEN NoSlot ELSE JoinChars(cs), remove |-> rm, cs |-> cs]
\* what may be in the file beforehand: entries of the same package and unrelated ones
EntriesFull  == {"a/b", "a/b:1", "a/b:2", "a/b:12", "=x/y-1"}
EntriesSmall == {"a/b", "a/b:1", "a/b:2", "=x/y-1"}
=========================================================================
