---------------------------- MODULE RequiredUse_Trace ----------------------------
(* Judge of C10 observations.  One event per call of find_constraint_satisfaction:
   {tid, i, cons:[node]   the restriction handed to the solver, projected (node = {t,v,neg,ren,ch})
    iuse, ft, ff, pt      the flag sets of the call
    sols:[[flag]],        the produced assignments IN ORDER, each as the flags set to True
    after:{iuse,ft,ff,pt}}  contents of the argument objects after the call (iuse is reused by the next call)
   Clauses: OutsideDomain (generator error), Sound, ForcedOn, ForcedOff, OutsideIuse, Duplicate,
   Complete, PreferredFirst, ArgsUnchanged (the inputs judged are the ones the caller put in).  The offending assignment is printed with the verdict.          *)
EXTENDS RequiredUse, TraceLib
VARIABLE l
ReportX(tid, i, bad) == \A c \in bad : PrintT(<<"VERDICT", tid, i, c[1], c[2]>>)
If(cond, clause, extra) == IF cond THEN {<<clause, extra>>} ELSE {}

Judge(e) ==
  LET iuse == AsSet(e.iuse)  ft == AsSet(e.ft)  ff == AsSet(e.ff)  pt == AsSet(e.pt)
      obs  == [k \in DOMAIN e.sols |-> AsSet(e.sols[k])]
      seen == {obs[k] : k \in DOMAIN obs}
      pref == Preferred(iuse, ft, ff, pt)
  IN IF ~InDomain(iuse, ft, ff) \/ ~WellFormed(e.cons) THEN {<<"OutsideDomain", <<>>>>}
     ELSE UNION {If(Status(e.cons, obs[k]) = "unsat", "Sound", e.sols[k])
                 \cup If(~((ft \cap iuse) \subseteq obs[k]), "ForcedOn", e.sols[k])
                 \cup If(obs[k] \cap ff # {}, "ForcedOff", e.sols[k])
                 \cup If(~(obs[k] \subseteq iuse), "OutsideIuse", e.sols[k])
                 \cup If(\E j \in DOMAIN obs : j < k /\ obs[j] = obs[k], "Duplicate", e.sols[k])
                 : k \in DOMAIN obs}
          \cup If(AsSet(e.after.iuse) # iuse, "ArgsUnchanged", <<"iuse">>)
          \cup If(AsSet(e.after.ft) # ft, "ArgsUnchanged", <<"force_true">>)
          \cup If(AsSet(e.after.ff) # ff, "ArgsUnchanged", <<"force_false">>)
          \cup If(AsSet(e.after.pt) # pt, "ArgsUnchanged", <<"prefer_true">>)
          \cup UNION {If(on \notin seen, "Complete", SetToSeq(on)) : on \in Sols(e.cons, iuse, ft, ff)}
          \cup If(Status(e.cons, pref) = "sat" /\ pref \in Candidates(iuse, ft, ff)
                  /\ (Len(obs) = 0 \/ obs[1] # pref), "PreferredFirst", SetToSeq(pref))

TraceInit == l = 0
TraceNext == /\ l < Len(Tr)
             /\ l' = l + 1
             /\ ReportX(Tr[l'].tid, Tr[l'].i, Judge(Tr[l']))
             /\ EndMark(l')
TraceSpec == TraceInit /\ [][TraceNext]_l
=========================================================================
