---------------------------- MODULE TarRoundTrip_Trace ----------------------------
(* Judges observations of the real tar code.  entry = the record of TarRoundTrip (JSON object).
     {tid, i, ev:"roundtrip", src:[entries], arch:[{name, kind, link}], got:[entries], raised}
         src  : projection of the contents set handed to write_set
         arch : members of the tarball it produced, listed with the stdlib tarfile ([] = not listed)
         got  : projection of what generate_contents / convert_archive returned
     {tid, i, ev:"read", arch:[{kind, link, ent}], got:[entries], raised}
         arch : a spec-chosen member sequence, rendered with the stdlib tarfile
     {tid, i, ev:"empty", got:[entries], raised}      an archive without members
   Inputs outside InDomain (symlink loops, two entries landing on one place, something below a
   non-directory) get the single clause "Unspecified": counted by the driver, never a verdict.   *)
EXTENDS TarRoundTrip, TraceLib
VARIABLE l

Compare(tag, out, exp, extra) ==
    LET jp == Common(out, exp) \ extra
        D(F(_)) == {p \in jp : F(EntryAt(out, p)) # F(EntryAt(exp, p))}
        same == jp \ D(FType)          \* attributes are compared where the type is right
        DS(F(_)) == {p \in same : F(EntryAt(out, p)) # F(EntryAt(exp, p))}
    IN  IF ~PathKeyed(out) THEN {tag \o "_PathKeyed"}
        ELSE (IF PathsOf(out) = PathsOf(exp) THEN {} ELSE {tag \o "_Paths"})
        \cup (IF D(FType) = {} THEN {} ELSE {tag \o "_Type"})
        \cup (IF \A p \in extra \cap PathsOf(out) : EntryAt(out, p).type = "dir" THEN {} ELSE {tag \o "_MissingDirs"})
        \cup (IF DS(FMode) = {} THEN {} ELSE {tag \o "_Mode"})
        \cup (IF DS(FOwner) = {} THEN {} ELSE {tag \o "_Owner"})
        \cup (IF DS(FMtime) = {} THEN {} ELSE {tag \o "_Mtime"})
        \cup (IF DS(FTarget) = {} THEN {} ELSE {tag \o "_Target"})
        \cup (IF DS(FData) = {} THEN {} ELSE {tag \o "_Data"})
        \cup (IF DS(FDevice) = {} THEN {} ELSE {tag \o "_Device"})
        \cup (IF GroupsEqual(out, exp) THEN {} ELSE {tag \o "_HardlinkGroups"})

FileKind(k) == IF k \in {"reg", "lnk"} THEN "file" ELSE k
ArchClauses(s, arch) ==
    IF arch = <<>> /\ s # {} THEN {}
    ELSE (IF Len(arch) = Cardinality(s) /\ {<<arch[k].name, FileKind(arch[k].kind)>> : k \in DOMAIN arch} = {<<x.path, x.type>> : x \in s}
          THEN {} ELSE {"Arch_Members"})
    \cup (IF \A k \in DOMAIN arch : arch[k].kind = "lnk" =>
                \E j \in 1..(k - 1) : /\ arch[j].name = arch[k].link /\ arch[j].kind \in {"reg", "lnk"}
                                      /\ arch[j].name \in PathsOf(s) /\ arch[k].name \in PathsOf(s)
                                      /\ arch[j].name # arch[k].name
                                      /\ SameGroup(s, arch[j].name, arch[k].name)
          THEN {} ELSE {"Arch_Links"})
    \* every inode group has exactly one member that carries the data
    \cup (IF \A a, b \in DOMAIN arch :
                (a # b /\ arch[a].kind = "reg" /\ arch[b].kind = "reg" /\ arch[a].name \in PathsOf(s) /\ arch[b].name \in PathsOf(s))
                => ~SameGroup(s, arch[a].name, arch[b].name)
          THEN {} ELSE {"Arch_OneDataPerGroup"})

JudgeRoundTrip(e) ==
    LET s == AsSet(e.src)  out == AsSet(e.got) IN
    IF ~InDomain(s) THEN {"Unspecified"}
    ELSE IF e.raised # "" THEN {"RT_Raised"}
    ELSE Compare("RT", out, Expected(s), MissingDirs(Resolve(s))) \cup ArchClauses(s, e.arch)

JudgeRead(e) ==
    LET arch == [k \in DOMAIN e.arch |-> [name |-> e.arch[k].ent.path, kind |-> e.arch[k].kind, link |-> e.arch[k].link, ent |-> e.arch[k].ent]]
        out == AsSet(e.got) IN
    IF ~LinksResolvable(arch) \/ ~InDomain(RawRead(arch)) THEN {"Unspecified"}
    ELSE IF e.raised # "" THEN {"Read_Raised"}
    ELSE Compare("Read", out, ReadArchive(arch), MissingDirs(Resolve(RawRead(arch))))

JudgeEmpty(e) == (IF e.raised # "" THEN {"Empty_Raised"} ELSE {})
                 \cup (IF e.raised = "" /\ AsSet(e.got) # ReadArchive(<<>>) THEN {"Empty_NotEmpty"} ELSE {})

Judge(e) == CASE e.ev = "roundtrip" -> JudgeRoundTrip(e)
              [] e.ev = "read" -> JudgeRead(e)
              [] e.ev = "empty" -> JudgeEmpty(e)
              [] OTHER -> {"UnknownEvent"}
TraceInit == l = 0
TraceNext == /\ l < Len(Tr)
             /\ l' = l + 1
             /\ Report(Tr[l'].tid, Tr[l'].i, Judge(Tr[l']))
             /\ EndMark(l')
TraceSpec == TraceInit /\ [][TraceNext]_l
=========================================================================
