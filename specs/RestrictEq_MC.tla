---------------------------- MODULE RestrictEq_MC ----------------------------
(* Cache transparency for restriction-keyed caches, model-checked over all version-match
   descriptions (6 operators x versions x revisions x negate).
     Variant = "fixed"   : repaired equality key / hash
     Variant = "shipped" : the snapshot's __eq__ / __hash__
     Scan                : the container finds equal keys by a linear == scan (list membership,
                           as boolean.remove_restriction does) instead of hash-then-==
   Invariants:
     Transparent   what a lookup returns is what computing the query afresh returns
     NoTwins       the cache never holds two entries whose keys compare equal (needs the hash law)
   The driver checks "fixed" (must hold, both containers) and "shipped" (expected violations:
   negative controls showing the model tells the two apart).                                   *)
EXTENDS RestrictEq, TLC
CONSTANTS Variant, Scan, Vers, Revs, MaxEntries
VARIABLES store, last

Descr == [op : Ops, v : Vers, r : Revs, neg : BOOLEAN]
Univ  == [v : Vers \cup {0, 9}, r : Revs]
Key(d)  == IF Variant = "fixed" THEN FixedKey(d) ELSE ShippedKey(d)
Hash(d) == IF Variant = "fixed" THEN FixedHash(d) ELSE ShippedHash(d)
Compute(d) == {x \in Univ : VmMatch(d, x)}

Init == store = {} /\ last = [key |-> CHOOSE d \in Descr : TRUE, val |-> Compute(CHOOSE d \in Descr : TRUE)]
Lookup(k) ==
    LET hits == Reachable(store, k, Key, Hash, Scan) IN
    IF hits # {}
    THEN /\ \E e \in hits : last' = [key |-> k, val |-> e.val]
         /\ UNCHANGED store
    ELSE /\ Cardinality(store) < MaxEntries
         /\ store' = store \cup {[key |-> k, val |-> Compute(k)]}
         /\ last' = [key |-> k, val |-> Compute(k)]
Clear == store' = {} /\ UNCHANGED last
Next == (\E k \in Descr : Lookup(k)) \/ Clear
Spec == Init /\ [][Next]_<<store, last>>

Transparent == last.val = Compute(last.key)
NoTwins == \A e1, e2 \in store : e1 # e2 => Key(e1.key) # Key(e2.key)
StoreSound == \A e \in store : e.val = Compute(e.key)
=========================================================================
