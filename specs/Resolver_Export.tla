---------------------------- MODULE Resolver_Export ----------------------------
(* spec -> code: every member of the bounded family (JSON form) for replay into the real
   upgrade / min-install / empty-tree resolvers.  The constant-level laws of Resolver_Laws
   are evaluated in the same TLC run (one JVM start less). *)
EXTENDS Resolver_Laws, Json, IOUtils
ASSUME ndJsonSerialize(IOEnv.OUT, SetToSeq(Family))
=========================================================================
