------------------------------ MODULE RepoOps ------------------------------
(* G09: the operation templates of pkgcore (src/pkgcore/operations/__init__.py) and the
   repository-level install / uninstall / replace stage machines
   (src/pkgcore/operations/repo.py, driven by snakeoil's ForcedDepends).

   Part A - operations.base as a decision table:
     which operations an object offers = function of what the class defines
     (_cmd_api_X, is_standalone, _cmd_implementation_X, _cmd_check_support_X) and of the
     enable / disable overrides; what a call of an offered operation gives back
     (value, exception as raised, or a PkgcoreException recast into the class's
     casting exception with the original attached); run_if_supported; supports().
   Part B - one operation object as a state machine: calling any stage runs the stages
     it depends on that have not completed yet, depth first in declaration order,
     stops at the first stage that returns a false value or raises, and records only
     completed stages.  start takes the repository write lock, finish releases it,
     the notify stages tell the repository.

   Variable free (HOWTO): RepoOps_MC / RepoOps_Sim / RepoOps_Trace build on it. *)
EXTENDS Naturals, Sequences, FiniteSets, TLC

-----------------------------------------------------------------------------
(* Part A *)
\* a class description is a sequence of records
\*   [name, present, standalone, impl, chk \in {"none","yes","no"}]
Present(cls) == {k \in DOMAIN cls : cls[k].present}
RawOps(cls) == {cls[k].name : k \in Present(cls)}
Passes(d) == (d.standalone \/ d.impl) /\ d.chk # "no"
Filtered(cls) == {cls[k].name : k \in {j \in Present(cls) : Passes(cls[j])}}
EnabledOps(cls, en, dis) == (Filtered(cls) \cup en) \ dis
\* the support check of an operation is consulted exactly once per object, and only
\* when the operation has an implementation at all
CheckCalls(cls) == {cls[k].name : k \in {j \in Present(cls) : (cls[j].standalone \/ cls[j].impl) /\ cls[j].chk # "none"}}
\* named deviation: force-enabling an operation the class has no _cmd_api_ for makes the
\* constructor raise AttributeError (it binds every enabled operation)
CtorOutcome(cls, en, dis) == IF EnabledOps(cls, en, dis) \subseteq RawOps(cls) THEN "ok" ELSE "AttributeError"

Behaviours == {"ret", "exc_cast", "exc_sub", "exc_pkgcore", "exc_other"}
ExcClass(b) == CASE b = "exc_cast" -> "OperationError" [] b = "exc_sub" -> "SubError"
                 [] b = "exc_pkgcore" -> "OtherPkgcoreError" [] b = "exc_other" -> "ValueError" [] OTHER -> "-"
\* casting \in {"OperationError", "None"}
CallOutcome(b, casting) ==
  IF b = "ret" THEN [kind |-> "ret", cls |-> "-", wrapped |-> FALSE]
  ELSE IF b = "exc_pkgcore" /\ casting # "None"
       THEN [kind |-> "raise", cls |-> casting, wrapped |-> TRUE]
       ELSE [kind |-> "raise", cls |-> ExcClass(b), wrapped |-> FALSE]
\* via \in {"direct", "run"}: obj.op(...) versus obj.run_if_supported("op", ...)
Unsupported(via) == IF via = "run" THEN [kind |-> "or_return", cls |-> "-", wrapped |-> FALSE]
                    ELSE [kind |-> "raise", cls |-> "AttributeError", wrapped |-> FALSE]
Invoke(cls, en, dis, casting, op, b, via) ==
  IF op \in EnabledOps(cls, en, dis) THEN CallOutcome(b, casting) ELSE Unsupported(via)
\* run_if_supported hands the operation an observer when the caller gave none
GotObserver(via) == via = "run"

-----------------------------------------------------------------------------
(* Part C: sync_operations (operations/repo.py).  The sync operation is offered iff the repository
   (or, for a configured wrapper, its raw repository's config) carries a syncer and that syncer is
   not disabled; a lazy reference is instantiated on the way.  One sync = _pre_sync, syncer.sync,
   _post_sync, in that order, returning what the syncer returned.  Named deviation (as the code
   behaves): when the syncer raises, _post_sync is not called. *)
SyncLocs == {"repo", "config", "none"}
SyncOutcomes == {"ret_true", "ret_false", "raise_pk", "raise_other"}
SyncOffered(loc, disabled) == loc # "none" /\ ~disabled
SyncRun(loc, disabled, o, via) ==
  IF ~SyncOffered(loc, disabled) THEN [log |-> <<>>, val |-> "-", res |-> Unsupported(via)]
  ELSE IF o \in {"ret_true", "ret_false"}
       THEN [log |-> <<"pre", "sync", "post">>, val |-> o, res |-> [kind |-> "ret", cls |-> "-", wrapped |-> FALSE]]
       ELSE [log |-> <<"pre", "sync">>, val |-> "-",
             res |-> IF o = "raise_pk" THEN [kind |-> "raise", cls |-> "OperationError", wrapped |-> TRUE]
                     ELSE [kind |-> "raise", cls |-> "ValueError", wrapped |-> FALSE]]

-----------------------------------------------------------------------------
(* Part D: operations_proxy (a wrapper repository forwarding to its raw repository's operations),
   specified as the code behaves.  What it says it offers follows its own overrides; what it BINDS is
   what the raw repository offers.  Named deviations: an operation disabled on the proxy stays
   callable directly; an operation force-enabled on the proxy that the raw repository does not offer
   makes run_if_supported raise AttributeError. *)
ProxyEnabled(rawen, en, dis) == (rawen \cup en) \ dis
ProxyInvoke(rawen, en, dis, op, via) ==
  LET fwd == [kind |-> "ret", cls |-> "-", wrapped |-> FALSE]
      noattr == [kind |-> "raise", cls |-> "AttributeError", wrapped |-> FALSE] IN
  IF via = "direct" THEN (IF op \in rawen THEN fwd ELSE noattr)
  ELSE IF op \notin ProxyEnabled(rawen, en, dis) THEN Unsupported("run")
  ELSE IF op \in rawen THEN fwd ELSE noattr

-----------------------------------------------------------------------------
(* Part B *)
Kinds == {"install", "uninstall", "replace"}
UserStages == {"add_data", "remove_data", "finalize_data"}
Outcomes == {"T", "F", "X"}

\* Variant "shipped" is the table of operations/repo.py; the others are broken designs
\* used as vacuity guards by RepoOps_MC.
DepTable(kind, variant) ==
  CASE kind = "install" ->
         [s \in {"start", "add_data", "finalize_data", "notify_add", "finish"} |->
            CASE s = "finish" -> <<"notify_add">> [] s = "notify_add" -> <<"finalize_data">>
              [] s = "finalize_data" -> <<"add_data">> [] s = "add_data" -> <<"start">> [] OTHER -> <<>>]
    [] kind = "uninstall" ->
         [s \in {"start", "remove_data", "finalize_data", "notify_remove", "finish"} |->
            CASE s = "finish" -> <<"notify_remove">> [] s = "notify_remove" -> <<"finalize_data">>
              [] s = "finalize_data" -> <<"remove_data">> [] s = "remove_data" -> <<"start">> [] OTHER -> <<>>]
    [] OTHER ->
         [s \in {"start", "add_data", "remove_data", "finalize_data", "notify_add", "notify_remove", "finish"} |->
            CASE s = "finish" -> <<"notify_add">> [] s = "notify_add" -> <<"finalize_data">>
              [] s = "finalize_data" -> IF variant = "dropped_remove" THEN <<"add_data">> ELSE <<"add_data", "notify_remove">>
              [] s = "notify_remove" -> <<"remove_data">> [] s = "remove_data" -> <<"start">>
              [] s = "add_data" -> <<"start">> [] OTHER -> <<>>]
StagesOf(kind) == DOMAIN DepTable(kind, "shipped")

RECURSIVE Lin(_, _, _), LinSeq(_, _, _)
\* depth-first, declaration order, a stage after everything it needs (duplicates are skipped at run time)
Lin(kind, variant, s) == LinSeq(kind, variant, DepTable(kind, variant)[s]) \o <<s>>
LinSeq(kind, variant, ds) == IF ds = <<>> THEN <<>>
                             ELSE Lin(kind, variant, Head(ds)) \o LinSeq(kind, variant, Tail(ds))

InitSt == [done |-> {}, lock |-> 0, underway |-> FALSE, nadd |-> 0, nrem |-> 0]

\* effect of a stage that completed
Effect(st, s) ==
  LET st1 == CASE s = "start" -> [st EXCEPT !.lock = @ + 1, !.underway = TRUE]
               [] s = "finish" -> [st EXCEPT !.lock = IF @ > 0 THEN @ - 1 ELSE 0, !.underway = FALSE]
               [] s = "notify_add" -> [st EXCEPT !.nadd = @ + 1]
               [] s = "notify_remove" -> [st EXCEPT !.nrem = @ + 1]
               [] OTHER -> st
  IN [st1 EXCEPT !.done = @ \cup {s}]

OutcomeOf(s, script) == IF s \in UserStages THEN script[s] ELSE "T"

\* run the stages of seq in order; recheck = FALSE is the broken design that forgets
\* which stages completed
RECURSIVE RunSeq(_, _, _, _)
RunSeq(st, seq, script, recheck) ==
  IF seq = <<>> THEN [st |-> st, out |-> "True", ran |-> <<>>]
  ELSE LET s == Head(seq) IN
       IF recheck /\ s \in st.done THEN RunSeq(st, Tail(seq), script, recheck)
       ELSE LET o == OutcomeOf(s, script) IN
            IF o = "T" THEN LET r == RunSeq(Effect(st, s), Tail(seq), script, recheck)
                            IN [r EXCEPT !.ran = <<s>> \o @]
            ELSE [st |-> st, out |-> IF o = "F" THEN "False" ELSE "raise", ran |-> <<s>>]

CallStage(kind, variant, st, s, script, recheck) == RunSeq(st, Lin(kind, variant, s), script, recheck)

\* ---- what must hold of every reachable state of one operation object ----
Closed(kind, st) == \A s \in st.done : \A k \in DOMAIN DepTable(kind, "shipped")[s] : DepTable(kind, "shipped")[s][k] \in st.done
LockOk(st) == st.lock = IF "start" \in st.done /\ "finish" \notin st.done THEN 1 ELSE 0
UnderwayOk(st) == st.underway = ("start" \in st.done /\ "finish" \notin st.done)
NotifyOnce(st) == /\ st.nadd = IF "notify_add" \in st.done THEN 1 ELSE 0
                  /\ st.nrem = IF "notify_remove" \in st.done THEN 1 ELSE 0
\* the repository hears of a package only after its data is in place / gone and finalised,
\* while the lock is held; a replace announces the new package only after the old one
\* was removed and announced
NotifyAfterData(kind, st) ==
  /\ "notify_add" \in st.done => {"start", "add_data", "finalize_data"} \subseteq st.done
  /\ "notify_remove" \in st.done => {"start", "remove_data"} \subseteq st.done
  /\ (kind = "uninstall" /\ "notify_remove" \in st.done) => "finalize_data" \in st.done
  /\ (kind = "replace" /\ "notify_add" \in st.done) => {"remove_data", "notify_remove"} \subseteq st.done
  /\ (kind = "replace" /\ "finalize_data" \in st.done) => {"add_data", "remove_data"} \subseteq st.done
=============================================================================
