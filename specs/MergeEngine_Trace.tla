---------------------------- MODULE MergeEngine_Trace ----------------------------
(* code -> spec: judges what real MergeEngine objects, real operations.domain install / uninstall /
   replace objects and real get_writable_fsobj calls did (histories chosen by TLC simulation, seeded
   random histories over random trigger universes, engines with the real default plugin triggers).

   Tr[1] is the universe: {ev:"universe", trigs, prio, hooks, modes, req, supp, act, usernames, plugins}.
   Every other event is one public call with its inputs, its result `res`, the observations `log` made
   during the call (observer notifications, trigger bodies entered with the objects they were handed,
   cset sources evaluated, format / repository / lock calls) and the projected state afterwards:
     st  = {mode, hooks, defined, pres, pv, hv, cnt, inj, phase}     (engine)
     ost = {done, locks, tmps, live}                                 (operation)
   Each call is judged from the previously OBSERVED state (re-synchronising), clause by clause:
   the exact expected result / log / state (Ctor_.., Reg_.., Add_.., Replace_.., Peek_.., Hook_.., Finish_..),
   and the user level statements evaluated on the OBSERVED log (Bracketed, PriorityOrdered, TiesInOrder,
   ExactlyOnce, StopsAtFailure, Notices, AskedOnly, OncePerRun, ComputedThisRun, PreservedKept, Coherent,
   PreservedOnce, OpOrdered, UnderLock, NoRerun, DonePrefix, W_..).                                     *)
EXTENDS TraceLib, Integers
U == Tr[1]
TTrigs == AsSet(U.trigs)
TTPrio == [t \in TTrigs |-> U.prio[t]]
TTHooks == [t \in TTrigs |-> U.hooks[t]]
TTModes == [t \in TTrigs |-> AsSet(U.modes[t])]
TTReq == [t \in TTrigs |-> U.req[t]]
TTSupp == [t \in TTrigs |-> U.supp[t]]
TTAct == [t \in TTrigs |-> U.act[t]]
TUserNames == AsSet(U.usernames)
TPlugins == U.plugins

VARIABLES l, st, os, ctx
INSTANCE MergeEngine WITH Trigs <- TTrigs, TPrio <- TTPrio, THooks <- TTHooks, TModes <- TTModes, TReq <- TTReq,
                          TSupp <- TTSupp, TAct <- TTAct, UserNames <- TUserNames, Plugins <- TPlugins,
                          StableSort <- TRUE, RegenPerHook <- TRUE, EndOnFailure <- TRUE

(* ---------- observed JSON -> spec vocabulary ---------- *)
\* the parts of the engine state that can be seen from outside; bindings and the ghost set come from the spec
ObsEng(o, base) == [base EXCEPT !.hooks = [h \in HookSet(o.mode) |-> o.hooks[h]],
                                !.pres = AsSet(o.pres),
                                !.pv = [n \in Names |-> o.pv[n]],
                                !.hv = [n \in Names |-> o.hv[n]],
                                !.cnt = [n \in Names |-> o.cnt[n]],
                                !.inj = o.inj]
EngDiff(tag, o, x) ==
    (IF [h \in HookSet(o.mode) |-> o.hooks[h]] = x.hooks THEN {} ELSE {tag \o "_hooks"}) \cup
    (IF AsSet(o.defined) = {n \in Names : x.src[n].def} THEN {} ELSE {tag \o "_defined"}) \cup
    (IF AsSet(o.pres) = x.pres THEN {} ELSE {tag \o "_preserved"}) \cup
    (IF [n \in Names |-> o.pv[n]] = x.pv THEN {} ELSE {tag \o "_pv"}) \cup
    (IF [n \in Names |-> o.hv[n]] = x.hv THEN {} ELSE {tag \o "_hv"}) \cup
    (IF [n \in Names |-> o.cnt[n]] = x.cnt THEN {} ELSE {tag \o "_evalcount"}) \cup
    (IF o.inj = x.inj THEN {} ELSE {tag \o "_injected"}) \cup
    (IF o.phase = "-" THEN {} ELSE {tag \o "_phase"})
FailOf(e) == [t \in TTrigs |-> e.fail[t]]
EnvOf(e) == [c \in EnvCalls |-> e.env[c]]
Pairs(ch) == [k \in DOMAIN ch |-> <<ch[k][1], ch[k][2]>>]
Desc(e) == [def |-> TRUE, alias |-> e.alias, deps |-> e.deps]

\* an observed hook log the user level predicates can be evaluated on
ItemOk(x) == /\ x.k \in {"hook", "start", "end", "call", "eval", "replaced", "warn", "error", "lock", "fmt", "repo"}
             /\ (x.k \in {"start", "end", "call", "warn", "error"} => x.t \in TTrigs)
             /\ (x.k \in {"eval", "replaced"} => x.n \in Names)
HookLogOk(log, h) == Len(log) >= 1 /\ log[1] = IHook(h) /\ \A k \in DOMAIN log : ItemOk(log[k]) /\ (k > 1 => log[k].k # "hook")
StateClauses(s) == (IF Coherent(s) THEN {} ELSE {"Coherent"}) \cup (IF PreservedOnce(s) THEN {} ELSE {"PreservedOnce"})

(* ---------- engine level ---------- *)
JudgeNew(e) ==
  LET x == Construct(e.m, e.plugins, Pairs(e.ch)) IN
  IF e.res # x.res THEN {"Ctor_result"}
  ELSE IF x.res # "ok" THEN {}
  ELSE EngDiff("Ctor", e.st, x.s)
JudgeRegister(cur, e) ==
  LET x == Register(cur, e.t) IN
  (IF e.res # x.res THEN {"Reg_result"} ELSE {}) \cup EngDiff("Reg", e.st, x.s)
AddOk(cur, e) == /\ e.n \in TUserNames
                 /\ \A k \in DOMAIN e.deps : e.deps[k] \in Names
                 /\ (e.alias => Len(e.deps) = 1)
                 /\ LET s2 == AddCset(cur, e.n, Desc(e), e.pres) IN DepsDefined(s2) /\ Acyclic(s2)
JudgeAdd(cur, e) == EngDiff("Add", e.st, AddCset(cur, e.n, Desc(e), e.pres))
JudgeReplace(cur, e) ==
  LET x == TryReplace(cur, e.n) IN
  (IF e.res # x.res THEN {"Replace_result"} ELSE {}) \cup
  (IF LogEq(e.log, x.log) THEN {} ELSE {"Replace_log"}) \cup EngDiff("Replace", e.st, x.s)
JudgePeek(cur, e) ==
  LET x == Peek(cur, e.n) IN
  (IF e.res # x.res THEN {"Peek_result"} ELSE {}) \cup
  (IF LogEq(e.log, x.log) THEN {} ELSE {"Peek_log"}) \cup EngDiff("Peek", e.st, x.s)
JudgeHook(cur, e) ==
  LET F == FailOf(e)
      x == RunHook(cur, F, e.h)
  IN (IF e.res # x.res THEN {"Hook_result"} ELSE {}) \cup
     (IF LogEq(e.log, x.log) THEN {} ELSE {"Hook_log"}) \cup
     EngDiff("Hook", e.st, x.s) \cup
     (IF HookLogOk(e.log, e.h) THEN RunClauses(cur, F, e.h, e.log, e.res) ELSE {"Hook_log_malformed"})

EngPre(cur, e) ==
  CASE e.ev = "new"      -> e.m \in Modes /\ \A k \in DOMAIN e.ch : e.ch[k][1] \in HookSet(e.m) /\ e.ch[k][2] \in TTrigs
    [] e.ev = "register" -> e.t \in TTrigs
    [] e.ev = "addcset"  -> AddOk(cur, e)
    [] e.ev = "replace"  -> e.n \in Names
    [] e.ev = "peek"     -> e.n \in Names
    [] e.ev = "hook"     -> e.h \in HookSet(cur.mode) /\ \A t \in TTrigs : e.fail[t] \in Kinds
    [] OTHER -> FALSE
EngExpected(cur, e) ==
  CASE e.ev = "new"      -> Construct(e.m, e.plugins, Pairs(e.ch)).s
    [] e.ev = "register" -> Register(cur, e.t).s
    [] e.ev = "addcset"  -> AddCset(cur, e.n, Desc(e), e.pres)
    [] e.ev = "replace"  -> TryReplace(cur, e.n).s
    [] e.ev = "peek"     -> Peek(cur, e.n).s
    [] OTHER             -> RunHook(cur, FailOf(e), e.h).s
JudgeEng(cur, e) ==
  IF ~EngPre(cur, e) THEN {"OutsideDomain"}
  ELSE (CASE e.ev = "new"      -> JudgeNew(e)
          [] e.ev = "register" -> JudgeRegister(cur, e)
          [] e.ev = "addcset"  -> JudgeAdd(cur, e)
          [] e.ev = "replace"  -> JudgeReplace(cur, e)
          [] e.ev = "peek"     -> JudgePeek(cur, e)
          [] OTHER             -> JudgeHook(cur, e))
       \cup (IF e.ev # "new" \/ e.res = "ok" THEN StateClauses(ObsEng(e.st, EngExpected(cur, e))) ELSE {})
\* the state the next call of this trace is judged from
EngNext(cur, e) ==
  IF ~EngPre(cur, e) THEN cur
  ELSE IF e.ev = "new" /\ e.res # "ok" THEN New(e.m)
  ELSE ObsEng(e.st, EngExpected(cur, e))

(* ---------- operation level ---------- *)
OpPre(o, c, e) ==
  CASE e.ev = "opnew"  -> e.m \in Modes /\ (\A k \in DOMAIN e.fmt : e.fmt[k] \in TTrigs) /\ (\A k \in DOMAIN e.dom : e.dom[k] \in TTrigs)
    [] e.ev = "finish" -> (\A t \in TTrigs : e.fail[t] \in Kinds) /\ (\A x \in EnvCalls : e.env[x] \in {"ok", "false", "raise"})
    [] e.ev = "abandon" -> TRUE
    [] OTHER -> FALSE
ObsOp(e, x) == [x EXCEPT !.done = AsSet(e.ost.done), !.locks = e.ost.locks, !.tmps = e.ost.tmps, !.live = e.ost.live,
                         !.eng = IF e.ost.live THEN ObsEng(e.st, x.eng) ELSE x.eng]
JudgeFinish(o, c, e) ==
  LET x == Finish(o, FailOf(e), EnvOf(e), c.fmt, c.dom) IN
  (IF e.res # x.res THEN {"Finish_result"} ELSE {}) \cup
  (IF LogEq(e.log, x.log) THEN {} ELSE {"Finish_log"}) \cup
  (IF AsSet(e.ost.done) = x.s.done THEN {} ELSE {"Finish_done"}) \cup
  (IF e.ost.locks = x.s.locks THEN {} ELSE {"Finish_locks"}) \cup
  (IF e.ost.tmps = x.s.tmps THEN {} ELSE {"Finish_tempspaces"}) \cup
  (IF e.ost.live = x.s.live THEN {} ELSE {"Finish_engine"}) \cup
  (IF e.ost.live /\ x.s.live THEN EngDiff("Finish", e.st, x.s.eng) ELSE {}) \cup
  (IF \A k \in DOMAIN e.log : ItemOk(e.log[k]) THEN OpClauses(o, e.log, e.res) ELSE {"Finish_log_malformed"}) \cup
  (IF DonePrefix(ObsOp(e, x.s)) THEN {} ELSE {"DonePrefix"})
JudgeAbandon(o, e) ==
  LET x == Abandon(o) IN
  (IF e.ost.locks = x.locks THEN {} ELSE {"Abandon_locks"}) \cup
  (IF e.ost.tmps = x.tmps THEN {} ELSE {"Abandon_tempspaces"})
JudgeOp(o, c, e) ==
  IF ~OpPre(o, c, e) THEN {"OutsideDomain"}
  ELSE IF e.ev = "opnew" THEN {}
  ELSE IF e.ev = "abandon" THEN JudgeAbandon(o, e)
  ELSE JudgeFinish(o, c, e)
OpNextState(o, c, e) ==
  IF ~OpPre(o, c, e) THEN o
  ELSE IF e.ev = "opnew" THEN OpNew(e.m)
  ELSE IF e.ev = "abandon" THEN Abandon(o)
  ELSE ObsOp(e, Finish(o, FailOf(e), EnvOf(e), c.fmt, c.dom).s)

(* ---------- get_writable_fsobj ---------- *)
JudgeWritable(e) ==
  LET c == e.c
      o == e.obs IN
  IF o.raised # "" THEN {"W_raised"}
  ELSE (IF o.writable THEN {} ELSE {"W_writable"}) \cup
       (IF o.content = WContent(c) THEN {} ELSE {"W_content"}) \cup
       (IF o.where = WWhere(c) THEN {} ELSE {"W_where"}) \cup
       (IF o.where = "fresh" => o.intemp THEN {} ELSE {"W_tempspace"}) \cup
       (IF WMustKeep(c) => o.srckept THEN {} ELSE {"W_source_kept"})

IsOp(e) == e.ev \in {"opnew", "finish", "abandon"}
Judge(cur, o, c, e) ==
  IF e.ev = "writable" THEN JudgeWritable(e)
  ELSE IF IsOp(e) THEN JudgeOp(o, c, e)
  ELSE JudgeEng(cur, e)

Blank == New("install")
TraceInit == l = 1 /\ st = Blank /\ os = OpNew("install") /\ ctx = [fmt |-> <<>>, dom |-> <<>>]
TraceNext ==
  /\ l < Len(Tr)
  /\ l' = l + 1
  /\ LET e == Tr[l'] IN
     /\ Report(e.tid, e.i, Judge(st, os, ctx, e))
     /\ st' = IF e.ev = "writable" \/ IsOp(e) THEN st ELSE EngNext(st, e)
     /\ os' = IF IsOp(e) THEN OpNextState(os, ctx, e) ELSE os
     /\ ctx' = IF e.ev = "opnew" THEN [fmt |-> e.fmt, dom |-> e.dom] ELSE ctx
  /\ EndMark(l')
TraceSpec == TraceInit /\ [][TraceNext]_<<l, st, os, ctx>>
=========================================================================
