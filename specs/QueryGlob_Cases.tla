---------------------------- MODULE QueryGlob_Cases ----------------------------
(* The bounded universe and query space shared by QueryGlob_MCQ (laws), QueryGlob_Export
   (spec -> code) -- a factored space: every pair of name patterns; slot x sub-slot patterns;
   operators x versions x body forms x slot x repository.                                   *)
EXTENDS QueryGlob
CONSTANT Size      \* 1: quick (about 900 queries x 45 packages), 2: thorough (3155 x 68)

a == <<"a">>
ab == <<"a", "b">>
ba == <<"b", "a">>
b_a == <<"b", "-", "a">>
a_b == <<"a", "-", "b">>
D(n) == <<n>>
V(nums, letter, sufs, rev) == MkVer(nums, letter, sufs, rev)
v1     == V(<<D("1")>>, "", <<>>, <<>>)
v12    == V(<<D("1"), D("2")>>, "", <<>>, <<>>)
v12r1  == V(<<D("1"), D("2")>>, "", <<>>, D("1"))
v12r2  == V(<<D("1"), D("2")>>, "", <<>>, D("2"))
v110   == V(<<D("1"), <<"1", "0">>>>, "", <<>>, <<>>)
v12al  == V(<<D("1"), D("2")>>, "", <<[k |-> "alpha", n |-> <<>>]>>, <<>>)
v12rc2 == V(<<D("1"), D("2")>>, "", <<[k |-> "rc", n |-> D("2")]>>, <<>>)
v12p1  == V(<<D("1"), D("2")>>, "", <<[k |-> "p", n |-> D("1")]>>, <<>>)
v2a    == V(<<D("2")>>, "a", <<>>, <<>>)
v2     == V(<<D("2")>>, "", <<>>, <<>>)
v09    == V(<<D("0"), D("9")>>, "", <<>>, <<>>)
v15    == V(<<D("1"), D("5")>>, "", <<>>, <<>>)

UCats == {a, ab, b_a}
UPkgs == {ba, a_b, a}
UVers == IF Size = 1 THEN {v1, v12, v12r1, v110, v12al, v2a} ELSE {v1, v12, v12r1, v12r2, v110, v12al, v12rc2, v12p1, v2a, v09}
USlots == {<<<<"0">>, <<"0">>>>, <<<<"1">>, <<"1", ".", "2">>>>, <<<<"1", "2">>, <<"0">>>>}
URepos == {<<"r">>, <<"s">>}
Pk(c, n, v, s, r) == [cat |-> c, pkg |-> n, ver |-> RenderVer(v), slot |-> s[1], sub |-> s[2], repo |-> r]
Universe == {Pk(c, n, v1, <<<<"0">>, <<"0">>>>, <<"r">>) : c \in UCats, n \in UPkgs}
            \cup {Pk(ab, ba, v, s, r) : v \in UVers, s \in USlots, r \in URepos}
\* the package as the spec sees it (version parsed from its text)
AsPkg(x) == [cat |-> x.cat, pkg |-> x.pkg, ver |-> ParseVer(x.ver), slot |-> x.slot, sub |-> x.sub, repo |-> x.repo]

NameAlpha == {"a", "b", "*"}
NamePats == {t \in UNION {[1..k -> NameAlpha] : k \in 1..(Size + 1)} : IsNamePat(t)}
            \cup {a_b, b_a, <<"a", "-", "*">>, <<"*", "-", "*">>, <<"*", "-", "a">>, <<"*", "a", "-", "b">>}
SlotPats == {<<"0">>, <<"1">>, <<"1", "*">>, <<"*", "2">>, <<"*">>, <<"1", "*", "2">>}
SubPats == {<<"0">>, <<"1", ".", "2">>, <<"1", ".", "*">>, <<"*">>, <<"*", ".", "*">>}
QVers == IF Size = 1 THEN {v12, v12r1, v110, v12al} ELSE {v12, v12r1, v110, v12al, v2a, v12p1, v15}

QNames == {MkQ("", TRUE, c, p, NoVer, FALSE, AnyPat, FALSE, AnyPat, <<>>) : c \in NamePats, p \in NamePats}
          \cup {MkQ("", FALSE, AnyPat, p, NoVer, FALSE, AnyPat, FALSE, AnyPat, <<>>) : p \in NamePats}
Bodies == {<<FALSE, AnyPat, ba>>, <<TRUE, <<"a", "*">>, ba>>, <<TRUE, ab, ba>>}
          \cup (IF Size = 1 THEN {} ELSE {<<TRUE, AnyPat, AnyPat>>, <<TRUE, AnyPat, <<"b", "*">>>>})
QSlots == {MkQ("", b[1], b[2], b[3], NoVer, TRUE, s, FALSE, AnyPat, r) : b \in Bodies, s \in SlotPats, r \in {<<>>, <<"s">>}}
          \cup {MkQ("", b[1], b[2], b[3], NoVer, TRUE, s, TRUE, u, r) : b \in Bodies, s \in SlotPats, u \in SubPats, r \in {<<>>, <<"s">>}}
          \cup {MkQ("", b[1], b[2], b[3], NoVer, FALSE, AnyPat, FALSE, AnyPat, <<"r">>) : b \in Bodies}
QOps == {MkQ(op, b[1], b[2], b[3], v, FALSE, AnyPat, FALSE, AnyPat, r) : op \in Ops, b \in Bodies, v \in QVers, r \in {<<>>, <<"r">>}}
        \cup {MkQ(op, b[1], b[2], b[3], v, TRUE, s, FALSE, AnyPat, r) : op \in Ops, b \in Bodies, v \in QVers,
                                                                  s \in {<<"1">>, <<"1", "*">>}, r \in {<<>>, <<"r">>}}
Queries == {q \in QNames \cup QSlots \cup QOps : q.op = "~" => q.ver.rev = <<>>}
Blockers == {<<"!">> \o a, <<"!", "!">> \o ab \o <<"/">> \o ba, <<"!", "*">>, a \o <<"/", "!", "*">>,
             <<"=", "!">> \o ab \o <<"/">> \o ba \o <<"-", "1">>}
=========================================================================
