---------------------------- MODULE ConfigInherit_MC ----------------------------
(* TLC builds every configuration over Names x 1..NSrc by adding definitions (only of the
   root name or of names some inherit list mentions) and appending inherit entries, up to
   MaxDefs definitions / MaxEdges entries in total / MaxInh per list.  Every reachable
   state is one configuration; on each of them the invariants compare
     - the breadth-first queue order with the declarative "nearest path" reading,
     - the worklist algorithm of central.py (name-based duplicate detection, Mech below)
       with the outcome the specification assigns.
   With EmitCfgs the configuration is also printed for replay on the real ConfigManager. *)
EXTENDS ConfigInherit, TLC
CONSTANTS Names, Root, NSrc, KeySets, MaxDefs, MaxEdges, MaxInh, EmitCfgs

VARIABLE cfg
KS1 == {{}, {"class"}}
KS2 == {{}, {"class"}, {"k2"}, {"class", "k2"}}
Edges(c) == LET RECURSIVE Sum(_)
                Sum(ds) == IF ds = {} THEN 0 ELSE LET d == CHOOSE x \in ds : TRUE IN Len(d.inh) + Sum(ds \ {d})
            IN Sum(c)
Mentioned(c) == {Root} \cup UNION {{d.inh[i] : i \in DOMAIN d.inh} : d \in c}

Init == \E s \in 1..NSrc, ks \in KeySets : cfg = {[name |-> Root, src |-> s, inh |-> <<>>, keys |-> ks]}
AddDef == /\ Cardinality(cfg) < MaxDefs
          /\ \E n \in Mentioned(cfg), s \in 1..NSrc, ks \in KeySets :
                /\ ~\E d \in cfg : d.name = n /\ d.src = s
                /\ cfg' = cfg \cup {[name |-> n, src |-> s, inh |-> <<>>, keys |-> ks]}
AddInherit == /\ Edges(cfg) < MaxEdges
              /\ \E d \in cfg, t \in Names :
                    /\ Len(d.inh) < MaxInh
                    /\ cfg' = (cfg \ {d}) \cup {[d EXCEPT !.inh = Append(@, t)]}
Next == AddDef \/ AddInherit
Spec == Init /\ [][Next]_cfg

(* ---- the worklist of ConfigManager._get_inherited_sections, transcribed ---- *)
\* slist entries: [name, stack] with stack = definitions of that name, newest first
StackOf(c, n) == LET RECURSIVE Build(_)
                     Build(ds) == IF ds = {} THEN <<>> ELSE <<MaxSrc(ds)>> \o Build(ds \ {MaxSrc(ds)})
                 IN Build(DefsOf(c, n))
RECURSIVE MechInh(_, _, _, _, _)
MechInh(c, slist, seen, cur, j) ==       \* returns [slist, seen, err]
    LET d == cur.stack[1] IN
    IF j > Len(d.inh) THEN [slist |-> slist, seen |-> seen, err |-> FALSE]
    ELSE LET t == d.inh[j] IN
         IF t = cur.name
         THEN IF Len(cur.stack) = 1 THEN [slist |-> slist, seen |-> seen, err |-> TRUE]
              ELSE MechInh(c, Append(slist, [name |-> t, stack |-> Tail(cur.stack)]), seen, cur, j + 1)
         ELSE IF t \in seen \/ DefsOf(c, t) = {} THEN [slist |-> slist, seen |-> seen, err |-> TRUE]
              ELSE MechInh(c, Append(slist, [name |-> t, stack |-> StackOf(c, t)]), seen \cup {t}, cur, j + 1)
RECURSIVE MechLoop(_, _, _, _)
MechLoop(c, slist, seen, i) ==           \* returns the final slist or <<>> on error
    IF i > Len(slist) THEN slist
    ELSE LET r == MechInh(c, slist, seen, slist[i], 1) IN
         IF r.err THEN <<>> ELSE MechLoop(c, r.slist, r.seen, i + 1)
MechOrder(c) == LET sl == MechLoop(c, <<[name |-> Root, stack |-> StackOf(c, Root)]>>, {Root}, 1)
                IN [i \in DOMAIN sl |-> sl[i].stack[1]]

AllKeys == UNION KeySets
WorklistAgrees ==
    LET st == Status(cfg, Root)  mo == MechOrder(cfg) IN
    CASE st = "Error"       -> mo = <<>>
      [] st = "Unspecified" -> mo = <<>>           \* what the code does today with non-tree graphs
      [] OTHER              -> mo = Order(cfg, Root)
QueueIsNearest == Status(cfg, Root) = "Values" =>
    \A k \in AllKeys : ValueOf(cfg, Root, k) = NearestSetting(cfg, Root, k)
OwnValueWins == Status(cfg, Root) = "Values" =>
    \A k \in Newest(cfg, Root).keys : ValueOf(cfg, Root, k) = Origin(Newest(cfg, Root))
\* a definition shadowed by a later source is used only through a self-inherit
ShadowedOnlyBySelfInherit == Status(cfg, Root) = "Values" =>
    \A k \in AllKeys : LET o == ValueOf(cfg, Root, k) IN
        (o # NoOrigin /\ o.src # Newest(cfg, o.name).src) =>
            \E d \in cfg : d.name = o.name /\ d.src > o.src /\ \E i \in DOMAIN d.inh : d.inh[i] = d.name

Enc(d) == <<d.name, d.src, d.inh, d.keys>>
Emit == EmitCfgs => PrintT(<<"CFG", {Enc(d) : d \in cfg}>>)
=========================================================================
