---------------------------- MODULE FilterEnv_Laws ----------------------------
(* Laws of the definition-level filter, evaluated by TLC over every dump of at most MaxDefs
   definitions (names from two per kind, one name shared by both kinds, two bodies) and every
   specified configuration over those names plus one name that never occurs.              *)
EXTENDS FilterEnv, TLC
CONSTANT MaxDefs
VN == {"a", "both"}
FN == {"f", "both"}
Defs1 == {[kind |-> "var", name |-> n, body |-> b] : n \in VN, b \in {"b1", "b2"}}
         \cup {[kind |-> "func", name |-> n, body |-> b] : n \in FN, b \in {"b1", "b2"}}
Dumps == UNION {[1..k -> Defs1] : k \in 0..MaxDefs}
Cfgs == {c \in [vnames : SUBSET (VN \cup {"ghost"}), fnames : SUBSET (FN \cup {"ghost"}),
                vwhite : BOOLEAN, fwhite : BOOLEAN] : Specified(c)}
IsSubseq(s, t) == \E f \in [DOMAIN s -> DOMAIN t] :
                     /\ \A i \in DOMAIN s : s[i] = t[f[i]]
                     /\ \A i, j \in DOMAIN s : i < j => f[i] < f[j]
ToBag(s) == [x \in {s[k] : k \in DOMAIN s} |-> Cardinality({k \in DOMAIN s : s[k] = x})]

ASSUME KeptAreExactlyTheOthers == \A d \in Dumps : \A c \in Cfgs :
          /\ \A k \in DOMAIN Filter(d, c) : ~Removed(Filter(d, c)[k], c)
          /\ Len(Filter(d, c)) = Cardinality({k \in DOMAIN d : ~Removed(d[k], c)})
          /\ IsSubseq(Filter(d, c), d)
ASSUME Partition == \A d \in Dumps : \A c \in Cfgs :
          Len(Filter(d, c)) + Cardinality({k \in DOMAIN d : Removed(d[k], c)}) = Len(d)
ASSUME Idempotent == \A d \in Dumps : \A c \in Cfgs : Filter(Filter(d, c), c) = Filter(d, c)
ASSUME KindsIndependent == \A d \in Dumps : \A c \in Cfgs :
          Filter(d, c) = Filter(Filter(d, [c EXCEPT !.fnames = {}, !.fwhite = FALSE]),
                                [c EXCEPT !.vnames = {}, !.vwhite = FALSE])
ASSUME WhitelistIsComplement == \A d \in Dumps : \A c \in Cfgs :
          (c.vnames # {} /\ c.fnames # {}) =>
             /\ Len(Filter(d, c)) + Len(RemovedPart(d, c)) = Len(d)
             /\ \A k \in DOMAIN d : Removed(d[k], c) <=> ~Removed(d[k], [c EXCEPT !.vwhite = ~c.vwhite, !.fwhite = ~c.fwhite])
ASSUME GhostNamesRemoveNothing == \A d \in Dumps :
          Filter(d, [vnames |-> {"ghost"}, fnames |-> {"ghost"}, vwhite |-> FALSE, fwhite |-> FALSE]) = d
ASSUME SourcedEnvIsRestriction == \A d \in Dumps : \A c \in Cfgs :
          LET e == ExpectedEnv(d, c)  full == SourceEnv(d) IN
          /\ DOMAIN e \subseteq DOMAIN full
          /\ \A key \in DOMAIN full : key \in DOMAIN e <=> ~Removed([kind |-> key[1], name |-> key[2], body |-> "b1"], c)
          /\ \A key \in DOMAIN e : e[key] = full[key]
ASSUME KeptIndicesAgree == \A d \in Dumps : \A c \in Cfgs :
          [k \in DOMAIN KeptIndices(d, c) |-> d[KeptIndices(d, c)[k]]] = Filter(d, c)
=============================================================================
