---------------------------- MODULE ThreadPool ----------------------------
(* C41: the parallel map of src/pkgcore/util/thread_pool.py (map_async).

   map_async(iterable, functor, threads=T) starts T worker threads (min(T, len) when the
   input has a length); every worker runs functor(queue_iterator) ONCE, the iterator
   hands out the queued items; the feeder puts the items, then one sentinel per worker,
   then joins.  A functor returns None, a value (appended to the results) or a generator
   (every yielded value is appended).

   Items are numbered 1..n in input order.  A result token is a pair <<a, b>>.
   This module holds the vocabulary shared by the model (ThreadPool_MC) and the judge of
   recorded executions (ThreadPool_Trace).                                              *)
EXTENDS Naturals, Sequences, FiniteSets

Min2(a, b) == IF a < b THEN a ELSE b

\* number of worker threads map_async creates
Workers(n, threads, haslen) == IF haslen THEN Min2(n, threads) ELSE threads

\* bags of tokens as functions token -> count over a finite support
BagOf(seq) == [t \in {seq[k] : k \in DOMAIN seq} |-> Cardinality({k \in DOMAIN seq : seq[k] = t})]
BagCount(b, t) == IF t \in DOMAIN b THEN b[t] ELSE 0
BagAdd(b, t) == [x \in DOMAIN b \cup {t} |-> BagCount(b, x) + (IF x = t THEN 1 ELSE 0)]
EmptyBag == [t \in {} |-> 0]
Missing(want, got) == {t \in DOMAIN want : BagCount(got, t) < want[t]}
Extra(want, got)   == {t \in DOMAIN got : BagCount(want, t) < got[t]}

(* ---- the property on a finished run ----
   taken : [1..n -> Nat]  how often each item was handed to a functor
   emitted : bag of the non-empty results the functors produced
   results : bag of what map_async returned                                   *)
NotProcessed(n, taken) == {i \in 1..n : taken[i] = 0}
TakenTwice(n, taken)   == {i \in 1..n : taken[i] > 1}
=========================================================================
