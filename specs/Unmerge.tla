------------------------------ MODULE Unmerge ------------------------------
(* C20 - what unmerging a contents set (and replacing one package by another) must leave behind.

     s0      FsModel state before (with the links table of Merge.tla)
     rm      sequence of listed entries [path, type]  (type as recorded for the package)
     offset  target directory (<<>> = none)
     base    set of protected base-system directories (paths incl. offset), {} below the engine level

   UnmergeExpected: every listed non-directory that exists is removed - the name itself, never what a
   symlink points to; listed directories are removed deepest-first, only when they are real directories,
   empty, and not protected; entries live where the kernel resolves their location (symlinked PARENT
   directories are followed, exactly as the merge placed them); nothing else changes.
   Fate not determined by the property (wild): a listed non-directory whose live object is a directory,
   a listed directory whose live object is not a directory.

   ReplaceExpected: merge the new cset (Merge!Expected), then unmerge those entries of the old cset
   whose object is not one the new package installs.                                               *)
EXTENDS Merge

CanonOf(s, offset, e) == Canon(s, offset \o e.path)

RECURSIVE RmObjs(_, _, _, _)
\* acc = [s, wild]
RmObjs(acc, rm, offset, order) ==
  IF order = <<>> THEN acc
  ELSE LET e == rm[Head(order)]
           q == CanonOf(acc.s, offset, e)
           a1 == IF q = <<"?">> \/ ~HasName(acc.s, q) THEN acc
                 ELSE IF ObjAt(acc.s, q).type = "dir" THEN [acc EXCEPT !.wild = @ \cup {q}]
                 ELSE [acc EXCEPT !.s = Unlink(acc.s, q).s]
       IN IF Force(a1) THEN RmObjs(a1, rm, offset, Tail(order)) ELSE acc

RECURSIVE RmDirs(_, _, _, _, _)
RmDirs(acc, rm, offset, order, prot) ==
  IF order = <<>> THEN acc
  ELSE LET e == rm[Head(order)]
           q == CanonOf(acc.s, offset, e)
           a1 == IF q = <<"?">> \/ ~HasName(acc.s, q) THEN acc
                 ELSE IF ObjAt(acc.s, q).type # "dir" THEN [acc EXCEPT !.wild = @ \cup {q}]
                 ELSE IF q \in prot \/ q \in acc.wild \/ Children(acc.s, q) # {} THEN
                      \* a wild child (fate open) makes the fate of the directory open as well
                      (IF \E n \in Children(acc.s, q) : n.path \in acc.wild THEN [acc EXCEPT !.wild = @ \cup {q}] ELSE acc)
                 ELSE [acc EXCEPT !.s = Rmdir(acc.s, q).s]
       IN IF Force(a1) THEN RmDirs(a1, rm, offset, Tail(order), prot) ELSE acc

DeepFirst(rm) == SortSeq(SelectSeq(Idx(rm), LAMBDA k : rm[k].type = "dir"),
                         LAMBDA a, b : Len(rm[a].path) > Len(rm[b].path))
NonDirs(rm) == SelectSeq(Idx(rm), LAMBDA k : rm[k].type # "dir")

Protected(s, base) == {Canon(s, b) : b \in base}

UnmergeExpected(s0, rm, offset, base) ==
  LET a1 == RmObjs([s |-> s0, wild |-> {}], rm, offset, NonDirs(rm))
  IN RmDirs(a1, rm, offset, DeepFirst(rm), Protected(s0, base))

\* what the listed entries name in s0 (for classifying verdicts)
ListedAt(s0, rm, offset) == {CanonOf(s0, offset, rm[k]) : k \in DOMAIN rm}
\* objects reached by FOLLOWING a listed name that is a symlink: must never be touched
Behind(s0, rm, offset) ==
  {r.p : r \in {Resolve(s0, offset \o rm[k].path, TRUE) :
                  k \in {j \in DOMAIN rm : LET q == CanonOf(s0, offset, rm[j]) IN
                                           q # <<"?">> /\ HasName(s0, q) /\ ObjAt(s0, q).type = "sym"}}}

ReplaceExpected(s0, oldc, newc, offset, base) ==
  LET xm == Expected(s0, newc, offset)
      \* what the new package installs: the objects at its entries' locations.  A directory entry that
      \* the merge kept as a symlink to a directory protects the symlink, not the directory behind it
      \* (if the old package owns that one it goes when empty - the property does not say otherwise)
      keep == Claimed(xm, newc, offset) \ {xm.place[k].p : k \in {j \in DOMAIN xm.place :
                  xm.place[j].kind = "kept" /\ Canon(xm.s, offset \o newc[j].path) # xm.place[j].p}}
      rm == SelectSeq(oldc, LAMBDA e : CanonOf(xm.s, offset, e) \notin keep)
      u == UnmergeExpected(xm.s, rm, offset, base)
  IN [outcome |-> xm.outcome, why |-> xm.why, s |-> u.s, wild |-> u.wild, keep |-> keep, mid |-> xm.s, rm |-> rm]

PlainExpected(s0, rm, offset, base) ==
  LET u == UnmergeExpected(s0, rm, offset, base)
  IN [outcome |-> "ok", why |-> "-", s |-> u.s, wild |-> u.wild, keep |-> {}, mid |-> s0, rm |-> rm]

(* Judge an observed state obs against the expectation x (of either kind).  s0: state before,
   listed: ListedAt, behind: Behind, prot: protected directories.  Only existence/type is judged for
   what the new package installs (its attributes are C18's business); everything else must be exactly
   as before.  Result: set of <<clause, path>>.                                                     *)
JudgeUnmerge(x, s0, listed, behind, prot, obs) ==
  LET per(p) ==
        LET inX == HasName(x.s, p)
            inO == HasName(obs, p)
        IN IF p \in x.wild THEN {}
           ELSE IF inX /\ ~inO THEN
                {<<IF p \in x.keep THEN "KeepsNew"
                   ELSE IF p \in prot THEN "BaseDir"
                   ELSE IF p \in behind THEN "ThroughSymlink"
                   ELSE IF p \in listed THEN "ListedButKept"
                   ELSE "Unlisted", p>>}
           ELSE IF ~inX /\ inO THEN
                {<<IF ~HasName(x.mid, p) THEN "Frame"
                   ELSE IF ObjAt(obs, p).type = "dir" THEN "EmptyDirLeft" ELSE "NotRemoved", p>>}
           ELSE IF p \in x.keep THEN (IF ObjAt(x.s, p).type # ObjAt(obs, p).type THEN {<<"KeepsNew", p>>} ELSE {})
           ELSE IF AttrBad(IF \E w \in x.wild : Parent(w) = p THEN DirMtimeFree(ObjAt(x.s, p)) ELSE ObjAt(x.s, p), ObjAt(obs, p)) # {}
                THEN {<<IF p \in behind THEN "ThroughSymlink" ELSE "Frame", p>>}   \* (a directory holding a wild path may see it go)
           ELSE {}
  IN UNION {per(p) : p \in Paths(x.s) \cup Paths(obs)}
=============================================================================
