---------------------------- MODULE CacheStore_MC ----------------------------
(* Design check for C27: the store protocol of flat_hash._setitem over FsModel, with the two readers
   cache[cpv] (Get) and cache.keys() (Keys).

   A category directory <<"c">> holds one file per package.  Each writer w (a process with its own
   pid) stores NChunks chunks for package WTarget[w]:
       open  .update.<pid>.<name>  ("w": create, or truncate a stale temp of an earlier process with
             the same pid); when the category directory is missing: mkdir, open again
       write ... write, close, chown, chmod, rename over <name>;  a failing rename removes the temp.
   Writers interleave arbitrarily; any writer may be killed at any step (its temp file stays); an
   I/O error during a write propagates without cleanup (the temp file stays as well).  Every
   reachable state is a crash point of the whole machine.

   Listing = "all"      : keys() yields every non-directory name (what the unpatched code does)
   Listing = "skiptemp" : keys() skips the writers' temp names
   TLC shows GetOldOrNew for both, KeysOnlyPackages only for "skiptemp".                        *)
EXTENDS FsModel, TLC
CONSTANTS NWriters, NChunks, SameTarget, CatExists, Listing

Writers  == 1..NWriters
Cat      == <<"c">>
PkgNames == {"p-1", "q-2"}
OldNames == IF CatExists THEN {"p-1"} ELSE {}          \* entries present before anybody writes
WTarget(w) == IF SameTarget \/ w = 1 THEN "p-1" ELSE "q-2"
WPid(w)    == IF w = 1 THEN "11" ELSE IF w = 2 THEN "22" ELSE "33"
TempName(w) == ".update." \o WPid(w) \o "." \o WTarget(w)
IsTempName(n) == \E w \in Writers : n = TempName(w)
P(n) == Cat \o <<n>>

FileObj(cid, size, mode) == [type |-> "file", cid |-> cid, size |-> size, mode |-> mode, uid |-> 0, gid |-> 0, target |-> "-"]
DirObj == [type |-> "dir", cid |-> "-", size |-> 0, mode |-> 509, uid |-> 0, gid |-> 0, target |-> "-"]
OldCid(n) == "old:" \o n
NewCid(w) == "new:" \o WPid(w)
ChunkCid(w, k) == IF k = 0 THEN "empty" ELSE IF k = NChunks THEN NewCid(w) ELSE "part"

Fs0 == LET s0 == [names |-> {}, inodes |-> <<>>, handles |-> {}] IN
       IF ~CatExists THEN s0
       ELSE LET s1 == Create(s0, Cat, DirObj).s
                \* a stale temp of a dead earlier process that had writer 1's pid (pid reuse)
                s2 == Create(s1, P(TempName(1)), FileObj("part", 1, 436)).s
            IN Create(s2, P("p-1"), FileObj(OldCid("p-1"), 3, 436)).s

VARIABLES fs, pc, written, failed
vars == <<fs, pc, written, failed>>
Init == fs = Fs0 /\ pc = [w \in Writers |-> "open"] /\ written = [w \in Writers |-> 0] /\ failed = [w \in Writers |-> FALSE]

Go(w, r, next) == r.ok /\ fs' = r.s /\ pc' = [pc EXCEPT ![w] = next]

Step(w) ==
  \/ /\ pc[w] = "open" /\ IsDirAt(fs, Cat)
     /\ Go(w, Open(fs, P(TempName(w)), w, ~HasName(fs, P(TempName(w))), HasName(fs, P(TempName(w))), FileObj("empty", 0, 420)), "write")
     /\ UNCHANGED <<written, failed>>
  \/ /\ pc[w] = "open" /\ ~IsDirAt(fs, Cat)                      \* ENOENT: _ensure_dirs, then retry
     /\ pc' = [pc EXCEPT ![w] = "mkdir"] /\ UNCHANGED <<fs, written, failed>>
  \/ /\ pc[w] = "mkdir"
     /\ IF IsDirAt(fs, Cat) THEN fs' = fs ELSE fs' = Create(fs, Cat, DirObj).s   \* somebody else may have made it
     /\ pc' = [pc EXCEPT ![w] = "open"] /\ UNCHANGED <<written, failed>>
  \/ /\ pc[w] = "write" /\ written[w] < NChunks
     /\ Go(w, Write(fs, w, ChunkCid(w, written[w] + 1), written[w] + 1), "write")
     /\ written' = [written EXCEPT ![w] = @ + 1] /\ UNCHANGED failed
  \/ /\ pc[w] = "write" /\ written[w] < NChunks                  \* ENOSPC/EIO while writing: propagates, no cleanup
     /\ fs' = Close(fs, w).s /\ pc' = [pc EXCEPT ![w] = "dead"] /\ failed' = [failed EXCEPT ![w] = TRUE] /\ UNCHANGED written
  \/ /\ pc[w] = "write" /\ written[w] = NChunks /\ Go(w, Close(fs, w), "chown") /\ UNCHANGED <<written, failed>>
  \/ /\ pc[w] = "chown" /\ Go(w, Chown(fs, P(TempName(w)), -1, 250), "chmod") /\ UNCHANGED <<written, failed>>
  \/ /\ pc[w] = "chmod" /\ Go(w, Chmod(fs, P(TempName(w)), 436), "rename") /\ UNCHANGED <<written, failed>>
  \/ /\ pc[w] = "rename" /\ Go(w, Rename(fs, P(TempName(w)), P(WTarget(w))), "done") /\ UNCHANGED <<written, failed>>
  \/ /\ pc[w] = "rename"                                          \* rename fails: os.remove(temp), CacheCorruption
     /\ Go(w, Unlink(fs, P(TempName(w))), "done") /\ failed' = [failed EXCEPT ![w] = TRUE] /\ UNCHANGED written
  \/ /\ pc[w] \notin {"done", "dead"}                             \* kill -9
     /\ fs' = Close(fs, w).s /\ pc' = [pc EXCEPT ![w] = "dead"] /\ failed' = [failed EXCEPT ![w] = TRUE] /\ UNCHANGED written

Next == \E w \in Writers : Step(w)
Spec == Init /\ [][Next]_vars

(* ---- the readers ---- *)
Get(n) == LET o == Look(fs, P(n)) IN IF o.type = "file" THEN o.cid ELSE "absent"
Listed == {n.path[2] : n \in {x \in Children(fs, Cat) : fs.inodes[x.ino].type # "dir"}}
Keys == IF Listing = "all" THEN Listed ELSE {n \in Listed : ~IsTempName(n)}

(* ---- the property at every crash point ---- *)
GetOldOrNew == \A n \in PkgNames :
    \/ Get(n) = "absent" /\ n \notin OldNames
    \/ n \in OldNames /\ Get(n) = OldCid(n)
    \/ \E w \in Writers : WTarget(w) = n /\ Get(n) = NewCid(w) /\ ObjAt(fs, P(n)).size = NChunks
KeysOnlyPackages == Keys \subseteq PkgNames
KeysKeepOthers   == OldNames \subseteq Keys
KeysGettable     == \A n \in Keys \cap PkgNames : Get(n) # "absent"
\* a writer that finished without error has installed a complete entry and left no temp of its own
Completes == \A w \in Writers : (pc[w] = "done" /\ ~failed[w]) =>
                 /\ ~HasName(fs, P(TempName(w)))
                 /\ \E v \in Writers : WTarget(v) = WTarget(w) /\ Get(WTarget(w)) = NewCid(v)
\* a new entry is never replaced by the old one again
NoRollback == [][\A n \in PkgNames : (Get(n) # "absent" /\ (n \notin OldNames \/ Get(n) # OldCid(n))) =>
                    (Get(n)' # "absent" /\ (n \notin OldNames \/ Get(n)' # OldCid(n)))]_vars
=========================================================================
