---------------------------- MODULE AtomIntersect_Export ----------------------------
(* spec -> code for C05: bounded universes of same-key atoms; the driver evaluates the real
   atom.intersects on ALL ORDERED PAIRS of the atoms of each block:
     block "ver"  : every operator (and none) x a pool of versions chosen around each other
     block "attr" : slot / sub-slot / repository constraints, present, absent, equal, different
     block "use"  : USE dependencies with and without defaults on two flags
     block "mix"  : a few versioned atoms carrying attribute constraints                    *)
EXTENDS AtomIntersect, TLC, Json, IOUtils, SequencesExt
CONSTANT Size
V(nums, letter, sufs, rev) == [nums |-> nums, letter |-> letter, sufs |-> sufs, rev |-> rev]
S1(k, n) == <<[k |-> k, n |-> n]>>
Pool1 == {V(<<<<1>>>>, 0, <<>>, <<>>), V(<<<<1>>>>, 0, <<>>, <<1>>), V(<<<<1>>>>, 0, <<>>, <<2>>), V(<<<<1>>, <<0>>>>, 0, <<>>, <<>>),
          V(<<<<1>>, <<5>>>>, 0, <<>>, <<>>), V(<<<<1>>>>, 0, S1("alpha", <<>>), <<>>), V(<<<<1>>>>, 0, S1("p", <<1>>), <<>>),
          V(<<<<1>>>>, 1, <<>>, <<>>), V(<<<<2>>>>, 0, <<>>, <<>>), V(<<<<1, 0>>>>, 0, <<>>, <<>>)}
Pool2 == Pool1 \cup {V(<<<<1>>>>, 0, <<>>, <<0>>), V(<<<<1>>>>, 0, <<>>, <<1, 0>>), V(<<<<1>>, <<5>>>>, 0, <<>>, <<3>>), V(<<<<1>>, <<5>>, <<0>>>>, 0, <<>>, <<>>),
          V(<<<<1>>, <<5, 0>>>>, 0, <<>>, <<>>), V(<<<<1>>, <<0, 5>>>>, 0, <<>>, <<>>), V(<<<<1>>>>, 0, S1("alpha", <<1>>), <<>>),
          V(<<<<1>>>>, 0, S1("alpha", <<>>), <<1>>), V(<<<<1>>>>, 0, S1("p", <<>>), <<>>), V(<<<<1>>>>, 0, S1("p", <<1>>) \o S1("alpha", <<>>), <<>>),
          V(<<<<1>>>>, 2, <<>>, <<>>), V(<<<<1>>>>, 1, <<>>, <<1>>), V(<<<<1>>, <<0>>>>, 0, <<>>, <<1>>), V(<<<<1>>, <<1, 0>>>>, 0, <<>>, <<>>), V(<<<<1>>, <<0>>>>, 0, S1("rc", <<2>>), <<>>)}
Pool == IF Size = 1 THEN Pool1 ELSE Pool2
J(blk, op, ver, slot, subslot, repo, deps) ==
    [blk |-> blk, kind |-> "atom", cat |-> "c", pkg |-> "p", op |-> op, ver |-> ver, slot |-> slot, subslot |-> subslot,
     repo |-> repo, deps |-> SetToSeq(deps)]
Ops == {"<", "<=", "=", "~", ">=", ">", "=*"}
VerAtoms == {J("ver", ov[1], ov[2], "", "", "", {}) : ov \in {x \in Ops \X Pool : x[1] = "~" => x[2].rev = <<>>}}
            \cup {J("ver", "", AnyVer, "", "", "", {})}
SlotForms == {<<"", "">>, <<"0", "">>, <<"1", "">>, <<"0", "2">>, <<"0", "3">>, <<"1", "2">>}
AttrAtoms == {J("attr", "", AnyVer, s[1], s[2], r, {}) : s \in SlotForms, r \in {"", "r1", "r2"}}
DepForms == {[flag |-> f, neg |-> n, dflt |-> d] : f \in {"x", "y"}, n \in BOOLEAN, d \in {"", "+", "-"}}
DepSets == {{}} \cup {{d} : d \in DepForms}
           \cup (IF Size > 1 THEN {{d, e} : d \in {q \in DepForms : q.flag = "x"}, e \in {q \in DepForms : q.flag = "y"}}
                 ELSE {{d, e} : d \in {q \in DepForms : q.flag = "x" /\ q.dflt # "+"}, e \in {q \in DepForms : q.flag = "y" /\ q.dflt = ""}})
UseAtoms == {J("use", "", AnyVer, "", "", "", ds) : ds \in DepSets}
MixAtoms == {J("mix", ov[1], ov[2], s, "", r, ds) :
               ov \in {<<">=", V(<<<<1>>>>, 0, <<>>, <<1>>)>>, <<"<", V(<<<<1>>, <<5>>>>, 0, <<>>, <<>>)>>, <<"=*", V(<<<<1>>>>, 0, <<>>, <<>>)>>, <<"", AnyVer>>},
               s \in (IF Size > 1 THEN {"", "0", "1"} ELSE {"", "0"}), r \in {"", "r1"},
               ds \in {{}, {[flag |-> "x", neg |-> FALSE, dflt |-> ""]}, {[flag |-> "x", neg |-> TRUE, dflt |-> "-"]}}}
Cases == VerAtoms \cup AttrAtoms \cup UseAtoms \cup MixAtoms
ASSUME PrintT(<<"sizes", Cardinality(VerAtoms), Cardinality(AttrAtoms), Cardinality(UseAtoms), Cardinality(MixAtoms)>>)
ASSUME ndJsonSerialize(IOEnv.OUT, SetToSeq(Cases))
=========================================================================
