---------------------------- MODULE PortageConf_Sim ----------------------------
(* G07 spec -> code: TLC (simulation mode) plays an administrator: starting from a drawn
   etc/portage tree, every step rewrites ONE component of the tree (repos.conf, make.conf, the
   profile link, the repositories on disk, the user sets, the call's arguments) and loads the
   configuration.  Only INPUTS are recorded: hist[i] = [comp, tree, args].  The driver
   (drivers/g07_portageconf.py) keeps one temporary directory per behaviour, re-renders the changed
   component in place, lists directories in the order the tree gives, calls the real
   PortageConfig and records what it produced; PortageConf_Trace judges it.                      *)
EXTENDS PortageConf
CONSTANT D
VARIABLES tree, args, hist, done

RE(S) == RandomElement(S)
Names == {"gentoo", "alpha", "beta", "gamma", "bin"}
Locs == {"A", "B", "C", "N", "U"}
Uris == {Unset, Unset, "", "rsync://h/m", "git://x/c", "git+https://x/b.git", "https://x/a.git"}

Others == <<"alpha", "beta", "gamma", "bin">>
\* section i of a fragment; nm is its name
GenSec(nm) ==
  LET pt == RE({"unset", "int", "bad", "none"}) IN
  IF nm = "DEFAULT"
  THEN [NoSec("DEFAULT") EXCEPT !.main = RE({Unset, "gentoo", "alpha", "beta"}), !.stype = RE({Unset, "git", "rsync"})]
  ELSE [name |-> nm, loc |-> IF RE(1..8) = 1 THEN Unset ELSE RE(Locs), rel |-> RE(BOOLEAN),
        ptag |-> IF pt = "none" THEN "unset" ELSE pt, pval |-> IF pt = "int" THEN RE({0 - 5, 0, 5, 7}) ELSE 0,
        type |-> IF nm = "bin" THEN (IF RE(1..4) = 1 THEN "bogus" ELSE "binpkg-v1")
                 ELSE (IF RE(1..8) = 1 THEN "bogus" ELSE RE({Unset, "ebuild-v1"})),
        stype |-> RE({Unset, "rsync", "git"}), suri |-> IF RE(1..3) = 1 THEN Unset ELSE RE(Uris \cup {"rsync://h2/n"}),
        sopts |-> IF RE(1..3) = 1 THEN "--depth=1" ELSE Unset, main |-> Unset]
\* names are mostly distinct within a file (a duplicate section is a parse error), DEFAULT comes first if at all
GenFrag(o) ==
  LET p == RE(Permutations(1..4))
      dflt == RE(1..3) = 1
      dup == RE(1..14) = 1
      g == RE(1..3) > 1
      nm(i) == IF i = 1 /\ dflt THEN "DEFAULT" ELSE IF i = 2 /\ g THEN "gentoo"
               ELSE IF i = 3 /\ dup THEN (IF g THEN "gentoo" ELSE Others[p[2]]) ELSE Others[p[i]]
      mains == IF g THEN {Unset, "gentoo", Others[p[3]]} ELSE {Others[p[2]], Others[p[3]]}
  IN [ord |-> o, vis |-> RE(1..6) > 1, bad |-> RE(1..30) = 1,
      secs |-> [i \in 1..RE(0..4) |-> IF nm(i) = "DEFAULT" THEN [GenSec("DEFAULT") EXCEPT !.main = RE(mains)] ELSE GenSec(nm(i))]]
GenRc(x) == LET r == RE(1..10)  p == RE(Permutations(1..3)) IN
            IF r <= 7 THEN [kind |-> "dir", frags |-> [i \in 1..RE(0..3) |-> GenFrag(p[i])]]
            ELSE IF r <= 9 THEN [kind |-> "file", frags |-> <<[GenFrag(1) EXCEPT !.vis = TRUE]>>]
            ELSE [kind |-> "absent", frags |-> <<>>]

Vars == {"FEATURES", "USE", "X", "Y", "DISTDIR", "GENTOO_MIRRORS", "PORTAGE_RSYNC_OPTS", "PORTAGE_RSYNC_EXTRA_OPTS"}
Lits(v) == CASE v = "FEATURES" -> {"usersync", "-usersync", "foo", "-foo", "-*", "buildpkg", "-sandbox"}
             [] v = "GENTOO_MIRRORS" -> {"http://m1", "http://m2"}
             [] v \in {"PORTAGE_RSYNC_OPTS", "PORTAGE_RSYNC_EXTRA_OPTS"} -> {"--quiet", "--timeout=9"}
             [] OTHER -> {"a", "b", "c"}
GenWord(v) == IF RE(1..4) = 1 THEN [ref |-> TRUE, v |-> RE({"X", "Y", "USE", "DISTDIR", "UNDEFINED", v})]
              ELSE [ref |-> FALSE, v |-> RE(Lits(v))]
GenStmt(allowsrc) ==
  LET r == RE(1..10)  v == RE(Vars) IN
  IF r = 1 /\ allowsrc THEN [op |-> "source", var |-> IF RE(1..8) = 1 THEN "gone" ELSE RE({"i1", "i2"}), words |-> <<>>]
  ELSE IF r = 2 /\ RE(1..6) = 1 THEN [op |-> "broken", var |-> v, words |-> <<>>]
  ELSE [op |-> "set", var |-> v, words |-> [i \in 1..RE(0..3) |-> GenWord(v)]]
GenStmts(allowsrc) == [i \in 1..RE(0..4) |-> GenStmt(allowsrc)]
GenMFrag(o) == [ord |-> o, vis |-> RE(1..5) > 1, stmts |-> GenStmts(TRUE)]
GenMc(x) == LET kd == RE({"file", "dir", "absent"}) IN
            IF kd = "dir" THEN [kind |-> "dir", frags |-> LET p == RE(Permutations(1..3)) IN [i \in 1..RE(0..3) |-> GenMFrag(p[i])]]
            ELSE [kind |-> kd, frags |-> <<[GenMFrag(1) EXCEPT !.vis = TRUE]>>]
GenInc(x) == [n \in {"i1", "i2"} |-> [i \in 1..RE(0..2) |-> [GenStmt(FALSE) EXCEPT !.op = IF @ = "broken" /\ RE(1..2) = 1 THEN "set" ELSE @]]]
GenDisk(x) == [l \in Locs \cup {"SYSG", "SYSB"} |->
                IF l \in {"N", "SYSG", "SYSB"} THEN [exists |-> FALSE, cachefmt |-> "default", md5dir |-> FALSE, eapiok |-> TRUE]
                ELSE [exists |-> TRUE, cachefmt |-> RE({"default", "default", "pms", "none"}), md5dir |-> RE(BOOLEAN), eapiok |-> l # "U"]]
GenProf(x) == LET r == RE(1..20) IN
              [kind |-> IF r <= 14 THEN "link" ELSE IF r <= 17 THEN "dir" ELSE "none",
               target |-> LET q == RE(1..20) IN IF q <= 9 THEN "inrepo" ELSE IF q <= 13 THEN "deep" ELSE IF q <= 17 THEN "nested"
                                               ELSE IF q <= 19 THEN "inrepo" ELSE IF RE(1..2) = 1 THEN "broken" ELSE "outside"]
GenArgs(x) == LET r == RE(1..20) IN
              [override |-> IF r <= 13 THEN Unset ELSE IF r <= 15 THEN "inrepo" ELSE IF r <= 17 THEN "nested" ELSE IF r = 18 THEN "deep"
                            ELSE IF r = 19 THEN Unset ELSE IF RE(1..2) = 1 THEN "outside" ELSE "missing",
               root |-> RE({Unset, "/altroot"}), buildpkg |-> RE(1..4) = 1,
               \* flags of the direct load_make_conf call made beside every load
               mk |-> [src |-> RE(1..4) > 1, required |-> RE(BOOLEAN), recurse |-> RE(1..4) > 1, incr |-> RE(BOOLEAN)]]
GenSets(x) == RE(SUBSET {"myset", "world", "installed", "vdb"})

GenTree(x) == [rc |-> GenRc(x), disk |-> GenDisk(x), mc |-> GenMc(x), inc |-> GenInc(x), prof |-> GenProf(x),
               uprof |-> RE(BOOLEAN), sets |-> GenSets(x)]
Mutate(t, c) == CASE c = "rc" -> [t EXCEPT !.rc = GenRc(1)]
                  [] c = "mc" -> [t EXCEPT !.mc = GenMc(1)]
                  [] c = "inc" -> [t EXCEPT !.inc = GenInc(1)]
                  [] c = "disk" -> [t EXCEPT !.disk = GenDisk(1)]
                  [] c = "prof" -> [t EXCEPT !.prof = GenProf(1)]
                  [] c = "uprof" -> [t EXCEPT !.uprof = ~@]
                  [] c = "sets" -> [t EXCEPT !.sets = GenSets(1)]
                  [] OTHER -> t

Blank == [rc |-> [kind |-> "absent", frags |-> <<>>]]
SimInit == tree = Blank /\ args = [override |-> Unset] /\ hist = <<>> /\ done = FALSE
SimStep == /\ ~done /\ Len(hist) < D
           /\ \E c \in {RE({"rc", "mc", "inc", "disk", "prof", "uprof", "sets", "args", "rc2", "mc2"})} :
              LET cc == IF hist = <<>> THEN "all" ELSE IF c = "rc2" THEN "rc" ELSE IF c = "mc2" THEN "mc" ELSE c IN
              \E t \in {TLCEval(IF cc = "all" THEN GenTree(1) ELSE Mutate(tree, cc))} :
              \E a \in {TLCEval(IF cc \in {"args", "all"} THEN GenArgs(1) ELSE args)} :
                 tree' = t /\ args' = a /\ hist' = Append(hist, [comp |-> cc, tree |-> t, args |-> a])
           /\ done' = FALSE
Finish == /\ ~done /\ Len(hist) = D
          /\ PrintT(<<"BEH", hist>>)
          /\ done' = TRUE /\ UNCHANGED <<tree, args, hist>>
SimNext == SimStep \/ Finish
SimSpec == SimInit /\ [][SimNext]_<<tree, args, hist, done>>
=========================================================================
