---------------------------- MODULE SyncBase_Export ----------------------------
(* spec -> code for the pure part of SyncBase: TLC enumerates
     * sync URIs built from  <tag or native scheme> <sub-protocol> <local user> <host part> <extension>
       (every class's tags, the empty / missing sub-protocol, existing and missing local users, the
       telling and the almost-telling extensions), each with a set of installed tools, for
       GenericSyncer;
     * checkouts (which marker directories exist, whose they are, which tools are installed, which
       "<tool> info" succeeds, usersync) for AutodetectSyncer;
   and two laws of the tables themselves are evaluated on the way:
     NoTies          over the whole exported universe the best claim is unique (the "random if there
                     is a tie" remark in GenericSyncer never applies to the shipped classes)
     LongerTagWins   a tag that extends another class's tag claims the URI at a higher level        *)
EXTENDS SyncBase, TLC, Json, IOUtils, SequencesExt
CONSTANT Tier

Prefixes5 == {<<>>, Tgitp, Tgit, Tgitat, Tgsp, Tgs, Thgp, Tmercp, Tbzrp, Tdarcsp, Tsvn, Tsvnp, Tcvsp, Tcvs,
              <<"t","a","r","+">>, <<"s","q","f","s","+">>, <<"r","s","y","n","c",":","/","/">>, Thsvn,
              <<"h","g",":","/","/">>}
SubsQ    == {<<>>, Thttp, <<"s","s","h",":","/","/">>, <<":","/","/">>, <<":">>, <<"p","s","e","r","v","e","r",":","/","/">>}
Subs     == IF Tier = "quick" THEN SubsQ ELSE SubsQ \cup {Thttps, <<"a","n","o","n",":","/","/">>}
UsersQ   == {<<>>, <<"n","o","b","o","d","y",":",":","@">>, <<"g","h","o","s","t",":",":">>}
UsersT   == UsersQ \cup {<<"n","o","b","o","d","y",":",":">>}
Tails    == {<<"h","/","r">>, <<"h",":","m">>}
ExtsU    == {<<>>, Xgit, Xtgz, Xtxz, <<".","t","a","r">>, <<".","s","q","f","s">>}
\* corner cases of the CVS form: an rsh word and then nothing that could name host and module
Corners == {Tcvsp \o Tanon, Tcvsp \o Tpserver, Tcvsp \o Tssh, Tcvsp \o Tssh \o <<"/","h","/","r">>, Tcvsp, Tcvs}
URIs == {x[1] \o x[2] \o x[3] \o x[4] \o x[5] :
           x \in Prefixes5 \X Subs \X (IF Tier = "quick" THEN UsersQ ELSE UsersT) \X Tails \X ExtsU} \cup Corners

Full == {"bzr", "cvs", "darcs", "git", "hg", "svn", "tar"}
BinSets == IF Tier = "quick" THEN {Full} ELSE {Full, Full \ {"git"}, Full \ {"tar", "svn", "hg"}}
SelCase(u, b, ssh) == [ev |-> "select", uri |-> u, bins |-> SetToSeq(b), ssh |-> ssh]
SelectCases == {SelCase(u, b, TRUE) : u \in URIs, b \in BinSets}
               \cup {SelCase(u, Full, FALSE) : u \in {v \in URIs : StartsWith(v, Tcvsp)}}

MarkerSets == {m \in SUBSET Markers : ".git/svn" \in m => ".git" \in m}
DetBins  == IF Tier = "quick" THEN {Full, Full \ {"git"}} ELSE {Full, Full \ {"git"}, Full \ {"bzr"}, Full \ {"hg", "cvs"}}
DetInfos == IF Tier = "quick" THEN {{}, {"bzr", "svn"}} ELSE SUBSET {"bzr", "svn"}
Owners   == IF Tier = "quick" THEN {<<"nobody", FALSE>>, <<"nobody", TRUE>>, <<"unknown", TRUE>>}
            ELSE {<<"root", FALSE>>, <<"nobody", FALSE>>, <<"nobody", TRUE>>, <<"unknown", TRUE>>, <<"unknown", FALSE>>}
DetectCases == {[ev |-> "detect", markers |-> SetToSeq(x[1]), bins |-> SetToSeq(x[2]), info |-> SetToSeq(x[3]),
                 owner |-> x[4][1], usersync |-> x[4][2]] : x \in MarkerSets \X DetBins \X DetInfos \X Owners}

NoTies == \A u \in URIs, b \in BinSets : Select(u, Available(b)) # "Unspecified"
LongerTagWins == \A c, d \in Classes : \A i \in DOMAIN Claims(c), j \in DOMAIN Claims(d) :
                   (c # d /\ StartsWith(Claims(d)[j].p, Claims(c)[i].p)) => Claims(d)[j].l > Claims(c)[i].l
ASSUME NoTies
ASSUME LongerTagWins
ASSUME ndJsonSerialize(IOEnv.OUT, SetToSeq(SelectCases) \o SetToSeq(DetectCases))
=========================================================================
