---------------------------- MODULE TarSync_Export ----------------------------
(* spec -> code: the attempt plans (first attempt crashes or meets a fault, next attempt undisturbed
   or faulty, then a final undisturbed one) that drivers/c47_tarsync.py runs on the real tar_syncer. *)
EXTENDS TarSync, TLC, Json, IOUtils, SequencesExt
ASSUME ndJsonSerialize(IOEnv.OUT, SetToSeq(Plans))
=========================================================================
