---------------------------- MODULE Visibility_Trace ----------------------------
(* Judge of visibility observations (C13).  Event:
     {tid, i, cfg: {arch, nodes:[{parents,akw,alic,mask:{neg,pos},unmask:{neg,pos},pakw:[{sc,toks}]}],
                    conf:{akw,alic}, user:{mask,unmask,pakw,plic}, repo:{masks, defs:[{name,members:[{ref,name}]}]},
                    pkgs:[{id, kws:[..], lic: tree}]},
      obs: [{pkg, mask, kw, lic, visible}]}
   obs: for every package of the repository  the mask-only filter, the keyword filter and the
   licence filter of the real domain (each on its own) and membership in domain.filter_repo(repo). *)
EXTENDS Visibility, TraceLib
VARIABLE l

NP(c) == [neg |-> AsSet(c.neg), pos |-> AsSet(c.pos)]
DefsOf(arr) == [g \in {arr[k].name : k \in DOMAIN arr} |->
                  AsSet(arr[CHOOSE k \in DOMAIN arr : arr[k].name = g].members)]
CfgOf(c) ==
    [arch |-> c.arch,
     nodes |-> [k \in DOMAIN c.nodes |-> [parents |-> c.nodes[k].parents, akw |-> c.nodes[k].akw, alic |-> c.nodes[k].alic, mask |-> NP(c.nodes[k].mask),
                                         unmask |-> NP(c.nodes[k].unmask), pakw |-> c.nodes[k].pakw]],
     conf |-> c.conf,
     user |-> [mask |-> AsSet(c.user.mask), unmask |-> AsSet(c.user.unmask), pakw |-> c.user.pakw, plic |-> c.user.plic],
     repo |-> [masks |-> AsSet(c.repo.masks), defs |-> DefsOf(c.repo.defs)],
     pkgs |-> [p \in {c.pkgs[k].id : k \in DOMAIN c.pkgs} |->
                 LET r == c.pkgs[CHOOSE k \in DOMAIN c.pkgs : c.pkgs[k].id = p] IN [kws |-> AsSet(r.kws), lic |-> r.lic]]]

Judge(e) ==
    LET cfg == CfgOf(e.cfg) IN
    IF DOMAIN cfg.pkgs # Pkgs \/ ~InDomain(cfg) THEN {"OutsideDomain"}
    ELSE UNION {LET o == e.obs[k] IN
                  (IF o.mask = MaskOK(cfg, o.pkg) THEN {} ELSE {"Mask"})
                  \cup (IF o.kw = KeywordOK(cfg, o.pkg) THEN {} ELSE {"Keywords"})
                  \cup (IF o.lic = LicenseOK(cfg, o.pkg) THEN {} ELSE {"License"})
                  \cup (IF o.visible = Visible(cfg, o.pkg) THEN {} ELSE {"Visible"})
                : k \in DOMAIN e.obs}
TraceInit == l = 0
TraceNext == /\ l < Len(Tr)
             /\ l' = l + 1
             /\ Report(Tr[l'].tid, Tr[l'].i, Judge(Tr[l']))
             /\ EndMark(l')
TraceSpec == TraceInit /\ [][TraceNext]_l
=========================================================================
