------------------------------ MODULE Merge_MC ------------------------------
(* Design-level check for C18 / C19: the protocol fs/ops.py:merge_contents follows, as a process over
   FsModel, for EVERY small (old root, cset) pair built from
       d  (directory entry / missing parent),  d/f,  g      (+ e: target of a symlinked d, k: old hard link of g)
   Per entry the process looks at the filesystem (as the code does with stat/lstat), plans the
   syscalls of that entry and performs them one by one; every reachable state is a crash point and,
   with Faults, any syscall may fail with EIO (the merge then stops: ops.py has no recovery).
     Variant "temp"    intended protocol: new object built as <name>#new (a stale one is removed first),
                       attributes set, then renamed over the old object
             "stale"   as the tree does today: a stale <name>#new is reused without truncation
             "inplace" naive: an existing file is truncated and rewritten in place
   Invariants: CrashInv (C19 clauses of Merge!JudgeCrash in every state), DoneFits (on termination the
   state fits Merge!Expected: all C18 clauses; refusals exactly where Expected says "error"),
   NoModelGap (every planned syscall was executable).  TLC must find "stale" violating DoneFits and
   "inplace" violating CrashInv.                                                                      *)
EXTENDS Merge_Cases
CONSTANTS Variant, Faults

(* ------------------------------------------------------------------ the protocol *)
VARIABLES sel, ctx, fs, todo, plan, merged, pc, faulted, gap
vars == <<sel, ctx, fs, todo, plan, merged, pc, faulted, gap>>

Cset == ctx.cset
Old == ctx.old
X == ctx.x

Ev(op, p) == [op |-> op, p |-> p]
EvChown(p, e) == [op |-> "chown", p |-> p, uid |-> e.uid, gid |-> e.gid]
EvChmod(p, e) == [op |-> "chmod", p |-> p, mode |-> e.mode]
EvUtime(p, e) == [op |-> "utime", p |-> p, mtime |-> e.mtime]
Fresh(type, mode, target, cid) == [type |-> type, cid |-> cid, size |-> 0, mode |-> mode, uid |-> 0, gid |-> 0, target |-> target]
Temp(q) == Append(Parent(q), LastOf(q) \o "#new")

\* ensure_perms on a new object at p (symlinks: no chmod)
Perms(p, e) == <<EvChown(p, e)>> \o (IF e.type = "sym" THEN <<>> ELSE <<EvChmod(p, e)>>) \o <<EvUtime(p, e)>>

MkdirEvs(q, e) == <<[op |-> "mkdir", p |-> q, obj |-> Fresh("dir", e.mode, "-", "-")]>> \o Perms(q, e) \o Perms(q, e)

\* plan of one directory entry: sequence of syscalls, or <<"error">> / <<"skip">>
PlanDir(s, e, L) ==
  LET st == Resolve(s, L, TRUE) IN
  IF st.st = "ok" THEN
      IF IsDirAt(s, st.p) THEN [k |-> "do", evs |-> <<EvChown(Canon(s, L), e), EvUtime(st.p, e)>>]
      ELSE [k |-> "error", evs |-> <<>>]
  ELSE IF st.st = "missing" THEN
      LET q == Canon(s, L) IN
      IF q = <<"?">> THEN [k |-> "error", evs |-> <<>>]
      ELSE IF HasName(s, q) THEN [k |-> "do", evs |-> <<Ev("unlink", q)>> \o MkdirEvs(q, e)]
      ELSE [k |-> "do", evs |-> MkdirEvs(q, e)]
  ELSE [k |-> "error", evs |-> <<>>]

RECURSIVE ChainEvs(_, _)
ChainEvs(first, rest) ==
  <<[op |-> "mkdir", p |-> first, obj |-> Fresh("dir", 488, "-", "-")]>>
  \o (IF rest = <<>> THEN <<>> ELSE ChainEvs(Append(first, Head(rest)), Tail(rest)))
RECURSIVE ChainLast(_, _)
ChainLast(first, rest) == IF rest = <<>> THEN first ELSE ChainLast(Append(first, Head(rest)), Tail(rest))

Chunk(e, n) == IF n = NChunks THEN e.cid ELSE "part"
WriteEvs(e, h, mix) == [n \in 1..NChunks |-> [op |-> "write", p |-> <<>>, h |-> h,
                                             cid |-> IF mix THEN "stale-mix" ELSE Chunk(e, n), size |-> IF mix THEN 9 ELSE n]]
\* creating the object of entry e at fp (fp does not exist, or is a stale temporary that is reused)
FillEvs(s, e, fp, h) ==
  CASE e.type = "file" ->
         (IF HasName(s, fp) THEN <<[op |-> "open", p |-> fp, h |-> h, created |-> FALSE, truncated |-> FALSE, obj |-> Fresh("file", 420, "-", "empty")]>>
          ELSE <<[op |-> "open", p |-> fp, h |-> h, created |-> TRUE, truncated |-> FALSE, obj |-> Fresh("file", 420, "-", "empty")]>>)
         \o WriteEvs(e, h, HasName(s, fp)) \o <<[op |-> "close", p |-> fp, h |-> h]>>
    [] e.type = "sym"  -> <<[op |-> "symlink", p |-> fp, obj |-> Fresh("sym", 511, e.target, "-")]>>
    [] e.type = "fifo" -> <<[op |-> "mkfifo", p |-> fp, obj |-> Fresh("fifo", 420, "-", "-")]>>

PlanObj(s, e, L, k) ==
  LET par == Resolve(s, Parent(L), TRUE)
      pre == IF par.st = "missing" /\ ~par.inlink THEN ChainEvs(par.p, par.rest) ELSE <<>>
      dir == IF par.st = "missing" /\ ~par.inlink THEN ChainLast(par.p, par.rest) ELSE par.p
      q == Append(dir, LastOf(L))
      \* os.link to a member on another filesystem fails with EXDEV and the next candidate is tried
      mates == {m \in merged : Cset[m.k].grp = e.grp /\ e.grp # 0 /\ e.type = "file" /\ DevOf(s, m.p) = DevOf(s, q)}
  IN IF par.st \notin {"ok", "missing"} \/ (par.st = "ok" /\ ~IsDirAt(s, par.p)) \/ (par.st = "missing" /\ par.inlink)
     THEN [k |-> "error", evs |-> <<>>, q |-> <<>>]
     ELSE IF HasName(s, q) /\ ObjAt(s, q).type = "dir" THEN
          IF e.type = "sym" THEN
              LET ti == LinkInfo(s, e.target)
                  t == Walk(s, IF ti.abs THEN <<>> ELSE dir, ti.comps, FALSE, Fuel, 0)
              IN IF t.st = "ok" /\ IsDirAt(s, t.p) THEN [k |-> "skip", evs |-> <<>>, q |-> <<>>] ELSE [k |-> "error", evs |-> <<>>, q |-> <<>>]
          ELSE [k |-> "error", evs |-> <<>>, q |-> <<>>]
     ELSE IF mates # {} THEN
          LET src == (CHOOSE m \in mates : TRUE).p IN
          IF ~HasName(s, q) THEN [k |-> "do", q |-> q, evs |-> pre \o <<[op |-> "link", p |-> q, src |-> src]>>]
          ELSE [k |-> "do", q |-> q, evs |-> (IF HasName(s, Temp(q)) THEN <<Ev("unlink", Temp(q))>> ELSE <<>>)
                                    \o <<[op |-> "link", p |-> Temp(q), src |-> src], [op |-> "rename", p |-> q, src |-> Temp(q), dst |-> q]>>]
     ELSE IF ~HasName(s, q) THEN [k |-> "do", q |-> q, evs |-> pre \o FillEvs(s, e, q, k) \o Perms(q, e)]
     ELSE IF Variant = "inplace" /\ e.type = "file" /\ ObjAt(s, q).type = "file" THEN
          [k |-> "do", q |-> q, evs |-> <<[op |-> "open", p |-> q, h |-> k, created |-> FALSE, truncated |-> TRUE, obj |-> Fresh("file", 420, "-", "empty")]>>
                               \o WriteEvs(e, k, FALSE) \o <<[op |-> "close", p |-> q, h |-> k]>> \o Perms(q, e)]
     ELSE LET fp == Temp(q)
              clean == Variant # "stale" /\ HasName(s, fp)
              s1 == IF clean THEN Unlink(s, fp).s ELSE s
          IN [k |-> "do", q |-> q, evs |-> (IF clean THEN <<Ev("unlink", fp)>> ELSE <<>>) \o FillEvs(s1, e, fp, k) \o Perms(fp, e)
                                  \o <<[op |-> "rename", p |-> q, src |-> fp, dst |-> q]>>]

Init == /\ sel \in Sel
        /\ fs = OldFs(sel)
        /\ ctx = [old |-> OldFs(sel), cset |-> CsetSpec(sel), x |-> Expected(OldFs(sel), CsetSpec(sel), <<>>)]
        /\ todo = DirOrder(CsetSpec(sel)) \o ObjOrder(CsetSpec(sel))
        /\ plan = <<>> /\ merged = {} /\ pc = "next" /\ faulted = FALSE /\ gap = FALSE

Begin ==
  /\ pc = "next" /\ todo # <<>>
  /\ LET k == Head(todo)
         e == Cset[k]
         pl == IF e.type = "dir" THEN PlanDir(fs, e, e.path) ELSE PlanObj(fs, e, e.path, k)
     IN /\ todo' = Tail(todo)
        /\ IF pl.k = "error" THEN pc' = "error" /\ plan' = <<>> /\ UNCHANGED merged
           ELSE /\ plan' = pl.evs /\ pc' = IF pl.evs = <<>> THEN "next" ELSE "run"
                /\ merged' = IF pl.k = "do" /\ e.type = "file" THEN merged \cup {[k |-> k, p |-> pl.q]} ELSE merged
  /\ UNCHANGED <<sel, ctx, fs, faulted, gap>>

\* what the kernel does on creation below a set-gid directory: the group (and for directories the set-gid
\* bit) is inherited from the parent, not taken from the creating process
SetGid(m) == (m \div 1024) % 2 = 1
Inh(s, ev) ==
  IF "obj" \in DOMAIN ev /\ (ev.op # "open" \/ ev.created) /\ Parent(ev.p) # <<>> /\ HasName(s, Parent(ev.p))
     /\ SetGid(ObjAt(s, Parent(ev.p)).mode)
  THEN [ev EXCEPT !.obj.gid = ObjAt(s, Parent(ev.p)).gid,
                  !.obj.mode = IF ev.obj.type = "dir" /\ ~SetGid(@) THEN @ + 1024 ELSE @]
  ELSE ev

Run ==
  /\ pc = "run"
  /\ \/ LET r == SysStep(fs, Inh(fs, Head(plan))) IN
        /\ fs' = r.s /\ gap' = (gap \/ ~r.ok)
        /\ plan' = Tail(plan) /\ pc' = IF Tail(plan) = <<>> THEN "next" ELSE "run"
        /\ UNCHANGED <<sel, ctx, todo, merged, faulted>>
     \/ /\ Faults /\ Head(plan).op # "close"
        /\ faulted' = TRUE /\ pc' = "aborted" /\ UNCHANGED <<sel, ctx, fs, todo, plan, merged, gap>>

Finish == pc = "next" /\ todo = <<>> /\ pc' = "done" /\ UNCHANGED <<sel, ctx, fs, todo, plan, merged, faulted, gap>>

Next == Begin \/ Run \/ Finish
Spec == Init /\ [][Next]_vars

CrashInv == X.outcome = "ok" => JudgeCrash(X, Cset, <<>>, Old, fs) = {}
DoneFits == /\ (pc = "done" => X.outcome # "error")
            /\ (pc = "error" => X.outcome # "ok")
            /\ (pc = "done" /\ X.outcome = "ok" => JudgeFinal(X, Cset, <<>>, Old, fs) = {})
NoModelGap == ~gap
=============================================================================
