---------------------------- MODULE RestrictEq_Trace ----------------------------
(* C07 judge.  Events recorded from real restriction objects:
   {tid, i, ev:"pair", fam, same:BOOL (one and the same object),
    eqs:[BOOL,...]   every == evaluated between the two (a==b, b==a, before and after hashing both),
    hraised:BOOL, heq:BOOL, mx:[..], my:[..]  match results over the family's universe ("T","F","E:<exc>")}
   {tid, i, ev:"cache", fam, cache, eqs:[..], second:[..], fresh:[..]}
        second: what the cache answered for y after it had answered x;  fresh: y computed without a cache
   Clauses:  Hash, Matches (the law, applied whenever ANY of the == said equal);
             CacheTransparent (a cached answer differs from the uncached one).                     *)
EXTENDS RestrictEq, TraceLib
VARIABLE l
SomeTrue(bs) == \E k \in DOMAIN bs : bs[k]
Obs(e) == [eq |-> SomeTrue(e.eqs), heq |-> e.heq /\ ~e.hraised, mx |-> e.mx, my |-> e.my]
JudgePair(e) == (IF HashLaw(Obs(e)) THEN {} ELSE {"Hash"}) \cup (IF MatchLaw(Obs(e)) THEN {} ELSE {"Matches"})
JudgeCache(e) == IF AsSet(e.second) = AsSet(e.fresh) /\ Len(e.second) = Len(e.fresh) THEN {} ELSE {"CacheTransparent"}
Judge(e) == CASE e.ev = "pair" -> JudgePair(e) [] e.ev = "cache" -> JudgeCache(e) [] OTHER -> {"UnknownEvent"}
TraceInit == l = 0
TraceNext == /\ l < Len(Tr)
             /\ l' = l + 1
             /\ Report(Tr[l'].tid, Tr[l'].i, Judge(Tr[l']))
             /\ EndMark(l')
TraceSpec == TraceInit /\ [][TraceNext]_l
=========================================================================
