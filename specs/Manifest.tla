---------------------------- MODULE Manifest ----------------------------
(* C28: Manifest generation (src/pkgcore/ebuild/digest.py: Manifest.update, _manifest_line,
   parse_manifest).

   Text is a sequence of code points (TLC cannot look inside strings); a path below the package
   directory is a sequence of components.
     file  : [path : Seq(Text), size : Nat, sums : set of [chf, hex]]       a regular file of the package dir
     dist  : [name : Text,      size : Nat, sums : set of [chf, hex]]       a distfile with its known checksums
     entry : [name : Seq(Text), size, sums]                                  what a Manifest line states
   A Manifest is, per type DIST / AUX / EBUILD / MISC, a set of entries keyed by name.            *)
EXTENDS Integers, Sequences, SequencesExt, FiniteSets

C_files    == <<102, 105, 108, 101, 115>>                 \* "files"
C_Manifest == <<77, 97, 110, 105, 102, 101, 115, 116>>    \* "Manifest"
C_CVS      == <<67, 86, 83>>                              \* "CVS"
C_svn      == <<46, 115, 118, 110>>                       \* ".svn"
C_ebuild   == <<46, 101, 98, 117, 105, 108, 100>>         \* ".ebuild"
Slash      == 47
Excluded   == {C_Manifest, C_CVS, C_svn}

EndsWith(s, suf) == Len(s) >= Len(suf) /\ SubSeq(s, Len(s) - Len(suf) + 1, Len(s)) = suf

\* which Manifest type covers a file of the package directory
Classify(path) ==
  IF \E i \in DOMAIN path : path[i] \in Excluded THEN "skip"
  ELSE IF Len(path) >= 2 /\ path[1] = C_files THEN "AUX"
  ELSE IF Len(path) = 1 THEN (IF EndsWith(path[1], C_ebuild) THEN "EBUILD" ELSE "MISC")
  ELSE "invalid"                    \* a directory other than files/: update() refuses (outside the property's domain)
EntryName(path) == IF Classify(path) = "AUX" THEN Tail(path) ELSE path

FileEntry(f) == [name |-> EntryName(f.path), size |-> f.size, sums |-> f.sums]
DistEntry(d) == [name |-> <<d.name>>, size |-> d.size, sums |-> d.sums]
OfType(files, t) == {FileEntry(f) : f \in {x \in files : Classify(x.path) = t}}

\* What a generated Manifest must parse back to: thick = the package directory + distfiles, thin = distfiles only
Expected(files, dist, thin) ==
  [DIST   |-> {DistEntry(d) : d \in dist},
   AUX    |-> IF thin THEN {} ELSE OfType(files, "AUX"),
   EBUILD |-> IF thin THEN {} ELSE OfType(files, "EBUILD"),
   MISC   |-> IF thin THEN {} ELSE OfType(files, "MISC")]
\* thin Manifests without distfiles are not written at all: nothing is "generated", nothing to judge
Specified(files, dist, thin) == ~(thin /\ dist = {}) /\ \A f \in files : Classify(f.path) # "invalid"

(* ------------- the text, line level: Generate / Parse ------------- *)
RECURSIVE LexLess(_, _)
LexLess(a, b) == IF a = <<>> THEN b # <<>>
                 ELSE IF b = <<>> THEN FALSE
                 ELSE IF Head(a) # Head(b) THEN Head(a) < Head(b)
                 ELSE LexLess(Tail(a), Tail(b))
RECURSIVE JoinPath(_)
JoinPath(p) == IF Len(p) = 1 THEN p[1] ELSE p[1] \o <<Slash>> \o JoinPath(Tail(p))

\* The checksum columns of a line: the caller hands a MAPPING chf -> value whose key order is accidental (a sequence
\* here, chf names as code points); the text orders the columns by chf name, so it is a function of the set.
ByChf(a, b) == LexLess(a.chf, b.chf)
Columns(sumseq) == SortSeq(sumseq, ByChf)

Line(t, e) == [type |-> t, name |-> JoinPath(e.name), size |-> e.size, sums |-> e.sums]
ByName(a, b) == LexLess(a.name, b.name)
\* listing : the files in the order the directory scan happens to yield them; dlist likewise for the distfiles
LinesOf(t, eseq) == SortSeq([k \in DOMAIN eseq |-> Line(t, eseq[k])], ByName)
Pick(listing, t) == SelectSeq(listing, LAMBDA f : Classify(f.path) = t)
FE(seq) == [k \in DOMAIN seq |-> FileEntry(seq[k])]
DE(seq) == [k \in DOMAIN seq |-> DistEntry(seq[k])]
Generate(listing, dlist, thin) ==
  (IF thin THEN <<>> ELSE LinesOf("AUX", FE(Pick(listing, "AUX"))))
  \o LinesOf("DIST", DE(dlist))
  \o (IF thin THEN <<>> ELSE LinesOf("EBUILD", FE(Pick(listing, "EBUILD"))) \o LinesOf("MISC", FE(Pick(listing, "MISC"))))

RECURSIVE SplitAt(_, _)
SplitAt(s, c) == IF \E i \in DOMAIN s : s[i] = c
                 THEN LET i == CHOOSE j \in DOMAIN s : s[j] = c /\ \A m \in 1..(j - 1) : s[m] # c
                      IN <<SubSeq(s, 1, i - 1)>> \o SplitAt(SubSeq(s, i + 1, Len(s)), c)
                 ELSE <<s>>
ParseErr == [error |-> "duplicate"]
Parse(lines) ==
  IF \E i, j \in DOMAIN lines : i # j /\ lines[i].type = lines[j].type /\ lines[i].name = lines[j].name THEN ParseErr
  ELSE LET of(t) == {[name |-> IF t = "AUX" THEN SplitAt(lines[k].name, Slash) ELSE <<lines[k].name>>,
                      size |-> lines[k].size, sums |-> lines[k].sums] : k \in {j \in DOMAIN lines : lines[j].type = t}}
       IN [DIST |-> of("DIST"), AUX |-> of("AUX"), EBUILD |-> of("EBUILD"), MISC |-> of("MISC")]

\* update(): leave an already correct Manifest alone
Update(disk, listing, dlist, thin) ==
  LET new == Generate(listing, dlist, thin) IN
  IF thin /\ dlist = <<>> THEN [disk |-> disk, wrote |-> FALSE]
  ELSE IF disk = new THEN [disk |-> disk, wrote |-> FALSE] ELSE [disk |-> new, wrote |-> TRUE]
=========================================================================
