------------------------------- MODULE Merge -------------------------------
(* C18 / C19 - what merging a contents set into a live root must leave on the filesystem.

   Vocabulary (all paths are sequences of name components relative to the abstract root):
     old     FsModel state of the root before the merge, extended with a field
               links : set of [t, abs, ext, comps]   lexical decomposition of every symlink target string
                       (abs: starts at the abstract root; ext: leaves the abstract root = unresolvable here)
               mounts : set of canonical directory paths that are mount points: a hard link is possible
                       only between names on the same filesystem ("hardlinked where possible")
     cset    sequence of entries [path, type \in {"file","dir","sym","fifo"}, cid, size, mode, uid, gid,
             mtime, target, grp]   (grp # 0: files that shared an inode in the source)
     offset  path of the target directory (<<>> = none)

   Expected(old, cset, offset) is the WHAT of the property, not the protocol of ops.py: directories are
   placed parents-first, then every other entry; an entry lives where the kernel resolves its location
   (symlinked parent directories are followed); a pre-existing directory - also one reached through a
   symlink - is kept with its own permissions; any other pre-existing object is replaced by a NEW object
   carrying exactly the recorded attributes; missing parents are created (attributes unspecified);
   members of one source inode become one inode; everything else is left alone.
   Fields the property does not determine are wildcards (-2 / "*"); an Unknown mtime (-1: the kernel
   changed it because the directory was populated afterwards) is a wildcard too.
   outcome: "ok" | "error" (type conflicts pinned by the repository's tests: directory over a
   non-directory, non-directory over a directory, symlink over a directory whose target is no
   directory) | "unspecified" (carve-outs, see the driver docstring).                                *)
EXTENDS FsModel, TLC

WInt == -2
WStr == "*"
Fuel == 8

LinkInfo(s, t) == CHOOSE r \in s.links : r.t = t
Up(p) == IF p = <<>> THEN <<>> ELSE Parent(p)
LastOf(p) == p[Len(p)]

(* ---------------------------------------------------------------- path resolution *)
RECURSIVE Walk(_, _, _, _, _, _)
(* cur: canonical directory reached so far; rest: components still to walk; follow: resolve a symlink
   in the last component too; fuel: symlink expansions left; lk: number of leading components of rest
   that stem from a symlink target.
   st = "ok"      p = canonical path of the object named (<<>> = root)
        "missing" p = canonical path of the first component that does not exist, rest = what follows
        "notdir"  a non-directory in the middle;  "unres" loop / target outside the abstract root *)
Walk(s, cur, rest, follow, fuel, lk) ==
  IF rest = <<>> THEN [st |-> "ok", p |-> cur, rest |-> <<>>, inlink |-> FALSE]
  ELSE LET c == Head(rest)
           tl == Tail(rest)
           lk1 == IF lk > 0 THEN lk - 1 ELSE 0
       IN IF c \in {".", ""} THEN Walk(s, cur, tl, follow, fuel, lk1)
          ELSE IF c = ".." THEN Walk(s, Up(cur), tl, follow, fuel, lk1)
          ELSE LET q == Append(cur, c) IN
               IF ~HasName(s, q) THEN [st |-> "missing", p |-> q, rest |-> tl, inlink |-> lk > 0]
               ELSE LET o == ObjAt(s, q) IN
                    IF o.type = "sym" /\ (tl # <<>> \/ follow) THEN
                        IF fuel = 0 THEN [st |-> "unres", p |-> q, rest |-> tl, inlink |-> TRUE]
                        ELSE LET ti == LinkInfo(s, o.target) IN
                             IF ti.ext THEN [st |-> "unres", p |-> q, rest |-> tl, inlink |-> TRUE]
                             ELSE Walk(s, IF ti.abs THEN <<>> ELSE cur, ti.comps \o tl, follow, fuel - 1,
                                       Len(ti.comps) + lk1)
                    ELSE IF tl # <<>> /\ o.type # "dir" THEN [st |-> "notdir", p |-> q, rest |-> tl, inlink |-> lk > 0]
                    ELSE Walk(s, q, tl, follow, fuel, lk1)

Resolve(s, p, follow) == Walk(s, <<>>, p, follow, Fuel, 0)
\* canonical path of an object named p (last component not followed); <<"?">> when there is none
Canon(s, p) == IF p = <<>> THEN <<>> ELSE
               LET r == Resolve(s, Parent(p), TRUE) IN
               IF r.st = "ok" /\ IsDirAt(s, r.p) THEN Append(r.p, LastOf(p)) ELSE <<"?">>

Plain(seq) == \A k \in DOMAIN seq : seq[k] \notin {".", "..", ""}

(* ---------------------------------------------------------------- building the expected state *)
NewObj(e) == [type |-> e.type, cid |-> IF e.type = "file" THEN e.cid ELSE "-", size |-> IF e.type = "file" THEN e.size ELSE 0,
              mode |-> IF e.type = "sym" THEN WInt ELSE e.mode, uid |-> e.uid, gid |-> e.gid,
              target |-> IF e.type = "sym" THEN e.target ELSE "-"]
WildDir == [type |-> "dir", cid |-> "-", size |-> 0, mode |-> WInt, uid |-> WInt, gid |-> WInt, target |-> "-"]

PlaceNew(s, q, e) == Utime(Create(s, q, NewObj(e)).s, q, e.mtime).s
WildOwner(s, q) == LET i == InoOf(s, q) IN [s EXCEPT !.inodes[i].uid = WInt, !.inodes[i].gid = WInt]
\* a pre-existing directory: permissions stay, ownership is not determined by the property, mtime as recorded
KeepDir(s, q, e) == Utime(WildOwner(s, q), q, e.mtime).s

RECURSIVE MkDirs(_, _, _)
\* create the directory first and below it the chain of names in rest; returns [s, made]
MkDirs(s, first, rest) ==
  LET s1 == Create(s, first, WildDir).s IN
  IF rest = <<>> THEN [s |-> s1, made |-> {first}, last |-> first]
  ELSE LET r == MkDirs(s1, Append(first, Head(rest)), Tail(rest)) IN [s |-> r.s, made |-> r.made \cup {first}, last |-> r.last]

SameAttrs(a, b) == a.mode = b.mode /\ a.uid = b.uid /\ a.gid = b.gid /\ a.mtime = b.mtime

Acc0(s) == [s |-> s, outcome |-> "ok", place |-> <<>>, mkd |-> {}, why |-> "-"]
Bad(x, oc, why) == IF x.outcome = "ok" THEN [x EXCEPT !.outcome = oc, !.why = why] ELSE x
Put(x, k, kind, q, s1) == [x EXCEPT !.s = s1, !.place = (k :> [kind |-> kind, p |-> q]) @@ @]

DirStep(x, k, e, L) ==
  LET s == x.s
      par == Resolve(s, Parent(L), TRUE)
  IN IF par.st # "ok" \/ ~IsDirAt(s, par.p) THEN Bad(x, "unspecified", "dir-parent")
     ELSE LET q == Append(par.p, LastOf(L)) IN
          IF ~HasName(s, q) THEN Put(x, k, "new", q, PlaceNew(s, q, e))
          ELSE LET o == ObjAt(s, q) IN
               IF o.type = "dir" THEN Put(x, k, "kept", q, KeepDir(s, q, e))
               ELSE IF o.type = "sym" THEN
                    LET t == Walk(s, par.p, <<LastOf(L)>>, TRUE, Fuel, 0) IN
                    IF t.st = "ok" THEN
                        IF IsDirAt(s, t.p) /\ t.p # <<>> THEN Put(x, k, "kept", t.p, KeepDir(WildOwner(s, q), t.p, e))
                        ELSE IF t.p = <<>> THEN Bad(x, "unspecified", "dir-is-root")
                        ELSE Bad(x, "error", "dir-over-nondir")
                    ELSE IF t.st = "missing" THEN Put(x, k, "new", q, PlaceNew(Unlink(s, q).s, q, e))
                    ELSE Bad(x, "unspecified", "dir-over-odd-symlink")
               ELSE Bad(x, "error", "dir-over-nondir")

\* the filesystem a canonical path lives on = the deepest mount point above it (<<>> = the root filesystem)
DevOf(s, p) == LET ms == {m \in s.mounts : IsPrefix(m, p)} IN
               IF ms = {} THEN <<>> ELSE CHOOSE m \in ms : \A n \in ms : Len(n) <= Len(m)
\* an earlier placed member of the same source inode that lives on the same filesystem as q
Mate(x, cset, k, q) ==
  {j \in DOMAIN x.place : /\ x.place[j].kind = "new" /\ cset[j].type = "file" /\ cset[j].grp = cset[k].grp
                          /\ SameAttrs(cset[j], cset[k]) /\ cset[j].cid = cset[k].cid
                          /\ DevOf(x.s, x.place[j].p) = DevOf(x.s, q)}
PlaceObj(x, cset, k, s1, q) ==
  LET e == cset[k] IN
  IF e.type = "file" /\ e.grp # 0 /\ Mate(x, cset, k, q) # {}
  THEN Link(s1, x.place[CHOOSE j \in Mate(x, cset, k, q) : TRUE].p, q).s
  ELSE PlaceNew(s1, q, e)

ObjStep(x, cset, k, L) ==
  LET s == x.s
      e == cset[k]
      par == Resolve(s, Parent(L), TRUE)
  IN IF par.st = "missing" THEN
         IF par.inlink \/ ~Plain(par.rest) THEN Bad(x, "unspecified", "parent-dangling")
         ELSE LET m == MkDirs(s, par.p, par.rest)
                  q == Append(m.last, LastOf(L))
                  x1 == [x EXCEPT !.mkd = @ \cup m.made]
              IN Put(x1, k, "new", q, PlaceObj(x1, cset, k, m.s, q))
     ELSE IF par.st = "ok" /\ IsDirAt(s, par.p) THEN
         LET q == Append(par.p, LastOf(L)) IN
         IF HasName(s, q) /\ ObjAt(s, q).type = "dir" THEN
             IF e.type = "sym" THEN
                 LET ti == LinkInfo(s, e.target) IN
                 IF ti.ext THEN Bad(x, "unspecified", "sym-over-dir-ext")
                 ELSE LET t == Walk(s, IF ti.abs THEN <<>> ELSE par.p, ti.comps, FALSE, Fuel, 0) IN
                      IF t.st = "ok" /\ IsDirAt(s, t.p) THEN Put(x, k, "skipped", q, s)
                      ELSE IF t.st = "ok" /\ ObjAt(s, t.p).type = "sym" THEN Bad(x, "unspecified", "sym-over-dir-chain")
                      ELSE IF t.st \in {"ok", "missing", "notdir"} THEN Bad(x, "error", "sym-over-dir")
                      ELSE Bad(x, "unspecified", "sym-over-dir-unres")
             ELSE Bad(x, "error", "nondir-over-dir")
         \* the temporary name next to an existing object is taken by a DIRECTORY: cannot be a leftover of a
         \* merge (it never creates one there); what to do about the name clash is not the property's business
         ELSE IF HasName(s, q) /\ HasName(s, Append(par.p, LastOf(L) \o "#new"))
                 /\ ObjAt(s, Append(par.p, LastOf(L) \o "#new")).type = "dir" THEN Bad(x, "unspecified", "temp-name-is-directory")
         ELSE LET s1 == IF HasName(s, q) THEN Unlink(s, q).s ELSE s
              IN Put(x, k, "new", q, PlaceObj(x, cset, k, s1, q))
     ELSE Bad(x, "unspecified", "parent-not-a-directory")

\* TLC evaluates LET lazily: compare the value with itself so that every step is evaluated before the next
\* one (otherwise a long fold builds a chain of thunks deeper than the Java stack)
Force(v) == v = v
RECURSIVE FoldSteps(_, _, _, _)
FoldSteps(x, cset, offset, order) ==
  IF order = <<>> \/ x.outcome # "ok" THEN x
  ELSE LET k == Head(order)
           L == offset \o cset[k].path
           x1 == IF cset[k].type = "dir" THEN DirStep(x, k, cset[k], L) ELSE ObjStep(x, cset, k, L)
       IN IF Force(x1) THEN FoldSteps(x1, cset, offset, Tail(order)) ELSE x

Idx(cset) == [k \in 1..Len(cset) |-> k]
DirOrder(cset) == SortSeq(SelectSeq(Idx(cset), LAMBDA k : cset[k].type = "dir"),
                          LAMBDA a, b : Len(cset[a].path) < Len(cset[b].path))
ObjOrder(cset) == SelectSeq(Idx(cset), LAMBDA k : cset[k].type # "dir")

\* the target directory itself: created when missing (attributes unspecified)
OffsetStep(x, offset) ==
  IF offset = <<>> THEN x
  ELSE LET r == Resolve(x.s, offset, TRUE) IN
       IF r.st = "ok" THEN IF IsDirAt(x.s, r.p) THEN x ELSE Bad(x, "error", "offset-not-a-directory")
       ELSE IF r.st = "missing" /\ r.rest = <<>> /\ ~r.inlink
            THEN [x EXCEPT !.s = Create(x.s, r.p, WildDir).s, !.mkd = @ \cup {r.p}]
       ELSE Bad(x, "unspecified", "offset-parent")

\* two entries that end up naming the same object, or whose location no longer resolves to where
\* they were placed (an entry replaced a symlink another entry was routed through): the result would
\* depend on the iteration order, which the property does not fix
Stable(x, cset, offset) ==
  /\ \A j, k \in DOMAIN x.place : j # k => x.place[j].p # x.place[k].p
  /\ \A k \in DOMAIN x.place :
        LET L == offset \o cset[k].path
            c == Canon(x.s, L)
        IN IF x.place[k].kind = "kept" THEN Resolve(x.s, L, TRUE).p = x.place[k].p ELSE c = x.place[k].p

Expected(old, cset, offset) ==
  LET x0 == OffsetStep(Acc0(old), offset)
      x1 == FoldSteps(x0, cset, offset, DirOrder(cset))
      x2 == FoldSteps(x1, cset, offset, ObjOrder(cset))
  IN IF x2.outcome = "ok" /\ ~Stable(x2, cset, offset) THEN Bad(x2, "unspecified", "order-dependent") ELSE x2

(* ---------------------------------------------------------------- judging a state against Expected *)
\* names the merge may use for its temporaries: <location>#new next to every non-directory entry
TempNames(x, cset) == {Append(Parent(x.place[k].p), LastOf(x.place[k].p) \o "#new") :
                         k \in {j \in DOMAIN x.place : cset[j].type # "dir"}}
\* paths that belong to the contents set: where entries live, the symlink a kept directory was reached through
Claimed(x, cset, offset) ==
  {x.place[k].p : k \in DOMAIN x.place}
  \cup {Canon(x.s, offset \o cset[k].path) : k \in {j \in DOMAIN x.place : x.place[j].kind = "kept"}}
  \cup x.mkd

\* attribute clauses: xo expected object (wildcards allowed), so observed object
AttrBad(xo, so) ==
  IF xo.type # so.type THEN {"Type"}
  ELSE (IF xo.type = "file" /\ xo.cid # WStr /\ (xo.cid # so.cid \/ xo.size # so.size) THEN {"Data"} ELSE {})
       \cup (IF xo.type = "sym" /\ xo.target # so.target THEN {"Target"} ELSE {})
       \cup (IF xo.mtime \notin {Unknown, WInt} /\ so.mtime # Unknown /\ xo.mtime # so.mtime THEN {"Mtime"} ELSE {})
       \cup (IF xo.mode # WInt /\ xo.mode # so.mode THEN {"Mode"} ELSE {})
       \cup (IF (xo.uid # WInt /\ xo.uid # so.uid) \/ (xo.gid # WInt /\ xo.gid # so.gid) THEN {"Owner"} ELSE {})

Paths(s) == {n.path : n \in s.names}
DirMtimeFree(o) == IF o.type = "dir" THEN [o EXCEPT !.mtime = WInt] ELSE o

(* Final state (C18): obs is the observed filesystem as an FsModel state (the real snapshot, or the
   model after replaying the recorded syscalls).  Result: set of <<clause, path>>.                 *)
JudgeFinal(x, cset, offset, old, obs) ==
  LET cl == Claimed(x, cset, offset)
      tmp == TempNames(x, cset)
      per(p) ==
        LET inX == HasName(x.s, p)
            inO == HasName(obs, p)
        IN IF p \in tmp /\ HasName(old, p) THEN {}          \* a stale temporary of an earlier run: reserved name
           ELSE IF inX /\ ~inO THEN {<<IF p \in cl THEN "Type" ELSE "Frame", p>>}
           ELSE IF ~inX /\ inO THEN {<<"Frame", p>>}
           ELSE LET bad == AttrBad(ObjAt(x.s, p), ObjAt(obs, p)) IN
                IF p \notin cl THEN (IF bad # {} THEN {<<"Frame", p>>} ELSE {})
                ELSE IF HasName(old, p) /\ ObjAt(old, p).type = "dir" /\ ObjAt(x.s, p).type = "dir"
                     THEN {<<IF c = "Mode" THEN "DirPermsKept" ELSE c, p>> : c \in bad}
                ELSE {<<c, p>> : c \in bad}
      files == {k \in DOMAIN x.place : x.place[k].kind = "new" /\ cset[k].type = "file"}
      links == {<<"Hardlink", x.place[k].p>> : k \in {k \in files : \E j \in files :
                    /\ j < k /\ InoOf(x.s, x.place[j].p) = InoOf(x.s, x.place[k].p)
                    /\ HasName(obs, x.place[j].p) /\ HasName(obs, x.place[k].p)
                    /\ InoOf(obs, x.place[j].p) # InoOf(obs, x.place[k].p)}}
  IN UNION {per(p) : p \in Paths(x.s) \cup Paths(obs)} \cup links

(* Every intermediate state (C19): obs is the filesystem at a crash point.                        *)
JudgeCrash(x, cset, offset, old, obs) ==
  LET cl == Claimed(x, cset, offset)
      tmp == TempNames(x, cset)
      perOld(p) ==
        LET oo == ObjAt(old, p) IN
        IF p \in tmp THEN {}
        ELSE IF p \notin cl THEN
             (IF HasName(obs, p) /\ AttrBad(DirMtimeFree(oo), ObjAt(obs, p)) = {} THEN {} ELSE {<<"CrashFrame", p>>})
        ELSE IF oo.type = "dir" THEN
             (IF HasName(obs, p) /\ ObjAt(obs, p).type = "dir" /\ ObjAt(obs, p).mode = oo.mode THEN {} ELSE {<<"CrashDirPerms", p>>})
        ELSE IF HasName(x.s, p) /\ ObjAt(x.s, p).type = "dir" THEN {}   \* dangling symlink giving way to a directory
        ELSE IF /\ HasName(obs, p)
                /\ \/ AttrBad(oo, ObjAt(obs, p)) = {}
                   \/ (HasName(x.s, p) /\ AttrBad(ObjAt(x.s, p), ObjAt(obs, p)) = {})
             THEN {} ELSE {<<"OldOrNew", p>>}
  IN UNION {perOld(p) : p \in Paths(old)}
     \cup {<<"CrashFrame", p>> : p \in {q \in Paths(obs) \ Paths(old) : q \notin cl \cup tmp}}

(* ---------------------------------------------------------------- replaying recorded syscalls
   (same dispatch as FsTrace.Step; copied because FsTrace is a closed trace module)              *)
InitFs(e) == [names |-> {[path |-> e.names[k].path, ino |-> e.names[k].ino] : k \in DOMAIN e.names},
              inodes |-> [k \in DOMAIN e.inodes |-> [MkObj(e.inodes[k]) EXCEPT !.mtime = e.inodes[k].mtime]],
              handles |-> {},
              links |-> {e.links[k] : k \in DOMAIN e.links},
              mounts |-> {e.mounts[k] : k \in DOMAIN e.mounts}]

SysStep(s, e) ==
  CASE e.op = "open"      -> Open(s, e.p, e.h, e.created, e.truncated, e.obj)
    [] e.op = "write"     -> Write(s, e.h, e.cid, e.size)
    [] e.op = "ftruncate" -> Write(s, e.h, e.cid, e.size)
    [] e.op = "truncate"  -> SetContentAt(s, e.p, e.cid, e.size)
    [] e.op = "close"     -> Close(s, e.h)
    [] e.op = "rename"    -> Rename(s, e.src, e.dst)
    [] e.op = "unlink"    -> Unlink(s, e.p)
    [] e.op = "rmdir"     -> Rmdir(s, e.p)
    [] e.op = "mkdir"     -> Create(s, e.p, e.obj)
    [] e.op = "symlink"   -> Create(s, e.p, e.obj)
    [] e.op = "mkfifo"    -> Create(s, e.p, e.obj)
    [] e.op = "mknod"     -> Create(s, e.p, e.obj)
    [] e.op = "link"      -> Link(s, e.src, e.p)
    [] e.op = "chmod"     -> Chmod(s, e.p, e.mode)
    [] e.op = "chown"     -> Chown(s, e.p, e.uid, e.gid)
    [] e.op = "utime"     -> Utime(s, e.p, e.mtime)
    [] e.op = "fault"     -> R(s, TRUE)
    [] OTHER              -> R(s, FALSE)

\* a real lstat snapshot (rows [path, obj, grp]) as an FsModel state: inode = hard-link group
SnapFs(snap, links) ==
  LET n == Cardinality({snap[k].grp : k \in DOMAIN snap})
      row(g) == snap[CHOOSE k \in DOMAIN snap : snap[k].grp = g]
  IN [names |-> {[path |-> snap[k].path, ino |-> snap[k].grp] : k \in DOMAIN snap},
      inodes |-> [g \in 1..n |-> [type |-> row(g).obj.type, cid |-> row(g).obj.cid, size |-> row(g).obj.size,
                                  mode |-> row(g).obj.mode, uid |-> row(g).obj.uid, gid |-> row(g).obj.gid,
                                  mtime |-> row(g).obj.mtime, target |-> row(g).obj.target]],
      handles |-> {}, links |-> links, mounts |-> {}]

\* model == real snapshot (proves the recorder missed nothing); result: set of <<clause, path>>
ModelVsSnap(m, sn) ==
  {<<"FinalState", p>> : p \in (Paths(m) \ Paths(sn)) \cup (Paths(sn) \ Paths(m))}
  \cup {<<"FinalState", p>> : p \in {q \in Paths(m) \cap Paths(sn) :
            LET a == ObjAt(m, q)  b == ObjAt(sn, q) IN
            ~(/\ a.type = b.type /\ a.cid = b.cid /\ a.size = b.size /\ a.mode = b.mode /\ a.uid = b.uid /\ a.gid = b.gid
              /\ a.target = b.target /\ (a.mtime = Unknown \/ a.mtime = b.mtime))}}
  \cup {<<"FinalLinks", p>> : p \in {q \in Paths(m) \cap Paths(sn) : \E r \in Paths(m) \cap Paths(sn) :
            /\ ObjAt(sn, q).type = "file" /\ ObjAt(sn, r).type = "file"
            /\ (InoOf(m, q) = InoOf(m, r)) # (InoOf(sn, q) = InoOf(sn, r))}}

RECURSIVE JoinPath(_)
JoinPath(p) == IF p = <<>> THEN "" ELSE IF Len(p) = 1 THEN p[1] ELSE p[1] \o "/" \o JoinPath(Tail(p))
=============================================================================
