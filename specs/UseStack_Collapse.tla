---------------------------- MODULE UseStack_Collapse ----------------------------
(* Collapse versus Fold: for every sequence of <= N entries of one key list (package key a:
   wide entries  glob / cat/a ,  narrow entries  =cat/a-1 / >=cat/a-2 ) the collapsed list must
   mean what the sequence means, for both packages of the key on top of every default set.
   With the legacy switches TLC finds counterexamples; with the repairs it verifies all.     *)
EXTENDS UseStack_Mech
CONSTANTS N, MaxTok, MCScopes
VARIABLE seq

MCFlags == {"x", "p_a"}
MCToks == {<<"+", "x">>, <<"-", "x">>, <<"+", "p_a">>, <<"-", "p_a">>, <<"-", "*">>, <<"-", "p_*">>}
Consistent(T) == ~\E f \in MCFlags : <<"+", f>> \in T /\ <<"-", f>> \in T
Chunks == {T \in SUBSET MCToks : Cardinality(T) <= MaxTok /\ Consistent(T)}
NegOf(T) == {t[2] : t \in {u \in T : u[1] = "-"}}
PosOf(T) == {t[2] : t \in {u \in T : u[1] = "+"}}
Entries == {Entry(sc, NegOf(T), PosOf(T)) : sc \in MCScopes, T \in Chunks}

Init == seq = <<>>
Next == \E e \in Entries : seq' = Append(seq, e)
Spec == Init /\ [][Next]_seq
Bound == Len(seq) <= N

SameOnKey(la, lb) == \A p \in {"a1", "a2"} : \A pre \in SUBSET MCFlags : Render(la, p, pre) = Render(lb, p, pre)
CollapseKeepsMeaning == SameOnKey(Collapse(seq, KeyWide("a"), "any_a"), seq)
\* the collapsed list is never longer than what it collapses
CollapseNoLonger == Len(Collapse(seq, KeyWide("a"), "any_a")) <= Len(seq)
=========================================================================
