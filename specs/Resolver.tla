---------------------------- MODULE Resolver ----------------------------
(* C15 / C16: what a dependency resolver owes its caller
   (src/pkgcore/resolver/plan.py, choice_point.py, ebuild/resolver.py).

   A WORLD is a set of package records
       [id, key, ver, slot, repo, deps]
     repo = "vdb" for installed packages, any other name ("src", "ovl", ...) is a source
     repository / overlay;  ver \in Seq(Nat): the dot-separated numeric components (9 < 10,
     1.9 < 1.10, 1 < 1.0; suffixes, revisions and leading zeros are C01's business);
     deps \in [Classes -> SUBSET Item].
   A dependency class is a conjunction of ITEMS; an item is an any-of group: a set of
   ALTERNATIVES; an alternative is a set of atoms that must all hold
       dev-a/x               {{x}}
       || ( x y )            {{x},{y}}
       || ( ( x y ) z )      {{x,y},{z}}
       !x                    {{!x}}          (blockers only as singleton items)
   An ATOM is [key, op, ver, slot, blk], op \in {"any","=",">=","<=",">","<"},
   slot = "*" for "any slot", blk \in {"none","weak","strong"}.

   The resolver's answer is the sequence of plan operations [t, p, old]
   (t \in {"add","replace","remove"}, p/old package ids).  FINAL is the installed set
   after carrying the plan out; MERGED are the source packages in it.              *)
EXTENDS Integers, Sequences, FiniteSets

Classes      == {"depend", "bdepend", "rdepend", "idepend", "pdepend"}
BuildClasses == {"depend", "bdepend"}

\* PMS version order on plain numeric components: compare component-wise as numbers, a proper
\* prefix is the smaller version
RECURSIVE VLessFrom(_, _, _)
VLessFrom(a, b, k) ==
  IF k > Len(a) THEN k <= Len(b)
  ELSE IF k > Len(b) THEN FALSE
  ELSE IF a[k] # b[k] THEN a[k] < b[k]
  ELSE VLessFrom(a, b, k + 1)
VLess(a, b) == VLessFrom(a, b, 1)
VLe(a, b)   == a = b \/ VLess(a, b)

VerOk(op, pv, av) ==
  CASE op = "any" -> TRUE
    [] op = "="   -> pv = av
    [] op = ">="  -> VLe(av, pv)
    [] op = "<="  -> VLe(pv, av)
    [] op = ">"   -> VLess(av, pv)
    [] op = "<"   -> VLess(pv, av)

\* blocker atoms "match" exactly the packages they block
Matches(a, p) == /\ a.key = p.key
                 /\ VerOk(a.op, p.ver, a.ver)
                 /\ (a.slot = "*" \/ a.slot = p.slot)
IsBlocker(a)  == a.blk # "none"

Src(w) == {p \in w : p.repo # "vdb"}
Vdb(w) == {p \in w : p.repo = "vdb"}
Ids(S) == {p.id : p \in S}
ById(w, id) == CHOOSE p \in w : p.id = id
Cands(w, a) == {p \in w : Matches(a, p)}
SameSlot(p, q) == p.key = q.key /\ p.slot = q.slot

AllAtoms(p)   == UNION {UNION {alt : alt \in item} : item \in UNION {p.deps[c] : c \in Classes}}
ReqAtoms(p)   == {a \in AllAtoms(p) : ~IsBlocker(a)}
BlockAtoms(p) == {a \in AllAtoms(p) : IsBlocker(a)}
IsBlockItem(item) == \E a \in UNION item : IsBlocker(a)
\* the dependency shapes the specification speaks about (others: unspecified)
WellFormedItem(item) == IF IsBlockItem(item) THEN Cardinality(item) = 1 /\ Cardinality(UNION item) = 1
                        ELSE item # {} /\ {} \notin item
WellFormed(w) == /\ \A p, q \in w : p.id = q.id => p = q
                 /\ \A p \in w : \A c \in Classes : \A item \in p.deps[c] : WellFormedItem(item)
                 \* no package carries a blocker that matches itself (C17's carve-out: the planner treats
                 \* such a package as conflicting with itself and cannot roll its replacement back)
                 /\ \A p \in w : \A b \in BlockAtoms(p) : ~Matches(b, p)
                 \* an installed database holds one package per name and slot, a repo one per version
                 /\ \A p, q \in Vdb(w) : SameSlot(p, q) => p = q
                 /\ \A p, q \in Src(w) : (p.repo = q.repo /\ p.key = q.key /\ p.ver = q.ver) => p = q

(* ------------------------------------------------------------------ *)
(* The plan and what it leaves installed                               *)
(* ------------------------------------------------------------------ *)
RECURSIVE FinalIdsFrom(_, _, _)
FinalIdsFrom(S, ops, k) ==
  IF k > Len(ops) THEN S
  ELSE LET o == ops[k] IN
       FinalIdsFrom(CASE o.t = "add"     -> S \cup {o.p}
                      [] o.t = "replace" -> (S \ {o.old}) \cup {o.p}
                      [] o.t = "remove"  -> S \ {o.p}
                      [] OTHER           -> S,
                    ops, k + 1)
FinalIds(w, ops) == FinalIdsFrom(Ids(Vdb(w)), ops, 1)
Final(w, ops)    == {p \in w : p.id \in FinalIds(w, ops)}
Merged(w, ops)   == {p \in Final(w, ops) : p.repo # "vdb"}
OpsKnown(w, ops) == \A k \in DOMAIN ops : ops[k].p \in Ids(w) /\ (ops[k].t = "replace" => ops[k].old \in Ids(w))

SatAtom(a, F)    == \E q \in F : Matches(a, q)
SatItem(item, F) == \E alt \in item : \A a \in alt : SatAtom(a, F)

(* Root-cause tag of an unsatisfied requirement: "displaced" when a package that would
   satisfy it lost its slot to another package of the final set (the plan decided the slot
   for somebody else), "missing" when nothing of the kind happened.                        *)
Displaced(w, a, F) == \E x \in Cands(w, a) : x \notin F /\ \E f \in F : SameSlot(f, x)
ViaAtom(w, a, F)   == IF Displaced(w, a, F) THEN "displaced" ELSE "missing"
ViaItem(w, item, F) ==
  IF \E alt \in item : \E a \in alt : ~SatAtom(a, F) /\ Displaced(w, a, F) THEN "displaced" ELSE "missing"

V(clause, pkg, what, via) == [clause |-> clause, pkg |-> pkg, what |-> what, via |-> via]

(* C15: the violations of a successful resolution (empty set = the plan is valid) *)
PlanViolations(w, targets, ops) ==
  LET F == Final(w, ops)
      M == Merged(w, ops)
  IN
  \* a package matching each target
  {V("Target", "-", t.key, ViaAtom(w, t, F)) : t \in {x \in targets : ~SatAtom(x, F)}}
  \cup
  \* one alternative of every item of every class of every merged package
  UNION {UNION {{V("Closure_" \o c, p.id, c, ViaItem(w, item, F)) :
                    item \in {i \in p.deps[c] : ~IsBlockItem(i) /\ ~SatItem(i, F)}} : c \in Classes} : p \in M}
  \cup
  \* at most one package per name and slot
  {V("SlotUnique", p.id, p.slot, "-") : p \in {x \in F : \E y \in F : y # x /\ SameSlot(x, y)}}
  \cup
  \* nothing matched by a blocker of another merged package
  UNION {{V("Blocker", p.id, b.key, b.blk) : b \in {x \in BlockAtoms(p) : \E q \in F : q # p /\ Matches(x, q)}} : p \in M}

ValidPlan(w, targets, ops) == PlanViolations(w, targets, ops) = {}

(* Brute-force oracle: some final set (kept installed + merged) is valid *)
ValidFinal(w, targets, F) ==
  /\ \A t \in targets : SatAtom(t, F)
  /\ \A p \in F : p.repo # "vdb" => \A c \in Classes : \A item \in p.deps[c] : IsBlockItem(item) \/ SatItem(item, F)
  /\ \A p, q \in F : SameSlot(p, q) => p = q
  /\ \A p \in F : p.repo # "vdb" => \A b \in BlockAtoms(p) : \A q \in F : q # p => ~Matches(b, q)
Resolvable(w, targets) == \E F \in SUBSET w : ValidFinal(w, targets, F)

(* ------------------------------------------------------------------ *)
(* C16: the choice policy                                              *)
(* ------------------------------------------------------------------ *)
MaxVer(S) == CHOOSE v \in {p.ver : p \in S} : \A q \in S : VLe(q.ver, v)
Best(w, t) == LET C == Cands(w, t) IN {p \in C : p.ver = MaxVer(C)}

RECURSIVE ReachFrom(_, _)
ReachFrom(w, R) ==
  LET N == R \cup UNION {Cands(w, a) : a \in UNION {ReqAtoms(p) : p \in R}}
  IN IF N = R THEN R ELSE ReachFrom(w, N)
Reach(w, ts) == ReachFrom(w, UNION {Cands(w, t) : t \in ts})

RECURSIVE TransClosure(_)
TransClosure(E) ==
  LET N == E \cup {<<pr[1][1], pr[2][2]>> : pr \in {q \in E \X E : q[1][2] = q[2][1]}}
  IN IF N = E THEN E ELSE TransClosure(N)
Acyclic(E) == \A e \in TransClosure(E) : e[1] # e[2]

\* a version whose installed copy sits in another slot than the repository's copy
SlotMoved(w) == \E p, q \in w : p.key = q.key /\ p.ver = q.ver /\ p.slot # q.slot

(* "The candidate is resolvable" in the sense the policy statements are judged in: whatever
   order requirements are processed in and whichever matching candidate is taken, nothing can
   conflict.  Everything reachable from the targets is considered:
     R1 every requirement has a candidate;
     R2 no reachable blocker matches anything;
     R3 requirements on one name all admit the same packages (so the first choice serves all);
     R4 no dependency cycle through a build-time edge (PMS leaves the merge order of such
        cycles open; the resolver answers them by falling back to installed packages);
     R5 the installed copy of a version sits in the slot the repository gives that version.
   Outside this domain the policy clauses are not judged ("Unspecified").                    *)
Robust(w, ts) ==
  LET R == Reach(w, ts)
      A == ts \cup UNION {ReqAtoms(p) : p \in R}
      E == UNION {{<<p.key, a.key>> : a \in ReqAtoms(p)} : p \in R}
  IN /\ \A t \in ts : ~IsBlocker(t)
     /\ \A a \in A : Cands(w, a) # {}
     /\ \A p \in R : \A b \in BlockAtoms(p) : Cands(w, b) = {}
     /\ \A a, b \in A : a.key = b.key => Cands(w, a) = Cands(w, b)
     /\ \/ Acyclic(E)
        \/ \A p \in R : \A c \in BuildClasses : \A item \in p.deps[c] : IsBlockItem(item)
     /\ ~SlotMoved(w)

\* upgrade strategy: the target is satisfied by its highest version, by the installed instance if there is one
UpgradeOk(w, t, F) ==
  LET B  == Best(w, t)
      BV == {p \in B : p.repo = "vdb"}
  IN IF BV # {} THEN (\E p \in BV : p \in F) /\ (\A p \in B \ BV : p \notin F)
     ELSE \E p \in B : p \in F
\* minimal install: a target an installed package satisfies keeps it and merges nothing else for it
ReuseApplies(w, t) == \E p \in Vdb(w) : Matches(t, p)
ReuseOk(w, t, F)   == /\ \E p \in F : p.repo = "vdb" /\ Matches(t, p)
                      /\ \A p \in F : p.repo # "vdb" => ~Matches(t, p)

SeqSet(s) == {s[k] : k \in DOMAIN s}
\* targets is a SEQUENCE here; ok = the resolver reported success.  Judged only inside Robust
\* (for the whole target set: a later target may legitimately veto an earlier one's highest version).
PolicyViolationsIn(robust, kind, w, targets, ok, ops) ==
  LET F == Final(w, ops) IN
  IF ~robust THEN {}
  ELSE IF kind = "upgrade" THEN
     {V("Upgrade_failed", "-", targets[k].key, "-") : k \in {j \in DOMAIN targets : ~ok}}
     \cup {V("Upgrade_highest", "-", targets[k].key, "-") : k \in {j \in DOMAIN targets : ok /\ ~UpgradeOk(w, targets[j], F)}}
  ELSE IF kind = "min" THEN
     {V("Reuse_failed", "-", targets[k].key, "-") : k \in {j \in DOMAIN targets : ~ok}}
     \cup {V("Reuse_installed", "-", targets[k].key, "-") :
             k \in {j \in DOMAIN targets : ok /\ ReuseApplies(w, targets[j]) /\ ~ReuseOk(w, targets[j], F)}}
  ELSE {}
PolicyViolations(kind, w, targets, ok, ops) ==
  PolicyViolationsIn(Robust(w, SeqSet(targets)), kind, w, targets, ok, ops)
\* how many target clauses are inside the judged domain
PolicyJudgedIn(robust, kind, w, targets) ==
  IF kind \in {"upgrade", "min"} /\ robust
  THEN Cardinality({j \in DOMAIN targets : kind = "min" => ReuseApplies(w, targets[j])}) ELSE 0

(* The policy, target by target, for a resolver that is given its targets one after the other
   (marks[k] = length of the plan before target k, done = number of targets it resolved).
   Independently of Robust there is a situation in which the choice is forced: the candidate the
   strategy tries first is READY when the plan so far does not satisfy the target yet, every
   requirement of the candidate is satisfied by packages that are ALREADY IN THE PLAN (nothing
   has to be searched for), it carries no blockers, no blocker anywhere matches it, and its slot
   is free or held by an installed package the plan has not touched.  A ready first candidate
   must be taken.                                                                             *)
InPlan(w, ops) == {p \in Final(w, ops) : \E j \in DOMAIN ops : ops[j].p = p.id}
Ready(w, ops, h, t) ==
  LET F == Final(w, ops)  PL == InPlan(w, ops) IN
  /\ ~SatAtom(t, PL)
  /\ h \notin PL /\ (h.repo = "vdb" => h \in F)
  /\ BlockAtoms(h) = {}
  /\ \A a \in ReqAtoms(h) : SatAtom(a, PL)
  /\ \A p \in w : \A b \in BlockAtoms(p) : ~Matches(b, h)
  /\ \A f \in F : (f # h /\ SameSlot(f, h)) => (f.repo = "vdb" /\ f \notin PL /\ h.repo # "vdb")
  /\ ~SlotMoved(w) /\ ~IsBlocker(t)
FirstCandidates(kind, w, t) ==
  IF kind = "upgrade"
  THEN LET B == Best(w, t)  BV == {p \in B : p.repo = "vdb"} IN IF BV # {} THEN BV ELSE B
  ELSE LET I == {p \in Vdb(w) : Matches(t, p)} IN {p \in I : p.ver = MaxVer(I)}      \* kind = "min"
ReadyAt(kind, w, targets, marks, ops, k) ==
  LET HS == FirstCandidates(kind, w, targets[k]) IN
  /\ kind \in {"upgrade", "min"} /\ marks[k] <= Len(ops)
  /\ Cands(w, targets[k]) # {}
  /\ (kind = "min" => ReuseApplies(w, targets[k]))
  /\ HS # {} /\ \A h \in HS : Ready(w, SubSeq(ops, 1, marks[k]), h, targets[k])
ReadyViolations(kind, w, targets, marks, done, ops) ==
  {V(IF kind = "upgrade" THEN "Upgrade_ready" ELSE "Reuse_ready", "-", targets[k].key, "-") :
     k \in {j \in DOMAIN marks :
              /\ j <= Len(targets) /\ ReadyAt(kind, w, targets, marks, ops, j)
              /\ LET after == IF j < Len(marks) /\ marks[j + 1] <= Len(ops) THEN SubSeq(ops, 1, marks[j + 1]) ELSE ops
                     F == Final(w, after)
                 IN \/ j > done
                    \/ (kind = "upgrade" /\ ~UpgradeOk(w, targets[j], F))
                    \/ (kind = "min" /\ ~ReuseOk(w, targets[j], F))}}
ReadyJudged(kind, w, targets, marks, ops) ==
  Cardinality({j \in DOMAIN marks : j <= Len(targets) /\ ReadyAt(kind, w, targets, marks, ops, j)})

(* ------------------------------------------------------------------ *)
(* JSON form (sequences instead of sets) <-> the sets used above       *)
(*   pkg  {id,key,ver,slot,repo, depend:[item..], bdepend, ...}        *)
(*   item [alt..], alt [atom..]                                        *)
(* ------------------------------------------------------------------ *)
AtomOf(o) == [key |-> o.key, op |-> o.op, ver |-> o.ver, slot |-> o.slot, blk |-> o.blk]
AltOf(s)  == {AtomOf(s[k]) : k \in DOMAIN s}
ItemOf(s) == {AltOf(s[k]) : k \in DOMAIN s}
DepOf(s)  == {ItemOf(s[k]) : k \in DOMAIN s}
PkgOf(o)  == [id |-> o.id, key |-> o.key, ver |-> o.ver, slot |-> o.slot, repo |-> o.repo,
              deps |-> [c \in Classes |-> DepOf(o[c])]]
WorldOfSeq(pkgs) == {PkgOf(pkgs[k]) : k \in DOMAIN pkgs}
TargetsOfSeq(ts) == [k \in DOMAIN ts |-> AtomOf(ts[k])]
=========================================================================
