---------------------------- MODULE Manifest_Laws ----------------------------
\* Parse(Generate(x)) = Expected(x), Generate independent of listing order, Update idempotent —
\* over every subset (<= MaxFiles files, <= 2 distfiles) of a small universe and EVERY ordering of it.
EXTENDS Manifest, TLC
CONSTANT MaxFiles
E(x) == x \o C_ebuild
S1 == {[chf |-> "sha256", hex |-> "aa"]}
S2 == {[chf |-> "blake2b", hex |-> "bb"], [chf |-> "sha512", hex |-> "cc"]}
F(p, n, s) == [path |-> p, size |-> n, sums |-> s]
Files == {F(<<E(<<112, 45, 49>>)>>, 10, S1),            \* p-1.ebuild
          F(<<E(<<112, 45, 50>>)>>, 0, S2),             \* p-2.ebuild
          F(<<<<109, 46, 120>>>>, 7, S1),               \* m.x   (MISC)
          F(<<C_files, <<97>>>>, 3, S2),                \* files/a
          F(<<C_files, <<115>>, <<97>>>>, 4, S1),       \* files/s/a
          F(<<C_files>>, 5, S1),                        \* a regular file called "files": MISC
          F(<<C_Manifest>>, 99, S1),                    \* the Manifest itself: not covered
          F(<<C_CVS, <<120>>>>, 1, S1),                 \* CVS/x: not covered
          F(<<C_files, C_svn, <<120>>>>, 1, S1)}        \* files/.svn/x: not covered
Dists == {[name |-> <<100, 49>>, size |-> 1000, sums |-> S2], [name |-> <<100>>, size |-> 5, sums |-> S1]}
Orders(S) == {q \in [1..Cardinality(S) -> S] : \A i, j \in DOMAIN q : i # j => q[i] # q[j]}
Inputs == {<<Fs, Ds, thin>> \in (SUBSET Files) \X (SUBSET Dists) \X BOOLEAN : Cardinality(Fs) <= MaxFiles}

NoneInvalid == \A f \in Files : Classify(f.path) # "invalid"
ParseBack == \A x \in Inputs : \A q \in Orders(x[1]), d \in Orders(x[2]) :
    Parse(Generate(q, d, x[3])) = Expected(x[1], x[2], x[3])
OrderIndependent == \A x \in Inputs :
    LET q0 == CHOOSE q \in Orders(x[1]) : TRUE  d0 == CHOOSE d \in Orders(x[2]) : TRUE IN
    \A q \in Orders(x[1]), d \in Orders(x[2]) : Generate(q, d, x[3]) = Generate(q0, d0, x[3])
Idempotent == \A x \in Inputs : \A q2 \in Orders(x[1]), d \in Orders(x[2]) :
    LET q1 == CHOOSE q \in Orders(x[1]) : TRUE
        u == Update(<<>>, q1, d, x[3]) IN
    /\ Update(u.disk, q2, d, x[3]) = [disk |-> u.disk, wrote |-> FALSE]
    /\ (Specified(x[1], x[2], x[3]) /\ (x[1] # {} \/ x[2] # {}) /\ Generate(q1, d, x[3]) # <<>>) => u.wrote
\* excluded names are not covered, and a differing size is visible in what parses back
ExcludedNotCovered == \A x \in Inputs : \A q \in Orders(x[1]) :
    \A t \in {"AUX", "EBUILD", "MISC"} : \A e \in Parse(Generate(q, <<>>, FALSE))[t] :
        \A i \in DOMAIN e.name : e.name[i] \notin Excluded
\* column order: every key order of a checksum mapping gives the same columns, and no column is lost
Mappings == {<<[chf |-> <<115, 104, 97, 53, 49, 50>>, hex |-> "cc"], [chf |-> <<98, 108, 97, 107, 101, 50, 98>>, hex |-> "bb"],
               [chf |-> <<109, 100, 53>>, hex |-> "dd"]>>,                                  \* sha512, blake2b, md5
             <<[chf |-> <<115, 104, 97, 49>>, hex |-> "ee"]>>, <<>>}
Perms(q) == {[k \in DOMAIN q |-> q[p[k]]] : p \in Orders(DOMAIN q)}
ColumnsCanonical == \A q \in Mappings : \A q1, q2 \in Perms(q) :
    /\ Columns(q1) = Columns(q2)
    /\ {Columns(q1)[k] : k \in DOMAIN Columns(q1)} = {q[k] : k \in DOMAIN q}
    /\ \A j, k \in DOMAIN Columns(q1) : j < k => LexLess(Columns(q1)[j].chf, Columns(q1)[k].chf)
ASSUME ColumnsCanonical
ASSUME NoneInvalid
ASSUME ParseBack
ASSUME OrderIndependent
ASSUME Idempotent
ASSUME ExcludedNotCovered
=========================================================================
