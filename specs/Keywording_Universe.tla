---------------------------- MODULE Keywording_Universe ----------------------------
(* The small universe of repositories, request lists and options shared by the design check
   (Keywording_MC) and the case export (Keywording_Export).  No variables.                  *)
EXTENDS Keywording, SequencesExt
CONSTANTS Rich            \* TRUE: the larger universe
K(a, s) == <<a, s>>
KwSets == {{K("amd64", "testing"), K("x86", "stable")},
           {K("amd64", "stable"), K("x86", "testing"), K("arm64", "stable"), K("amd64-linux", "stable")},
           {K("amd64", "testing"), K("arm64", "testing"), K("amd64-linux", "testing")}}
          \cup (IF Rich THEN {{K("amd64", "stable")},
                                {K("x86", "testing"), K("arm64", "stable"), K("amd64", "neg"), K("x86-macos", "stable")}} ELSE {})
Pk(n, v, ks) == [name |-> n, ver |-> v, slot |-> "0", kws |-> ks]
Knowns == {{"amd64", "x86", "amd64-linux"}} \cup (IF Rich THEN {{"amd64", "x86", "arm64", "amd64-linux", "x86-macos"}} ELSE {})
Repos == {[pkgs |-> {Pk("c/a", 1, k1), Pk("c/a", 2, k2), Pk("c/b", 1, {K("amd64", "testing")})}, known |-> kn] :
            k1 \in KwSets, k2 \in KwSets, kn \in Knowns}
W(t, a, ti) == [t |-> t, arch |-> a, tilde |-> ti]
Writtens == {<<>>, <<W("arch", "amd64", FALSE)>>, <<W("star", "", FALSE)>>, <<W("caret", "", FALSE)>>, <<W("dash", "", FALSE)>>,
             <<W("arch", "x86", TRUE), W("star", "", FALSE)>>, <<W("arch", "amd64-linux", FALSE)>>, <<W("arch", Bogus, FALSE)>>,
             <<W("caret", "", FALSE), W("arch", "arm64", FALSE)>>}
Ln(op, n, v, s, w) == [op |-> op, name |-> n, ver |-> v, slot |-> s, written |-> w]
SpecsOf == {<<"=", "c/a", 1, "">>, <<"=", "c/a", 2, "">>, <<"", "c/a", 0, "">>, <<"=", "c/a", 2, "0">>, <<"=", "c/a", 3, "">>}
           \cup (IF Rich THEN {<<">=", "c/a", 2, "">>, <<"=", "c/b", 1, "">>} ELSE {})
LinesU == {Ln(s[1], s[2], s[3], s[4], w) : s \in SpecsOf, w \in Writtens}
\* second lines: the OTHER version of the package named above (its keywords differ), asking for  ^ ,  *  or nothing
SecondU == {Ln(s[1], s[2], s[3], s[4], w) : s \in {<<"=", "c/a", 1, "">>, <<"=", "c/a", 2, "">>} \cup (IF Rich THEN {<<"", "c/a", 0, "">>} ELSE {}),
              w \in {<<W("caret", "", FALSE)>>, <<W("star", "", FALSE)>>, <<>>}
                     \cup (IF Rich THEN {<<W("caret", "", FALSE), W("arch", "arm64", FALSE)>>} ELSE {})}
\* two-line requests: the first line is one that can yield (so the second can refer to it)
FirstU == {a \in LinesU : a.name = "c/a" /\ a.ver # 3 /\ a.slot = ""}
Requests == {<<a>> : a \in LinesU} \cup {<<a, b>> : a \in FirstU, b \in SecondU}
OptsAll == {[stable |-> st, cc |-> cc, only_new |-> on, filter |-> fl, allarches |-> al] :
            st \in BOOLEAN, cc \in {<<>>, <<"x86", "amd64">>} \cup (IF Rich THEN {<<"amd64">>} ELSE {}), on \in BOOLEAN,
            fl \in {{}, {"x86", "arm64"}} \cup (IF Rich THEN {{"amd64"}} ELSE {}), al \in BOOLEAN}
\* all-arches only acts together with an arch filter
OptsU == {x \in OptsAll : x.filter # {} \/ ~x.allarches}
=========================================================================
