---------------------------- MODULE Merge_Cases ----------------------------
(* The small (old root, cset) universe shared by Merge_MC (design-level model checking) and
   Merge_Export (spec -> code: the same pairs are merged for real):
       d  (directory entry / missing parent),  d/f,  g,  h   (+ e: target of a symlinked d, k: old hard link of g)
   g as a symlink points to d: over an existing directory g it is tolerated when d is a directory (the
   CannotOverwrite retry of merge_contents) and refused otherwise; h is a hard-link mate of d/f that is
   iterated AFTER g, so state carried across the retry (merged inodes) matters.
   Ownership: the pre-existing d / e are set-gid directories of a foreign group and the cset's d is set-gid
   too, while d/f is recorded as 0:0 (the merging process' own ids): a created object inherits the group of
   a set-gid parent, so the recorded owner has to be set explicitly. *)
EXTENDS Merge
CONSTANTS NChunks, ODKinds, OFKinds, OGKinds, CDKinds, CFKinds, CGKinds, CHKinds, MTKinds   \* kind universes: see KINDS in drivers/c18_merge.py

D == <<"d">>
F == <<"d", "f">>
G == <<"g">>
E == <<"e">>
K == <<"k">>
H == <<"h">>


Sel == {s \in [od : ODKinds, of : OFKinds, og : OGKinds, cd : CDKinds, cf : CFKinds, cg : CGKinds, ch : CHKinds, mt : MTKinds] :
          /\ (s.of # "absent" => s.od \in {"dir", "symdir"})
          /\ (s.cg = "mate" => s.cf = "file")
          /\ (s.ch = "mate" => s.cf = "file")
          \* mt = "d": the directory d (or what the symlink d points to) is a mount point, so d/f cannot be
          \* hard-linked to its mates g and h (which still can be linked to each other)
          /\ (s.mt = "d" => s.od \in {"dir", "symdir"} /\ s.cf = "file" /\ (s.cg = "mate" \/ s.ch = "mate"))
          /\ (s.cd = "none" /\ s.cf = "none" => s.cg # "none")}

O(path, type, content, target, linkto, mode, uid, gid, mtime) ==
  [path |-> path, type |-> type, content |-> content, target |-> target, link_to |-> linkto,
   mode |-> mode, uid |-> uid, gid |-> gid, mtime |-> mtime]

\* the pre-existing root as a list of objects (parents first)
OldSpec(s) ==
  (CASE s.od = "absent"   -> <<>>
     [] s.od = "dir"      -> <<O(D, "dir", "", "", <<>>, 1512, 7, 7, 70)>>
     [] s.od = "file"     -> <<O(D, "file", "oldD", "", <<>>, 420, 7, 7, 70)>>
     [] s.od = "symdir"   -> <<O(E, "dir", "", "", <<>>, 1512, 7, 7, 70), O(D, "sym", "", "e", <<>>, 511, 7, 7, 70)>>
     [] s.od = "dangling" -> <<O(D, "sym", "", "gone", <<>>, 511, 7, 7, 70)>>)
  \o (LET base == IF s.od = "symdir" THEN E ELSE D IN
      CASE s.of = "absent" -> <<>>
        [] s.of = "file"   -> <<O(Append(base, "f"), "file", "oldF", "", <<>>, 384, 8, 8, 80)>>
        [] s.of = "sym"    -> <<O(Append(base, "f"), "sym", "", "oldT", <<>>, 511, 8, 8, 80)>>
        [] s.of = "stale"  -> <<O(Append(base, "f"), "file", "oldF", "", <<>>, 384, 8, 8, 80),
                                O(Append(base, "f#new"), "file", "STALE-LONG", "", <<>>, 420, 0, 0, 81)>>)
  \o (CASE s.og = "absent" -> <<>>
        [] s.og = "file"   -> <<O(G, "file", "oldG", "", <<>>, 420, 9, 9, 90)>>
        [] s.og = "sym"    -> <<O(G, "sym", "", "e", <<>>, 511, 9, 9, 90)>>
        [] s.og = "dir"    -> <<O(G, "dir", "", "", <<>>, 493, 9, 9, 90)>>
        [] s.og = "hl"     -> <<O(G, "file", "oldG", "", <<>>, 420, 9, 9, 90), O(K, "file", "oldG", "", G, 420, 9, 9, 90)>>)

Ent(path, type, content, target, grp, mode, uid, gid, mtime) ==
  [path |-> path, type |-> type, cid |-> content, size |-> IF type = "file" THEN NChunks ELSE 0, mode |-> mode,
   uid |-> uid, gid |-> gid, mtime |-> mtime, target |-> IF type = "sym" THEN target ELSE "-", grp |-> grp]

CsetSpec(s) ==
  (IF s.cd = "dir" THEN <<Ent(D, "dir", "-", "", 0, 1517, 1, 2, 10)>> ELSE <<>>)
  \o (CASE s.cf = "none" -> <<>>
        [] s.cf = "file" -> <<Ent(F, "file", "newF", "", IF s.cg = "mate" \/ s.ch = "mate" THEN 1 ELSE 0, 416, 0, 0, 20)>>
        [] s.cf = "sym"  -> <<Ent(F, "sym", "-", "newT", 0, 511, 3, 4, 20)>>
        [] s.cf = "fifo" -> <<Ent(F, "fifo", "-", "", 0, 384, 3, 4, 20)>>)
  \o (CASE s.cg = "none" -> <<>>
        [] s.cg = "file" -> <<Ent(G, "file", "newG", "", 0, 365, 5, 6, 30)>>
        [] s.cg = "sym"  -> <<Ent(G, "sym", "-", "d", 0, 511, 5, 6, 30)>>
        [] s.cg = "mate" -> <<Ent(G, "file", "newF", "", 1, 416, 0, 0, 20)>>)
  \o (IF s.ch = "mate" THEN <<Ent(H, "file", "newF", "", 1, 416, 0, 0, 20)>> ELSE <<>>)

AllLinks == {[t |-> "e", abs |-> FALSE, ext |-> FALSE, comps |-> <<"e">>],
             [t |-> "d", abs |-> FALSE, ext |-> FALSE, comps |-> <<"d">>],
             [t |-> "gone", abs |-> FALSE, ext |-> FALSE, comps |-> <<"gone">>],
             [t |-> "oldT", abs |-> FALSE, ext |-> FALSE, comps |-> <<"oldT">>],
             [t |-> "newT", abs |-> FALSE, ext |-> FALSE, comps |-> <<"newT">>]}

RECURSIVE BuildOld(_, _)
BuildOld(s, objs) ==
  IF objs = <<>> THEN s
  ELSE LET o == Head(objs)
           s1 == IF o.link_to # <<>> THEN Link(s, o.link_to, o.path).s
                 ELSE Utime(Create(s, o.path, [type |-> o.type, cid |-> IF o.type = "file" THEN o.content ELSE "-",
                                               size |-> IF o.type = "file" THEN 3 ELSE 0, mode |-> o.mode, uid |-> o.uid,
                                               gid |-> o.gid, target |-> IF o.type = "sym" THEN o.target ELSE "-"]).s,
                            o.path, o.mtime).s
       IN BuildOld(s1, Tail(objs))
\* directory mtimes are set after the children exist (as the driver's setup does)
RECURSIVE FixDirTimes(_, _)
FixDirTimes(s, objs) ==
  IF objs = <<>> THEN s
  ELSE FixDirTimes(IF Head(objs).type = "dir" THEN Utime(s, Head(objs).path, Head(objs).mtime).s ELSE s, Tail(objs))
MountsOf(sel) == IF sel.mt = "d" THEN {IF sel.od = "symdir" THEN E ELSE D} ELSE {}
OldFs(sel) == FixDirTimes(BuildOld([names |-> {}, inodes |-> <<>>, handles |-> {}, links |-> AllLinks, mounts |-> MountsOf(sel)],
                                 OldSpec(sel)), OldSpec(sel))

=============================================================================
