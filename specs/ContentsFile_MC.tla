---------------------------- MODULE ContentsFile_MC ----------------------------
(* The CONTENTS file as an atomic register: Flush(S) replaces the stored set in one step, a crash
   during Flush leaves the previous set (the protocol that achieves this is AtomicFile_MC).       *)
EXTENDS ContentsFile, TLC
CONSTANT Entries
VARIABLES mem, disk, flushing
Init == mem = {} /\ disk = {} /\ flushing = FALSE
AddE(e) == ~flushing /\ (\A x \in mem : x.path # e.path) /\ mem' = mem \cup {e} /\ UNCHANGED <<disk, flushing>>
DelE(e) == ~flushing /\ e \in mem /\ mem' = mem \ {e} /\ UNCHANGED <<disk, flushing>>
BeginFlush == ~flushing /\ flushing' = TRUE /\ UNCHANGED <<mem, disk>>
Commit == flushing /\ disk' = {Kept(e) : e \in mem} /\ flushing' = FALSE /\ UNCHANGED mem
Crash == flushing /\ flushing' = FALSE /\ UNCHANGED <<mem, disk>>        \* power cut: disk keeps the old set
Next == (\E e \in Entries : AddE(e) \/ DelE(e)) \/ BeginFlush \/ Commit \/ Crash
Spec == Init /\ [][Next]_<<mem, disk, flushing>>
\* whatever is on disk is the image of SOME set that was flushed: never a partial write
DiskIsAFlushedSet == PathKeyed(disk) /\ \A d \in disk : \E e \in Entries : d = Kept(e)
CommitInstallsMem == [][(flushing /\ ~flushing' /\ disk' # disk) => RoundTrip(mem, disk')]_<<mem, disk, flushing>>
=========================================================================
