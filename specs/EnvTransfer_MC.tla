---------------------------- MODULE EnvTransfer_MC ----------------------------
(* Design model of one environment transfer followed by the next request (C31).

   Two processes and two pipes.  c2d is a BYTE-accurate stream (payload bytes 1..255,
   command words abstracted to one code >= 300, counts to 1000+n, lines end with 10);
   d2c carries reply lines.  The sender ("py") walks the script of its mode; the daemon
   is the dispatch loop of ebuild-daemon.bash: main loop / phase subshell, a counted
   reader that takes `declared` UNITS of its locale (bytes or characters), eval of what it
   got, `die` on an unknown command.

   Checked for every environment over two names (absent / string / sequence of <= MaxSeq texts,
   exported or not; one text holds a two-byte character) and the three modes:
       Arrives      when the sender is done the daemon's shell held exactly the environment
       NoGarbage    the daemon never evaluated anything but the payload
       Answered     <>(sender done)  -- every expected reply, incl. the final alive/yep!, came
   with Counting (how the sender computes the count) matching Unit (what the reader counts).
   With Counting = "chars" against a byte-counting reader TLC must find a violation
   (the driver requires that: vacuity guard).                                           *)
EXTENDS EnvTransfer, TLC
CONSTANTS Counting, Unit, MaxSeq
ASSUME Counting \in {"bytes", "chars"} /\ Unit \in Units /\ MaxSeq \in 0..2

Names == {"a", "b"}
T0 == <<>>
T1 == <<65>>
T2 == <<65, 195, 169>>            \* "A" followed by a two-byte character
Texts == {T0, T1, T2}
SeqTexts == {<<>>} \cup (IF MaxSeq >= 1 THEN {<<t>> : t \in Texts} ELSE {})
            \cup (IF MaxSeq >= 2 THEN {<<t, u>> : t \in Texts, u \in {T1, T2}} ELSE {})
Absent == [present |-> FALSE, kind |-> "str", val |-> <<>>, elems |-> <<>>, exported |-> FALSE]
Entries == {Absent}
           \cup {[present |-> TRUE, kind |-> "str", val |-> t, elems |-> <<>>, exported |-> x] : t \in Texts, x \in BOOLEAN}
           \cup {[present |-> TRUE, kind |-> "seq", val |-> <<>>, elems |-> s, exported |-> x] : s \in SeqTexts, x \in BOOLEAN}
Envs == [Names -> Entries]

\* an injective rendering of an environment (quoting itself is the subject of EnvTransfer_Laws)
RECURSIVE Cat(_)
Cat(ss) == IF ss = <<>> THEN <<>> ELSE Head(ss) \o Cat(Tail(ss))
EncEntry(n, e) ==
    IF ~e.present THEN <<>>
    ELSE (IF e.exported THEN <<120>> ELSE <<>>) \o <<IF n = "a" THEN 97 ELSE 98, 61>>
         \o (IF e.kind = "str" THEN <<39>> \o e.val \o <<39>>
             ELSE <<40>> \o Cat([k \in 1..Len(e.elems) |-> <<34>> \o e.elems[k] \o <<34>>]) \o <<41>>)
         \o <<32>>
Encode(env) == EncEntry("a", env["a"]) \o EncEntry("b", env["b"])
\* The rendering is injective, so the daemon's shell is represented by the TEXT it evaluated:
\* holding Encode(env) is holding env.  The shell's parser accepts a text iff it is a sequence of
\* complete entries (a payload cut at an entry boundary IS a well-formed, smaller environment).
ASSUME EncodeInjective == Cardinality({Encode(e) : e \in Envs}) = Cardinality(Envs)
Decodable(p) == \/ p = <<>>
                \/ /\ p[Len(p)] = 32 /\ p[1] \in {120, 97, 98}
                   /\ \A k \in DOMAIN p : p[k] < 256 /\ p[k] # 10
EmptyText == <<>>

\* command codes on c2d
cProcess == 300  cBytes == 301  cFile == 302  cAlive == 303  cSandbox == 304  cStart == 305  cMeta == 306
NL == 10
Count(n) == 1000 + n

Script(mode) ==
    IF mode = "meta"
    THEN << Tok("w", "gen_metadata"), Tok("r", "phases succeeded"), Tok("w", "alive"), Tok("r", "yep!") >>
    ELSE << Tok("w", "process_ebuild"),
            Tok("w", IF mode = "inline" THEN "start_receiving_env bytes" ELSE "start_receiving_env file"),
            Tok("r", "env_received"), Tok("w", "alive"), Tok("r", "yep!"),
            Tok("w", "set_sandbox_state"), Tok("w", "start_processing"), Tok("r", "phases succeeded"),
            Tok("w", "alive"), Tok("r", "yep!") >>
\* the script is a word of the protocol automaton of EnvTransfer
ASSUME \A m \in Modes : DialogueOK(m, Script(m))

VARIABLES env, mode, pc, py, c2d, d2c, file, d, need, shellEnv, heldEnv, evald
vars == <<env, mode, pc, py, c2d, d2c, file, d, need, shellEnv, heldEnv, evald>>

Declared(p) == IF Counting = "bytes" THEN NBytes(p) ELSE NChars(p)

Init == /\ env \in Envs /\ mode \in Modes
        /\ pc = 1 /\ py = "run" /\ c2d = <<>> /\ d2c = <<>> /\ file = <<>>
        /\ d = "main" /\ need = 0 /\ shellEnv = EmptyText /\ heldEnv = EmptyText /\ evald = {}

\* ---------------- sender ----------------
Wire(t) == LET p == Encode(env) IN
    CASE t = "process_ebuild"            -> <<cProcess, NL>>
      [] t = "start_receiving_env bytes" -> <<cBytes, Count(Declared(p)), NL>> \o p
      [] t = "start_receiving_env file"  -> <<cFile, NL>>
      [] t = "alive"                     -> <<cAlive, NL>>
      [] t = "set_sandbox_state"         -> <<cSandbox, NL>>
      [] t = "start_processing"          -> <<cStart, NL>>
      [] t = "gen_metadata"              -> <<cMeta, Count(Declared(p)), NL>> \o p
PyWrite == /\ py = "run" /\ pc <= Len(Script(mode)) /\ Script(mode)[pc].d = "w"
           /\ c2d' = c2d \o Wire(Script(mode)[pc].t)
           /\ file' = IF Script(mode)[pc].t = "start_receiving_env file" THEN Encode(env) ELSE file
           /\ pc' = pc + 1
           /\ UNCHANGED <<env, mode, py, d2c, d, need, shellEnv, heldEnv, evald>>
PyRead ==  /\ py = "run" /\ pc <= Len(Script(mode)) /\ Script(mode)[pc].d = "r" /\ d2c # <<>>
           /\ d2c' = Tail(d2c)
           /\ IF Head(d2c) = Script(mode)[pc].t THEN pc' = pc + 1 /\ py' = py ELSE pc' = pc /\ py' = "fail"
           /\ UNCHANGED <<env, mode, c2d, file, d, need, shellEnv, heldEnv, evald>>
PyDone ==  /\ py = "run" /\ pc > Len(Script(mode)) /\ py' = "done"
           /\ UNCHANGED <<env, mode, pc, c2d, d2c, file, d, need, shellEnv, heldEnv, evald>>

\* ---------------- daemon ----------------
HasLine == \E k \in DOMAIN c2d : c2d[k] = NL
LineEnd == CHOOSE k \in DOMAIN c2d : c2d[k] = NL /\ \A j \in 1..(k - 1) : c2d[j] # NL
Line == SubSeq(c2d, 1, LineEnd - 1)
AfterLine == SubSeq(c2d, LineEnd + 1, Len(c2d))
Die == /\ d' = "dead" /\ d2c' = Append(d2c, "dying") /\ UNCHANGED <<need, shellEnv, heldEnv, evald>>

DMain == /\ d = "main" /\ HasLine /\ c2d' = AfterLine
         /\ CASE Line = <<cProcess>> -> /\ d' = "phase" /\ shellEnv' = EmptyText
                                        /\ UNCHANGED <<need, d2c, heldEnv, evald>>
              [] Len(Line) = 2 /\ Line[1] = cMeta /\ Line[2] >= 1000
                                     -> /\ d' = "metaread" /\ need' = Line[2] - 1000 /\ shellEnv' = EmptyText
                                        /\ UNCHANGED <<d2c, heldEnv, evald>>
              [] Line = <<cAlive>>   -> /\ d2c' = Append(d2c, "yep!") /\ UNCHANGED <<d, need, shellEnv, heldEnv, evald>>
              [] OTHER               -> Die
         /\ UNCHANGED <<env, mode, pc, py, file>>

Eval(text, okReply, failReply, dNext) ==
    /\ evald' = evald \cup {text}
    /\ IF ~Decodable(text)
       THEN /\ d2c' = d2c \o failReply /\ d' = "main" /\ UNCHANGED <<shellEnv, heldEnv>>
       ELSE /\ shellEnv' = text /\ d2c' = d2c \o okReply /\ d' = dNext
            /\ heldEnv' = IF dNext = "main" THEN text ELSE heldEnv

DPhase == /\ d = "phase" /\ HasLine /\ c2d' = AfterLine
          /\ CASE Len(Line) = 2 /\ Line[1] = cBytes /\ Line[2] >= 1000
                                       -> /\ d' = "sizeread" /\ need' = Line[2] - 1000
                                          /\ UNCHANGED <<d2c, shellEnv, heldEnv, evald>>
               [] Line = <<cFile>>     -> /\ Eval(file, <<"env_received">>, <<"env_receiving_failed", "phases failed">>, "phase")
                                          /\ UNCHANGED need
               [] Line = <<cAlive>>    -> /\ d2c' = Append(d2c, "yep!") /\ UNCHANGED <<d, need, shellEnv, heldEnv, evald>>
               [] Line = <<cSandbox>>  -> UNCHANGED <<d, need, d2c, shellEnv, heldEnv, evald>>
               [] Line = <<cStart>>    -> /\ d' = "main" /\ heldEnv' = shellEnv /\ d2c' = Append(d2c, "phases succeeded")
                                          /\ UNCHANGED <<need, shellEnv, evald>>
               [] OTHER                -> Die
          /\ UNCHANGED <<env, mode, pc, py, file>>

\* the counted reader: blocks until `need` units are in the pipe, then takes exactly those
DSize == /\ d \in {"sizeread", "metaread"}
         /\ ~Starved(need, c2d, Unit)
         /\ LET e == TakeEnd(c2d, need, Unit)  text == SubSeq(c2d, 1, e) IN
            /\ c2d' = SubSeq(c2d, e + 1, Len(c2d))
            /\ IF d = "sizeread"
               THEN Eval(text, <<"env_received">>, <<"env_receiving_failed", "phases failed">>, "phase")
               ELSE Eval(text, <<"phases succeeded">>, <<"phases failed">>, "main")
         /\ UNCHANGED <<env, mode, pc, py, file, need>>

\* a finished sender (done or given up) idles: with deadlock checking on, a reported deadlock is
\* a genuinely stuck pair (sender waiting for a reply, reader waiting for bytes that never come)
Idle == py \in {"done", "fail"} /\ UNCHANGED vars
Next == PyWrite \/ PyRead \/ PyDone \/ DMain \/ DPhase \/ DSize \/ Idle
Spec == Init /\ [][Next]_vars /\ WF_vars(Next)

Arrives == py = "done" => heldEnv = Encode(env)
NoGarbage == evald \subseteq {Encode(env)}
Answered == <>(py = "done")
TypeOK == /\ py \in {"run", "fail", "done"} /\ d \in {"main", "phase", "sizeread", "metaread", "dead"}
          /\ pc \in 1..(Len(Script(mode)) + 1)
=============================================================================
