---------------------------- MODULE Helpers_Trace ----------------------------
(* Judge of recorded src_install scripts (C33).  Events of one script (tid), in order (i = 1..):
   {tid, i, eapi, pf, pn,
    op, path, mode, own, text, h, a  the step, as in Helpers_Cases (destination command or helper call)
    rc                       call: exit status of the helper executable (0 = accepted), -1 = it died
    img                      call: the image directory listed AFTER the call:
                             [{path, kind, mode, cid, lnk, lnkabs, lnkc, keep, ino}]           }
   The destination state is tracked with the operators of Helpers.tla, the image with what was
   OBSERVED after the previous call (re-synchronising), so every call of a script is judged. *)
EXTENDS Helpers, TraceLib
VARIABLES l, st, img

ImgOf(e) == {[path |-> o.path, kind |-> o.kind, mode |-> o.mode, cid |-> o.cid, lnk |-> o.lnk, lnkabs |-> o.lnkabs,
              lnkc |-> o.lnkc, keep |-> o.keep, ino |-> o.ino] : o \in AsSet(e.img)}

StepState(s, e) ==
    CASE e.op = "into"    -> SetInto(s, e.path)
      [] e.op = "insinto" -> SetInsinto(s, e.path)
      [] e.op = "exeinto" -> SetExeinto(s, e.path)
      [] e.op = "docinto" -> SetDocinto(s, e.path)
      [] e.op \in {"insopts", "exeopts", "diropts", "libopts"} -> SetMode(s, e.op, e.mode)
      [] OTHER -> s

Expected(s, prev, e) ==
    LET a == e.a IN
    IF e.h = "dohard" /\ Exists("dohard", e.eapi) /\ ~(Has(prev, Norm(a.src)) /\ At(prev, Norm(a.src)).kind = "file") THEN Unspec
    ELSE IF e.h = "dosym" /\ Has(prev, Norm(a.tgt)) /\ At(prev, Norm(a.tgt)).kind = "dir" THEN Reject
    ELSE Placement(e.h, e.eapi, s, a, [PF |-> e.pf, PN |-> e.pn])

Judge(s, prev, e) ==
    IF e.op # "call" THEN {}
    ELSE LET pl == Expected(s, prev, e) obs == ImgOf(e) IN
         CASE pl.status = "unspec" -> {"Unjudged_Unspec"}            \* markers: counted by the driver, never verdicts
           [] pl.status = "reject" -> IF e.rc = 0 THEN {"RejectForbidden"} ELSE {}
           [] OTHER -> IF ~Applicable(prev, pl.entries) THEN {"Unjudged_OutsideDomain"}
                       ELSE IF e.rc # 0 THEN {"AcceptValid"}
                       ELSE ImageClauses(prev, obs, pl.entries, pl.may, e.a)

TraceInit == l = 0 /\ st = DefaultState /\ img = {}
TraceNext == /\ l < Len(Tr)
             /\ l' = l + 1
             /\ LET e == Tr[l']
                    s == IF e.i = 1 THEN DefaultState ELSE st
                    prev == IF e.i = 1 THEN {} ELSE img
                IN /\ Report(e.tid, e.i, Judge(s, prev, e))
                   /\ st' = StepState(s, e)
                   /\ img' = IF e.op = "call" THEN ImgOf(e) ELSE prev
             /\ EndMark(l')
TraceSpec == TraceInit /\ [][TraceNext]_<<l, st, img>>
=========================================================================
