---------------------------- MODULE BoolTree_Trace ----------------------------
(* C06 judge.  Tr[1] is a header
     {tid:-1, i:0, ev:"universes", us:[{pk:[[leaf ids matching package 1], [..package 2], ...]}, ...]}
   holding, per universe (a set of packages or of values), the OBSERVED truth of every leaf
   restriction on every member.  Every other event is one real restriction tree:
     {tid, i, ev:"tree", u, t:<tree>, got:[member indices the real .match() accepted],
      forms:[{name, dnf:BOOL, st:"ok"|"refused"|"raised", cl:[[literal tree, ...], ...]}, ...]}
   Clauses:
     Match               tree.match(member) # Eval(t, observed leaf truth)      (every member)
     <name>_Equivalent   the clause list is not logically equivalent to t: all 2^n valuations
                         when t and the literals mention <= ExhLeaves leaves
     <name>_OnMembers    (larger trees) differs on the valuation of some member of the universe
     <name>_Raised       an exception other than the documented NotImplementedError refusal  *)
EXTENDS BoolTree, TraceLib
CONSTANT ExhLeaves
VARIABLE l
H == Tr[1]
Members(u) == DOMAIN H.us[u].pk
TruthOf(u, p) == AsSet(H.us[u].pk[p])

LitIds(cl) == UNION {UNION {LeafIds(cl[c][j]) : j \in DOMAIN cl[c]} : c \in DOMAIN cl}

\* clause lists stay sequences here (no sets of records to normalise: this is the hot path)
SeqDNF(cl, v) == \E c \in DOMAIN cl : \A j \in DOMAIN cl[c] : Eval(cl[c][j], v)
SeqCNF(cl, v) == \A c \in DOMAIN cl : \E j \in DOMAIN cl[c] : Eval(cl[c][j], v)
JudgeForm(e, f) ==
    IF f.st = "refused" THEN {}
    ELSE IF f.st # "ok" THEN {f.name \o "_Raised"}
    ELSE LET ids == LeafIds(e.t) \cup LitIds(f.cl)
             ev(v) == IF f.dnf THEN SeqDNF(f.cl, v) ELSE SeqCNF(f.cl, v)
         IN IF Cardinality(ids) <= ExhLeaves
            THEN (IF \A v \in SUBSET ids : ev(v) = Eval(e.t, v) THEN {} ELSE {f.name \o "_Equivalent"})
            ELSE (IF \A p \in Members(e.u) : ev(TruthOf(e.u, p)) = Eval(e.t, TruthOf(e.u, p))
                  THEN {} ELSE {f.name \o "_OnMembers"})

Judge(e) ==
    IF e.ev # "tree" THEN {"UnknownEvent"}
    ELSE IF ~WellFormed(e.t) THEN {"OutsideDomain"}
    ELSE (IF {p \in Members(e.u) : Eval(e.t, TruthOf(e.u, p))} = AsSet(e.got) THEN {} ELSE {"Match"})
         \cup UNION {JudgeForm(e, e.forms[k]) : k \in DOMAIN e.forms}

TraceInit == l = 1
TraceNext == /\ l < Len(Tr)
             /\ l' = l + 1
             /\ Report(Tr[l'].tid, Tr[l'].i, Judge(Tr[l']))
             /\ EndMark(l')
TraceSpec == TraceInit /\ [][TraceNext]_l
=========================================================================
