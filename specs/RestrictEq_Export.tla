---------------------------- MODULE RestrictEq_Export ----------------------------
(* spec -> code for C07: ordered pairs of restriction DESCRIPTIONS inside families of equal-looking
   variants.  A description is a record [fam, k, a, b, n, m, st] of symbolic fields; the driver
   renders each into an independently constructed pkgcore restriction:
     vm     _VersionMatch / VersionMatch      k: class, a: operator, b: version, n: negate
     str    StrExactMatch/StrGlobMatch/StrRegex  a: text, m: case sensitive, n: negate
     cont   ContainmentMatch / _UseDepDefaultContainment(if_missing +/-)  a: values (order varied),
            m: match_all, n: negate
     pkgr   CategoryDep vs PackageRestriction("category", StrExactMatch)  n: negate on the wrapper,
            m: negate on the value; SlotDep / RepositoryDep
     use    StaticUseDep / UseDepDefault(+/-)   a: disabled flags, b: enabled flags
     atom   a: base atom, b: slot/USE suffix (USE deps reordered), st: blocker "" "!" "!!", n: negate_vers
     bool   And/Or/JustOne/AtMostOne/KeyedAnd  a: child order, n: negate, m: how node_type is given
     depset REQUIRED_USE DepSets               a: text (members permuted / duplicated)
     func   FunctionRestriction / FlatteningRestriction  a: function, n: negate, st: argument style
     atomver / multi / prattr / cond / misc: see the definitions below
   Full = FALSE keeps a reduced value set per field (quick tier).                                   *)
EXTENDS TLC, Json, IOUtils, SequencesExt, Naturals
CONSTANT Full
D(fam, k, a, b, n, m, st) == [fam |-> fam, k |-> k, a |-> a, b |-> b, n |-> n, m |-> m, st |-> st]
B == BOOLEAN
Vm == {D("vm", k, a, b, n, FALSE, "") : k \in {"vm", "pvm"}, a \in {"<", "<=", "=", ">=", ">", "~"},
                                         b \in (IF Full THEN {"1.0", "1.0-r1", "2"} ELSE {"1.0", "1.0-r1"}), n \in B}
\* b = "alt": glob matches a suffix instead of a prefix, regex uses re.match instead of re.search
\* version restrictions the way atoms build them: version and Revision object taken from a parsed cpv (b: its spelling)
CVm == {D("vm", "cvm", a, b, n, FALSE, "") : a \in {"<", "<=", "=", ">=", ">", "~"}, b \in {"1.0", "1.0-r0", "1.0-r1", "1.0-r01"}, n \in (IF Full THEN B ELSE {FALSE})}
Str == {D("str", k, a, b, n, m, "") : k \in {"exact", "glob", "regex"}, a \in (IF Full THEN {"a", "A", "ab"} ELSE {"a", "A"}), b \in {"", "alt"}, n \in B, m \in B}
Cont == {D("cont", k, a, "", n, m, "") : k \in {"cm"}, a \in {"a", "a,b", "b,a"}, n \in B, m \in B}
        \cup {D("cont", k, a, "", n, TRUE, "") : k \in {"udc+", "udc-"}, a \in {"a", "a,b", "b,a"}, n \in B}
Pkgr == {D("pkgr", k, a, "", n, m, "") : k \in {"catdep", "pkgr"}, a \in {"dev-util", "dev-lib"}, n \in B, m \in B}
        \cup {D("pkgr", k, a, "", n, FALSE, "") : k \in {"slotdep", "repodep"}, a \in {"0", "1"}, n \in B}
Use == {D("use", k, a, b, FALSE, FALSE, "") : k \in {"static", "default+", "default-"}, a \in {"", "x", "x,y", "y,x"}, b \in {"", "y", "x"}}
AtomBases == IF Full THEN {"c/p", "=c/p-1.0", "~c/p-1.0", ">=c/p-1.0"} ELSE {"c/p", "~c/p-1.0"}
AtomSuffixes == IF Full THEN {"", ":0", "[a,b]", "[b,a]", "[-a,b]", "[b,-a]", ":0[a]", "[a(+),b]", "[b,a(+)]", "[a(-),b]"}
                ELSE {"", "[a,b]", "[b,a]", "[b,-a]", "[a(+),b]", "[a(-),b]"}
Atom == {D("atom", "atom", a, b, n, FALSE, st) : a \in AtomBases, b \in AtomSuffixes, n \in (IF Full THEN B ELSE {FALSE}), st \in {"", "!", "!!"}}
Bool == {D("bool", k, a, "", n, m, "") : k \in {"and", "or", "one", "amo", "keyed"}, a \in {"12", "21", "11", "1"}, n \in B, m \in (IF Full THEN B ELSE {FALSE})}
Depset == {D("depset", "ru", a, "", FALSE, FALSE, "") : a \in {"a b", "b a", "a a", "a", "^^ ( a b ) c", "c ^^ ( a b )", "|| ( a b )",
                                                                "|| ( b a )", "a? ( b )", "a? ( b ) c", "c a? ( b )", "?? ( a b )", "?? ( b a )"}}
Func == {D("func", k, a, "", n, FALSE, st) : k \in {"func", "flat"}, a \in {"f", "g"}, n \in B, st \in {"pos", "kw"}}

\* atoms that differ only in the SPELLING of one version, under every operator (a: operator, b: spelling)
AtomVer == {D("atomver", "atom", a, b, n, FALSE, "") : a \in {"=", "~", ">=", ">", "<=", "<", "=*"}, b \in {"1.0", "1.00", "1.0-r0", "1", "1-r0"},
                                                      n \in (IF Full THEN B ELSE {FALSE})}
\* PackageRestrictionMulti: a: attribute tuple (permuted / differing), b: child restriction, n: negate
Multi == {D("multi", "multi", a, b, n, FALSE, "") : a \in {"category,package", "package,category", "slot,subslot", "subslot,slot", "category,slot", "category"},
                                                     b \in {"first", "any"}, n \in B}
\* PackageRestriction / GetAttrRestriction: a: attribute, b: value, n: negate, m: ignore_missing
PrAttr == {D("prattr", k, a, b, n, m, "") : k \in {"pr", "getattr"}, a \in (IF Full THEN {"category", "package", "slot"} ELSE {"category", "slot"}),
                                             b \in {"dev-util", "0"}, n \in B, m \in B}
\* Conditional: a: flag of the condition, b: payload members (order varied), n: negate
Cond == {D("cond", "cond", a, b, n, FALSE, "") : a \in {"a", "b"}, b \in {"1", "2", "12", "21"}, n \in B}
\* the remaining classes: EqualityMatch, AnyMatch, AlwaysBool, ContainmentMatch2, SubSlotDep, PackageDep, Negate, FakeType
Misc == {D("misc", k, a, "", n, FALSE, "") : k \in {"eqm", "anym", "always", "cm2", "subslot", "pkgdep", "negate", "faketype"}, a \in {"0", "1"}, n \in B}

Fams == <<Vm, CVm, Str, Cont, Pkgr, Use, Atom, Bool, Depset, Func, AtomVer, Multi, PrAttr, Cond, Misc>>
\* pairs inside a family; version-match and atom pairs only inside the same class / base atom
Related(x, y) == CASE x.fam = "vm" -> x.k = y.k /\ (x.b = y.b \/ x.k = "cvm")
                   [] x.fam = "atom" -> x.a = y.a
                   [] x.fam = "func" -> x.k = y.k
                   [] x.fam = "atomver" -> x.a = y.a
                   [] x.fam = "misc" -> x.k = y.k
                   [] OTHER -> TRUE
Cases == UNION {{[x |-> x, y |-> y] : <<x, y>> \in {p \in Fams[i] \X Fams[i] : Related(p[1], p[2])}} : i \in DOMAIN Fams}
ASSUME ndJsonSerialize(IOEnv.OUT, SetToSeq(Cases))
=========================================================================
