---------------------------- MODULE EclassAccum_Trace ----------------------------
(* code -> spec: one event per regenerated package
     {tid, i, eapi, prog:{eb:[stmt], ecl:{a:[stmt], b:[stmt], c:[stmt]}}, failed,
      keys:[{k, toks}]   raw metadata values split at whitespace (a missing key = no tokens),
      inherited:[names], phases:[phase function names], dash: DEFINED_PHASES was "-"}
   The expected values are computed here from the program with the operators of EclassAccum. *)
EXTENDS EclassAccum, TraceLib
VARIABLE l

ObsToks(e, v) == LET hits == {k \in DOMAIN e.keys : e.keys[k].k = v} IN
                 IF hits = {} THEN <<>> ELSE e.keys[CHOOSE k \in hits : TRUE].toks
KeyClause(eapi, v) == (IF v \in IncrKeys(eapi) THEN "Accumulate_" ELSE "EbuildFinal_") \o v

Judge(e) ==
    IF ~WellFormed(e.prog) THEN {"OutsideDomain"}
    ELSE IF e.failed THEN {"RegenFailed"}
    ELSE {KeyClause(e.eapi, v) : v \in {x \in JudgedKeys(e.eapi) : ~SameBag(ObsToks(e, x), ExpKey(e.prog, e.eapi, x))}}
         \cup (IF AsSet(e.inherited) = ExpInherited(e.prog) THEN {} ELSE {"Inherited"})
         \cup (IF AsSet(e.phases) = ExpPhases(e.prog, e.eapi) THEN {} ELSE {"DefinedPhases"})
         \cup (IF e.dash <=> (ExpPhases(e.prog, e.eapi) = {}) THEN {} ELSE {"DefinedPhasesDash"})

TraceInit == l = 0
TraceNext == /\ l < Len(Tr)
             /\ l' = l + 1
             /\ Report(Tr[l'].tid, Tr[l'].i, Judge(Tr[l']))
             /\ EndMark(l')
TraceSpec == TraceInit /\ [][TraceNext]_l
=============================================================================
