---------------------------- MODULE ConfiguredPkg_Sim ----------------------------
(* spec -> code (C14): TLC (simulation mode) chooses histories over SimFlags: an initial USE set,
   then enable / disable requests (1-2 flags, locked ones included), rollbacks to an earlier
   change count, commits; after every operation a spec-chosen subset of the wrapped attributes
   is read.  Only the INPUTS are recorded in hist; outcomes are recomputed from what the real
   PackageWrapper showed by ConfiguredPkg_Trace.  The state is advanced with the
   LimitedChangeSet semantics (exact = FALSE, open point "skip") so that rollback points stay
   meaningful.                                                                              *)
EXTENDS ConfiguredPkg, TLC, SequencesExt
CONSTANTS SimFlags, Attrs, D
VARIABLES s, hist, done
A(op, vs, n, reads) == [op |-> op, vs |-> vs, n |-> n, reads |-> SetToSeq(reads)]
Vs == {<<f>> : f \in SimFlags} \cup {<<f, g>> : <<f, g>> \in {x \in SimFlags \X SimFlags : x[1] # x[2]}}
SimInit == \E u \in SUBSET SimFlags, rd \in SUBSET Attrs :
             s = [use |-> u, log |-> <<>>] /\ hist = <<A("init", SetToSeq(u), 0, rd)>> /\ done = FALSE
\* (TLC evaluates invariants on EVERY successor it generates, also in simulation mode: the history is
\*  printed from the single successor of a finished history, so each behaviour is printed once)
Finish  == Len(hist) = D /\ ~done /\ done' = TRUE /\ UNCHANGED <<s, hist>>
Step    == /\ Len(hist) < D /\ UNCHANGED done
           /\ \E rd \in SUBSET Attrs :
              \/ \E kind \in {"enable", "disable"}, vs \in Vs :
                   s' = Request(s, kind, vs, "skip", FALSE).s /\ hist' = Append(hist, A(kind, vs, 0, rd))
              \/ \E n \in 0..Len(s.log) : s' = RollbackTo(s, n, FALSE) /\ hist' = Append(hist, A("rollback", <<>>, n, rd))
              \/ s' = DoCommit(s) /\ hist' = Append(hist, A("commit", <<>>, 0, rd))
SimNext == Step \/ Finish
SimSpec == SimInit /\ [][SimNext]_<<s, hist, done>>
Emit == ~done \/ PrintT(<<"BEH", hist>>)
=========================================================================
