---------------------------- MODULE RequiredUse_MC ----------------------------
(* Design check for C10: a preference-first backtracking enumeration.  For EVERY constraint up to
   MaxNodes nodes over FlagSet and EVERY (iuse, forced-on, forced-off, preferred) in the domain, the
   search assigns the unassigned variables in ANY order (the solver's degree/MRV heuristic is free),
   tries the preferred value of a variable first, may abandon a partial assignment that has no
   satisfying completion (forward checking), and emits every satisfying total assignment.
   TLC checks: emitted assignments are sound and respect forced / foreign flags, nothing is
   emitted twice, at the end everything satisfying was emitted, and the preferred assignment, when
   it satisfies the constraint, is the first one emitted.                                      *)
EXTENDS RequiredUse, TLC
CONSTANTS FlagSet, MaxNodes

VARIABLES cons, cf, stack, out, mode
vars == <<cons, cf, stack, out, mode>>

RULeaves == {Leaf(f, neg) : <<f, neg>> \in FlagSet \X BOOLEAN}
Constraints == ForestsUpTo(RULeaves, GroupKinds, FlagSet, MaxNodes)
Configs == {c \in [iuse : SUBSET FlagSet, ft : SUBSET FlagSet, ff : SUBSET FlagSet, pt : SUBSET FlagSet] :
              InDomain(c.iuse, c.ft, c.ff)}

Holds(on)   == HoldsClassical(cons, on)          \* the reading the solver compiles
Vars        == cf.iuse \cup Named(cons)
\* values a variable may take, preferred one first
Dom(v) == IF v \notin cf.iuse \/ v \in cf.ff THEN <<FALSE>>
          ELSE IF v \in cf.ft THEN <<TRUE>>
          ELSE IF v \in cf.pt THEN <<TRUE, FALSE>> ELSE <<FALSE, TRUE>>
Assigned == {stack[k].v : k \in DOMAIN stack}
OnOf(st) == {st[k].v : k \in {j \in DOMAIN st : st[j].val}}
\* can the partial assignment still be completed to something satisfying?
Completable == \E ext \in SUBSET (Vars \ Assigned) :
                 /\ \A v \in ext : \E k \in DOMAIN Dom(v) : Dom(v)[k] = TRUE
                 /\ \A v \in (Vars \ Assigned) \ ext : \E k \in DOMAIN Dom(v) : Dom(v)[k] = FALSE
                 /\ Holds(OnOf(stack) \cup ext)

Init == /\ cons \in Constraints /\ cf \in Configs
        /\ stack = <<>> /\ out = <<>> /\ mode = "down"
Descend == /\ mode = "down" /\ Assigned # Vars
           /\ \E v \in Vars \ Assigned :
                stack' = Append(stack, [v |-> v, val |-> Dom(v)[1], alt |-> Len(Dom(v)) = 2])
           /\ UNCHANGED <<cons, cf, out, mode>>
Emit    == /\ mode = "down" /\ Assigned = Vars
           /\ out' = IF Holds(OnOf(stack)) THEN Append(out, OnOf(stack)) ELSE out
           /\ mode' = "up" /\ UNCHANGED <<cons, cf, stack>>
Prune   == /\ mode = "down" /\ Assigned # Vars /\ ~Completable
           /\ mode' = "up" /\ UNCHANGED <<cons, cf, stack, out>>
Up      == /\ mode = "up"
           /\ IF stack = <<>> THEN mode' = "done" /\ UNCHANGED stack
              ELSE LET top == stack[Len(stack)] IN
                   IF top.alt
                   THEN /\ stack' = [stack EXCEPT ![Len(stack)] = [v |-> top.v, val |-> ~top.val, alt |-> FALSE]]
                        /\ mode' = "down"
                   ELSE stack' = SubSeq(stack, 1, Len(stack) - 1) /\ mode' = "up"
           /\ UNCHANGED <<cons, cf, out>>
Next == Descend \/ Emit \/ Prune \/ Up
Spec == Init /\ [][Next]_vars

OutSet == {out[k] : k \in DOMAIN out}
Want   == {on \in Candidates(cf.iuse, cf.ft, cf.ff) : Holds(on)}
InvSound      == \A k \in DOMAIN out : /\ Holds(out[k])
                                       /\ (cf.ft \cap cf.iuse) \subseteq out[k] /\ out[k] \cap cf.ff = {}
                                       /\ out[k] \subseteq cf.iuse
InvOnce       == \A j, k \in DOMAIN out : j # k => out[j] # out[k]
InvComplete   == mode = "done" => OutSet = Want
InvPreferred  == LET p == Preferred(cf.iuse, cf.ft, cf.ff, cf.pt) IN
                 /\ (out # <<>> /\ Holds(p) => out[1] = p)
                 /\ (mode = "done" /\ Holds(p) => out # <<>>)
\* where the two readings agree, the emitted set is the specified solution set
InvSpecified  == mode = "done" =>
                   \A on \in Candidates(cf.iuse, cf.ft, cf.ff) :
                      Status(cons, on) # "unspec" => ((on \in OutSet) = (Status(cons, on) = "sat"))
=========================================================================
