---------------------------- MODULE ListChange_MC ----------------------------
EXTENDS ListChange, TLC
(* ---- a bug's list field under a history of updates (state machine) ---- *)
VARIABLES field, pendingc   \* field: server-side list; pendingc: combined, not yet sent change
vars == <<field, pendingc>>
Init == field \in SUBSET Vals /\ pendingc = AddRem({}, {})
Queue(c) == /\ pendingc' = Compose(pendingc, c) /\ UNCHANGED field
Send == /\ field' = Apply(pendingc, field) /\ pendingc' = AddRem({}, {})
Next == (\E c \in Changes : Queue(c)) \/ Send
Spec == Init /\ [][Next]_vars
TypeOK == field \subseteq Vals /\ pendingc \in Changes

\* history of queued changes: sending the combination equals sending one by one
VARIABLE shadow          \* field as it would be had every change been sent on its own
MCInit == Init /\ shadow = field
MCQueue(c) == Queue(c) /\ shadow' = Apply(c, shadow)
MCSend == Send /\ UNCHANGED shadow
MCNext == (\E c \in Changes : MCQueue(c)) \/ MCSend
MCSpec == MCInit /\ [][MCNext]_<<vars, shadow>>
\* the invariant that makes combined updates safe
CombinedEqualsSequential == Apply(pendingc, field) = shadow
=========================================================================
