---------------------------- MODULE Helpers_Cases ----------------------------
(* C33, spec -> code: the bounded space of src_install scripts replayed through the real
   helper executables.  A script is [eapi, tag, steps]; a step is a destination command
   (into/insinto/exeinto/docinto PATH, insopts/exeopts/diropts/libopts -mMODE) or a helper call.
   The working directory holds exactly the items the script's calls mention.               *)
EXTENDS Helpers

It(pre, name, kind, cid, lnk, tree, stem, lang, sec, ext) ==
    [pre |-> pre, name |-> name, kind |-> kind, cid |-> cid, lnk |-> lnk, tree |-> tree, stem |-> stem, lang |-> lang,
     sec |-> sec, ext |-> ext]
TF(rel, cid, ext) == [rel |-> rel, kind |-> "file", cid |-> cid, lnk |-> "", ext |-> ext]
TD(rel) == [rel |-> rel, kind |-> "dir", cid |-> "", lnk |-> "", ext |-> ""]
TL(rel, lnk) == [rel |-> rel, kind |-> "sym", cid |-> "", lnk |-> lnk, ext |-> ""]
PlainFile(pre, name, cid, ext) == It(pre, name, "file", cid, "", <<>>, "", "", "", ext)

F1 == PlainFile(<<>>, "a.txt", "ca", "txt")
F2 == PlainFile(<<"sub">>, "x.txt", "cx", "txt")
D1 == It(<<>>, "sub", "dir", "", "", <<TF(<<"x.txt">>, "cx", "txt"), TD(<<"deep">>), TF(<<"deep", "z.css">>, "cz", "css"),
                                       TF(<<"deep", "n.html">>, "cn", "html"), TD(<<"empty">>), TL(<<"dl">>, "deep")>>, "", "", "", "")
L1 == It(<<>>, "lnk", "sym", "", "a.txt", <<>>, "", "", "", "")
X1 == It(<<>>, "nope", "missing", "", "", <<>>, "", "", "", "")
Man(stem, lang, sec, cid) == It(<<>>, IF lang = "" THEN (IF sec = "" THEN stem ELSE stem \o "." \o sec) ELSE stem \o "." \o lang \o "." \o sec,
                                "file", cid, "", <<>>, stem, lang, sec, "")
M1 == Man("foo", "", "1", "m1")
M2 == Man("foo", "de", "1", "m2")
M3 == Man("foo", "pt_BR", "3", "m3")
M4 == Man("git-log", "de", "1", "m4")
M5 == Man("bar", "", "", "m5")
M6 == Man("baz", "", "n", "m6")
Mo1 == It(<<>>, "de.mo", "file", "o1", "", <<>>, "de", "", "", "mo")
Mo2 == It(<<>>, "pt_BR.mo", "file", "o2", "", <<>>, "pt_BR", "", "", "mo")
H1 == PlainFile(<<>>, "idx.html", "h1", "html")
H2 == PlainFile(<<>>, "pic.png", "h2", "png")
H3 == PlainFile(<<>>, "notes.txt", "h3", "txt")

A0 == [items |-> <<>>, rec |-> FALSE, i18n |-> "", dirs |-> <<>>, src |-> <<>>, srcabs |-> TRUE, srctext |-> "",
       tgt |-> <<>>, tgtslash |-> FALSE, rel |-> FALSE, hx |-> <<>>]
Items(s, r) == [A0 EXCEPT !.items = s, !.rec = r]
\* own: ownership options given together with the mode ("" none, "o" -o0, "g" -g0, "og" both); ownership
\* itself is not judged (the checks run as root) but the requested mode must survive it
\* text: the mode written symbolically (install -m TEXT); "" = written as the octal number.  mode is what
\* TEXT means for a new file / directory (symbolic modes of install start from 0): see SymModes.
DestOp(op, path) == [op |-> op, path |-> path, mode |-> 0, own |-> "", text |-> "", h |-> "-", a |-> A0]
ModeOwn(op, m, own) == [op |-> op, path |-> <<>>, mode |-> m, own |-> own, text |-> "", h |-> "-", a |-> A0]
ModeOp(op, m)    == ModeOwn(op, m, "")
ModeSym(op, sm)  == [op |-> op, path |-> <<>>, mode |-> sm[2], own |-> "", text |-> sm[1], h |-> "-", a |-> A0]
CallOp(h, a)     == [op |-> "call", path |-> <<>>, mode |-> 0, own |-> "", text |-> "", h |-> h, a |-> a]
SymRX == <<"a+rx", 365>>                \* 0555
SymDir == <<"u=rwx,g=rx,o=", 488>>      \* 0750
SymRW == <<"u=rw,go=r", 420>>           \* 0644
SymPriv == <<"u=rwx,go=", 448>>         \* 0700
\* umask of the process that runs the phase (decimal; 18 = 022): PMS modes do not depend on it
ScriptU(eapi, tag, steps, um) == [eapi |-> eapi, tag |-> tag, steps |-> steps, umask |-> um]
Script(eapi, tag, steps) == ScriptU(eapi, tag, steps, 18)

\* argument vectors: one or two distinct items
Vecs(U) == {<<x>> : x \in U} \cup {<<u[1], u[2]>> : u \in {v \in U \X U : v[1] # v[2]}}
Gen == {F1, F2, D1, L1, X1}
M600 == 384
M700 == 448

Doins == {Script(e, "doins", pre \o <<CallOp("doins", Items(v, r))>>) :
            e \in {3, 4, 8}, v \in Vecs(Gen), r \in BOOLEAN,
            pre \in {<<DestOp("insinto", <<"etc", "x">>)>>, <<DestOp("insinto", <<>>)>>,
                     <<DestOp("insinto", <<"etc", "x">>), ModeOp("insopts", M600), ModeOp("diropts", M700)>>}}
Doexe == {Script(e, "doexe", pre \o <<CallOp("doexe", Items(v, FALSE))>>) :
            e \in {0, 8}, v \in {<<F1>>, <<F1, F2>>, <<D1>>, <<X1>>},
            pre \in {<<DestOp("exeinto", <<"opt", "e">>)>>, <<DestOp("exeinto", <<"opt", "e">>), ModeOp("exeopts", M700)>>}}
IntoPre == {<<>>, <<DestOp("into", <<"opt", "x">>)>>, <<DestOp("into", <<>>)>>}
Bins == {Script(e, h, pre \o <<CallOp(h, Items(v, FALSE))>>) :
            h \in {"dobin", "dosbin", "dolib.so", "dolib.a"}, e \in {0, 8}, v \in {<<F1>>, <<F1, F2>>, <<D1>>, <<X1>>, <<F1, X1>>}, pre \in IntoPre}
Dolib == {Script(e, "dolib", pre \o <<CallOp("dolib", Items(v, FALSE))>>) :
            e \in {6, 7}, v \in {<<F1>>, <<F1, F2>>, <<X1>>}, pre \in IntoPre \cup {<<ModeOp("libopts", M600)>>}}
Dodoc == {Script(e, "dodoc", pre \o <<CallOp("dodoc", Items(v, r))>>) :
            e \in {3, 4, 8}, v \in Vecs(Gen \ {L1}), r \in BOOLEAN,
            pre \in {<<>>, <<DestOp("docinto", <<"sub2">>)>>, <<DestOp("docinto", <<"a", "b">>)>>}}
Doman == {Script(e, "doman", <<CallOp("doman", [Items(v, FALSE) EXCEPT !.i18n = l])>>) :
            e \in {1, 2, 3, 4, 8}, l \in {"", "de"},
            v \in {<<M1>>, <<M2>>, <<M3>>, <<M4>>, <<M5>>, <<M6>>, <<M1, M2>>, <<M3, M6>>, <<M1, M5>>, <<X1>>}}
Domo == {Script(e, "domo", pre \o <<CallOp("domo", Items(v, FALSE))>>) :
            e \in {6, 7, 8}, v \in {<<Mo1>>, <<Mo1, Mo2>>, <<X1>>}, pre \in IntoPre}
Dohtml == {Script(e, "dohtml", <<CallOp("dohtml", [Items(v, r) EXCEPT !.hx = x])>>) :
            e \in {5, 6, 7}, r \in BOOLEAN, x \in {<<>>, <<"txt">>},
            v \in {<<H1>>, <<H1, H2, H3>>, <<H3>>, <<D1>>, <<H1, D1>>, <<X1>>}}
DirVecs == {<< <<"var", "k">> >>, << <<"var", "k">>, <<"var", "j", "deep">> >>, << <<"var", "", "k", ".">> >>, << <<"etc">> >>}
Dodirs == {Script(e, h, pre \o <<CallOp(h, [A0 EXCEPT !.dirs = d])>>) :
            h \in {"dodir", "keepdir"}, e \in {0, 8}, d \in DirVecs, pre \in {<<>>, <<ModeOp("diropts", M700)>>}}
SymCall(srctext, src, abs, tgt, slash, rel) ==
    CallOp("dosym", [A0 EXCEPT !.srctext = srctext, !.src = src, !.srcabs = abs, !.tgt = tgt, !.tgtslash = slash, !.rel = rel])
Dosym == {Script(e, "dosym", <<SymCall(s[1], s[2], s[3], t[1], t[2], r)>>) :
            e \in {7, 8}, r \in BOOLEAN,
            s \in {<<"/usr/bin/foo", <<"usr", "bin", "foo">>, TRUE>>, <<"foo", <<"foo">>, FALSE>>, <<"../x/y", <<"..", "x", "y">>, FALSE>>,
                   <<"/usr/lib/x", <<"usr", "lib", "x">>, TRUE>>, <<"/", <<>>, TRUE>>},
            t \in {<< <<"usr", "lib", "x", "bar">>, FALSE>>, << <<"bar">>, FALSE>>, << <<"usr", "lib", "x">>, TRUE>>}}
         \cup {Script(e, "dosym-dir", <<CallOp("dodir", [A0 EXCEPT !.dirs = << <<"usr", "lib", "x">> >>]),
                                        SymCall("foo", <<"foo">>, FALSE, <<"usr", "lib", "x">>, FALSE, FALSE)>>) : e \in {7, 8}}
         \cup {Script(8, "dosym-twice", <<SymCall("/a", <<"a">>, TRUE, <<"usr", "l">>, FALSE, r), SymCall("/b/c", <<"b", "c">>, TRUE, <<"usr", "l">>, FALSE, r)>>) : r \in BOOLEAN}
Dohard == {Script(e, "dohard", <<DestOp("insinto", <<"usr", "bin">>), CallOp("doins", Items(<<F1>>, FALSE)),
                                 CallOp("dohard", [A0 EXCEPT !.srctext = "/usr/bin/a.txt", !.src = <<"usr", "bin", "a.txt">>,
                                                            !.tgt = <<"usr", "lib", "h">>])>>) : e \in {3, 4}}
Twice == {Script(8, "twice", <<DestOp("insinto", <<"etc", "x">>), CallOp("doins", Items(v, TRUE)), CallOp("doins", Items(v, TRUE))>>)
            : v \in {<<F1>>, <<D1>>, <<L1>>}}
         \cup {Script(8, "twice", <<CallOp("dodoc", Items(<<D1>>, TRUE)), CallOp("dodoc", Items(<<D1>>, TRUE))>>)}

(* dosym -r where the link's directory and the source share a STRING prefix that is not a path prefix
   (lib / lib64, doc / doc-extra, li / lib, a / ab), next to sources really below / equal to that directory.
   Tags starting with "all-" are small and replayed completely even in the quick tier.                    *)
PrefixPairs == {
    << "/usr/lib64/libfoo.so.1", <<"usr", "lib64", "libfoo.so.1">>, <<"usr", "lib", "libfoo.so">> >>,
    << "/usr/share/doc-extra/x", <<"usr", "share", "doc-extra", "x">>, <<"usr", "share", "doc", "y">> >>,
    << "/usr/lib/sub/x", <<"usr", "lib", "sub", "x">>, <<"usr", "lib", "y">> >>,
    << "/usr/lib", <<"usr", "lib">>, <<"usr", "lib", "y">> >>,
    << "/usr/li/x", <<"usr", "li", "x">>, <<"usr", "lib", "y">> >>,
    << "/ab/c", <<"ab", "c">>, <<"a", "l">> >>,
    << "/usr/libx", <<"usr", "libx">>, <<"usr", "lib", "y">> >> }
DosymPrefix == {Script(8, "all-dosym-prefix", <<SymCall(p[1], p[2], TRUE, p[3], FALSE, TRUE)>>) : p \in PrefixPairs}

(* set-uid / set-gid / sticky modes combined with owner / group options, for every helper that takes
   insopts / exeopts / diropts / libopts                                                              *)
M4755 == 2541
M2755 == 1517
M6711 == 3529
M1755 == 1005
M2750 == 1512
M1777 == 1023
M2775 == 1533
SetIdFixed == {
    Script(8, "all-setid", <<DestOp("insinto", <<"etc", "x">>), ModeOwn("insopts", M4755, "og"), CallOp("doins", Items(<<F1>>, FALSE))>>),
    Script(8, "all-setid", <<DestOp("insinto", <<"etc", "x">>), ModeOwn("insopts", M6711, "o"), ModeOwn("diropts", M2750, "og"),
                             CallOp("doins", Items(<<D1, F1>>, TRUE))>>),
    Script(8, "all-setid", <<DestOp("exeinto", <<"opt", "e">>), ModeOwn("exeopts", M4755, "og"), CallOp("doexe", Items(<<F1>>, FALSE))>>),
    Script(0, "all-setid", <<DestOp("exeinto", <<"opt", "e">>), ModeOwn("exeopts", M2755, "g"), CallOp("doexe", Items(<<F1, F2>>, FALSE))>>),
    Script(6, "all-setid", <<ModeOwn("libopts", M2755, "og"), CallOp("dolib", Items(<<F1>>, FALSE))>>),
    Script(8, "all-setid", <<ModeOwn("diropts", M1777, "og"), CallOp("dodir", [A0 EXCEPT !.dirs = << <<"var", "k">> >>])>>),
    Script(8, "all-setid", <<ModeOwn("diropts", M2775, "g"), CallOp("keepdir", [A0 EXCEPT !.dirs = << <<"var", "k">>, <<"var", "j">> >>])>>) }
SetIdModes == {M4755, M2755, M6711, M1755}
SetId == {Script(8, "setid", <<DestOp("insinto", <<"etc", "x">>), ModeOwn("insopts", m, o), CallOp("doins", Items(<<F1>>, FALSE))>>) : m \in SetIdModes, o \in {"", "o", "g", "og"}}
    \cup {Script(8, "setid", <<DestOp("insinto", <<"etc", "x">>), ModeOwn("diropts", m, o), CallOp("doins", Items(<<D1>>, TRUE))>>) : m \in {M2750, M1777, M2775}, o \in {"", "o", "g", "og"}}
    \cup {Script(8, "setid", <<DestOp("exeinto", <<"opt", "e">>), ModeOwn("exeopts", m, o), CallOp("doexe", Items(<<F1>>, FALSE))>>) : m \in SetIdModes, o \in {"", "o", "g", "og"}}
    \cup {Script(6, "setid", <<ModeOwn("libopts", m, o), CallOp("dolib", Items(<<F1>>, FALSE))>>) : m \in SetIdModes, o \in {"", "o", "g", "og"}}
    \cup {Script(8, "setid", <<ModeOwn("diropts", m, o), CallOp(h, [A0 EXCEPT !.dirs = << <<"var", "k">> >>])>>) : h \in {"dodir", "keepdir"}, m \in {M2750, M1777, M2775}, o \in {"", "o", "g", "og"}}

(* several requests to the same helper object, with identical and with changing options, symbolic modes
   (served by the external `install`) included                                                        *)
Exe == DestOp("exeinto", <<"opt", "e">>)
Ins == DestOp("insinto", <<"etc", "x">>)
F3 == PlainFile(<<>>, "b.txt", "cb", "txt")
DirCall(h, d) == CallOp(h, [A0 EXCEPT !.dirs = <<d>>])
Repeat == {
    Script(8, "all-repeat", <<Exe, ModeSym("exeopts", SymRX), CallOp("doexe", Items(<<F1>>, FALSE)), CallOp("doexe", Items(<<F3>>, FALSE)),
                              CallOp("doexe", Items(<<F2>>, FALSE))>>),
    Script(8, "all-repeat", <<Exe, ModeSym("exeopts", SymRX), CallOp("doexe", Items(<<F1>>, FALSE)), ModeOp("exeopts", M700),
                              CallOp("doexe", Items(<<F3>>, FALSE)), ModeSym("exeopts", SymPriv), CallOp("doexe", Items(<<F2>>, FALSE))>>),
    Script(8, "all-repeat", <<Exe, ModeOp("exeopts", M700), CallOp("doexe", Items(<<F1>>, FALSE)), ModeSym("exeopts", SymRX),
                              CallOp("doexe", Items(<<F3>>, FALSE)), CallOp("doexe", Items(<<F2>>, FALSE))>>),
    Script(8, "all-repeat", <<ModeSym("diropts", SymDir), DirCall("dodir", <<"a">>), DirCall("dodir", <<"b">>), DirCall("keepdir", <<"c">>),
                              DirCall("keepdir", <<"d">>)>>),
    Script(8, "all-repeat", <<ModeSym("diropts", SymDir), DirCall("dodir", <<"a">>), ModeOp("diropts", M700), DirCall("dodir", <<"b">>),
                              ModeSym("diropts", SymDir), DirCall("dodir", <<"c">>)>>),
    Script(8, "all-repeat", <<Ins, ModeSym("insopts", SymRW), CallOp("doins", Items(<<F1>>, FALSE)), CallOp("doins", Items(<<F3>>, FALSE)),
                              ModeOp("insopts", M600), CallOp("doins", Items(<<F2>>, FALSE))>>),
    Script(8, "all-repeat", <<Ins, ModeSym("insopts", SymPriv), ModeSym("diropts", SymDir), CallOp("doins", Items(<<D1>>, TRUE)),
                              CallOp("doins", Items(<<F1>>, FALSE)), ModeOp("diropts", M755), CallOp("doins", Items(<<F3>>, FALSE))>>),
    Script(6, "all-repeat", <<ModeSym("libopts", SymRX), CallOp("dolib", Items(<<F1>>, FALSE)), CallOp("dolib", Items(<<F3>>, FALSE))>>),
    Script(8, "all-repeat", <<CallOp("dodoc", Items(<<F1>>, FALSE)), CallOp("dodoc", Items(<<X1>>, FALSE)), CallOp("dodoc", Items(<<D1>>, TRUE)),
                              CallOp("dodoc", Items(<<F3>>, FALSE))>>),
    Script(8, "all-repeat", <<Ins, CallOp("doins", Items(<<X1>>, TRUE)), CallOp("doins", Items(<<D1>>, TRUE)), CallOp("doins", Items(<<D1, F1>>, TRUE))>>) }

(* doman -i18n together with language-suffixed and unsuffixed pages of the same base name *)
ManI18nCases == {Script(e, "all-doman-i18n", <<CallOp("doman", [Items(v, FALSE) EXCEPT !.i18n = "fr"])>>) :
                e \in {4, 8}, v \in {<<M1, M2>>, <<M2, M1>>, <<M2>>, <<M3, M6>>}}

(* a restrictive umask: the modes PMS prescribes are absolute *)
Umask == {ScriptU(8, "all-umask", s, 63) : s \in {
            <<CallOp("dodoc", Items(<<F1>>, FALSE))>>, <<CallOp("dodoc", Items(<<D1>>, TRUE))>>, <<CallOp("doman", Items(<<M1, M2>>, FALSE))>>,
            <<CallOp("domo", Items(<<Mo1>>, FALSE))>>, <<Ins, CallOp("doins", Items(<<F1, D1>>, TRUE))>>,
            <<Exe, CallOp("doexe", Items(<<F1>>, FALSE))>>, <<CallOp("dobin", Items(<<F1>>, FALSE))>>,
            <<CallOp("dolib.a", Items(<<F1>>, FALSE))>>, <<DirCall("dodir", <<"var", "k">>), DirCall("keepdir", <<"var", "j">>)>>}}
         \cup {ScriptU(6, "all-umask", <<CallOp("dohtml", Items(<<H1, D1>>, TRUE))>>, 63)}

Cases == Repeat \cup ManI18nCases \cup Umask \cup DosymPrefix \cup SetIdFixed \cup SetId \cup Doins \cup Doexe \cup Bins \cup Dolib \cup Dodoc \cup Doman \cup Domo \cup Dohtml \cup Dodirs \cup Dosym \cup Dohard \cup Twice
=========================================================================
