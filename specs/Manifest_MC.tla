---------------------------- MODULE Manifest_MC ----------------------------
(* Design check for C28 at the level of whole Manifests: the package directory changes (files are
   added, edited, removed), update() regenerates the Manifest, a crash may interrupt the write.
     Variant "atomic"  : the write installs the new text in one step (temp + rename: the protocol is
                         model-checked over FsModel in AtomicFile_MC)
     Variant "inplace" : open(path, "w") truncates first, then writes (the unpatched code)
   A directory state is a function file -> version (0 = absent); by the laws of Manifest_Laws the
   generated text is an injective function of it, so the text is represented by the state itself;
   "trunc" stands for the truncated / partially written file.                                     *)
EXTENDS Naturals, FiniteSets, TLC
CONSTANTS Files, MaxVer, Variant
VARIABLES dir, disk, pc, writes, gens
vars == <<dir, disk, pc, writes, gens>>
Zero    == [f \in Files |-> 0]
Text(d) == [k |-> "text", d |-> d]
None    == [k |-> "none", d |-> Zero]
Trunc   == [k |-> "trunc", d |-> Zero]
Init == dir = Zero /\ disk = None /\ pc = "idle" /\ writes = 0 /\ gens = {None}
Edit == /\ pc = "idle" /\ \E f \in Files, v \in 0..MaxVer : v # dir[f] /\ dir' = [dir EXCEPT ![f] = v]
        /\ UNCHANGED <<disk, pc, writes, gens>>
\* update(): compare, and only when the text differs start writing
Begin == /\ pc = "idle" /\ disk # Text(dir) /\ pc' = "writing" /\ gens' = gens \cup {Text(dir)}
         /\ disk' = IF Variant = "inplace" THEN Trunc ELSE disk
         /\ writes' = writes + 1 /\ UNCHANGED dir
UpToDate == pc = "idle" /\ disk = Text(dir) /\ UNCHANGED vars             \* regenerating an up-to-date Manifest: no step at all
Commit == pc = "writing" /\ disk' = Text(dir) /\ pc' = "idle" /\ UNCHANGED <<dir, writes, gens>>
Crash  == pc = "writing" /\ pc' = "idle" /\ UNCHANGED <<dir, disk, writes, gens>>
Next == Edit \/ Begin \/ UpToDate \/ Commit \/ Crash
Spec == Init /\ [][Next]_vars
Bound == writes <= 3
\* at every crash point the Manifest is a complete text that some update() generated (old or new), never a torn one
OldOrNew == disk \in gens
\* a write happens only when the directory differs from what the Manifest states
WritesOnlyWhenStale == [][writes' # writes => disk # Text(dir)]_vars
\* a completed update() leaves exactly the text of the current directory
CommitInstalls == [][(pc = "writing" /\ pc' = "idle" /\ disk' # disk) => disk' = Text(dir)]_vars
=========================================================================
