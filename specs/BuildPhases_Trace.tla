---------------------------- MODULE BuildPhases_Trace ----------------------------
(* code -> spec judge of G02.  Every event is one public operation performed on a REAL pkgcore
   operation object (buildable / install_op / uninstall_op / replace_op / binpkg_localize, obtained
   through the real operations API where there is one) with a scripted ebuild processor:
     {tid, i, cfg, op, stage, ignore, force, quiet, cas, script,            -- inputs
      ran: [{ph, up, sb, repl, shut, rel, wrote}], notes: [{st, ok}], exc, ret,  -- what happened
      real, bash: [phase]      -- real-daemon sessions: the phase functions the ebuild logged from bash
      st: {top, a: {done, dir, stamps, cn, env, cas, vf, mark}, b: {...}}}   -- projected state after
   op in call | cleanup | reload | new | resume | finish, plus
     pebuild_end {phases, noauto, first, built, ops}   the operations scripts/pebuild.py main() performed
     api         {descs, en, dis, enabled, raw, attrs, sup, calls}   operations API cases.
   Each step is judged from the previously OBSERVED state (re-synchronising), so a deviation never
   hides the rest of a history.  Clause names:
     PhaseSequence (+ Rerun / OutOfOrder / RanAfterFailure naming the way it is wrong), PhaseFlags,
     ProcessorDiscipline, Raised, Ret, Notes, DaemonSawPhases, Post_<field> (new/a half), PostOld_<field> (b half),
     Post_top, SessionShape, Api_enabled / Api_raw / Api_attrs / Api_supports / Api_call.        *)
EXTENDS TraceLib
VARIABLES l, st
INSTANCE BuildPhases WITH StopOnFailure <- TRUE, StampFailed <- FALSE

CfgOf(c) == [kind |-> c.kind, eapi |-> c.eapi, defined |-> AsSet(c.defined), features |-> AsSet(c.features),
             restrict |-> AsSet(c.restrict), useTest |-> c.useTest, forceTest |-> c.forceTest, prefetched |-> c.prefetched]
LeafOf(o) == [done |-> AsSet(o.done), dir |-> o.dir, stamps |-> AsSet(o.stamps), cn |-> o.cn, env |-> o.env,
              cas |-> o.cas, vf |-> o.vf, mark |-> o.mark]
ObsS(o) == [top |-> AsSet(o.top), a |-> LeafOf(o.a), b |-> LeafOf(o.b)]

LeafDiff(tag, o, x) ==
  (IF o.done = x.done THEN {} ELSE {tag \o "_done"}) \cup
  (IF o.stamps = x.stamps THEN {} ELSE {tag \o "_stamps"}) \cup
  (IF o.dir = x.dir THEN {} ELSE {tag \o "_dir"}) \cup
  (IF o.cn = x.cn THEN {} ELSE {tag \o "_cleanNeeded"}) \cup
  (IF o.env = x.env THEN {} ELSE {tag \o "_env"}) \cup
  (IF o.vf = x.vf THEN {} ELSE {tag \o "_verified"}) \cup
  (IF o.mark = x.mark THEN {} ELSE {tag \o "_marker"}) \cup
  (IF o.cas = x.cas THEN {} ELSE {tag \o "_cleanAtStart"})

InDomain(cur, cfg, e) ==
  CASE e.op = "call"    -> CallInDomain(cur, cfg, e.stage, e.ignore)
    [] e.op \in {"cleanup", "reload", "resume"} -> cfg.kind # "replace"
    [] e.op = "finish"  -> cfg.kind = "uninstall"
    [] e.op = "new"     -> e.cas => cfg.kind = "build"
    [] OTHER -> FALSE
Expected(cur, cfg, e) ==
  CASE e.op = "call"    -> Call(cur, cfg, e.stage, e.ignore, e.script)
    [] e.op = "cleanup" -> Cleanup(cur, e.force, e.quiet)
    [] e.op = "reload"  -> Reload(cur)
    [] e.op = "resume"  -> Reload(NewSession(cur, cfg, FALSE))
    [] e.op = "finish"  -> Finish(cur)
    [] e.op = "new"     -> [s |-> NewSession(cur, cfg, e.cas), ran |-> <<>>, notes |-> <<>>, oks |-> <<>>, exc |-> ""]

Names(ran) == [k \in DOMAIN ran |-> ran[k].ph]
Flags(ran) == [k \in DOMAIN ran |-> <<ran[k].up, ran[k].sb, ran[k].repl>>]
Disc(ran)  == [k \in DOMAIN ran |-> <<ran[k].shut, ran[k].rel, ran[k].wrote>>]
ChainPos(kind, ph) == IF ph \in StagesOf(kind) THEN Pos(kind, ph) ELSE 0
HowWrong(cur, cfg, e) ==
  LET done == IF cfg.kind = "replace" THEN cur.top ELSE cur.a.done
      p == SelectSeq(e.ran, LAMBDA x : x.ph # "fetch")
  IN (IF \E k \in DOMAIN p : p[k].ph \in done THEN {"Rerun"} ELSE {}) \cup
     (IF \E i, j \in DOMAIN p : i < j /\ ChainPos(cfg.kind, p[i].ph) >= ChainPos(cfg.kind, p[j].ph) THEN {"OutOfOrder"} ELSE {}) \cup
     (IF \E k \in DOMAIN e.ran : k < Len(e.ran) /\ e.ran[k].shut # "no" THEN {"RanAfterFailure"} ELSE {})

JudgeOp(cur, e) ==
  LET cfg == CfgOf(e.cfg)
      obs == ObsS(e.st)
  IN IF ~InDomain(cur, cfg, e) THEN {"OutsideDomain"}
     ELSE LET x == Expected(cur, cfg, e)
              sameNames == Names(e.ran) = Names(x.ran)
          IN (IF sameNames THEN {} ELSE {"PhaseSequence"} \cup HowWrong(cur, cfg, e))
             \cup (IF sameNames /\ Flags(e.ran) # Flags(x.ran) THEN {"PhaseFlags"} ELSE {})
             \cup (IF sameNames /\ Disc(e.ran) # Disc(x.ran) THEN {"ProcessorDiscipline"} ELSE {})
             \cup (IF e.exc = x.exc THEN {} ELSE {"Raised"})
             \cup (IF e.exc = "" /\ ~e.ret THEN {"Ret"} ELSE {})
             \cup (IF e.notes = x.notes THEN {} ELSE {"Notes"})
             \* sessions with the real daemon: the phase functions of the ebuild that bash really entered
             \cup (IF e.real /\ e.bash # Names(SelectSeq(e.ran, LAMBDA y : y.ph # "fetch")) THEN {"DaemonSawPhases"} ELSE {})
             \cup (IF obs.top = x.s.top THEN {} ELSE {"Post_top"})
             \cup LeafDiff("Post", obs.a, x.s.a)
             \cup LeafDiff("PostOld", obs.b, x.s.b)

\* scripts/pebuild.py: the operations main() performed, up to the first one that raised
JudgePebuild(e) ==
  LET full == PebuildOps(e.phases, e.noauto)
      seen == [k \in DOMAIN e.ops |-> [op |-> e.ops[k].op, stage |-> e.ops[k].stage, ignore |-> e.ops[k].ignore, force |-> e.ops[k].force]]
      raisedAt == {k \in DOMAIN e.ops : e.ops[k].raised}
      want == IF raisedAt = {} THEN full
              ELSE SubSeq(full, 1, CHOOSE k \in raisedAt : \A j \in raisedAt : k <= j)
      \* the object: a fresh one, clean=False (stamps survive), tests forced iff asked for by name
      built == e.first = "new" /\ ~e.built.clean /\ (e.built.force_test <=> \E k \in DOMAIN e.phases : e.phases[k] = "test")
  IN IF built /\ Len(e.ops) <= Len(full) /\ seen = want THEN {} ELSE {"SessionShape"}

\* operations API (operations/__init__.py base)
JudgeApi(e) ==
  LET descs == AsSet(e.descs)
      names == {d.name : d \in descs}
      want == ApiEnabled(descs, AsSet(e.en), AsSet(e.dis))
  IN (IF AsSet(e.enabled) = want THEN {} ELSE {"Api_enabled"})
     \cup (IF AsSet(e.raw) = names THEN {} ELSE {"Api_raw"})
     \cup (IF AsSet(e.attrs) = want THEN {} ELSE {"Api_attrs"})
     \cup (IF \A k \in DOMAIN e.sup : (e.sup[k].yes <=> e.sup[k].name \in want) /\ (e.sup[k].rawyes <=> e.sup[k].name \in names)
           THEN {} ELSE {"Api_supports"})
     \cup (IF \A k \in DOMAIN e.calls :
                LET c == e.calls[k] IN
                IF c.name \in want THEN c.seen = ApiRecast(c.raises) ELSE c.seen = "unsupported"
           THEN {} ELSE {"Api_call"})

Judge(cur, e) ==
  CASE e.op = "pebuild_end" -> JudgePebuild(e)
    [] e.op = "api" -> JudgeApi(e)
    [] OTHER -> JudgeOp(cur, e)

TraceInit == l = 0 /\ st = Blank
TraceNext == /\ l < Len(Tr)
             /\ l' = l + 1
             /\ LET e == Tr[l']
                    cur == IF e.i = 1 THEN Blank ELSE st
                IN /\ Report(e.tid, e.i, Judge(cur, e))
                   /\ st' = IF e.op \in {"pebuild_end", "api"} THEN cur ELSE ObsS(e.st)
             /\ EndMark(l')
TraceSpec == TraceInit /\ [][TraceNext]_<<l, st>>
=============================================================================
