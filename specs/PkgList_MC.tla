---------------------------- MODULE PkgList_MC ----------------------------
(* Design check: the expansion as a line-by-line rewriting machine over every list (up to MaxLines
   lines) of a small universe of line shapes.  Along every run: what was emitted so far is the
   reference expansion of the prefix, every emitted line passes the judge's clauses, `prev` is the
   resolved keyword list of the last package line; at the end the rendered result parses back to
   the emitted lines, no sentinel that could be resolved is left, and expanding again changes nothing. *)
EXTENDS PkgList
CONSTANTS MaxLines, KwSeqs, NSugg
A == <<97>>  B == <<98>>  X == <<120>>  Y == <<121>>  Z == <<122>>
Specs == {A, B}
FullKw  == {<<>>, <<X>>, <<KStar>>, <<KCaret>>, <<KDash>>, <<X, Y>>, <<KStar, X>>, <<KCaret, X>>, <<X, KCaret>>, <<KStar, KCaret>>}
QuickKw == {<<>>, <<X>>, <<KStar>>, <<KCaret>>, <<KStar, X>>, <<KCaret, X>>}
Suggs == {<<[spec |-> A, kws |-> <<X, Z>>], [spec |-> B, kws |-> <<>>]>>}
         \cup (IF NSugg > 1 THEN {<<[spec |-> A, kws |-> <<Y>>], [spec |-> B, kws |-> <<Z>>]>>} ELSE {})
Gaps(n) == [i \in 1..n |-> IF i = 1 THEN <<SP, SP>> ELSE <<TAB>>]
PkgLines == {Line(ld, s, IF ks = <<>> THEN <<>> ELSE g1, ks, IF ks = <<>> THEN <<>> ELSE SubSeq(Gaps(2), 1, Len(ks) - 1), tr, cm, <<LF>>) :
               ld \in {<<SP>>}, s \in Specs, g1 \in {<<SP>>, <<160, TAB>>}, ks \in KwSeqs,
               tr \in {<<SP>>}, cm \in {<<>>, <<HASH, 99>>}}
            \cup {Line(<<>>, s, IF ks = <<>> THEN <<>> ELSE <<SP>>, ks, IF Len(ks) = 2 THEN <<<<SP>>>> ELSE <<>>, <<>>, <<>>, <<CR, LF>>) : s \in Specs, ks \in KwSeqs}
BlankLines == {Line(<<>>, <<>>, <<>>, <<>>, <<>>, <<>>, <<>>, <<LF>>), Line(<<SP>>, <<>>, <<>>, <<>>, <<>>, <<>>, <<HASH, 99>>, <<LF>>)}
Shapes == PkgLines \cup BlankLines

VARIABLES ls, sg, i, prev, out, status
vars == <<ls, sg, i, prev, out, status>>
Init == /\ ls \in UNION {[1..n -> Shapes] : n \in 0..MaxLines}
        /\ sg \in Suggs
        /\ i = 1 /\ prev = NoPrev /\ out = <<>> /\ status = "run"
Step == /\ status = "run" /\ i <= Len(ls)
        /\ LET L == ls[i] IN
           IF ~IsPkgLine(L) THEN out' = Append(out, L) /\ UNCHANGED <<prev, status>>
           ELSE IF CaretRefused(L, prev) THEN status' = "refused" /\ UNCHANGED <<prev, out>>
           ELSE LET kw == ResolveKws(L, prev, sg)
                IN out' = Append(out, Rewrite(L, kw)) /\ prev' = [has |-> TRUE, kws |-> kw] /\ UNCHANGED status
        /\ i' = i + 1 /\ UNCHANGED <<ls, sg>>
Finish == /\ status = "run" /\ i > Len(ls) /\ status' = "done" /\ UNCHANGED <<ls, sg, i, prev, out>>
Next == Step \/ Finish
Spec == Init /\ [][Next]_vars

InvShapes   == WFList(ls)
InvParse    == ParseText(RenderLines(ls)) = ls
InvPrefix   == status # "refused" => LET r == ResolveAll(SubSeq(ls, 1, Len(out)), sg)
                                     IN r.ok /\ out = [k \in 1..Len(out) |-> Rewrite(ls[k], r.res[k])]
InvEmitted  == \A k \in DOMAIN out : WFLine(out[k])
                                     /\ LineFails(ls[k], out[k], IF IsPkgLine(ls[k]) THEN out[k].kws ELSE <<>>) = {}
InvRefusal  == (status = "refused") => ~ResolveAll(ls, sg).ok
InvDone     == status = "done" =>
                 /\ ResolveAll(ls, sg).ok /\ out = ExpandRef(ls, sg)
                 /\ ParseText(RenderLines(out)) = out
                 /\ ExpandFails(RenderLines(ls), sg, FALSE, RenderLines(out)) = {}
                 \* a second expansion finds nothing left to do (suggestions here hold no sentinels)
                 /\ ExpandRef(out, sg) = out
=========================================================================
