---------------------------- MODULE ConfigCentral_Sim ----------------------------
(* spec -> code: TLC (simulation mode) walks the state machine of ConfigCentral_MC over the
   driver's universe; hist records only the INPUTS of the calls.  When a walk has D calls (or the
   manager cannot go on) the history is printed once and replayed on a real ConfigManager by
   drivers/g04_configcentral.py; outcomes are recomputed from the implementation's observations
   by ConfigCentral_Trace.                                                                  *)
EXTENDS ConfigCentral_MC
CONSTANT D
VARIABLES hist, done
simvars == <<m, lsw, last, nops, hist, done>>
SimInit == Init /\ hist = <<>> /\ done = FALSE
\* one enabled call, drawn by TLC's seeded generator (a single successor per step keeps the walk cheap)
SimStep == /\ ~done /\ Len(hist) < D
           /\ \E o \in {RandomElement({x \in Ops : Enabled(m, x)})} : Step(o) /\ hist' = Append(hist, o)
           /\ done' = FALSE
Finish  == /\ ~done /\ Len(hist) = D
           /\ PrintT(<<"BEH", hist>>)
           /\ done' = TRUE /\ UNCHANGED <<m, lsw, last, nops, hist>>
SimNext == SimStep \/ Finish
SimSpec == SimInit /\ [][SimNext]_simvars
=========================================================================
