---------------------------- MODULE Resolver_Worlds ----------------------------
(* A bounded family of worlds, in JSON form (Resolver.tla, last section), shared by
   Resolver_MC (model checking of the reference resolver) and Resolver_Export
   (spec -> code: the real resolvers are run on every member / a sample).

   Two names a, b; source versions a-1, a-2, b-1, b-2 (slot 0), optionally b-2 in its own
   slot; installed: nothing / a-1 / a-2 (which depends on b) and nothing / b-1 / b-2.  Every source package draws its
   dependencies from a menu (MenuFor): plain, version-ranged,
   any-of, build-time, post, install-time dependencies, weak/strong blockers - so the family
   contains cycles, unsatisfiable ranges, blocked installs and replaceable installed packages. *)
EXTENDS Resolver, TLC

CONSTANT Level      \* "tiny" | "small" | "medium": size of the menus

A(key, op, ver, blk) == [key |-> key, op |-> op, ver |-> ver, slot |-> "*", blk |-> blk]
One(a)  == <<<<a>>>>                \* item: one alternative, one atom
AnyOf(a, b) == <<<<a>>, <<b>>>>       \* || ( a b )
NoDeps == [depend |-> <<>>, bdepend |-> <<>>, rdepend |-> <<>>, idepend |-> <<>>, pdepend |-> <<>>]
D(c, items) == [NoDeps EXCEPT ![c] = items]

MenuFor(other) ==
  LET o == other IN
  {NoDeps,
   D("rdepend", <<One(A(o, ">=", 2, "none"))>>),
   D("depend",  <<One(A(o, "<", 2, "none"))>>)}
  \cup (IF Level \in {"small", "medium"} THEN {D("rdepend", <<One(A(o, "any", 0, "weak"))>>)} ELSE {})
  \cup (IF Level = "medium" THEN {D("pdepend", <<AnyOf(A(o, "=", 1, "none"), A("z", "any", 0, "none"))>>)} ELSE {})
\* the tiny level gives a-packages a shorter menu
MenuA == IF Level = "tiny" THEN {NoDeps, D("rdepend", <<One(A("b", ">=", 2, "none"))>>)} ELSE MenuFor("b")
MenuB == MenuFor("a")

P(repo, key, ver, slot, deps) ==
  [id |-> repo \o ":" \o key \o "-" \o ToString(ver) \o ":" \o slot, key |-> key, ver |-> ver, slot |-> slot,
   repo |-> repo, depend |-> deps.depend, bdepend |-> deps.bdepend, rdepend |-> deps.rdepend,
   idepend |-> deps.idepend, pdepend |-> deps.pdepend]

VdbChoicesA == {<<>>, <<P("vdb", "a", 2, "0", D("rdepend", <<One(A("b", "any", 0, "none"))>>))>>}
               \cup (IF Level = "tiny" THEN {} ELSE {<<P("vdb", "a", 1, "0", NoDeps)>>})
VdbChoicesB == {<<>>, <<P("vdb", "b", 1, "0", NoDeps)>>}
               \cup (IF Level = "tiny" THEN {} ELSE {<<P("vdb", "b", 2, "0", NoDeps)>>})
B2Slots == IF Level = "medium" THEN {"0", "2"} ELSE {"0"}

TargetChoices ==
  {<<A("a", "any", 0, "none")>>,
   <<A("b", "<", 2, "none"), A("a", "any", 0, "none")>>}
  \cup (IF Level = "tiny" THEN {}
        ELSE {<<A("a", "=", 1, "none")>>, <<A("b", "any", 0, "none")>>,
              <<A("a", "any", 0, "none"), A("b", "any", 0, "none")>>})

\* [pkgs |-> sequence of JSON packages, targets |-> sequence of JSON atoms]
Family ==
  {[pkgs |-> <<P("src", "a", 1, "0", d[1]), P("src", "a", 2, "0", d[2]),
               P("src", "b", 1, "0", d[3]), P("src", "b", 2, s, d[4])>> \o va \o vb,
    targets |-> t] :
      d \in MenuA \X MenuA \X MenuB \X MenuB,
      s \in B2Slots, va \in VdbChoicesA, vb \in VdbChoicesB, t \in TargetChoices}

\* a thinner family for the constant-level laws: both versions of a name share their dependencies
LawFamilyOf(fam) == {c \in fam : c.pkgs[1].rdepend = c.pkgs[2].rdepend /\ c.pkgs[1].depend = c.pkgs[2].depend
                                 /\ c.pkgs[3].rdepend = c.pkgs[4].rdepend /\ c.pkgs[3].depend = c.pkgs[4].depend}
=========================================================================
