---------------------------- MODULE Resolver_Worlds ----------------------------
(* A bounded family of worlds, in JSON form (Resolver.tla, last section), shared by
   Resolver_MC (model checking of the reference resolver) and Resolver_Export
   (spec -> code: the real resolvers are run on every member / a sample).  Four parts:

   "main"     two names a, b; source versions a-1, a-2, b-1, b-2 (slot 0; medium: b-2 also in its
              own slot); installed: nothing / a-1 / a-2 (which depends on b) and nothing / b-1 /
              b-2.  Every source package draws its dependencies from a menu (MenuFor): version
              ranges, build-time, post, any-of dependencies, weak blockers - so the part contains
              cycles, unsatisfiable ranges, blocked installs and replaceable installed packages.
   "blocker"  p-1 carries a weak or strong blocker on x (!<x-2, !!<x-2, !x, in several classes);
              x-1 in slot 0, x-2 in slot 0 or in a slot of its own; nothing / x-1 / x-2 installed;
              p alone or together with x as targets: blockers against installed packages whose
              unblocked versions sit in the same or in ANOTHER slot; optionally an installed q with
              the same blocker that p depends on (the blocker is registered twice).  Also: x installed
              in two slots, a blocker !<x-3 spanning both, x-3 available for one of them, and an
              earlier target that has put one of the slots into the plan.
              Also blockers on a package of the virtual/ category.
   "session"  requests for resolver sessions: retry after a failed target (reset), targets given one
              after the other with a build-time cycle in the first, an any-of group of six.
   "versions" one name a with a lower and a higher version that differ in digit count or in a later
              component (9/10, 1.9/1.10, 2.9/2.10), each placed in the main repository, an
              overlay or the installed database; b depends on a: candidates from several
              repositories compete and must be ordered as versions, not as text.              *)
EXTENDS Resolver, TLC

CONSTANT Level      \* "tiny" | "small" | "medium": size of the menus

A(key, op, ver, blk) == [key |-> key, op |-> op, ver |-> ver, slot |-> "*", blk |-> blk]
AnyV == <<>>                        \* the version field of an unversioned atom
One(a)  == <<<<a>>>>                \* item: one alternative, one atom
AnyOf(a, b) == <<<<a>>, <<b>>>>     \* || ( a b )
NoDeps == [depend |-> <<>>, bdepend |-> <<>>, rdepend |-> <<>>, idepend |-> <<>>, pdepend |-> <<>>]
D(c, items) == [NoDeps EXCEPT ![c] = items]

RECURSIVE VerStrFrom(_, _)
VerStrFrom(v, k) == IF k > Len(v) THEN "" ELSE (IF k > 1 THEN "." ELSE "") \o ToString(v[k]) \o VerStrFrom(v, k + 1)
VerStr(v) == VerStrFrom(v, 1)

P(repo, key, ver, slot, deps) ==
  [id |-> repo \o ":" \o key \o "-" \o VerStr(ver) \o ":" \o slot, key |-> key, ver |-> ver, slot |-> slot,
   repo |-> repo, depend |-> deps.depend, bdepend |-> deps.bdepend, rdepend |-> deps.rdepend,
   idepend |-> deps.idepend, pdepend |-> deps.pdepend]
Case(fam, pkgs, targets) == [fam |-> fam, pkgs |-> pkgs, targets |-> targets]

(* ---------------- main ---------------- *)
MenuFor(other) ==
  LET o == other IN
  {NoDeps,
   D("rdepend", <<One(A(o, ">=", <<2>>, "none"))>>),
   D("depend",  <<One(A(o, "<", <<2>>, "none"))>>)}
  \cup (IF Level \in {"small", "medium"} THEN {D("rdepend", <<One(A(o, "any", AnyV, "weak"))>>)} ELSE {})
  \cup (IF Level = "medium" THEN {D("pdepend", <<AnyOf(A(o, "=", <<1>>, "none"), A("z", "any", AnyV, "none"))>>)} ELSE {})
\* the tiny level gives a-packages a shorter menu
MenuA == IF Level = "tiny" THEN {NoDeps, D("rdepend", <<One(A("b", ">=", <<2>>, "none"))>>)} ELSE MenuFor("b")
MenuB == MenuFor("a")

VdbChoicesA == {<<>>, <<P("vdb", "a", <<2>>, "0", D("rdepend", <<One(A("b", "any", AnyV, "none"))>>))>>}
               \cup (IF Level = "tiny" THEN {} ELSE {<<P("vdb", "a", <<1>>, "0", NoDeps)>>})
VdbChoicesB == {<<>>, <<P("vdb", "b", <<1>>, "0", NoDeps)>>}
               \cup (IF Level = "tiny" THEN {} ELSE {<<P("vdb", "b", <<2>>, "0", NoDeps)>>})
B2Slots == IF Level = "medium" THEN {"0", "2"} ELSE {"0"}

TargetChoices ==
  {<<A("a", "any", AnyV, "none")>>,
   <<A("b", "<", <<2>>, "none"), A("a", "any", AnyV, "none")>>}
  \cup (IF Level = "tiny" THEN {}
        ELSE {<<A("a", "=", <<1>>, "none")>>, <<A("b", "any", AnyV, "none")>>,
              <<A("a", "any", AnyV, "none"), A("b", "any", AnyV, "none")>>})

MainFamily ==
  {Case("main",
        <<P("src", "a", <<1>>, "0", d[1]), P("src", "a", <<2>>, "0", d[2]),
          P("src", "b", <<1>>, "0", d[3]), P("src", "b", <<2>>, s, d[4])>> \o va \o vb, t) :
      d \in MenuA \X MenuA \X MenuB \X MenuB,
      s \in B2Slots, va \in VdbChoicesA, vb \in VdbChoicesB, t \in TargetChoices}

(* ---------------- blocker ---------------- *)
BlockMenu ==
  {D("rdepend", <<One(A("x", "<", <<2>>, "weak"))>>),
   D("rdepend", <<One(A("x", "<", <<2>>, "strong"))>>)}
  \cup (IF Level = "tiny" THEN {}
        ELSE {D("depend", <<One(A("x", "any", AnyV, "weak"))>>),
              D("pdepend", <<One(A("x", "<", <<2>>, "weak"))>>)})
X2Slots == {"0", "2"}
VdbChoicesX(s2) == {<<>>, <<P("vdb", "x", <<1>>, "0", NoDeps)>>, <<P("vdb", "x", <<2>>, s2, NoDeps)>>}
BlockTargets == {<<A("p", "any", AnyV, "none")>>, <<A("x", "any", AnyV, "none"), A("p", "any", AnyV, "none")>>}
                \cup (IF Level = "tiny" THEN {} ELSE {<<A("p", "any", AnyV, "none"), A("x", "any", AnyV, "none")>>})
\* optionally an installed q carries the very same blocker and p depends on q first: the blocker is
\* then already registered when p brings it along
WithQ(d) == [d EXCEPT !.rdepend = <<One(A("q", "any", AnyV, "none"))>> \o @]
BlockerFamily ==
  UNION {{Case("blocker",
               <<P("src", "p", <<1>>, "0", IF wq THEN WithQ(d) ELSE d), P("src", "x", <<1>>, "0", NoDeps),
                 P("src", "x", <<2>>, s2, NoDeps)>> \o vx \o (IF wq THEN <<P("vdb", "q", <<1>>, "0", d)>> ELSE <<>>), t) :
             d \in BlockMenu, vx \in VdbChoicesX(s2), t \in BlockTargets, wq \in BOOLEAN} : s2 \in X2Slots}

\* blockers spanning slots: x installed in two slots, the blocker !<x-3 hits both, the only source
\* version x-3 goes into one of the slots; an earlier target may already have put one slot into the plan
AS(key, op, ver, slot, blk) == [key |-> key, op |-> op, ver |-> ver, slot |-> slot, blk |-> blk]
SpanFamily ==
  {Case("blocker",
        <<P("src", "p", <<1>>, "0", D("rdepend", <<One(A("x", "<", <<3>>, b))>>)), P("src", "x", <<3>>, s3, NoDeps),
          P("vdb", "x", <<1>>, "1", NoDeps), P("vdb", "x", <<2>>, "2", NoDeps)>>, t) :
      b \in {"weak", "strong"}, s3 \in {"1", "2"},
      t \in {<<A("p", "any", AnyV, "none")>>,
             <<AS("x", "any", AnyV, "1", "none"), A("p", "any", AnyV, "none")>>,
             <<AS("x", "any", AnyV, "2", "none"), A("p", "any", AnyV, "none")>>,
             <<A("x", "any", AnyV, "none"), A("p", "any", AnyV, "none")>>}}

\* blockers on a package of the virtual/ category (name "v": the driver renders it as virtual/v; the
\* resolver rewrites such blockers before registering them)
VirtualFamily ==
  {Case("blocker",
        <<P("src", "p", <<1>>, "0", D("rdepend", <<One(A("v", "any", AnyV, b))>>)), P("src", "v", <<1>>, "0", NoDeps)>> \o vv, t) :
      b \in {"weak", "strong"},
      vv \in {<<>>, <<P("vdb", "v", <<1>>, "0", NoDeps)>>},
      t \in {<<A("p", "any", AnyV, "none")>>, <<A("v", "any", AnyV, "none"), A("p", "any", AnyV, "none")>>}}

(* ---------------- sessions ---------------- *)
\* requests whose interest lies in what ONE resolver instance goes through:
\*   retry   the first target upgrades an installed package, the second cannot be resolved: the failed
\*           target is dropped, the resolver reset and asked again;
\*   cycle   t pulls in a build-time cycle a -> b -> a (b falls back on c); afterwards x (whose higher
\*           version needs a) and y (needs a) are asked for: a is in the plan by then;
\*   anyof   an any-of group of six whose installed member cannot be resolved (its own dependency is gone):
\*           the alternatives must be tried in the order they are written.
Plain(k) == A(k, "any", AnyV, "none")
Alts(ks) == [i \in DOMAIN ks |-> <<Plain(ks[i])>>]
SessionFamily ==
  {Case("session",
        <<P("src", "x", <<1>>, "0", NoDeps), P("src", "x", <<2>>, "0", NoDeps), P("vdb", "x", <<1>>, "0", NoDeps),
          P("src", "g", <<1>>, "0", D("rdepend", <<One(Plain("z"))>>))>> \o extra, t) :
      extra \in {<<>>, <<P("src", "k", <<1>>, "0", D("rdepend", <<One(A("x", "<", <<2>>, "strong"))>>))>>},
      t \in {<<Plain("x"), Plain("g")>>, <<Plain("x"), Plain("g"), Plain("k")>>}}
  \cup
  {Case("session",
        <<P("src", "t", <<1>>, "0", D("depend", <<One(Plain("a"))>>)),
          P("src", "a", <<1>>, "0", D("depend", <<One(Plain("b"))>>)),
          P("src", "b", <<1>>, "0", D("depend", <<AnyOf(Plain("a"), Plain("c"))>>)),
          P("src", "c", <<1>>, "0", NoDeps),
          P("src", "x", <<1>>, "0", NoDeps), P("src", "x", <<2>>, "0", D("rdepend", <<One(Plain("a"))>>)),
          P("src", "y", <<1>>, "0", D("rdepend", <<One(Plain("a"))>>))>>, t) :
      t \in {<<Plain("t"), Plain("x")>>, <<Plain("t"), Plain("y")>>, <<Plain("t"), Plain("x"), Plain("y")>>}}
  \cup
  {Case("session",
        <<P("vdb", "a", <<1>>, "0", D("rdepend", <<One(Plain("z"))>>)),
          P("src", "t", <<1>>, "0", D(c, <<Alts(<<"a", "b", "c", "e", "f", "g">>)>>)),
          P("src", "b", <<1>>, "0", NoDeps), P("src", "c", <<1>>, "0", NoDeps), P("src", "e", <<1>>, "0", NoDeps),
          P("src", "f", <<1>>, "0", NoDeps), P("src", "g", <<1>>, "0", NoDeps)>>, <<Plain("t")>>) :
      c \in {"rdepend", "depend"}}

(* ---------------- versions ---------------- *)
VersionPairs == {<<<<9>>, <<10>>>>, <<<<1, 9>>, <<1, 10>>>>}
                \cup (IF Level = "tiny" THEN {} ELSE {<<<<2, 9>>, <<2, 10>>>>})
Repos == {"src", "ovl", "vdb"}
VersionFamily ==
  {Case("versions",
        <<P(pl[1], "a", vp[1], "0", NoDeps), P(pl[2], "a", vp[2], "0", NoDeps),
          P("src", "b", <<1>>, "0", D("rdepend", <<One(A("a", "any", AnyV, "none"))>>))>>, t) :
      vp \in VersionPairs,
      pl \in {x \in Repos \X Repos : ~(x[1] = "vdb" /\ x[2] = "vdb")},
      t \in {<<A("a", "any", AnyV, "none")>>, <<A("b", "any", AnyV, "none")>>}}

\* [fam, pkgs |-> sequence of JSON packages, targets |-> sequence of JSON atoms]
Family == MainFamily \cup BlockerFamily \cup SpanFamily \cup VirtualFamily \cup SessionFamily \cup VersionFamily

\* a thinner family for the constant-level laws: both versions of a name share their dependencies
LawFamilyOf(fam) == {c \in fam : c.fam # "main" \/
                                 (/\ c.pkgs[1].rdepend = c.pkgs[2].rdepend /\ c.pkgs[1].depend = c.pkgs[2].depend
                                  /\ c.pkgs[3].rdepend = c.pkgs[4].rdepend /\ c.pkgs[3].depend = c.pkgs[4].depend)}
=========================================================================
