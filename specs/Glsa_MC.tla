---------------------------- MODULE Glsa_MC ----------------------------
(* An advisory entry is built range by range (vulnerable / unaffected); on every entry reached
   the pointwise three-valued definition Affected must agree with the set-algebra formulation,
   each added range must move the verdicts monotonically, and the range operators must obey
   their algebra (le = lt or eq, the r-forms are the plain forms within one version, ...).      *)
EXTENDS Glsa_Cases, TLC
CONSTANTS MaxV, MaxU, Small
\* (the arch dimension is covered by Entries / the random direction; Small = a sub-pool for longer entries)
MCPool == {p \in Pool : p.keywords = {"x86"} /\ (Small => p.ver \in {v12, v12r1, v12r2, v123, v120, v13r1})}
MCRanges == IF Small THEN {r \in RangePool : \/ (~r.glob /\ r.ver = v12r2)
                                              \/ (~r.glob /\ r.ver = v12 /\ r.slot = "" /\ r.op \in {"rge", "rle", "rlt", "eq", "ge"})
                                              \/ (r.glob /\ r.ver = v12)}
            ELSE RangePool
VARIABLES vuln, unaff
vars == <<vuln, unaff>>
E(vu, un) == Entry("c/p", {"x86", "arm"}, vu, un)
Init == vuln = <<>> /\ unaff = <<>>
AddV(r) == Len(vuln) < MaxV /\ vuln' = Append(vuln, r) /\ UNCHANGED unaff
AddU(r) == Len(unaff) < MaxU /\ unaff' = Append(unaff, r) /\ UNCHANGED vuln
Next == \E r \in MCRanges : AddV(r) \/ AddU(r)
Spec == Init /\ [][Next]_vars

PointwiseIsSetAlgebra ==
    LET e == E(vuln, unaff) IN
    IF EntrySpecified(e)
    THEN LET aff == [p \in MCPool |-> AffectedS(p, e)] IN
         /\ {p \in MCPool : aff[p] = "T"} = DefinitelyAffected(MCPool, e)
         /\ {p \in MCPool : aff[p] = "F"} = DefinitelyNotAffected(MCPool, e)
    ELSE \A p \in MCPool : Affected(p, e) = "U"
\* more vulnerable ranges never clear a package, more unaffected ranges never flag one
Monotone == [][LET e == E(vuln, unaff)  f == E(vuln', unaff') IN
               (EntrySpecified(e) /\ EntrySpecified(f)) =>
                  LET ae == DefinitelyAffected(MCPool, e)   af == DefinitelyAffected(MCPool, f)
                      ne == DefinitelyNotAffected(MCPool, e)   nf == DefinitelyNotAffected(MCPool, f) IN
                  IF unaff' = unaff THEN ae \subseteq af /\ nf \subseteq ne
                                    ELSE af \subseteq ae /\ ne \subseteq nf]_vars
\* algebra of the operators, checked on every single non-glob range
W(r, op) == [r EXCEPT !.op = op]
OpAlgebra ==
    (Len(vuln) = 1 /\ unaff = <<>> /\ ~vuln[1].glob) =>
      LET r == vuln[1] IN \A p \in MCPool :
        /\ InRange(p, W(r, "le")) = KOr({InRange(p, W(r, "lt")), InRange(p, W(r, "eq"))})
        /\ InRange(p, W(r, "ge")) = KOr({InRange(p, W(r, "gt")), InRange(p, W(r, "eq"))})
        /\ (SlotInRange(p, r) => InRange(p, W(r, "lt")) = KNot(InRange(p, W(r, "ge"))))
        /\ \A o \in {"lt", "le", "ge", "gt"} :
             InRange(p, W(r, "r" \o o)) = KAnd({InRange(p, W(r, o)), B(VerCmpNoRev(p.ver, r.ver) = 0)})
        /\ (InRange(p, W(r, "eq")) = "T" => RenderVer(p.ver) = RenderVer(r.ver))
\* a glob range holds for the written version itself and only for textual extensions of it
GlobLaw ==
    (Len(vuln) = 1 /\ unaff = <<>> /\ vuln[1].glob) =>
      LET r == vuln[1] IN \A p \in MCPool :
        /\ (p.ver = r.ver => VersionInRange(p, r) = "T")
        /\ (VersionInRange(p, r) = "T" => StartsWith(RenderVer(p.ver), RenderVer(r.ver)))
        /\ (VersionInRange(p, r) = "T" /\ r.ver.rev = <<>> /\ r.ver.sufs = <<>> /\ r.ver.letter = ""
              => SubSeq(p.ver.nums, 1, Len(r.ver.nums)) = r.ver.nums)
=========================================================================
