---------------------------- MODULE DepSet_MC ----------------------------
(* Exhaustive check of the C09 design: TLC builds EVERY well-formed structure of at most
   MaxNodes nodes over the vocabulary (post-order construction: append a leaf, or wrap the
   last k nodes into a group / conditional) and checks on each one
     InvRoundTrip : Parse(Render(a)) = a                      (every flavour that can write a)
     InvEvaluate  : Evaluate(a, U) is conditional-free and is satisfied by exactly the token
                    sets that satisfy a under U (wherever the meaning is specified)
     InvCorrupt   : every one-token corruption of Render(a) (drop, duplicate, insert paren /
                    operator / conditional / arrow) is classified: error iff unbalanced or
                    dangling; ok only if it renders back to exactly the corrupted tokens   *)
EXTENDS DepSet, TLC
CONSTANTS LeafNames,     \* opaque leaf tokens
          NegLeaves,     \* leaves that may also appear negated (REQUIRED_USE)
          RenNames,      \* rename targets (SRC_URI); {} = none
          FlagNames, MaxNodes

VARIABLE f
AllLeaves == {Leaf(v, FALSE) : v \in LeafNames} \cup {Leaf(v, TRUE) : v \in NegLeaves}
             \cup {Renamed(v, r) : <<v, r>> \in LeafNames \X RenNames}
Init == f = <<>>
Last(k)   == SubSeq(f, Len(f) - k + 1, Len(f))
Front(k)  == SubSeq(f, 1, Len(f) - k)
AddLeaf   == \E l \in AllLeaves : f' = Append(f, l)
WrapGrp   == \E k \in 1..Len(f), t \in GroupKinds : f' = Append(Front(k), Grp(t, Last(k)))
WrapCond  == \E k \in 1..Len(f), u \in FlagNames, neg \in BOOLEAN : f' = Append(Front(k), Cond(u, neg, Last(k)))
\* (the bound is a guard, not a CONSTRAINT: TLC evaluates invariants on states outside a constraint)
Next == Size(f) < MaxNodes /\ (AddLeaf \/ WrapGrp \/ WrapCond)
Spec == Init /\ [][Next]_f

TypeOK == WellFormed(f)

\* the flavours that can write f down (a renamed leaf needs arrows, a negated one REQUIRED_USE)
RECURSIVE HasRen(_), HasNeg(_)
HasRen(ns) == IF ns = <<>> THEN FALSE ELSE (Head(ns).t = "leaf" /\ Head(ns).ren # "") \/ HasRen(Head(ns).ch) \/ HasRen(Tail(ns))
HasNeg(ns) == IF ns = <<>> THEN FALSE ELSE (Head(ns).t = "leaf" /\ Head(ns).neg) \/ HasNeg(Head(ns).ch) \/ HasNeg(Tail(ns))
Writes(name, ns) == /\ InFlavour(ns, FlavourOf(name))
                    /\ (HasRen(ns) => FlavourOf(name).arrows)
                    /\ (HasNeg(ns) => name = "required_use")

InvRoundTrip == \A name \in FlavourNames :
                  Writes(name, f) => Parse(Render(f), FlavourOf(name)) = [st |-> "ok", nodes |-> f]

InvEvaluate == \A U \in SUBSET Flags(f) :
                 LET e == Evaluate(f, U) IN
                 /\ ~HasCond(e)
                 /\ WellFormed(e)
                 /\ Leaves(e) \subseteq Leaves(f)
                 /\ EvaluatedMeaning(f, U, e)
                 \* the shortcuts of the meaning comparison are sound
                 /\ \A T \in SUBSET Leaves(f) : /\ Sat(f, U, T) = Sat(f, U, T \cap Leaves(e))
                                                /\ (Unspec(f, U, T) => Risky(f))
                                                /\ Sat(e, {}, T) = Sat(f, U, T) \/ Unspec(f, U, T)

\* one-token corruptions
Full == Flavour({"||", "^^", "??"}, TRUE, TRUE)
Classified(c) == LET p == Parse(c, Full) IN
                 /\ (p.st = "error") = (~IrregularArrow(c) /\ (Unbalanced(c) \/ Dangling(c)))
                 /\ (p.st = "ok" => WellFormed(p.nodes) /\ Render(p.nodes) = c)
                 /\ (p.st = "unspec" => IrregularArrow(c) \/ EmptyGroup(c))
InvCorrupt == \A c \in Corruptions(Render(f)) : Classified(c)
=========================================================================
