---------------------------- MODULE Merge_Trace ----------------------------
(* Judge for C18 / C19 (code -> spec).  Per scenario (tid):
     i = 0  "init"  : the root before the merge (names, inodes, links), cset, offset, prefixes (evaluate the
                      C19 clauses after every syscall: on for ./check C19, off for C18)
     i > 0  "sys"   : one recorded syscall of the real merge_contents / MergeEngine run; replayed through
                      FsModel; after EVERY syscall (= crash point) the C19 clauses OldOrNew / CrashFrame /
                      CrashDirPerms are evaluated on the model state
            "final" : real lstat snapshot after the run + the exception raised (if any):
                      FinalState / FinalLinks (model == snapshot), Outcome_*, and the C18 clauses
                      Type Data Target Mtime Mode Owner Hardlink DirPermsKept Frame (snapshot vs Expected)
            "crash" : real snapshot after a power cut / injected EIO at mutation k of a re-execution:
                      the C19 clauses on the real disk state
   Verdicts carry the path: <<"VERDICT", tid, i, clause, "a/b">>.                                     *)
EXTENDS Merge, TraceLib
VARIABLES l, fs, ctx

EmptyFs == [names |-> {}, inodes |-> <<>>, handles |-> {}, links |-> {}, mounts |-> {}]
NoCtx == [old |-> EmptyFs, cset |-> <<>>, offset |-> <<>>, x |-> Acc0(EmptyFs), prefixes |-> FALSE]

ReportP(tid, i, bad) == \A c \in bad : PrintT(<<"VERDICT", tid, i, c[1], JoinPath(c[2])>>)

JudgeEnd(c, m, e) ==
  LET sn == SnapFs(e.snap, c.old.links)
      oc == c.x.outcome
  IN ModelVsSnap(m, sn)
     \cup (IF oc = "ok" /\ e.raised # "" THEN {<<"Outcome_Raised", <<c.x.why>>>>} ELSE {})
     \cup (IF oc = "error" /\ e.raised = "" THEN {<<"Outcome_NotRefused", <<c.x.why>>>>} ELSE {})
     \cup (IF oc = "ok" /\ e.raised = "" THEN JudgeFinal(c.x, c.cset, c.offset, c.old, sn) ELSE {})

TraceInit == l = 0 /\ fs = EmptyFs /\ ctx = NoCtx
TraceNext ==
  /\ l < Len(Tr) /\ l' = l + 1
  /\ LET e == Tr[l'] IN
     CASE e.ev = "init" ->
            LET old == InitFs(e)
                x == Expected(old, e.cset, e.offset)
            IN /\ fs' = old
               /\ ctx' = [old |-> old, cset |-> e.cset, offset |-> e.offset, x |-> x, prefixes |-> e.prefixes]
               /\ PrintT(<<"EXPECT", e.tid, x.outcome, x.why, Cardinality({k \in DOMAIN x.place : x.place[k].kind = "skipped"})>>)
       [] e.ev = "sys" ->
            LET r == SysStep(fs, e) IN
            /\ fs' = r.s /\ UNCHANGED ctx
            /\ ReportP(e.tid, e.i, (IF r.ok THEN {} ELSE {<<"Model_" \o e.op, e.p>>})
                                   \cup (IF ctx.prefixes /\ ctx.x.outcome = "ok" THEN JudgeCrash(ctx.x, ctx.cset, ctx.offset, ctx.old, r.s) ELSE {}))
       [] e.ev = "final" ->
            /\ UNCHANGED <<fs, ctx>>
            /\ ReportP(e.tid, e.i, JudgeEnd(ctx, fs, e))
       [] e.ev = "crash" ->
            /\ UNCHANGED <<fs, ctx>>
            /\ ReportP(e.tid, e.i, IF ctx.x.outcome = "ok"
                                   THEN JudgeCrash(ctx.x, ctx.cset, ctx.offset, ctx.old, SnapFs(e.snap, ctx.old.links)) ELSE {})
  /\ EndMark(l')
TraceSpec == TraceInit /\ [][TraceNext]_<<l, fs, ctx>>
=============================================================================
