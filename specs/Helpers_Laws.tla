---------------------------- MODULE Helpers_Laws ----------------------------
(* Constant-level laws of Helpers.tla, evaluated by TLC over ALL path pairs with at most
   MaxLen components drawn from Comps (which holds "..", "." and the empty component).
   RelTarget is the reference for `dosym -r`: the laws show that a relative link computed
   that way resolves to the requested absolute target -- the property C33 states.        *)
EXTENDS Helpers, TLC
CONSTANTS Comps, MaxLen

RECURSIVE SeqsUpTo(_)
SeqsUpTo(n) == IF n = 0 THEN {<<>>} ELSE LET s == SeqsUpTo(n - 1) IN s \cup {Append(x, c) : x \in s, c \in Comps}
Srcs == SeqsUpTo(MaxLen)
\* a link name: any directory part, then a plain last component
Tgts == {Append(d, c) : d \in SeqsUpTo(MaxLen - 1), c \in {x \in Comps : Plain(x)}}

RECURSIVE UpsThenNames(_, _)
UpsThenNames(r, seenName) ==
    IF r = <<>> THEN TRUE
    ELSE IF Head(r) = ".." THEN ~seenName /\ UpsThenNames(Tail(r), FALSE)
    ELSE Plain(Head(r)) /\ UpsThenNames(Tail(r), TRUE)

NormIdempotent == \A p \in Srcs : Norm(Norm(p)) = Norm(p) /\ \A k \in DOMAIN Norm(p) : Plain(Norm(p)[k])
ResolvesToTarget == \A s \in Srcs, t \in Tgts : Resolve(LinkDir(t), RelTarget(s, t)) = Norm(s)
Canonical == \A s \in Srcs, t \in Tgts : LET r == RelTarget(s, t) IN r = <<".">> \/ (r # <<>> /\ UpsThenNames(r, FALSE))
DotIffSame == \A s \in Srcs, t \in Tgts : (RelTarget(s, t) = <<".">>) <=> (Norm(s) = LinkDir(t))
\* never climbs more than the link's directory is deep (stays inside the image)
NoEscape == \A s \in Srcs, t \in Tgts : Cardinality({k \in DOMAIN RelTarget(s, t) : RelTarget(s, t)[k] = ".."}) <= Len(LinkDir(t))
\* shortest: the climb stops at the deepest common directory
Shortest == \A s \in Srcs, t \in Tgts :
    LET r == RelTarget(s, t) n == Cardinality({k \in DOMAIN r : r[k] = ".."}) IN
    n < Len(LinkDir(t)) => (n = Len(LinkDir(t)) - CommonLen(Norm(s), LinkDir(t)))
\* examples pinned by the repository's own test (tests/ebuild/test_misc.py)
Pinned == /\ RelTarget(<<"bin", "foo">>, <<"usr", "bin", "foo">>) = <<"..", "..", "bin", "foo">>
          /\ RelTarget(<<"a", "b", "c", "d", "e">>, <<"a", "b", "f", "g">>) = <<"..", "c", "d", "e">>
          /\ RelTarget(<<"foo">>, <<"foo", "bar">>) = <<".">>
          /\ RelTarget(<<"foo">>, <<"foo", "bar", "baz">>) = <<"..">>
          /\ RelTarget(<<"a", "b", "", "", ".", "c", "d", "..", "e", "..", "", "..", "f">>, <<"a", ".", ".", "", "", "g", "..", "h">>) = <<"b", "f">>

ASSUME NormIdempotent
ASSUME ResolvesToTarget
ASSUME Canonical
ASSUME DotIffSame
ASSUME NoEscape
ASSUME Shortest
ASSUME Pinned
=========================================================================
