---------------------------- MODULE MergeEngine ----------------------------
(* G01 (growth area): the orchestration done by pkgcore's MergeEngine
   (src/pkgcore/merge/engine.py), the base trigger protocol
   (src/pkgcore/merge/triggers.py: register / required_csets / _hooks / _engine_types /
   priority / suppress_exceptions / __call__) and the stage machine that drives the hooks
   (src/pkgcore/operations/domain.py: install / uninstall / replace).

   What a user of that code relies on, and what is checked here:

   hooks      every trigger registered for a hook runs exactly once per execution of the hook, in
              non-decreasing priority, ties in registration order (PriorityOrdered, TiesInOrder,
              ExactlyOnce); every call is bracketed by observer.trigger_start / trigger_end, also
              when it fails (Bracketed); engine.phase names the hook during the calls (PhaseScoped).
   failure    a failing trigger with suppress_exceptions is reported (observer.warn) and the hook
              goes on; any other failure (ModificationError / BlockModification: observer.error;
              RuntimeError & co: never suppressed) ends the hook right after its trigger_end, the
              later triggers do not run (StopsAtFailure, Notices).  A retry of the hook starts from
              the first trigger again.
   csets      lazily computed: a source is evaluated only when a trigger that runs asked for it
              (AskedOnly), at most once per hook (OncePerRun); a cset that is not preserved is
              recomputed in every hook (ComputedThisRun); a preserved cset (new_cset / old_cset /
              add_preserved_cset) is computed once and handed out unchanged until replace_cset
              (PreservedStable, PreservedOnce); an alias is the very object it names (Coherent), so
              edits of new_cset in pre_merge reach the merge of `install`.  What the code does NOT
              do is modelled as such: replace_cset / add_cset do not invalidate what was already
              derived in the current hook (ghost set `stale`).
   register   honours _engine_types, skips hooks the mode does not have, refuses required csets the
              engine does not know (TriggerUnknownCset, nothing registered).
   operation  install / uninstall / replace run their hooks in the fixed order, under the
              repository lock, merge hooks before unmerge hooks for a replace (OpOrdered, UnderLock);
              a stage that was completed is never run again, a retry resumes with the stage that
              failed (NoRerun, DonePrefix); an operation that is given up releases the lock and
              removes its tempspace (Abandon).  As the code does it: a `start` stage that failed
              is run again from scratch (second tempspace, lock taken again; ghost `starts`).
   writable   get_writable_fsobj returns a writable data source with the wanted content living in
              the engine's tempspace, reusing a tempspace file only when allowed (W_ clauses).

   The engine state is ONE record, every public call is an operator  s |-> [s, log, res]  where
   log is the sequence of observations (items) the call produces.                              *)
EXTENDS Integers, Sequences, FiniteSets

CONSTANTS Trigs,        \* trigger ids
          TPrio,        \* [Trigs -> Int]            priority
          THooks,       \* [Trigs -> Seq(STRING)]    _hooks (may name hooks the mode does not have)
          TModes,       \* [Trigs -> SUBSET Modes]   _engine_types (None = all three)
          TReq,         \* [Trigs -> [kind: "all"|"tuple"|"dict", names, bymode]]  required_csets
          TSupp,        \* [Trigs -> BOOLEAN]        suppress_exceptions
          TAct,         \* [Trigs -> [k: "none"|"read"|"replace"|"register", n: [Modes -> name], t: trigger]]  body
          UserNames,    \* cset names a caller may add
          Plugins,      \* Seq(Trigs): default_plugins_triggers() in construction order
          StableSort, RegenPerHook, EndOnFailure   \* TRUE = the engine; FALSE = broken variants (vacuity guards)

Modes == {"install", "uninstall", "replace"}
InstallHooks   == {"sanity_check", "pre_merge", "merge", "post_merge", "final"}
UninstallHooks == {"sanity_check", "pre_unmerge", "unmerge", "post_unmerge", "final"}
HookSet(m) == CASE m = "install" -> InstallHooks [] m = "uninstall" -> UninstallHooks
                [] OTHER -> InstallHooks \cup UninstallHooks

(* ---------- cset sources: the derivation graph ---------- *)
InstallNames   == {"raw_new_cset", "new_cset", "install", "replace", "install_existing", "resolved_install"}
UninstallNames == {"raw_old_cset", "old_cset", "uninstall", "uninstall_existing"}
BuiltinNames   == InstallNames \cup UninstallNames \cup {"modifying"}
Names == BuiltinNames \cup UserNames \cup {"nosuch"}

Undef  == [def |-> FALSE, alias |-> FALSE, deps |-> <<>>]
Gen(d) == [def |-> TRUE, alias |-> FALSE, deps |-> d]        \* returns a new object built from deps
Ali(n) == [def |-> TRUE, alias |-> TRUE, deps |-> <<n>>]      \* alias_cset: returns csets[n] itself

InstallSrc(n) == CASE n = "raw_new_cset"     -> Gen(<<>>)
                   [] n = "new_cset"         -> Ali("raw_new_cset")
                   [] n = "install"          -> Ali("new_cset")
                   [] n = "replace"          -> Ali("new_cset")
                   [] n = "install_existing" -> Gen(<<"install">>)
                   [] n = "resolved_install" -> Gen(<<"new_cset">>)
                   [] OTHER -> Undef
UninstallSrc(n) == CASE n = "raw_old_cset"       -> Gen(<<>>)
                     [] n = "old_cset"           -> Gen(<<"raw_old_cset">>)
                     [] n = "uninstall"          -> Ali("old_cset")
                     [] n = "uninstall_existing" -> Ali("uninstall")
                     [] OTHER -> Undef
ReplaceSrc(n) == CASE n = "uninstall" -> Gen(<<"install", "old_cset">>)         \* get_remove_cset
                   [] n = "replace"   -> Gen(<<"install", "old_cset">>)         \* get_replace_cset
                   [] n = "modifying" -> Gen(<<"resolved_install", "uninstall">>)
                   [] n \in InstallNames -> InstallSrc(n)
                   [] OTHER -> UninstallSrc(n)
BuiltinSrc(m, n) == CASE m = "install" -> InstallSrc(n) [] m = "uninstall" -> UninstallSrc(n) [] OTHER -> ReplaceSrc(n)
BuiltinPres(m) == CASE m = "install" -> {"new_cset"} [] m = "uninstall" -> {"old_cset"} [] OTHER -> {"new_cset", "old_cset"}

(* A cset VALUE is named by where it was made: <<name, k>> = the object returned by the k-th evaluation
   of the source bound to `name`; <<"*inj", j>> = the j-th object injected with replace_cset.        *)
NoVal == <<"-", 0>>
Inj(j) == <<"*inj", j>>

(* ---------- observations ---------- *)
Item(k, h, t, n, v, a) == [k |-> k, h |-> h, t |-> t, n |-> n, v |-> v, a |-> a]
IHook(h)        == Item("hook", h, "", "", NoVal, <<>>)       \* execute_hook(h) entered
IStart(h, t)    == Item("start", h, t, "", NoVal, <<>>)       \* observer.trigger_start
IEnd(h, t)      == Item("end", h, t, "", NoVal, <<>>)         \* observer.trigger_end
ICall(h, t, all, a) == Item("call", h, t, IF all THEN "ALL" ELSE "", NoVal, a)  \* body entered: engine.phase, arguments
IEval(n, v)     == Item("eval", "", "", n, v, <<>>)           \* the source bound to n returned v
IReplaced(n, v) == Item("replaced", "", "", n, v, <<>>)       \* replace_cset(n, v)
IWarn(t)        == Item("warn", "", t, "", NoVal, <<>>)       \* observer.warn (suppressed exception)
IError(t)       == Item("error", "", t, "", NoVal, <<>>)      \* observer.error (modification error)
IOp(k, n)       == Item(k, "", "", n, NoVal, <<>>)            \* k in lock / fmt / repo (operation level)

(* ---------- engine state ---------- *)
New(m) == [mode |-> m,
           hooks |-> [h \in HookSet(m) |-> <<>>],             \* registration lists
           src   |-> [n \in Names |-> BuiltinSrc(m, n)],      \* cset_sources
           pres  |-> BuiltinPres(m),                          \* preserve_csets
           pv    |-> [n \in Names |-> NoVal],                 \* preserved_csets cache: whole life
           hv    |-> [n \in Names |-> NoVal],                 \* per-hook cache, dropped by regenerate_csets
           cnt   |-> [n \in Names |-> 0],                     \* evaluations of the source bound to n so far
           inj   |-> 0,
           stale |-> {}]                                      \* ghost: cached, but derived from superseded inputs

Res(s, res) == [s |-> s, res |-> res]
Out(s, log, res) == [s |-> s, log |-> log, res |-> res]

Req(t, m) == LET r == TReq[t] IN
  CASE r.kind = "all"   -> [all |-> TRUE, names |-> <<>>]
    [] r.kind = "tuple" -> [all |-> FALSE, names |-> r.names]
    [] OTHER -> IF r.bymode[m].has THEN [all |-> FALSE, names |-> r.bymode[m].names]
                ELSE [all |-> TRUE, names |-> <<>>]           \* dict.get(mode) is None: "all csets"

(* ---------- registration ---------- *)
UnknownCset(s, t) == LET q == Req(t, s.mode) IN ~q.all /\ \E k \in DOMAIN q.names : ~s.src[q.names[k]].def
\* engine.add_trigger(h, t, required_csets of t)
AddTrigger(s, h, t) ==
  IF h \notin HookSet(s.mode) THEN Res(s, "keyerror")
  ELSE IF UnknownCset(s, t) THEN Res(s, "unknowncset")
  ELSE Res([s EXCEPT !.hooks[h] = Append(@, t)], "ok")
RECURSIVE RegisterFrom(_, _, _)
RegisterFrom(s, t, k) ==
  IF k > Len(THooks[t]) THEN Res(s, "ok")
  ELSE LET r == AddTrigger(s, THooks[t][k], t) IN
       IF r.res = "unknowncset" THEN Res(s, "unknowncset")    \* propagates, nothing was added before
       ELSE RegisterFrom(r.s, t, k + 1)                       \* unknown hook: skipped
\* t.register(engine)
Register(s, t) == IF s.mode \notin TModes[t] THEN Res(s, "ok") ELSE RegisterFrom(s, t, 1)
RECURSIVE RegisterAll(_, _, _)
RegisterAll(s, seq, k) ==
  IF k > Len(seq) THEN Res(s, "ok")
  ELSE LET r == Register(s, seq[k]) IN IF r.res # "ok" THEN r ELSE RegisterAll(r.s, seq, k + 1)
\* class level hooks: pairs <<hook, trigger>> handed straight to add_trigger by the constructor
RECURSIVE AddAll(_, _, _)
AddAll(s, pairs, k) ==
  IF k > Len(pairs) THEN Res(s, "ok")
  ELSE LET r == AddTrigger(s, pairs[k][1], pairs[k][2]) IN IF r.res # "ok" THEN r ELSE AddAll(r.s, pairs, k + 1)
\* MergeEngine.install / uninstall / replace
Construct(m, plugins, classhooks) ==
  LET a == IF plugins THEN RegisterAll(New(m), Plugins, 1) ELSE Res(New(m), "ok")
  IN IF a.res # "ok" THEN a ELSE AddAll(a.s, classhooks, 1)

(* ---------- csets ---------- *)
CachedVal(s, n) == IF n \in s.pres THEN s.pv[n] ELSE s.hv[n]
RECURSIVE Lookup(_, _), LookupSeq(_, _, _, _, _)
\* engine.csets[n]  (n defined)
Lookup(s, n) ==
  IF CachedVal(s, n) # NoVal THEN [s |-> s, log |-> <<>>, val |-> CachedVal(s, n)]
  ELSE LET d  == s.src[n]
           r  == LookupSeq(s, d.deps, 1, <<>>, <<>>)
           s1 == r.s
           v  == IF d.alias THEN r.vals[1] ELSE <<n, s1.cnt[n] + 1>>
           s2 == [s1 EXCEPT !.cnt[n] = @ + 1,
                            !.pv[n] = IF n \in s1.pres THEN v ELSE @,
                            !.hv[n] = IF n \in s1.pres THEN @ ELSE v]
       IN [s |-> s2, log |-> Append(r.log, IEval(n, v)), val |-> v]
LookupSeq(s, names, k, log, vals) ==
  IF k > Len(names) THEN [s |-> s, log |-> log, vals |-> vals]
  ELSE LET r == Lookup(s, names[k]) IN LookupSeq(r.s, names, k + 1, log \o r.log, Append(vals, r.val))

\* names whose source reads n, directly or not (current bindings)
RECURSIVE ReachFrom(_, _, _)
ReachFrom(s, front, seen) ==
  LET nxt == UNION {{s.src[a].deps[k] : k \in DOMAIN s.src[a].deps} : a \in front} \ seen
  IN IF nxt = {} THEN seen ELSE ReachFrom(s, nxt, seen \cup nxt)
Reads(s, a) == ReachFrom(s, {a}, {})                   \* what a is derived from (a excluded unless cyclic)
Dependents(s, n) == {a \in Names : s.src[a].def /\ a \notin s.pres /\ s.hv[a] # NoVal /\ n \in Reads(s, a)}
Acyclic(s) == \A a \in Names : a \notin Reads(s, a)
DepsDefined(s) == \A a \in Names : \A k \in DOMAIN s.src[a].deps : s.src[a].deps[k] # a /\ s.src[s.src[a].deps[k]].def

\* engine.replace_cset(n, <new object>)   (n preserved)
ReplaceCset(s, n) ==
  LET v == Inj(s.inj + 1) IN
  [s |-> [s EXCEPT !.pv[n] = v, !.inj = @ + 1, !.stale = @ \cup Dependents(s, n)], log |-> <<IReplaced(n, v)>>]
\* the public call: only preserved csets can be replaced
TryReplace(s, n) == IF n \in s.pres THEN LET r == ReplaceCset(s, n) IN Out(r.s, r.log, "ok") ELSE Out(s, <<>>, "KeyError")
\* engine.add_cset / add_preserved_cset (n, source d)
AddCset(s, n, d, preserved) ==
  [s EXCEPT !.src[n] = d,
            !.pres = IF preserved THEN @ \cup {n} ELSE @,
            !.stale = @ \cup Dependents(s, n) \cup (IF n \notin s.pres /\ s.hv[n] # NoVal THEN {n} ELSE {})]

(* ---------- hooks ---------- *)
Kinds == {"ok", "plain", "runtime", "modify", "block", "interrupt"}
\* stable sort by priority (sorted(..., key=priority))
Rank(seq, i) == Cardinality({j \in DOMAIN seq :
                   \/ TPrio[seq[j]] < TPrio[seq[i]]
                   \/ TPrio[seq[j]] = TPrio[seq[i]] /\ (IF StableSort THEN j < i ELSE j > i)})
Sorted(seq) == [k \in 1..Len(seq) |-> seq[CHOOSE i \in DOMAIN seq : Rank(seq, i) = k - 1]]

\* the body of trigger t (a stand-in for what real triggers do to the engine)
DoAct(s, t) ==
  LET a == TAct[t]
      n == a.n[s.mode]
  IN
  CASE a.k = "read" /\ s.src[n].def -> LET r == Lookup(s, n) IN [s |-> r.s, log |-> r.log]
    [] a.k = "replace" /\ n \in s.pres -> ReplaceCset(s, n)
    [] a.k = "register" -> [s |-> Register(s, a.t).s, log |-> <<>>]
    [] OTHER -> [s |-> s, log |-> <<>>]

Propagates(F, t) == ~(F[t] = "ok" \/ (F[t] = "plain" /\ TSupp[t]))
\* one iteration of execute_hook's loop
CallTrigger(s, F, h, t) ==
  LET q == Req(t, s.mode)
      a == IF q.all THEN [s |-> s, log |-> <<>>, vals |-> <<>>] ELSE LookupSeq(s, q.names, 1, <<>>, <<>>)
      b == DoAct(a.s, t)
      f == F[t]
      note == CASE f = "plain" /\ TSupp[t] -> <<IWarn(t)>>
                [] f \in {"modify", "block"} -> <<IError(t)>>
                [] OTHER -> <<>>
      fin == IF EndOnFailure \/ ~Propagates(F, t) THEN <<IEnd(h, t)>> ELSE <<>>
  IN Out(b.s, <<IStart(h, t)>> \o a.log \o <<ICall(h, t, q.all, a.vals)>> \o b.log \o note \o fin,
         IF Propagates(F, t) THEN f ELSE "ok")
RECURSIVE RunFrom(_, _, _, _, _, _)
RunFrom(s, F, h, order, k, log) ==
  IF k > Len(order) THEN Out(s, log, "ok")
  ELSE LET c == CallTrigger(s, F, h, order[k]) IN
       IF c.res = "ok" THEN RunFrom(c.s, F, h, order, k + 1, log \o c.log) ELSE Out(c.s, log \o c.log, c.res)
\* engine.<h>()  =  execute_hook(h);  F: how each trigger's body ends at the moment
RunHook(s, F, h) ==
  LET s0 == IF RegenPerHook THEN [s EXCEPT !.hv = [n \in Names |-> NoVal], !.stale = {}] ELSE s
  IN RunFrom(s0, F, h, Sorted(s.hooks[h]), 1, <<IHook(h)>>)
\* engine.csets[n] outside of any hook (get_merged_cset reads "install")
Peek(s, n) == IF ~s.src[n].def THEN Out(s, <<>>, "KeyError") ELSE LET r == Lookup(s, n) IN Out(r.s, r.log, "ok")

(* ---------- what the user relies on, as predicates over one hook run ---------- *)
Sel(log, K)  == SelectSeq(log, LAMBDA x : x.k \in K)
CalledSeq(log) == LET c == Sel(log, {"call"}) IN [k \in DOMAIN c |-> c[k].t]
Count(seq, x) == Cardinality({k \in DOMAIN seq : seq[k] = x})
PrefixOf(a, b) == Len(a) <= Len(b) /\ \A k \in DOMAIN a : a[k] = b[k]
HookOf(log) == log[1].h

Bracketed(log) ==
  LET m == Sel(log, {"start", "call", "end"}) IN
  /\ Len(m) % 3 = 0
  /\ \A i \in 1..(Len(m) \div 3) :
       /\ m[3*i - 2].k = "start" /\ m[3*i - 1].k = "call" /\ m[3*i].k = "end"
       /\ m[3*i - 2].t = m[3*i - 1].t /\ m[3*i].t = m[3*i - 1].t
       /\ m[3*i - 2].h = HookOf(log) /\ m[3*i].h = HookOf(log)
PhaseScoped(log) == \A k \in DOMAIN log : log[k].k = "call" => log[k].h = HookOf(log)
PriorityOrdered(log) == LET c == CalledSeq(log) IN \A i, j \in DOMAIN c : i < j => TPrio[c[i]] <= TPrio[c[j]]
TiesInOrder(log, reg) ==
  LET c == CalledSeq(log) IN
  \A t \in {c[k] : k \in DOMAIN c} :
     PrefixOf(SelectSeq(c, LAMBDA x : TPrio[x] = TPrio[t]), SelectSeq(reg, LAMBDA x : TPrio[x] = TPrio[t]))
ExactlyOnce(log, reg, res) ==
  LET c == CalledSeq(log) IN
  /\ \A k \in DOMAIN c : Count(c, c[k]) <= Count(reg, c[k])
  /\ res = "ok" => Len(c) = Len(reg)
StopsAtFailure(log, F, res) ==
  LET c == CalledSeq(log) IN
  /\ res # "ok" => /\ c # <<>> /\ F[c[Len(c)]] = res /\ Propagates(F, c[Len(c)])
                   /\ log[Len(log)] = IEnd(HookOf(log), c[Len(c)])
  /\ \A k \in DOMAIN c : k < Len(c) => ~Propagates(F, c[k])
  /\ res = "ok" => \A k \in DOMAIN c : ~Propagates(F, c[k])
Notices(log, F) ==
  /\ \A k \in DOMAIN log : log[k].k = "warn"  => F[log[k].t] = "plain" /\ TSupp[log[k].t]
  /\ \A k \in DOMAIN log : log[k].k = "error" => F[log[k].t] \in {"modify", "block"}
  /\ LET c == CalledSeq(log) IN
     /\ Len(Sel(log, {"warn"}))  = Cardinality({k \in DOMAIN c : F[c[k]] = "plain" /\ TSupp[c[k]]})
     /\ Len(Sel(log, {"error"})) = Cardinality({k \in DOMAIN c : F[c[k]] \in {"modify", "block"}})
\* laziness: s is the state the hook started from
Asked(s, log) ==
  LET c == CalledSeq(log)
      direct == UNION {LET q == Req(c[k], s.mode) IN {q.names[j] : j \in DOMAIN q.names} : k \in DOMAIN c}
                \cup {TAct[c[k]].n[s.mode] : k \in {j \in DOMAIN c : TAct[c[j]].k = "read"}}
  IN ReachFrom(s, direct, direct)
AskedOnly(s, log) == LET A == Asked(s, log) IN \A k \in DOMAIN log : log[k].k = "eval" => log[k].n \in A
OncePerRun(log) == \A i, j \in DOMAIN log : (log[i].k = "eval" /\ log[j].k = "eval" /\ log[i].n = log[j].n) => i = j
\* invalidation: a cset that is not preserved is evaluated again in every hook before it is handed out
ComputedThisRun(s, log) ==
  \A k \in DOMAIN log : (log[k].k = "call" /\ log[k].n # "ALL") =>
     LET q == Req(log[k].t, s.mode) IN
     /\ Len(log[k].a) = Len(q.names)
     /\ \A j \in DOMAIN q.names : q.names[j] \notin s.pres =>
          \E i \in 1..(k - 1) : log[i] = IEval(q.names[j], log[k].a[j])
\* a preserved cset that was computed before the hook is handed out as it is, unless replace_cset came first
PreservedKept(s, log) ==
  \A k \in DOMAIN log : (log[k].k = "call" /\ log[k].n # "ALL") =>
     LET q == Req(log[k].t, s.mode) IN
     \A j \in DOMAIN q.names :
        LET n == q.names[j] IN
        (n \in s.pres /\ s.pv[n] # NoVal /\ j <= Len(log[k].a)
           /\ ~\E i \in 1..(k - 1) : log[i].k = "replaced" /\ log[i].n = n) => log[k].a[j] = s.pv[n]
\* the caches never hold an alias that differs from what it names, unless superseded in this hook
Coherent(s) ==
  \A a \in Names : (s.src[a].def /\ s.src[a].alias /\ a \notin s.pres /\ s.hv[a] # NoVal /\ a \notin s.stale) =>
     LET g == s.src[a].deps[1] IN CachedVal(s, g) # NoVal => s.hv[a] = CachedVal(s, g)
PreservedOnce(s) == \A n \in s.pres : s.cnt[n] <= 1 \/ n \in UserNames   \* user names can be re-bound before use

RunClauses(s, F, h, log, res) ==
  (IF Bracketed(log) THEN {} ELSE {"Bracketed"}) \cup
  (IF PhaseScoped(log) THEN {} ELSE {"PhaseScoped"}) \cup
  (IF PriorityOrdered(log) THEN {} ELSE {"PriorityOrdered"}) \cup
  (IF TiesInOrder(log, s.hooks[h]) THEN {} ELSE {"TiesInOrder"}) \cup
  (IF ExactlyOnce(log, s.hooks[h], res) THEN {} ELSE {"ExactlyOnce"}) \cup
  (IF StopsAtFailure(log, F, res) THEN {} ELSE {"StopsAtFailure"}) \cup
  (IF Notices(log, F) THEN {} ELSE {"Notices"}) \cup
  (IF AskedOnly(s, log) THEN {} ELSE {"AskedOnly"}) \cup
  (IF OncePerRun(log) THEN {} ELSE {"OncePerRun"}) \cup
  (IF ComputedThisRun(s, log) THEN {} ELSE {"ComputedThisRun"}) \cup
  (IF PreservedKept(s, log) THEN {} ELSE {"PreservedKept"})

(* ---------- logs are compared up to the order of evaluations inside one run of evaluations ---------- *)
SameRun(p, j, k) == \A m \in (IF j < k THEN j ELSE k)..(IF j < k THEN k ELSE j) : p[m].k = "eval"
CountIn(p, k, e) == Cardinality({j \in DOMAIN p : SameRun(p, j, k) /\ p[j] = e})
LogEq(a, b) == /\ Len(a) = Len(b)
               /\ \A k \in DOMAIN a :
                    IF a[k].k = "eval" THEN b[k].k = "eval" /\ CountIn(a, k, a[k]) = CountIn(b, k, a[k])
                    ELSE a[k] = b[k]

(* ---------- the operation that drives the hooks (operations/domain.py) ---------- *)
InstallStages   == <<"start", "preinst", "transfer", "create_repo_op", "repo_add", "finalize_repo", "postinst", "finish">>
UninstallStages == <<"start", "create_repo_op", "prerm", "remove", "repo_remove", "finalize_repo", "postrm", "finish">>
ReplaceStages   == <<"start", "preinst", "transfer", "create_repo_op", "repo_add", "prerm", "remove", "repo_remove",
                     "finalize_repo", "postrm", "postinst", "finish">>
Stages(m) == CASE m = "install" -> InstallStages [] m = "uninstall" -> UninstallStages [] OTHER -> ReplaceStages
MergeHooks   == <<"pre_merge", "merge", "post_merge">>
UnmergeHooks == <<"pre_unmerge", "unmerge", "post_unmerge">>
\* calls into the package format / repository whose outcome the environment decides
EnvCalls == {"preinst", "postinst", "prerm", "postrm", "add_data", "remove_data", "repo_finish"}

\* o = [mode, done (completed stages), eng, live (an engine exists), locks (acquire - release), tmps (tempspaces on disk)]
\* A `start` stage that failed is run again by the next finish(): it builds a new engine in a new tempspace and takes
\* the lock again (that is what the code does; the first tempspace and the first acquisition are never given back).
OpNew(m) == [mode |-> m, done |-> {}, eng |-> New(m), live |-> FALSE, locks |-> 0, tmps |-> 0,
             starts |-> 0]                       \* ghost: how often the `start` stage was entered

RECURSIVE HooksFrom(_, _, _, _, _)
HooksFrom(s, F, hs, k, log) ==
  IF k > Len(hs) THEN Out(s, log, "ok")
  ELSE LET r == RunHook(s, F, hs[k]) IN
       IF r.res = "ok" THEN HooksFrom(r.s, F, hs, k + 1, log \o r.log) ELSE Out(r.s, log \o r.log, r.res)
\* one call whose result the environment E decides: "ok" | "false" | "raise"
EnvStep(o, E, kind, name) == Out(o, <<IOp(kind, name)>>, E[name])

\* FmtTrigs / DomTrigs: what format_op.add_triggers and domain.triggers register, in that order
StageBody(o, F, E, FmtTrigs, DomTrigs, st) ==
  CASE st = "start" ->
         LET c  == Construct(o.mode, TRUE, <<>>)
             e1 == IF c.res = "ok" THEN RegisterAll(c.s, FmtTrigs, 1) ELSE c
             e2 == IF e1.res = "ok" THEN RegisterAll(e1.s, DomTrigs, 1) ELSE e1
             r  == RunHook(e2.s, F, "sanity_check")
         IN IF c.res # "ok" THEN Out([o EXCEPT !.tmps = @ + 1, !.starts = @ + 1], <<>>, c.res)
            ELSE IF e2.res # "ok" THEN Out([o EXCEPT !.eng = e2.s, !.live = TRUE, !.tmps = @ + 1, !.starts = @ + 1],
                                           <<IOp("fmt", "add_triggers")>>, e2.res)
            ELSE Out([o EXCEPT !.eng = r.s, !.live = TRUE, !.locks = @ + 1, !.tmps = @ + 1, !.starts = @ + 1],
                     <<IOp("fmt", "add_triggers"), IOp("lock", "acquire")>> \o r.log, r.res)
    [] st = "preinst"  -> EnvStep(o, E, "fmt", "preinst")
    [] st = "postinst" -> EnvStep(o, E, "fmt", "postinst")
    [] st = "prerm"    -> EnvStep(o, E, "fmt", "prerm")
    [] st = "postrm"   -> EnvStep(o, E, "fmt", "postrm")
    [] st = "create_repo_op" -> Out(o, <<IOp("repo", "create")>>, "ok")
    [] st = "repo_add"       -> EnvStep(o, E, "repo", "add_data")
    [] st = "repo_remove"    -> EnvStep(o, E, "repo", "remove_data")
    [] st = "finalize_repo"  -> EnvStep(o, E, "repo", "repo_finish")
    [] st = "transfer" ->
         LET r == HooksFrom(o.eng, F, MergeHooks, 1, <<>>) IN
         IF r.res # "ok" THEN Out([o EXCEPT !.eng = r.s], r.log, r.res)
         ELSE LET p == Peek(r.s, "install") IN Out([o EXCEPT !.eng = p.s], r.log \o p.log, "ok")  \* get_merged_cset
    [] st = "remove" ->
         LET r == HooksFrom(o.eng, F, UnmergeHooks, 1, <<>>) IN Out([o EXCEPT !.eng = r.s], r.log, r.res)
    [] OTHER -> \* finish
         LET r == RunHook(o.eng, F, "final")
             pre == <<IOp("fmt", "finalize")>> \o (IF o.mode = "uninstall" THEN <<IOp("fmt", "cleanup")>> ELSE <<>>)
         IN IF r.res # "ok" THEN Out([o EXCEPT !.eng = r.s], pre \o r.log, r.res)
            ELSE Out([o EXCEPT !.eng = r.s, !.locks = @ - 1, !.tmps = @ - 1], pre \o r.log \o <<IOp("lock", "release")>>, "ok")

RECURSIVE FinishFrom(_, _, _, _, _, _, _)
FinishFrom(o, F, E, FT, DT, k, log) ==
  LET sts == Stages(o.mode) IN
  IF k > Len(sts) THEN Out(o, log, "ok")
  ELSE IF sts[k] \in o.done THEN FinishFrom(o, F, E, FT, DT, k + 1, log)
  ELSE LET r == StageBody(o, F, E, FT, DT, sts[k]) IN
       IF r.res = "ok" THEN FinishFrom([r.s EXCEPT !.done = @ \cup {sts[k]}], F, E, FT, DT, k + 1, log \o r.log)
       ELSE Out(r.s, log \o r.log, r.res)             \* "false": finish() returns it; anything else: raised
\* op.finish(): every stage that has not been completed yet, in order, until one fails
Finish(o, F, E, FT, DT) == FinishFrom(o, F, E, FT, DT, 1, <<>>)

\* the operation object is dropped (an operation that failed is given up): the lock it still holds is released,
\* its tempspace removed; nothing happens once finish() has completed
Unfinished(o) == "finish" \notin o.done
Abandon(o) == [o EXCEPT !.locks = IF Unfinished(o) /\ @ > 0 THEN @ - 1 ELSE @,
                        !.tmps  = IF Unfinished(o) /\ @ > 0 THEN @ - 1 ELSE @]

(* user level statements about one finish() call; o is the operation state it started from *)
StageLevel(log) == Sel(log, {"hook", "lock", "fmt", "repo"})
Pos(log, k, key) == {i \in DOMAIN log : log[i].k = k /\ (IF k = "hook" THEN log[i].h ELSE log[i].n) = key}
AllBefore(log, k1, key1, k2, key2) == \A i \in Pos(log, k1, key1), j \in Pos(log, k2, key2) : i < j
HooksInOrder(log, hs) == \A i, j \in DOMAIN hs : i < j => AllBefore(log, "hook", hs[i], "hook", hs[j])
OpOrdered(o, log) ==
  /\ HooksInOrder(log, MergeHooks) /\ HooksInOrder(log, UnmergeHooks)
  /\ \A h \in HookSet(o.mode) \ {"sanity_check"} : AllBefore(log, "hook", "sanity_check", "hook", h)
  /\ \A h \in HookSet(o.mode) \ {"final"} : AllBefore(log, "hook", h, "hook", "final")
  /\ \A i \in DOMAIN MergeHooks, j \in DOMAIN UnmergeHooks : AllBefore(log, "hook", MergeHooks[i], "hook", UnmergeHooks[j])
  /\ AllBefore(log, "fmt", "preinst", "hook", "pre_merge") /\ AllBefore(log, "hook", "post_merge", "repo", "add_data")
  /\ AllBefore(log, "repo", "add_data", "fmt", "prerm")    /\ AllBefore(log, "fmt", "prerm", "hook", "pre_unmerge")
  /\ AllBefore(log, "hook", "post_unmerge", "repo", "remove_data") /\ AllBefore(log, "repo", "repo_finish", "fmt", "postrm")
  /\ AllBefore(log, "fmt", "postrm", "fmt", "postinst")    /\ AllBefore(log, "fmt", "postinst", "hook", "final")
  /\ AllBefore(log, "lock", "acquire", "hook", "sanity_check") /\ AllBefore(log, "hook", "final", "lock", "release")
\* every hook runs while the repository lock is held
UnderLock(o, log) ==
  \A i \in DOMAIN log : log[i].k = "hook" =>
     o.locks + Cardinality({j \in 1..i : log[j] = IOp("lock", "acquire")})
             - Cardinality({j \in 1..i : log[j] = IOp("lock", "release")}) > 0
\* a stage that was completed is not run again
NoRerun(o, log) ==
  /\ "start" \in o.done => Pos(log, "hook", "sanity_check") = {} /\ Pos(log, "lock", "acquire") = {}
  /\ "transfer" \in o.done => \A i \in DOMAIN MergeHooks : Pos(log, "hook", MergeHooks[i]) = {}
  /\ "remove" \in o.done => \A i \in DOMAIN UnmergeHooks : Pos(log, "hook", UnmergeHooks[i]) = {}
  /\ \A st \in o.done \cap {"preinst", "postinst", "prerm", "postrm"} : Pos(log, "fmt", st) = {}
  /\ "repo_add" \in o.done => Pos(log, "repo", "add_data") = {}
  /\ "repo_remove" \in o.done => Pos(log, "repo", "remove_data") = {}
DonePrefix(o) == \E k \in 0..Len(Stages(o.mode)) : o.done = {Stages(o.mode)[i] : i \in 1..k}
OpClauses(o, log, res) ==
  (IF OpOrdered(o, log) THEN {} ELSE {"OpOrdered"}) \cup
  (IF UnderLock(o, log) THEN {} ELSE {"UnderLock"}) \cup
  (IF NoRerun(o, log) THEN {} ELSE {"NoRerun"})

(* ---------- get_writable_fsobj ---------- *)
(* c = [src: "none" | "mem" | "intemp" | "outside" | "sibling"   where the fsobj's data lives: no fsobj, not
        on disk, a file under the tempspace, a file elsewhere, a file in a directory whose name merely starts
        like the tempspace;  mutable, prefer, allow (engine.allow_reuse), empty: BOOLEAN; data: the content] *)
WReuse(c)   == c.src = "intemp" /\ ~c.mutable /\ c.prefer /\ c.allow
WSame(c)    == c.src # "none" /\ c.mutable                     \* already writable: handed back as it is
WContent(c) == IF c.empty \/ c.src = "none" THEN "" ELSE c.data
\* where the returned source lives: "source" = the fsobj's own, "fresh" = a new file in the tempspace
WWhere(c)   == IF WSame(c) \/ WReuse(c) THEN "source" ELSE "fresh"
\* the original data is left alone unless it is the thing being handed out
WMustKeep(c) == c.src # "none" /\ WWhere(c) = "fresh"
=========================================================================
