---------------------------- MODULE Version_Trace ----------------------------
(* C01 code -> spec.  One event per ordered pair (a, b) of versions executed on
   the real code:
     {tid, i, a:{nums,letter,sufs,rev}, b:{...}, atxt:[code points], btxt:[...],
      raised: "" | text,
      cmp : sign of cpv.ver_cmp(a.version, a.revision, b.version, b.revision),
      cpv : {lt,le,eq,ne,ge,gt}  VersionedCPV(a) <op> VersionedCPV(b),
      vm  : {lt,le,eq,ti,ge,gt}  VersionMatch(op, b.version, b.revision).match(pkg a)
                                 (revision object passed the way atom does),
      vmn_on: BOOLEAN, vmn: {...} the same with rev=None (only when b has no -rN) }
   Every field is judged against the PMS operators of Version.tla.            *)
EXTENDS Version, TraceLib
VARIABLE l

B(cond, name) == IF cond THEN {} ELSE {name}

\* c = VerCmp(a, b), t = the same without revisions, computed once per event
JudgeMatch(m, c, t, pfx) ==
         B(m.lt = OpOnCmp("<", c, t),  pfx \o "_lt")
    \cup B(m.le = OpOnCmp("<=", c, t), pfx \o "_le")
    \cup B(m.eq = OpOnCmp("=", c, t),  pfx \o "_eq")
    \cup B(m.ti = OpOnCmp("~", c, t),  pfx \o "_tilde")
    \cup B(m.ge = OpOnCmp(">=", c, t), pfx \o "_ge")
    \cup B(m.gt = OpOnCmp(">", c, t),  pfx \o "_gt")

Judge(e) ==
    LET a == e.a
        b == e.b
    IN  IF ~(IsVer(a) /\ IsVer(b)) THEN {"Domain"}
        ELSE IF VerText(a) # e.atxt \/ VerText(b) # e.btxt THEN {"Render"}
        ELSE IF e.raised # "" THEN {"NoRaise"}
        ELSE LET c == VerCmp(a, b)
                 t == VerCmp(VNoRev(a), VNoRev(b))
             IN  B(e.cmp = c, "VerCmp")
            \cup B(e.cpv.lt = (c = -1), "Cpv_lt")
            \cup B(e.cpv.le = (c # 1),  "Cpv_le")
            \cup B(e.cpv.eq = (c = 0),  "Cpv_eq")
            \cup B(e.cpv.ne = (c # 0),  "Cpv_ne")
            \cup B(e.cpv.ge = (c # -1), "Cpv_ge")
            \cup B(e.cpv.gt = (c = 1),  "Cpv_gt")
            \cup JudgeMatch(e.vm, c, t, "Match")
            \cup (IF e.vmn_on THEN JudgeMatch(e.vmn, c, t, "MatchNoneRev") ELSE {})

TraceInit == l = 0
TraceNext == /\ l < Len(Tr)
             /\ l' = l + 1
             /\ Report(Tr[l'].tid, Tr[l'].i, Judge(Tr[l']))
             /\ EndMark(l')
TraceSpec == TraceInit /\ [][TraceNext]_l
=============================================================================
