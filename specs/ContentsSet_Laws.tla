---------------------------- MODULE ContentsSet_Laws ----------------------------
(* Constant-level laws of ContentsSet (TLC evaluates the ASSUMEs exhaustively over a small
   universe): what "behaves like a map keyed by normalised path" amounts to.           *)
EXTENDS ContentsSet, TLC

LNames  == {"a", "b"}
LToks   == LNames \cup {"", ".", ".."}
\* every spelling of up to 3 tokens
LSpells == {s \in UNION {[1..n -> LToks] : n \in 0..3} : SpellOK(s)}
LKeys   == {<<"a">>, <<"a", "b">>, <<"b">>}
LVals   == {[id |-> 1, kind |-> "file"], [id |-> 2, kind |-> "file"]}
LMaps   == UNION {[D -> LVals] : D \in SUBSET LKeys}
LKeySp  == {<<"a">>, <<"a", "">>, <<"a", "b">>, <<"a", ".", "b">>, <<"b">>, <<"a", "..", "b">>}
LEnts   == {[sp |-> s, id |-> i, kind |-> "file"] : s \in LKeySp, i \in {1, 2}}
LPair   == {[sp |-> s, id |-> IF Len(s) = 2 THEN 2 ELSE 1, kind |-> "file"] : s \in LKeySp}
LArgs   == {<<>>} \cup {<<e>> : e \in LEnts} \cup {<<e, f>> : e \in LPair, f \in LPair}
           \cup {<<e, [e EXCEPT !.id = 3 - e.id]>> : e \in LPair}
DV      == [id |-> 9, kind |-> "dir"]

\* (each law takes a dummy parameter: TLC evaluates zero-arity constant definitions eagerly, which
\*  would evaluate every law twice)
(* normalisation *)
NormIdem(u)   == \A s \in LSpells : IsNormal(Norm(s)) /\ Norm(Norm(s)) = Norm(s)
NormFixed(u)  == \A s \in LSpells : IsNormal(s) <=> Norm(s) = s

(* the key algebra is the algebra of sets; values never come from nowhere *)
Algebra(u) == \A m \in LMaps, arg \in LArgs :
  LET R == Rel(arg)
      U == BinKeys("union", m, R)  I == BinKeys("intersection", m, R)
      D == BinKeys("difference", m, R)  S == BinKeys("symmetric_difference", m, R) IN
  /\ S = U \ I
  /\ D \cup I = DOMAIN m /\ D \cap I = {}
  /\ IsSubset(m, R) <=> D = {}
  /\ IsDisjoint(m, R) <=> I = {}
  /\ IsSuperset(m, R) <=> U = DOMAIN m
  /\ \A b \in BinPure : /\ BinResults(b, m, R) # {}
                        /\ \A f \in BinResults(b, m, R) : BinOK(b, f, m, R)
  \* sequential update is one permitted union; it and its keys agree with PutAll
  /\ DOMAIN PutAll(m, arg) = U
  /\ BinOK("union", PutAll(m, arg), m, R)

(* add / lookup / removal: any spelling of a key addresses the same entry *)
Lookup(u) == \A m \in LMaps, e \in LEnts, s \in LKeySp :
  LET m1 == Put(m, Key(e), Val(e)) IN
  /\ Norm(s) = Key(e) => (Norm(s) \in DOMAIN m1 /\ m1[Norm(s)] = Val(e))
  /\ Norm(s) = Key(e) => Drop(m1, {Norm(s)}) = Drop(m, {Key(e)})
  /\ Norm(s) # Key(e) => (Norm(s) \in DOMAIN m1 <=> Norm(s) \in DOMAIN m)
  /\ Drop(Drop(m, {Norm(s)}), {Norm(s)}) = Drop(m, {Norm(s)})

(* relocation: bijective on keys, values travel, inverse and composition *)
LOffs == {<<>>, <<"a">>, <<"a", "">>, <<"b">>, <<"a", "b">>, <<"a", "", "b">>, <<"b", "..", "a">>}
Relocation(u) == \A m \in LMaps, o \in LOffs, n \in LOffs :
  LET r == ChangeOffset(m, o, n) IN
  r.ok =>
    /\ Cardinality(DOMAIN r.m) = Cardinality(DOMAIN m)
    /\ \A k \in DOMAIN r.m : IsPrefix(Norm(n), k) /\ IsNormal(k)
    /\ OldOffsetOK(n) => (ChangeOffset(r.m, n, o).ok /\ ChangeOffset(r.m, n, o).m = m)
    /\ \A p \in LOffs : OldOffsetOK(n) => ChangeOffset(r.m, n, p).m = ChangeOffset(m, o, p).m

(* missing directories: closed, minimal, conservative, idempotent; never the root *)
LDeep  == {<<"a">>, <<"a", "b">>, <<"a", "b", "a">>, <<"b", "a">>, <<"b", "a", "b", "a">>, <<>>}
LDMaps == UNION {[D -> LVals] : D \in SUBSET LDeep}
Missing(u) == \A m \in LDMaps :
  LET m2 == AddMissingDirs(m, DV) IN
  /\ Closed(m2)
  /\ \A k \in DOMAIN m : m2[k] = m[k]
  /\ \A k \in DOMAIN m2 \ DOMAIN m : m2[k] = DV /\ k # <<>> /\ \E k0 \in DOMAIN m : IsPrefix(k, k0) /\ k # k0
  /\ AddMissingDirs(m2, DV) = m2
  /\ (Closed(m) <=> m2 = m)
  \* minimality: no closed extension of m is smaller
  /\ \A D \in SUBSET (DOMAIN m2 \ DOMAIN m) : D # (DOMAIN m2 \ DOMAIN m) => ~Closed([k \in DOMAIN m \cup D |-> DV])

ASSUME NormIdem(0)
ASSUME NormFixed(0)
ASSUME Algebra(0)
ASSUME Lookup(0)
ASSUME Relocation(0)
ASSUME Missing(0)
=========================================================================
