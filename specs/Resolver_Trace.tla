---------------------------- MODULE Resolver_Trace ----------------------------
(* Judges recorded resolver runs (C15 + C16).  One event per (world, strategy, mode) run:
     {tid, i, ev:"resolve", kind:"upgrade"|"min"|"empty", mode:"batch"|"seq",
      pkgs:[{id,key,ver,slot,repo, depend:[item..], bdepend, rdepend, idepend, pdepend}],
      targets:[atom..],                       item = [alt..], alt = [atom..]
      raised, exc, ok, ops:[{t,p,old}],       the session on ONE resolver instance:
      done, marks:[n..],                        batch: add_atoms(all targets); after a failure the failed
                                                target is dropped, reset(), add_atoms again (what pmerge
                                                --ignore-failures does); `targets` are the ones finally asked for
                                                seq: one add_atoms per target; done = how many succeeded,
                                                marks[k] = length of ops before target k was given
      raised2, ok2, ops2:[...]}               the identical session once more, on a fresh instance
   Verdict lines carry a record of details: <<"VERDICT", tid, i, clause, [pkg, what, via]>>.
   A line <<"JUDGED", tid, n>> tells how many policy clauses were in the judged domain.     *)
EXTENDS Resolver, TraceLib
VARIABLE l

\* the targets the resolver reported success for
Achieved(e, ts) == IF e.ok THEN SeqSet(ts) ELSE IF e.mode = "seq" THEN {ts[k] : k \in 1..e.done} ELSE {}
Judge(e, w, ts, robust) ==
  IF ~WellFormed(w) \/ Len(ts) = 0 THEN {V("OutsideDomain", "-", "world", "-")}
  ELSE
    (IF e.raised \/ e.raised2
     THEN {V("NoCrash", "-", IF e.raised THEN e.exc ELSE e.exc2, IF SlotMoved(w) THEN "slotmoved" ELSE "-")} ELSE {})
    \cup (IF ~e.raised /\ ~OpsKnown(w, e.ops) THEN {V("OutsideDomain", "-", "ops", "-")}
          ELSE IF ~e.raised /\ Achieved(e, ts) # {} THEN PlanViolations(w, Achieved(e, ts), e.ops) ELSE {})
    \* identical inputs, identical answer (nothing is promised about the state a failed resolution leaves)
    \cup (IF ~e.raised /\ ~e.raised2 /\ (e.ok # e.ok2 \/ (e.ok /\ e.ops # e.ops2))
          THEN {V("Deterministic", "-", "ops", "-")} ELSE {})
    \* a crash leaves the targets unsatisfied: for the policy it is a failed resolution
    \cup (IF e.raised THEN PolicyViolationsIn(robust, e.kind, w, ts, FALSE, <<>>)
          ELSE IF OpsKnown(w, e.ops) THEN PolicyViolationsIn(robust, e.kind, w, ts, e.ok, e.ops) ELSE {})
    \cup (IF ~e.raised /\ OpsKnown(w, e.ops) /\ e.kind \in {"upgrade", "min"}
          THEN ReadyViolations(e.kind, w, ts, e.marks, e.done, e.ops) ELSE {})

ReportV(tid, i, bad) == \A v \in bad : PrintT(<<"VERDICT", tid, i, v.clause, [pkg |-> v.pkg, what |-> v.what, via |-> v.via]>>)

TraceInit == l = 0
TraceNext == /\ l < Len(Tr)
             /\ l' = l + 1
             /\ LET e  == Tr[l']
                    w  == WorldOfSeq(e.pkgs)
                    ts == TargetsOfSeq(e.targets)
                    robust == WellFormed(w) /\ Len(ts) > 0 /\ e.kind \in {"upgrade", "min"} /\ Robust(w, SeqSet(ts))
                    n  == PolicyJudgedIn(robust, e.kind, w, ts)
                          + (IF WellFormed(w) /\ ~e.raised /\ OpsKnown(w, e.ops) /\ e.kind \in {"upgrade", "min"}
                             THEN ReadyJudged(e.kind, w, ts, e.marks, e.ops) ELSE 0)
                IN /\ ReportV(e.tid, e.i, Judge(e, w, ts, robust))
                   /\ (n = 0 \/ PrintT(<<"JUDGED", e.tid, n>>))
             /\ EndMark(l')
TraceSpec == TraceInit /\ [][TraceNext]_l
=========================================================================
