---------------------------- MODULE Resolver_Trace ----------------------------
(* Judges recorded resolver runs (C15 + C16).  One event per (world, strategy) run:
     {tid, i, ev:"resolve", kind:"upgrade"|"min"|"empty",
      pkgs:[{id,key,ver,slot,repo, depend:[item..], bdepend, rdepend, idepend, pdepend}],
      targets:[atom..],                       item = [alt..], alt = [atom..]
      raised, exc, ok, ops:[{t,p,old}],       first run
      raised2, ok2, ops2:[...]}               second run of the identical inputs
   Verdict lines carry a record of details: <<"VERDICT", tid, i, clause, [pkg, what, via]>>.
   A line <<"JUDGED", tid, n>> tells how many policy clauses were in the judged domain.     *)
EXTENDS Resolver, TraceLib
VARIABLE l

Judge(e, w, ts, robust) ==
  IF ~WellFormed(w) \/ Len(ts) = 0 THEN {V("OutsideDomain", "-", "world", "-")}
  ELSE
    (IF e.raised \/ e.raised2
     THEN {V("NoCrash", "-", IF e.raised THEN e.exc ELSE e.exc2, IF SlotMoved(w) THEN "slotmoved" ELSE "-")} ELSE {})
    \cup (IF ~e.raised /\ ~OpsKnown(w, e.ops) THEN {V("OutsideDomain", "-", "ops", "-")}
          ELSE IF ~e.raised /\ e.ok THEN PlanViolations(w, SeqSet(ts), e.ops) ELSE {})
    \cup (IF ~e.raised /\ ~e.raised2 /\ (e.ok # e.ok2 \/ e.ops # e.ops2)
          THEN {V("Deterministic", "-", "ops", "-")} ELSE {})
    \* a crash leaves the targets unsatisfied: for the policy it is a failed resolution
    \cup (IF e.raised THEN PolicyViolationsIn(robust, e.kind, w, ts, FALSE, <<>>)
          ELSE IF OpsKnown(w, e.ops) THEN PolicyViolationsIn(robust, e.kind, w, ts, e.ok, e.ops) ELSE {})

ReportV(tid, i, bad) == \A v \in bad : PrintT(<<"VERDICT", tid, i, v.clause, [pkg |-> v.pkg, what |-> v.what, via |-> v.via]>>)

TraceInit == l = 0
TraceNext == /\ l < Len(Tr)
             /\ l' = l + 1
             /\ LET e  == Tr[l']
                    w  == WorldOfSeq(e.pkgs)
                    ts == TargetsOfSeq(e.targets)
                    robust == WellFormed(w) /\ Len(ts) > 0 /\ e.kind \in {"upgrade", "min"} /\ Robust(w, SeqSet(ts))
                    n  == PolicyJudgedIn(robust, e.kind, w, ts)
                IN /\ ReportV(e.tid, e.i, Judge(e, w, ts, robust))
                   /\ (n = 0 \/ PrintT(<<"JUDGED", e.tid, n>>))
             /\ EndMark(l')
TraceSpec == TraceInit /\ [][TraceNext]_l
=========================================================================
