---------------------------- MODULE PkgList_Laws ----------------------------
\* constant-level laws, evaluated as ASSUMEs: render . parse = id on EVERY text up to N over a small alphabet
EXTENDS PkgList
CONSTANT N
Alphabet == {SP, 160, 97, HASH, LF, 42}
Texts == UNION {[1..n -> Alphabet] : n \in 0..N}
RenderParse == \A t \in Texts : LET ls == ParseText(t) IN RenderLines(ls) = t /\ WFList(ls)
\* with CR LF endings too
TextsCR == UNION {[1..n -> {97, SP, CR, LF}] : n \in 0..N}
RenderParseCR == \A t \in TextsCR : TextInDomain(t) => LET ls == ParseText(t) IN RenderLines(ls) = t /\ WFList(ls)
\* the judge rejects the damage it is there to catch
L1 == Line(<<SP>>, <<97>>, <<SP, SP>>, <<KStar>>, <<>>, <<TAB>>, <<HASH, 99>>, <<CR, LF>>)
Sg == <<[spec |-> <<97>>, kws |-> <<<<120>>, <<121>>>>]>>
Good == Rewrite(L1, <<<<120>>, <<121>>>>)
JudgeCatches ==
  /\ ExpandFails(RenderLine(L1), Sg, FALSE, RenderLine(Good)) = {}
  /\ "Expand_Preserve" \in ExpandFails(RenderLine(L1), Sg, FALSE, RenderLine([Good EXCEPT !.lead = <<>>]))
  /\ "Expand_Preserve" \in ExpandFails(RenderLine(L1), Sg, FALSE, RenderLine([Good EXCEPT !.eol = <<LF>>]))
  /\ "Expand_Spacing" \in ExpandFails(RenderLine(L1), Sg, FALSE, RenderLine([Good EXCEPT !.gap1 = <<SP>>]))
  /\ "Expand_Keywords" \in ExpandFails(RenderLine(L1), Sg, FALSE, RenderLine([Good EXCEPT !.kws = <<<<121>>, <<120>>>>]))
  /\ "Expand_Untouched" \in ExpandFails(RenderLine([L1 EXCEPT !.kws = <<<<120>>>>]), Sg, FALSE, RenderLine([L1 EXCEPT !.kws = <<<<120>>>>, !.trail = <<SP>>]))
  /\ "Expand_Refusal" \in ExpandFails(RenderLine([L1 EXCEPT !.kws = <<KCaret>>]), Sg, FALSE, RenderLine(L1))
ASSUME RenderParse
ASSUME RenderParseCR
ASSUME JudgeCatches
=========================================================================
