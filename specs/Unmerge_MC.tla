----------------------------- MODULE Unmerge_MC -----------------------------
(* Design-level check for C20: the unmerge protocol of fs/ops.py:unmerge_contents preceded by the
   BaseSystemUnmergeProtection filter, as a process over FsModel, for every small live root built from
       usr (protected), usr/d (listed dir; real, or a symlink to the unlisted dir r), usr/d/f (listed file),
       usr/d/x (unlisted extra, optional), l (listed: symlink to t | file | gone), t (unlisted file),
       e (listed dir, empty unless ex holds an unlisted file)
   Non-directories are unlinked in ANY order, then directories deepest-first (ties in any order).
   Variants: "ok" | "follow" (removes what a listed symlink points to) | "nobase" (no protection filter)
             | "greedy" (removes non-empty directories recursively).
   Invariants: Safe (in every state: unlisted objects, symlink targets and protected directories are
   intact), DoneFits (on termination the state is Unmerge!UnmergeExpected, judged by JudgeUnmerge).
   TLC must reject the three broken variants.                                                      *)
EXTENDS Unmerge
CONSTANT Variant

USR == <<"usr">>
UD == <<"usr", "d">>
UDF == <<"usr", "d", "f">>
UDX == <<"usr", "d", "x">>
LL == <<"l">>
TT == <<"t">>
EE == <<"e">>
EX == <<"e", "x">>
RR == <<"r">>

Sel == [extra : BOOLEAN, lk : {"sym", "file", "gone"}, dk : {"dir", "symdir", "gone"}, ex : BOOLEAN, fk : {"file", "sym", "gone"}]

Obj(type, cid, target, mode, uid) == [type |-> type, cid |-> cid, size |-> IF type = "file" THEN 1 ELSE 0, mode |-> mode, uid |-> uid, gid |-> uid, target |-> target]
Mk(s, p, o, t) == Utime(Create(s, p, o).s, p, t).s

Links == {[t |-> "../r", abs |-> FALSE, ext |-> FALSE, comps |-> <<"..", "r">>],
          [t |-> "t", abs |-> FALSE, ext |-> FALSE, comps |-> <<"t">>]}

Live(c) ==
  LET s0 == [names |-> {}, inodes |-> <<>>, handles |-> {}, links |-> Links, mounts |-> {}]
      s1 == Mk(Mk(Mk(s0, USR, Obj("dir", "-", "-", 493, 0), 1), TT, Obj("file", "T", "-", 420, 0), 2), RR, Obj("dir", "-", "-", 493, 0), 3)
      dbase == IF c.dk = "symdir" THEN RR ELSE UD
      s2 == CASE c.dk = "dir" -> Mk(s1, UD, Obj("dir", "-", "-", 493, 0), 4)
              [] c.dk = "symdir" -> Mk(s1, UD, Obj("sym", "-", "../r", 511, 0), 4)
              [] OTHER -> s1
      s3 == IF c.dk = "gone" THEN s2
            ELSE LET a == CASE c.fk = "file" -> Mk(s2, Append(dbase, "f"), Obj("file", "F", "-", 420, 0), 5)
                            [] c.fk = "sym" -> Mk(s2, Append(dbase, "f"), Obj("sym", "-", "t", 511, 0), 5)
                            [] OTHER -> s2
                 IN IF c.extra THEN Mk(a, Append(dbase, "x"), Obj("file", "X", "-", 420, 0), 6) ELSE a
      s4 == CASE c.lk = "sym" -> Mk(s3, LL, Obj("sym", "-", "t", 511, 0), 7)
              [] c.lk = "file" -> Mk(s3, LL, Obj("file", "L", "-", 420, 0), 7)
              [] OTHER -> s3
      s5 == Mk(s4, EE, Obj("dir", "-", "-", 493, 0), 8)
  IN IF c.ex THEN Mk(s5, EX, Obj("file", "EX", "-", 420, 0), 9) ELSE s5

Listed == <<[path |-> USR, type |-> "dir"], [path |-> UD, type |-> "dir"], [path |-> UDF, type |-> "file"],
            [path |-> LL, type |-> "sym"], [path |-> EE, type |-> "dir"]>>
Base == {USR, <<"etc">>}

VARIABLES sel, fs, left, pc
vars == <<sel, fs, left, pc>>

Init == /\ sel \in Sel /\ fs = Live(sel)
        /\ left = IF Variant = "nobase" THEN DOMAIN Listed ELSE {k \in DOMAIN Listed : Listed[k].path \notin Base}
        /\ pc = "objs"

Target(k) == Listed[k].path

Purge(s, p) == [s EXCEPT !.names = {n \in @ : ~IsPrefix(p, n.path)}]

ObjStepU(k) ==
  /\ pc = "objs" /\ k \in left /\ Listed[k].type # "dir"
  /\ LET q == IF Variant = "follow" THEN Resolve(fs, Target(k), TRUE) ELSE [st |-> "ok", p |-> Canon(fs, Target(k))]
         r == IF q.st = "ok" THEN Unlink(fs, q.p) ELSE R(fs, FALSE)
     IN fs' = r.s        \* unlink_if_exists: ENOENT is ignored
  /\ left' = left \ {k} /\ UNCHANGED <<sel, pc>>
ToDirs == pc = "objs" /\ (\A k \in left : Listed[k].type = "dir") /\ pc' = "dirs" /\ UNCHANGED <<sel, fs, left>>
DirStepU(k) ==
  /\ pc = "dirs" /\ k \in left /\ \A j \in left : Len(Target(j)) <= Len(Target(k))
  /\ LET q == Canon(fs, Target(k))
         r == Rmdir(fs, q)          \* ENOTEMPTY / ENOENT / ENOTDIR are ignored
     IN fs' = IF Variant = "greedy" /\ HasName(fs, q) /\ ObjAt(fs, q).type = "dir" THEN Purge(fs, q) ELSE r.s
  /\ left' = left \ {k} /\ UNCHANGED <<sel, pc>>
Finish == pc = "dirs" /\ left = {} /\ pc' = "done" /\ UNCHANGED <<sel, fs, left>>

Next == (\E k \in DOMAIN Listed : ObjStepU(k) \/ DirStepU(k)) \/ ToDirs \/ Finish
Spec == Init /\ [][Next]_vars

S0 == Live(sel)
Unl == {TT, RR, USR, Append(IF sel.dk = "symdir" THEN RR ELSE UD, "x"), EX}
Safe == \A p \in Unl : HasName(S0, p) => (HasName(fs, p) /\ AttrBad(DirMtimeFree(ObjAt(S0, p)), ObjAt(fs, p)) = {})
DoneFits == pc = "done" =>
    JudgeUnmerge(PlainExpected(S0, Listed, <<>>, Base), S0, ListedAt(S0, Listed, <<>>), Behind(S0, Listed, <<>>),
                 Protected(S0, Base), fs) = {}
=============================================================================
