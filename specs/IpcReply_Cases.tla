---------------------------- MODULE IpcReply_Cases ----------------------------
(* C32, spec -> code: the catalogue of helper requests that the driver scripts into the
   fake daemon's line queue, and the streams built from it.

   World every stream starts from (created by drivers/c32_ipcreply.py, nothing else):
     cwd S/ :  a.txt b.txt (files)  lnk -> a.txt   sub/x.txt sub/deep/z.txt
               foo.1  bar  de.mo  idx.html
               t.txt ("one\ntwo\n")  t.want ("one\n2\n")  p.patch (t.txt -> t.want)  bad.patch
               arc.tar (holds arc/file)  junk.tar (not a tar archive)  env.in
     image I/: blk (a regular file)
     installed packages: cat/inst-1 cat/inst-2        package being built: cat/pn-1 slot 0
   A request template:
     helper, eapi      IPC command name and the EAPI of the package being built
     opts, args        the <options> line and the argument vector exactly as the bash side sends them
     feasible          can the requested action succeed at all in that world (valid arguments,
                       existing sources, applicable patch ...)
     probes            what must hold once the action has succeeded: [p, k, m, ref]
                         k = "file"/"dir": entry p of that kind with permission bits m (decimal)
                         k = "sym": symlink at p;  k = "sameas": content of p equals content of ref
                         k = "incl"/"excl": p is in the helper's include / exclude set
     payload           "-" or the text the reply must carry after BEL (query helpers)
     faults            underlying operations worth failing for this request ("" = none)
   p is relative to the image ("I/...") or to the working directory ("S/...").            *)
EXTENDS Naturals, Sequences, FiniteSets

M644 == 420
M755 == 493
M600 == 384
M750 == 488

P(p, k, m) == [p |-> p, k |-> k, m |-> m, ref |-> "-"]
T(id, helper, eapi, opts, args, feasible, probes, payload, faults) ==
    [id |-> id, helper |-> helper, eapi |-> eapi, opts |-> opts, args |-> args, feasible |-> feasible,
     probes |-> probes, payload |-> payload, faults |-> faults]

INS == "--dest=\"/etc/x\" --insoptions=\"-m0644\" --diroptions=\"-m0755\""
DIRS == "--diroptions=\"-m0755\""

Templates == {
  \* ---- doins, native python implementation
  T("doins-file", "doins", "8", INS, <<"a.txt">>, TRUE, <<P("I/etc/x/a.txt", "file", M644)>>, "-", {"", "makedirs", "copyfile", "chmod"}),
  T("doins-two-r", "doins", "8", INS, <<"-r", "sub", "b.txt">>, TRUE,
      <<P("I/etc/x/sub/x.txt", "file", M644), P("I/etc/x/sub/deep/z.txt", "file", M644), P("I/etc/x/b.txt", "file", M644)>>, "-", {"", "copyfile", "makedirs"}),
  T("doins-missing", "doins", "8", INS, <<"nope">>, FALSE, <<>>, "-", {""}),
  T("doins-noargs", "doins", "8", INS, <<>>, FALSE, <<>>, "-", {""}),
  T("doins-badopt", "doins", "8", "--bogus=1 --dest=\"/etc/x\"", <<"a.txt">>, FALSE, <<>>, "-", {""}),
  T("doins-owner", "doins", "8", "--dest=\"/etc/x\" --insoptions=\"-m0600 -o0 -g0\" --diroptions=\"-m0755\"", <<"a.txt">>, TRUE,
      <<P("I/etc/x/a.txt", "file", M600)>>, "-", {"", "lchown", "chmod"}),
  T("doins-symlink", "doins", "8", INS, <<"lnk">>, TRUE, <<P("I/etc/x/lnk", "sym", 0)>>, "-", {""}),
  \* ---- doins / dodir / keepdir through the external `install` command
  T("doins-ext-C", "doins", "8", "--dest=\"/etc/x\" --insoptions=\"-m0644 -C\" --diroptions=\"-m0755\"", <<"a.txt">>, TRUE,
      <<P("I/etc/x/a.txt", "file", M644)>>, "-", {""}),
  T("doins-ext-symmode", "doins", "8", "--dest=\"/etc/x\" --insoptions=\"-m u=rw,go=r\" --diroptions=\"-m0755\"", <<"a.txt">>, TRUE,
      <<P("I/etc/x/a.txt", "file", M644)>>, "-", {""}),
  T("doins-ext-two", "doins", "8", "--dest=\"/etc/x\" --insoptions=\"-m0644 -C\" --diroptions=\"-m0755\"", <<"a.txt", "b.txt">>, TRUE,
      <<P("I/etc/x/a.txt", "file", M644), P("I/etc/x/b.txt", "file", M644)>>, "-", {""}),
  T("doins-ext-r", "doins", "8", "--dest=\"/etc/x\" --insoptions=\"-m0600 -C\" --diroptions=\"-m0755\"", <<"-r", "sub", "lnk">>, TRUE,
      <<P("I/etc/x/sub/x.txt", "file", M600), P("I/etc/x/sub/deep/z.txt", "file", M600), P("I/etc/x/lnk", "sym", 0)>>, "-", {""}),
  T("doins-ext-badmode", "doins", "8", "--dest=\"/etc/x\" --insoptions=\"-m9999\" --diroptions=\"-m0755\"", <<"a.txt">>, FALSE, <<>>, "-", {""}),
  T("doins-ext-blocked", "doins", "8", "--dest=\"/blk\" --insoptions=\"-m0644 -C\" --diroptions=\"-m0755\"", <<"a.txt">>, FALSE, <<>>, "-", {""}),
  T("dodir-ext", "dodir", "8", "--diroptions=\"-m u=rwx,g=rx,o=\"", <<"/var/x">>, TRUE, <<P("I/var/x", "dir", M750)>>, "-", {""}),
  T("dodir-ext-blocked2", "dodir", "8", "--diroptions=\"-m u=rwx,g=rx,o=\"", <<"/blk/a", "/blk/b">>, FALSE, <<>>, "-", {""}),
  T("keepdir-ext", "keepdir", "8", "--diroptions=\"-m u=rwx,g=rx,o=\"", <<"/var/k">>, TRUE,
      <<P("I/var/k", "dir", M750), P("I/var/k/.keep_cat_pn-0", "file", M644)>>, "-", {""}),
  \* ---- several targets through the external command, every success/failure pattern over the targets
  \*      (destination groups are served in sorted order of the destination: a.txt < deep < sub < t.txt;
  \*       a directory given to doexe/dolib.a cannot be installed: `install` omits it)
  T("doexe-ext-fail-ok", "doexe", "8", "--dest=\"/opt/x\" --insoptions=\"-m0755 -C\"", <<"sub", "t.txt">>, FALSE, <<>>, "-", {""}),
  T("doexe-ext-ok-fail", "doexe", "8", "--dest=\"/opt/x\" --insoptions=\"-m0755 -C\"", <<"a.txt", "sub">>, FALSE, <<>>, "-", {""}),
  T("doexe-ext-ok-fail-ok", "doexe", "8", "--dest=\"/opt/x\" --insoptions=\"-m0755 -C\"", <<"a.txt", "sub", "t.txt">>, FALSE, <<>>, "-", {""}),
  T("doexe-ext-fail-ok-ok", "doexe", "8", "--dest=\"/opt/x\" --insoptions=\"-m0755 -C\"", <<"t.txt", "sub/deep", "sub/x.txt">>, FALSE, <<>>, "-", {""}),
  T("doexe-ext-fail-fail", "doexe", "8", "--dest=\"/opt/x\" --insoptions=\"-m0755 -C\"", <<"sub/deep", "sub">>, FALSE, <<>>, "-", {""}),
  T("doexe-ext-ok-ok-ok", "doexe", "8", "--dest=\"/opt/x\" --insoptions=\"-m0755 -C\"", <<"a.txt", "b.txt", "t.txt">>, TRUE,
      <<P("I/opt/x/a.txt", "file", M755), P("I/opt/x/b.txt", "file", M755), P("I/opt/x/t.txt", "file", M755)>>, "-", {""}),
  T("dolib.a-ext-fail-ok", "dolib.a", "8", "--dest=\"/usr/lib\" --insoptions=\"-m u=rw,go=r\"", <<"sub", "t.txt">>, FALSE, <<>>, "-", {""}),
  T("dolib.a-ext-ok-fail", "dolib.a", "8", "--dest=\"/usr/lib\" --insoptions=\"-m u=rw,go=r\"", <<"a.txt", "sub">>, FALSE, <<>>, "-", {""}),
  T("doexe-fail-ok", "doexe", "8", "--dest=\"/opt/x\" --insoptions=\"-m0755\"", <<"sub", "t.txt">>, FALSE, <<>>, "-", {""}),
  T("doexe-ok-fail", "doexe", "8", "--dest=\"/opt/x\" --insoptions=\"-m0755\"", <<"a.txt", "sub">>, FALSE, <<>>, "-", {""}),
  \* install -d with several directories (blk is a regular file in the image)
  T("dodir-ext-fail-ok", "dodir", "8", "--diroptions=\"-m u=rwx,g=rx,o=\"", <<"/blk/a", "/var/x">>, FALSE, <<>>, "-", {""}),
  T("dodir-ext-ok-fail", "dodir", "8", "--diroptions=\"-m u=rwx,g=rx,o=\"", <<"/var/x", "/blk/a">>, FALSE, <<>>, "-", {""}),
  T("dodir-ext-ok-fail-ok", "dodir", "8", "--diroptions=\"-m u=rwx,g=rx,o=\"", <<"/var/x", "/blk/a", "/var/y">>, FALSE, <<>>, "-", {""}),
  T("dodir-ext-ok-ok", "dodir", "8", "--diroptions=\"-m u=rwx,g=rx,o=\"", <<"/var/x", "/var/y">>, TRUE,
      <<P("I/var/x", "dir", M750), P("I/var/y", "dir", M750)>>, "-", {""}),
  T("keepdir-ext-fail-ok", "keepdir", "8", "--diroptions=\"-m u=rwx,g=rx,o=\"", <<"/blk/a", "/var/k">>, FALSE, <<>>, "-", {""}),
  T("keepdir-ext-ok-fail", "keepdir", "8", "--diroptions=\"-m u=rwx,g=rx,o=\"", <<"/var/k", "/blk/a">>, FALSE, <<>>, "-", {""}),
  T("dodir-fail-ok", "dodir", "8", DIRS, <<"/blk/a", "/var/x">>, FALSE, <<>>, "-", {""}),
  T("dodir-ok-fail", "dodir", "8", DIRS, <<"/var/x", "/blk/a">>, FALSE, <<>>, "-", {""}),
  \* ---- the other install wrappers
  T("dodir", "dodir", "8", DIRS, <<"/var/x", "/var/y">>, TRUE, <<P("I/var/x", "dir", M755), P("I/var/y", "dir", M755)>>, "-", {"", "makedirs", "chmod"}),
  T("dodir-blocked", "dodir", "8", DIRS, <<"/blk/a">>, FALSE, <<>>, "-", {""}),
  T("keepdir", "keepdir", "8", DIRS, <<"/var/k">>, TRUE, <<P("I/var/k", "dir", M755), P("I/var/k/.keep_cat_pn-0", "file", M644)>>, "-", {"", "open", "makedirs"}),
  T("dodoc", "dodoc", "8", "--dest=\"/usr/share/doc/pn-1/\"", <<"a.txt">>, TRUE, <<P("I/usr/share/doc/pn-1/a.txt", "file", M644)>>, "-", {"", "copyfile", "chmod"}),
  T("dodoc-dir", "dodoc", "8", "--dest=\"/usr/share/doc/pn-1/\"", <<"sub">>, FALSE, <<>>, "-", {""}),
  T("dodoc-r", "dodoc", "8", "--dest=\"/usr/share/doc/pn-1/\"", <<"-r", "sub">>, TRUE,
      <<P("I/usr/share/doc/pn-1/sub/x.txt", "file", M644), P("I/usr/share/doc/pn-1/sub/deep/z.txt", "file", M644)>>, "-", {"", "copyfile"}),
  T("doexe", "doexe", "8", "--dest=\"/opt/x\" --insoptions=\"-m0755\"", <<"a.txt">>, TRUE, <<P("I/opt/x/a.txt", "file", M755)>>, "-", {"", "copyfile"}),
  T("dobin", "dobin", "8", "--dest=\"/usr/bin\"", <<"a.txt">>, TRUE, <<P("I/usr/bin/a.txt", "file", M755)>>, "-", {"", "lchown"}),
  T("dosbin", "dosbin", "8", "--dest=\"/usr/sbin\"", <<"a.txt">>, TRUE, <<P("I/usr/sbin/a.txt", "file", M755)>>, "-", {""}),
  T("dolib.so", "dolib.so", "8", "--dest=\"/usr/lib\" --insoptions=\"-m0755\"", <<"a.txt">>, TRUE, <<P("I/usr/lib/a.txt", "file", M755)>>, "-", {""}),
  T("dolib.a", "dolib.a", "8", "--dest=\"/usr/lib\" --insoptions=\"-m0644\"", <<"a.txt">>, TRUE, <<P("I/usr/lib/a.txt", "file", M644)>>, "-", {""}),
  T("doinfo", "doinfo", "8", "--dest=/usr/share/info", <<"a.txt">>, TRUE, <<P("I/usr/share/info/a.txt", "file", M644)>>, "-", {""}),
  T("doman", "doman", "8", "--dest=/usr/share/man", <<"foo.1">>, TRUE, <<P("I/usr/share/man/man1/foo.1", "file", M644)>>, "-", {"", "copyfile", "makedirs"}),
  T("doman-nosection", "doman", "8", "--dest=/usr/share/man", <<"bar">>, FALSE, <<>>, "-", {""}),
  T("domo", "domo", "8", "--dest=\"/usr/share/locale\"", <<"de.mo">>, TRUE, <<P("I/usr/share/locale/de/LC_MESSAGES/pn.mo", "file", M644)>>, "-", {"", "copyfile"}),
  T("dosym", "dosym", "8", "", <<"/usr/bin/foo", "/usr/lib/x/bar">>, TRUE, <<P("I/usr/lib/x/bar", "sym", 0)>>, "-", {"", "symlink", "makedirs"}),
  T("dosym-r", "dosym", "8", "", <<"-r", "/usr/bin/foo", "/usr/lib/x/rel">>, TRUE, <<P("I/usr/lib/x/rel", "sym", 0)>>, "-", {""}),
  T("dosym-noname", "dosym", "8", "", <<"/usr/bin/foo", "/usr/lib/x/">>, FALSE, <<>>, "-", {""}),
  T("dosym-onearg", "dosym", "8", "", <<"/usr/bin/foo">>, FALSE, <<>>, "-", {""}),
  T("dosym-r-eapi7", "dosym", "7", "", <<"-r", "/usr/bin/foo", "/usr/lib/x/rel">>, FALSE, <<>>, "-", {""}),
  T("dosym-7", "dosym", "7", "", <<"/usr/bin/foo", "/usr/lib/x/bar">>, TRUE, <<P("I/usr/lib/x/bar", "sym", 0)>>, "-", {""}),
  T("dohtml", "dohtml", "6", "--dest=\"/usr/share/doc/pn-1/html\"", <<"idx.html">>, TRUE, <<P("I/usr/share/doc/pn-1/html/idx.html", "file", M644)>>, "-", {"", "copyfile"}),
  T("dohtml-dir", "dohtml", "6", "--dest=\"/usr/share/doc/pn-1/html\"", <<"sub">>, FALSE, <<>>, "-", {""}),
  T("dolib", "dolib", "6", "--dest=\"/usr/lib\" --insoptions=\"-m0644\"", <<"a.txt">>, TRUE, <<P("I/usr/lib/a.txt", "file", M644)>>, "-", {""}),
  T("dohard-missing", "dohard", "3", "", <<"/no/such", "/usr/lib/h2">>, FALSE, <<>>, "-", {""}),
  T("dodoc-r-eapi3", "dodoc", "3", "--dest=\"/usr/share/doc/pn-1/\"", <<"-r", "sub">>, FALSE, <<>>, "-", {""}),
  \* ---- helpers without install semantics
  T("docompress", "docompress", "8", "", <<"/usr/share/x">>, TRUE, <<P("/usr/share/x", "incl", 0)>>, "-", {""}),
  T("docompress-x", "docompress", "8", "", <<"-x", "/usr/share/y">>, TRUE, <<P("/usr/share/y", "excl", 0)>>, "-", {""}),
  T("docompress-noargs", "docompress", "8", "", <<>>, FALSE, <<>>, "-", {""}),
  T("dostrip-x", "dostrip", "8", "", <<"-x", "/usr/lib/y">>, TRUE, <<P("/usr/lib/y", "excl", 0)>>, "-", {""}),
  T("has_version-yes", "has_version", "8", "", <<"cat/inst">>, TRUE, <<>>, "0", {""}),
  T("has_version-no", "has_version", "8", "", <<"cat/missing">>, TRUE, <<>>, "1", {""}),
  T("has_version-bad", "has_version", "8", "", <<"!!bad[[">>, FALSE, <<>>, "-", {""}),
  T("has_version-noargs", "has_version", "8", "", <<>>, FALSE, <<>>, "-", {""}),
  T("best_version-yes", "best_version", "8", "", <<"cat/inst">>, TRUE, <<>>, "cat/inst-2", {""}),
  T("best_version-no", "best_version", "8", "", <<"cat/missing">>, TRUE, <<>>, "", {""}),
  T("eapply", "eapply", "8", "", <<"p.patch">>, TRUE, <<[p |-> "S/t.txt", k |-> "sameas", m |-> 0, ref |-> "S/t.want"]>>, "-", {""}),
  T("eapply-bad", "eapply", "8", "", <<"bad.patch">>, FALSE, <<>>, "-", {""}),
  T("eapply-missing", "eapply", "8", "", <<"nope.patch">>, FALSE, <<>>, "-", {""}),
  T("unpack", "unpack", "8", "", <<"arc.tar">>, TRUE, <<P("S/arc/file", "file", M644)>>, "-", {""}),
  T("unpack-junk", "unpack", "8", "", <<"junk.tar">>, FALSE, <<>>, "-", {""}),
  T("unpack-missing", "unpack", "8", "", <<"missing.tar">>, FALSE, <<>>, "-", {""}),
  T("filter_env", "filter_env", "8", "", <<"-v", "FOO", "env.in", "env.out">>, TRUE, <<P("S/env.out", "file", M644)>>, "-", {""})
}

\* one scripted request: template + nonfatal flag + injected fault
Atoms == {[t |-> t, nonfatal |-> nf, fault |-> f] : <<t, nf>> \in Templates \X BOOLEAN, f \in {""} } \cup
         {[t |-> t, nonfatal |-> nf, fault |-> f] : <<t, nf, f>> \in {x \in Templates \X BOOLEAN \X {"makedirs", "copyfile", "chmod", "lchown", "symlink", "open"} : x[3] \in x[1].faults}}
=========================================================================
