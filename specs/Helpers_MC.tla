---------------------------- MODULE Helpers_MC ----------------------------
(* Design-level model of a src_install phase (C33): destination commands (into, insinto,
   diropts, insopts) and helper calls over a tiny working directory, the image being the
   reference result Apply(img, Placement(..)).  Every history of at most MaxSteps steps for
   EAPI 3 and 8 is explored.  Invariants:
     TreeShape              the image stays a tree: everything above an entry is a directory
     JudgeAcceptsReference  the judge used on the real code (ImageClauses) accepts the reference
                            result of every call  (the judge and the placement functions agree)
     Idempotent             repeating the last call changes nothing
     UnderDestination       everything a call places lies below the destination its helper is
                            bound to by the destination state at the time of the call
     ModesRequested         files carry the helper's mode / the *opts mode at the time of the call *)
EXTENDS Helpers, TLC
CONSTANT MaxSteps

It(name, kind, cid, lnk, tree, stem, lang, sec) ==
    [pre |-> <<>>, name |-> name, kind |-> kind, cid |-> cid, lnk |-> lnk, tree |-> tree, stem |-> stem, lang |-> lang,
     sec |-> sec, ext |-> ""]
TF(rel, cid) == [rel |-> rel, kind |-> "file", cid |-> cid, lnk |-> "", ext |-> ""]
TD(rel) == [rel |-> rel, kind |-> "dir", cid |-> "", lnk |-> "", ext |-> ""]
F == It("f", "file", "cf", "", <<>>, "", "", "")
L == It("l", "sym", "", "f", <<>>, "", "", "")
D == It("d", "dir", "", "", <<TF(<<"x">>, "cx"), TD(<<"e">>), TF(<<"e", "y">>, "cy")>>, "", "", "")
X == It("nope", "missing", "", "", <<>>, "", "", "")
Man == It("m.de.1", "file", "cm", "", <<>>, "m", "de", "1")
NoSec == It("readme", "file", "cr", "", <<>>, "readme", "", "")
Mo == It("de.mo", "file", "co", "", <<>>, "de", "", "")

A0 == [items |-> <<>>, rec |-> FALSE, i18n |-> "", dirs |-> <<>>, src |-> <<>>, srcabs |-> TRUE, srctext |-> "",
       tgt |-> <<>>, tgtslash |-> FALSE, rel |-> FALSE, hx |-> <<>>]
Items(s, r) == [A0 EXCEPT !.items = s, !.rec = r]
Pk == [PF |-> "pn-1", PN |-> "pn"]

Calls ==
    {<<h, Items(s, r)>> : h \in {"doins", "dodoc", "dobin"}, s \in {<<F>>, <<D>>, <<F, D>>, <<X>>, <<L>>}, r \in BOOLEAN}
    \cup {<<"doman", Items(s, FALSE)>> : s \in {<<Man>>, <<NoSec>>}}
    \cup {<<"doman", [Items(<<Man>>, FALSE) EXCEPT !.i18n = "fr"]>>}
    \cup {<<"domo", Items(<<Mo>>, FALSE)>>}
    \cup {<<h, [A0 EXCEPT !.dirs = <<d>>]>> : h \in {"dodir", "keepdir"}, d \in {<<"var", "k">>, <<"etc">>}}
    \cup {<<"dosym", [A0 EXCEPT !.src = <<"usr", "bin", "f">>, !.srctext = "/usr/bin/f", !.tgt = t, !.rel = r, !.tgtslash = sl]>>
          : t \in {<<"usr", "lib", "g">>, <<"g">>}, r \in BOOLEAN, sl \in BOOLEAN}
    \cup {<<"dohard", [A0 EXCEPT !.src = <<"usr", "bin", "f">>, !.tgt = <<"usr", "lib", "h">>]>>}

VARIABLES eapi, st, img, last, steps
vars == <<eapi, st, img, last, steps>>

Init == /\ eapi \in {3, 8}
        /\ st = DefaultState /\ img = {} /\ steps = 0
        /\ last = [h |-> "-", st |-> DefaultState, prev |-> {}, es |-> {}, a |-> A0]
Dest == /\ steps < MaxSteps /\ steps' = steps + 1
        /\ \/ \E p \in {<<"usr">>, <<"opt">>, <<>>} : st' = SetInto(st, p)
           \/ \E p \in {<<"etc", "x">>, <<>>} : st' = SetInsinto(st, p)
           \/ \E m \in {448} : st' = SetMode(st, "diropts", m)
           \/ \E m \in {384} : st' = SetMode(st, "insopts", m)
           \/ \E p \in {<<"sub">>} : st' = SetDocinto(st, p)
        /\ UNCHANGED <<eapi, img, last>>
Expected(h, a) ==
    IF h = "dohard" /\ ~(Has(img, Norm(a.src)) /\ At(img, Norm(a.src)).kind = "file") THEN Unspec
    ELSE IF h = "dosym" /\ Has(img, Norm(a.tgt)) /\ At(img, Norm(a.tgt)).kind = "dir" THEN Reject
    ELSE Placement(h, eapi, st, a, Pk)
Call == /\ steps < MaxSteps /\ steps' = steps + 1
        /\ \E c \in Calls :
             LET pl == Expected(c[1], c[2]) IN
             /\ pl.status = "ok" /\ Applicable(img, pl.entries)
             /\ img' = Apply(img, pl.entries, c[2])
             /\ last' = [h |-> c[1], st |-> st, prev |-> img, es |-> pl.entries, a |-> c[2]]
        /\ UNCHANGED <<eapi, st>>
Next == Dest \/ Call
Spec == Init /\ [][Next]_vars

TreeShape == \A o \in img : \A p \in ProperAncestors(o.path) : Has(img, p) /\ At(img, p).kind = "dir"
OnePerPath == \A o1, o2 \in img : o1.path = o2.path => o1 = o2
JudgeAcceptsReference == ImageClauses(last.prev, img, last.es, {}, last.a) = {}
Idempotent == last.h # "-" /\ Applicable(img, last.es) => Apply(img, last.es, last.a) = img
Root(h, s) == CASE h = "doins" -> s.insinto
                [] h = "dobin" -> Append(s.into, "bin")
                [] h = "dodoc" -> <<"usr", "share", "doc", "pn-1">> \o s.docinto
                [] h = "doman" -> <<"usr", "share", "man">>
                [] h = "domo"  -> IF eapi <= 6 THEN Append(s.into, "share") ELSE <<"usr", "share", "locale">>
                [] OTHER -> <<>>
UnderDestination == \A e \in last.es : IsPrefix(Root(last.h, last.st), e.path)
ModesRequested == \A e \in last.es :
    /\ (e.kind = "file" /\ last.h = "doins" => e.mode = last.st.insmode)
    /\ (e.kind = "file" /\ last.h = "dobin" => e.mode = M755)
    /\ (e.kind = "file" /\ last.h \in {"dodoc", "doman", "domo"} => e.mode = M644)
    /\ (e.kind = "dir" /\ last.h \in {"doins", "dodir", "keepdir"} => e.mode = last.st.dirmode)
\* the phase can reach images where the EAPI-specific rules matter (guards against a vacuous model)
SeenLangDir == ~\E o \in img : o.path = <<"usr", "share", "man", "de", "man1", "m.1">>
=========================================================================
