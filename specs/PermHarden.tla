---------------------------- MODULE PermHarden ----------------------------
(* C23: merge-time permission hardening (src/pkgcore/merge/triggers.py: fix_uid_perms,
   fix_gid_perms, fix_set_bits, detect_world_writable) as a post-condition on every entry of
   new_cset after the pre_merge stage of an installing engine.

   An entry is [kind, mode, uid, gid]; mode is the integer the entry carries (permission bits
   0..4095, devices also carry their S_IFMT bits); owners are abstracted to the classes
   "root", "build" (the build user / group: os_data.portage_uid / portage_gid) and "other".
   Symlinks: the merge never applies a mode to a symlink (fs/ops.py ensure_perms), so the
   "unsafe mode" clause speaks about every kind but "sym" (carve-out, DESIGN C23).

   The property:  Safe        no entry is set-id and world writable,
                  OwnerUid/Gid build-owned entries belong to root, every other owner is kept,
                  and the fixes change nothing else (type, location, target, data are judged
                  by PermHarden_Trace; ModeFrame: only the set-id / other-write bits may be
                  cleared, and only on an entry that needs the fix).
   `fixww` = the engine was configured with detect_world_writable(fix_perms=True), which
   additionally promises that no other-write bit survives.                                *)
EXTENDS Integers, FiniteSets

SUID == 2048    \* 0o4000
SGID == 1024    \* 0o2000
OW   == 2       \* 0o0002
Bits == {1, 2, 4, 8, 16, 32, 64, 128, 256, 512, 1024, 2048, 4096, 8192, 16384, 32768}
Touchable == {SUID, SGID, OW}

HasBit(m, b) == (m \div b) % 2 = 1
Clear(m, b)  == IF HasBit(m, b) THEN m - b ELSE m
SetId(m)     == HasBit(m, SUID) \/ HasBit(m, SGID)
Unsafe(m)    == SetId(m) /\ HasBit(m, OW)
ModeApplies(kind) == kind # "sym"

TypeBits(kind) == IF kind = "dev" THEN 8192 ELSE 0      \* S_IFCHR: device entries carry their type bits

Owners == {"root", "build", "other"}
OwnerFix(o) == IF o = "build" THEN "root" ELSE o

\* ---- post-condition on the mode ----
NeedsFix(kind, m, fixww) == ModeApplies(kind) /\ (Unsafe(m) \/ (fixww /\ HasBit(m, OW)))
Safe(kind, m2)              == ModeApplies(kind) => ~Unsafe(m2)
WorldWritableFixed(kind, m2, fixww) == (fixww /\ ModeApplies(kind)) => ~HasBit(m2, OW)
ModeFrame(kind, m, m2, fixww) ==
  /\ \A b \in Bits \ Touchable : HasBit(m2, b) = HasBit(m, b)
  /\ \A b \in Touchable : HasBit(m2, b) => HasBit(m, b)
  /\ m2 < 65536
  /\ ~NeedsFix(kind, m, fixww) => m2 = m

\* ---- the triggers as the code writes them (one operator each) ----
TrigUid(e)     == [e EXCEPT !.uid = IF @ = "build" THEN "root" ELSE @]
TrigGid(e)     == [e EXCEPT !.gid = IF @ = "build" THEN "root" ELSE @]
TrigSetBits(e) == IF e.kind # "sym" /\ SetId(e.mode) /\ HasBit(e.mode, OW)
                  THEN [e EXCEPT !.mode = Clear(Clear(Clear(@, SUID), SGID), OW)] ELSE e
TrigWW(e, fixww) == IF fixww /\ e.kind # "sym" /\ HasBit(e.mode, OW) THEN [e EXCEPT !.mode = Clear(@, OW)] ELSE e
Triggers == {"uid", "gid", "setbits", "ww"}
RunTrigger(t, e, fixww) == CASE t = "uid" -> TrigUid(e) [] t = "gid" -> TrigGid(e)
                             [] t = "setbits" -> TrigSetBits(e) [] t = "ww" -> TrigWW(e, fixww)

PostOK(e0, e, fixww) ==
  /\ e.kind = e0.kind
  /\ Safe(e.kind, e.mode) /\ WorldWritableFixed(e.kind, e.mode, fixww) /\ ModeFrame(e0.kind, e0.mode, e.mode, fixww)
  /\ e.uid = OwnerFix(e0.uid) /\ e.gid = OwnerFix(e0.gid)
=========================================================================
