---------------------------- MODULE TraceLib ----------------------------
(* Shared plumbing of every *_Trace module (DESIGN.md 2.1 / 4.2).
   The recorded trace is an ndjson file named by the environment variable
   TRACE_FILE; event k is Tr[k].  Verdicts are TOTAL: a failing clause is
   printed as <<"VERDICT", tid, i, clause>> and the walk continues, so the
   rest of the trace (and the other traces of the batch) is still judged.  *)
EXTENDS TLC, TLCExt, Json, IOUtils, Sequences, SequencesExt, Naturals, FiniteSets

Tr == ndJsonDeserialize(IOEnv.TRACE_FILE)

\* print one verdict line per failing clause; always TRUE
Report(tid, i, bad) == \A c \in bad : PrintT(<<"VERDICT", tid, i, c>>)

\* printed once, after the last event has been consumed
EndMark(k) == (k = Len(Tr)) => PrintT(<<"TRACE-END", k>>)

\* JSON arrays arrive as sequences
AsSet(s) == {s[k] : k \in DOMAIN s}
=========================================================================
