---------------------------- MODULE AtomSyntax_MC ----------------------------
(* Design check for C03: the recogniser and the generator of AtomSyntax agree.
   One state per (structure, EAPI, mutation):
     * the rendering of a valid structure is accepted exactly under the EAPIs that allow its
       features, and is read back as the very same structure;
     * every catalogued violation is rejected under every EAPI;
     * the open cases come out "Unspecified" (or "Reject" where the EAPI forbids a feature). *)
EXTENDS AtomSyntax_Gen
VARIABLES g, e, m, ph
vars == <<g, e, m, ph>>
Init == g \in Gen \cup MutBases \cup {o.g : o \in OpenCases} /\ e = "none" /\ m = "" /\ ph = 0
Next == /\ ph = 0 /\ ph' = 1 /\ g' = g
        /\ e' \in Eapis
        /\ m' \in (IF g \in MutBases THEN Mutations \cup {""} ELSE {""})
Spec == Init /\ [][Next]_vars

IsOpen == \E o \in OpenCases : o.g = g
RoundTrip == (m = "" /\ ~IsOpen) =>
               LET r == Parse(Render(g), e) IN
               IF Allowed(Features(g), e) THEN r.v = "Accept" /\ r.st = Normal(g) ELSE r.v = "Reject" /\ r.why = "eapi"
Violations == (m # "") => Parse(Mut(g, m), e).v = "Reject"
Open == (m = "" /\ IsOpen) =>
          LET r == Parse(Render(g), e)  o == CHOOSE x \in OpenCases : x.g = g IN
          IF Allowed(Features(g), e) THEN r.v = "Unspecified" /\ r.why = o.why ELSE r.v = "Reject"
=========================================================================
