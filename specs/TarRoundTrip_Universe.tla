---------------------------- MODULE TarRoundTrip_Universe ----------------------------
(* The pool of entries shared by TarRoundTrip_MC / _Laws / _Export: one directory, a hard link
   group of three (one member named THROUGH a symlinked directory), a hard link pair on another
   device with the SAME inode number as that group, a second group reached through
   a symlink CHAIN, files without inode information, a link with a "../" target whose destination
   directory is not part of the set, a fifo.  Hard links share their attributes (one inode).    *)
\* Names are opaque to the specification (only "." and ".." mean something, and only inside link
\* targets); several pool names deliberately start / end with dots or consist of dots only, at the
\* top level and nested: a path is a sequence of components, not a string to be trimmed.
EXTENDS TarRoundTrip, FiniteSetsExt

Base(p, t) == [path |-> p, type |-> t, mode |-> 493, uid |-> 0, gid |-> 0, msec |-> 1400000000, musec |-> 0,
               target |-> "", tabs |-> FALSE, tcomps |-> <<>>, cid |-> 0, major |-> 0, minor |-> 0,
               devkind |-> "-", dev |-> 0, ino |-> 0]
D(p)            == [Base(p, "dir") EXCEPT !.mode = 488, !.uid = 7, !.gid = 8, !.msec = 1400000001]
FD(p, dev, ino, cid) == [Base(p, "file") EXCEPT !.dev = dev, !.ino = ino, !.cid = cid, !.mode = 416 + ino + 2 * cid,
                                           !.uid = 1000 + ino + cid, !.gid = 100 + ino + 7 * dev,
                                           !.msec = 1500000000 + ino + 10 * cid, !.musec = 250000 * ino]
F(p, ino, cid)  == FD(p, 1, ino, cid)
S(p, ab, tc, t) == [Base(p, "sym") EXCEPT !.tabs = ab, !.tcomps = tc, !.target = t, !.mode = 511, !.msec = 1300000000]
P(p)            == [Base(p, "fifo") EXCEPT !.mode = 384, !.uid = 3]

Pool == <<
    D(<<"d">>),
    F(<<"d", "f1">>, 1, 1),
    F(<<"d", "f2">>, 1, 1),
    S(<<"l">>, FALSE, <<"d">>, "d"),
    F(<<"l", "f4">>, 1, 1),                              \* really d/f4
    F(<<"..f3">>, 2, 2),
    S(<<"k">>, FALSE, <<"l">>, "l"),                     \* chain k -> l -> d
    F(<<"k", "f5">>, 2, 2),                              \* really d/f5
    F(<<"d", ".g.">>, 0, 3),                               \* no inode information
    F(<<".g2">>, 0, 3),
    S(<<"d", "up">>, FALSE, <<"..", "e">>, "../e"),      \* d/up -> /e, which is not in the set
    D(<<"d", "up", "sub">>),                             \* really e/sub
    P(<<"d", "...">>),
    S(<<".a">>, TRUE, <<"d", "up">>, "/d/up"),            \* absolute, through another link
    F(<<".a", "h.">>, 2, 2),                               \* really e/h
    FD(<<"s1">>, 2, 1, 4),                               \* a hard link pair on a SECOND device whose inode
    FD(<<"...s2">>, 2, 1, 4)                                \* number collides with the group d/f1, d/f2, l/f4
>>
PoolSet == {Pool[i] : i \in DOMAIN Pool}
\* the in-domain subsets of at most n entries
SmallSets(n) == {s \in UNION {kSubset(k, PoolSet) : k \in 0..n} : InDomain(s)}
=========================================================================
