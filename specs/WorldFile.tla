---------------------------- MODULE WorldFile ----------------------------
(* C30: the world file as a set of entries (src/pkgcore/pkgsets/filelist.py, WorldFile;
   scripts/pmerge.py update_worldset).

   An entry is one line of the file, an opaque text: "cat/pkg", "cat/pkg:slot", or any other atom
   that somebody put there.  A request is [key, slot]: the package name and the slot of the atom
   handed to add()/remove() (slot = NoSlot when the atom carries none; version, operator, subslot,
   use deps of the atom are irrelevant).

   What the property says add/remove record:  exactly the name, or name:slot when a non-zero slot
   is given, for ANY valid slot string, and nothing else changes.                              *)
EXTENDS Sequences, FiniteSets

NoSlot == "-"            \* not a valid slot name, so it cannot clash with one

\* the single entry a request stands for
Target(a) == IF a.slot = NoSlot \/ a.slot = "0" THEN a.key ELSE a.key \o ":" \o a.slot

Add(W, a) == W \cup {Target(a)}

\* removing an entry that is not recorded is refused (KeyError) and changes nothing
CanRemove(W, a) == Target(a) \in W
Remove(W, a)    == W \ {Target(a)}

\* one call of update_worldset(world, atom, remove): [w |-> entries afterwards, refused |-> BOOLEAN]
Apply(W, op) ==
  IF op.remove
  THEN IF CanRemove(W, op) THEN [w |-> Remove(W, op), refused |-> FALSE] ELSE [w |-> W, refused |-> TRUE]
  ELSE [w |-> Add(W, op), refused |-> FALSE]

(* ---- the three things the property promises about one update W -> W2 ---- *)
\* exactly the requested entry is recorded / removed
Recorded(W2, op)        == IF op.remove THEN Target(op) \notin W2 ELSE Target(op) \in W2
\* every other entry is left intact, and nothing else appears
OthersIntact(W, W2, op) == W2 \ {Target(op)} = W \ {Target(op)}
\* a removal is refused exactly when there is nothing to remove
RefusalOk(W, op, refused) == refused = (op.remove /\ ~CanRemove(W, op))

(* ---- a slot as the sequence of its characters: only needed to describe the defective
        "character by character" variant that the model checker must reject (vacuity guard) ---- *)
RECURSIVE JoinChars(_)
JoinChars(cs) == IF cs = <<>> THEN "" ELSE Head(cs) \o JoinChars(Tail(cs))
CharwiseTargets(key, cs) ==
  IF cs = <<>> THEN {key}
  ELSE {IF cs[k] = "0" THEN key ELSE key \o ":" \o cs[k] : k \in DOMAIN cs}
=========================================================================
