---------------------------- MODULE PermHarden_Trace ----------------------------
(* Judges engine runs.  One event per run:
   {tid, i, fixww, mode:"install"|"replace", observer:"default"|"explicit", raised:"" | exception class,
    ins:[entry], outs:[entry]}
   entry = {loc, kind, m (mode), u, g (owner classes: "root" | "build" | "other" | "#<number>"), tgt, data}
   ins  = engine.csets["new_cset"] before pre_merge, outs = the same set after pre_merge, both
   sorted by location.  One verdict line per failing clause per ENTRY: <<"VERDICT", tid, j, clause>>
   (j = index into ins; j = 0: the run as a whole).  A stage that raises aborts the merge: the
   only verdict of such a run is StageCompletes (the driver repeats the case with an explicit
   observer so that the hardening itself is still judged).                                   *)
EXTENDS PermHarden, TraceLib
VARIABLE l

JudgeEntry(e, j) ==
  IF j > Len(e.outs) THEN {"EntriesKept"}
  ELSE LET a == e.ins[j]  b == e.outs[j] IN
    (IF b.loc = a.loc THEN {} ELSE {"LocationKept"})
    \cup (IF b.kind = a.kind THEN {} ELSE {"TypeKept"})
    \cup (IF b.tgt = a.tgt THEN {} ELSE {"TargetKept"})
    \cup (IF b.data = a.data THEN {} ELSE {"DataKept"})
    \cup (IF Safe(b.kind, b.m) THEN {} ELSE {"Safe"})
    \cup (IF WorldWritableFixed(b.kind, b.m, e.fixww) THEN {} ELSE {"WorldWritableFixed"})
    \cup (IF ModeFrame(a.kind, a.m, b.m, e.fixww) THEN {} ELSE {"ModeFrame"})
    \cup (IF b.u = OwnerFix(a.u) THEN {} ELSE {"OwnerUid"})
    \cup (IF b.g = OwnerFix(a.g) THEN {} ELSE {"OwnerGid"})

TraceInit == l = 0
TraceNext == /\ l < Len(Tr)
             /\ l' = l + 1
             /\ LET e == Tr[l'] IN
                  IF e.raised # "" THEN Report(e.tid, 0, {"StageCompletes"})
                  ELSE /\ Report(e.tid, 0, IF Len(e.ins) = Len(e.outs) THEN {} ELSE {"EntriesKept"})
                       /\ \A j \in DOMAIN e.ins : Report(e.tid, j, JudgeEntry(e, j))
             /\ EndMark(l')
TraceSpec == TraceInit /\ [][TraceNext]_l
=========================================================================
