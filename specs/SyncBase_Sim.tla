---------------------------- MODULE SyncBase_Sim ----------------------------
(* spec -> code: TLC (simulation mode) chooses behaviours of SyncBase_MC; hist records only the
   INPUTS (which world, the calls with their force / verbosity arguments, and every choice of the
   environment: resolved addresses, exit codes, rewritten stamps, mirror progress, restarts, what is
   at the repository path).  drivers/g05_syncbase.py builds that world around the real syncer classes
   (scripted getaddrinfo / spawn), replays the calls and records what the code did; the outcome is
   recomputed from those observations by SyncBase_Trace.
   World parameters beyond SyncBase_MC: the VCS class, the host and user part of the rsync URI
   (a host name that also occurs earlier in the URI is what makes the address substitution
   interesting) and the verbosity argument of every call (9 = not given).                      *)
EXTENDS SyncBase_MC
CONSTANTS D, VcsClasses, Hosts, UserParts
VARIABLES hist, done
E(a, k, f, n, c, w, s, t, x, y) == [a |-> a, k |-> k, f |-> f, n |-> n, c |-> c, w |-> w, s |-> s, t |-> t, x |-> x, y |-> y]
Verb == {-1, 0, 1, 2, 9}
SimInit == /\ Init /\ done = FALSE
           /\ \E x \in (IF kind = "vcs" THEN VcsClasses ELSE Hosts), y \in (IF kind = "vcs" THEN {"-"} ELSE UserParts) :
                hist = <<E("init", kind, FALSE, remote, 0, FALSE, disk, tree, x, y)>>
Keep(a) == a /\ UNCHANGED hist
Step ==
  /\ ~done /\ Len(hist) < D /\ UNCHANGED done
  /\ \/ \E f \in BOOLEAN, v \in Verb : Call(f) /\ hist' = Append(hist, E("call", "-", f, v, 0, FALSE, 0, "-", "-", "-"))
     \/ \E n \in 1..MaxAddrs : Resolve(n) /\ hist' = Append(hist, E("resolve", "-", FALSE, n, 0, FALSE, 0, "-", "-", "-"))
     \/ ResolveFail /\ hist' = Append(hist, E("dnsfail", "-", FALSE, 0, 0, FALSE, 0, "-", "-", "-"))
     \/ \E c \in Codes, w \in BOOLEAN : (c # 0 \/ w) /\ Attempt(c, w)
                                        /\ hist' = Append(hist, E("attempt", "-", FALSE, 0, c, w, 0, "-", "-", "-"))
     \/ Keep(GateOk) \/ Keep(FullOk) \/ Keep(PhaseFail)
     \/ \E s \in Stamps : RemoteAdvance(s) /\ hist' = Append(hist, E("remote", "-", FALSE, 0, 0, FALSE, s, "-", "-", "-"))
     \/ Restart /\ hist' = Append(hist, E("restart", "-", FALSE, 0, 0, FALSE, 0, "-", "-", "-"))
     \/ \E t \in {"absent", "dir", "file"} : EnvTree(t) /\ hist' = Append(hist, E("tree", "-", FALSE, 0, 0, FALSE, 0, t, "-", "-"))
     \/ \E f \in BOOLEAN, c \in Codes, lv \in BOOLEAN, v \in Verb :
          VcsCall(f, c, lv) /\ hist' = Append(hist, E("vcscall", "-", f, v, c, lv, 0, "-", "-", "-"))
Over == Len(hist) >= D \/ (ncalls = MaxCalls /\ pc = "idle")
Finish == ~done /\ Over /\ done' = TRUE /\ UNCHANGED <<vars, hist>>
SimNext == Step \/ Finish
SimSpec == SimInit /\ [][SimNext]_<<vars, hist, done>>
\* (TLC evaluates invariants on every generated successor: print from the single successor of Finish)
Emit == ~done \/ PrintT(<<"BEH", hist>>)
=========================================================================
