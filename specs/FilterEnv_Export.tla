---------------------------- MODULE FilterEnv_Export ----------------------------
(* spec -> code for C34: every specified filter configuration over the names of a dump with
   three variables and three functions (one name is both a variable and a function) plus a name
   that never occurs.  The driver builds, for each configuration, a dump of those six
   definitions with bodies and order of its choosing (bash writes the text), runs the real
   filter and reads the result back with bash.                                            *)
EXTENDS FilterEnv, TLC, Json, IOUtils, SequencesExt
VN == {"va", "vb", "both"}
FN == {"fa", "fb", "both"}
Cfgs == {c \in [vnames : SUBSET (VN \cup {"ghost"}), fnames : SUBSET (FN \cup {"ghost"}),
                vwhite : BOOLEAN, fwhite : BOOLEAN] : Specified(c)}
Cases == {[vnames |-> SetToSeq(c.vnames), fnames |-> SetToSeq(c.fnames), vwhite |-> c.vwhite, fwhite |-> c.fwhite,
           vars |-> SetToSeq(VN), funcs |-> SetToSeq(FN)] : c \in Cfgs}
ASSUME ndJsonSerialize(IOEnv.OUT, SetToSeq(Cases))
=============================================================================
