---------------------------- MODULE ProfileStack ----------------------------
(* G03 (growth area): the profile stack of pkgcore (src/pkgcore/ebuild/profiles.py:
   ProfileNode, ProfileStack, OnDiskProfile; misc.IncrementalsDict / incremental_expansion).

   WHAT A USER OF OnDiskProfile RELIES ON (the properties checked; see ProfileStack_MC / _Trace):

   (1) Linearisation.  The stack of a profile is the profiles base directory (ROOT) followed by the
       depth-first, parent-file-order, parents-before-child linearisation of the `parent` graph.  A
       node inherited along several paths occurs ONCE PER PATH; a parent line naming a directory
       that does not exist is skipped (and reported against the file that names it).
   (2) Folding.  system / profile_set / masks / unmasks / package.provided are the fold of the
       per-node (negations, additions, clear) triples over that stack IN ORDER ("-*" clears what
       earlier nodes gave, "-x" removes an earlier x, then the node's own additions are made; one
       file is ONE unordered triple - pinned by tests/ebuild/test_profiles.py).  _incremental_masks
       / _incremental_unmasks are the non-empty per-node pairs of the stack without ROOT, in order.
       ROOT contributes package.mask / package.unmask only; package.provided of an EAPI 7+ node
       is not read at all; the profile set needs the repository's `profile-set` format.
   (3) make.defaults.  default_env is defined by recursion over `parents` (each parent's complete
       environment, in parent order, then the node's own file, whose ${VAR} references see the
       inherited + own values).  Incremental variables (INCREMENTALS) append, every other variable
       (USE_EXPAND value variables included) is overwritten; at the stack level USE keeps its
       tokens, the other incrementals are folded ("-*", "-x") and vanish when empty.  Without
       ${VAR} references this equals folding make.defaults over the same linearisation as (1)
       (law EnvIsStackFold, model-checked).
   (4) Caching (klass.jit_attr + WeaklyCached nodes).  Every (node instance, file) is read AT MOST
       ONCE while any profile object is alive, lazily (an attribute reads the parent files, then
       only its own file of every stack node, in stack order).  All values handed out by all live
       profile objects therefore describe ONE virtual tree - every file as it was when first read -
       whatever the access order, however many objects share nodes (InvCoherent, StableRead).
       A failed read (ProfileError naming node and file) caches nothing for the failing file; what
       was read before stays; a retry re-reads only what was not read successfully.  When no
       profile object is alive nothing is remembered: a new object sees the tree as it is (InvFresh).

   The tree (what is on disk):
     T == [strict |-> BOOLEAN,      \* "pms" in the repository's profile-formats (node instances are
                                    \*  created pms_strict; directories are errors)
           pset   |-> BOOLEAN,      \* "profile-set" in profile-formats
           nodes  |-> [name -> [eapi |-> "0" | "7", f |-> [Files -> [st, v]]]]]
     st = "file" (a file, or absent when v = <<>>), "dir" (a directory of files holding the same
     lines - accepted for M, U, V by non-strict instances only), "syntax" (unparsable content).
     lines:  P: parent names;  K: [k \in {"sys","nsys","set","nset","wild"}, a];
             M, U, V: [neg, a];  E: [var, toks], a token is [neg, kind \in {"flag","star","ref"}, name];
             A (package.accept_keywords): [a, kws].

   Node instances are keyed <<name, strict>>: ProfileStack.stack creates them through
   _autodetect_and_create (strict = T.strict), ProfileNode.parents (the default_env recursion)
   through ProfileNode(path) (strict = TRUE); with a pms repository both are the same object.   *)
EXTENDS Integers, Sequences, FiniteSets, TLC

Inc == INSTANCE Incremental

Root == "ROOT"
Files == {"P", "K", "M", "U", "V", "E", "A"}
Recursable == {"M", "U", "V", "A"}        \* load_property(..., allow_recurse=True)
SyntaxFiles == {"K", "V", "E"}         \* files for which unparsable content is an error (not a logged line)
Incrementals == {"ACCEPT_KEYWORDS", "ACCEPT_LICENSE", "CONFIG_PROTECT", "CONFIG_PROTECT_MASK", "FEATURES",
                 "IUSE_IMPLICIT", "PROFILE_ONLY_VARIABLES", "USE", "USE_EXPAND", "USE_EXPAND_HIDDEN",
                 "USE_EXPAND_IMPLICIT", "USE_EXPAND_UNPREFIXED", "ENV_UNSET"}
Unfinalized == {"USE"}                 \* const.incrementals_unfinalized (ACCEPT_LICENSE is outside the domain)
\* text prefix of the flags a USE_EXPAND variable expands to (TLC cannot lower-case a string)
ExpandPrefix(u) == CASE u = "PY" -> "py_" [] u = "ABI" -> "abi_" [] OTHER -> "?_"

Elems(q) == {q[i] : i \in DOMAIN q}

(* ------------------------------------------------------------------------------------------- *)
(* A "flat tree" G is what one reader sees: [pset, eapi: name -> str, c: name -> file -> [st, v]] *)
Present(G, n) == n \in DOMAIN G.c
ParentsOf(G, n) == G.c[n]["P"].v

(* (1) the linearisation *)
RECURSIVE Lin(_, _)
Lin(G, n) == LET ps == ParentsOf(G, n)
                 f[j \in 0..Len(ps)] == IF j = 0 THEN <<>>
                                        ELSE f[j - 1] \o (IF Present(G, ps[j]) THEN Lin(G, ps[j]) ELSE <<>>)
             IN f[Len(ps)] \o <<n>>
FullStack(G, n) == <<Root>> \o Lin(G, n)

\* the variant that is NOT what pkgcore does (first occurrence only): used by the vacuity guard
DedupeFirst(q) == LET keep == {i \in DOMAIN q : \A j \in 1..(i - 1) : q[j] # q[i]}
                      f[i \in 0..Len(q)] == IF i = 0 THEN <<>> ELSE IF i \in keep THEN Append(f[i - 1], q[i]) ELSE f[i - 1]
                  IN f[Len(q)]
LinOnce(G, n) == DedupeFirst(Lin(G, n))

\* parent lines that name nothing, in the order ProfileStack.stack meets them (once per path)
RECURSIVE BadParents(_, _)
BadParents(G, n) == LET ps == ParentsOf(G, n)
                        f[j \in 0..Len(ps)] == IF j = 0 THEN <<>>
                                               ELSE f[j - 1] \o (IF Present(G, ps[j]) THEN BadParents(G, ps[j])
                                                                 ELSE <<[node |-> n, line |-> j, text |-> ps[j]]>>)
                    IN f[Len(ps)]

(* (2) triples and their fold *)
NoTrip == [neg |-> {}, pos |-> {}, wild |-> FALSE]
AtomsOf(c, Want(_)) == {x.a : x \in {y \in Elems(c.v) : Want(y)}}
NegPos(c) == [neg |-> AtomsOf(c, LAMBDA y : y.neg), pos |-> AtomsOf(c, LAMBDA y : ~y.neg), wild |-> FALSE]
KindTrip(c, kneg, kpos) == [neg |-> AtomsOf(c, LAMBDA y : y.k = kneg), pos |-> AtomsOf(c, LAMBDA y : y.k = kpos),
                            wild |-> \E y \in Elems(c.v) : y.k = "wild"]
TripOf(G, n, what) ==
  CASE what = "masks"       -> NegPos(G.c[n]["M"])
    [] what = "unmasks"     -> NegPos(G.c[n]["U"])
    [] what = "system"      -> IF n = Root THEN NoTrip ELSE KindTrip(G.c[n]["K"], "nsys", "sys")
    [] what = "profile_set" -> IF n = Root THEN NoTrip
                               ELSE IF G.pset THEN KindTrip(G.c[n]["K"], "nset", "set")
                               ELSE [NoTrip EXCEPT !.wild = KindTrip(G.c[n]["K"], "nset", "set").wild]
    [] what = "provided"    -> IF n = Root \/ G.eapi[n] = "7" THEN NoTrip ELSE NegPos(G.c[n]["V"])

Collapse(trips) == LET f[k \in 0..Len(trips)] ==
                         IF k = 0 THEN {} ELSE ((IF trips[k].wild THEN {} ELSE f[k - 1]) \ trips[k].neg) \cup trips[k].pos
                   IN f[Len(trips)]
CollapseOver(G, stack, what) == Collapse([k \in DOMAIN stack |-> TripOf(G, stack[k], what)])
Folded(G, n, what) == CollapseOver(G, FullStack(G, n), what)

\* package.accept_keywords: the entries of every stack node (ROOT included), in stack order; one line = one entry
KeywordsOver(G, stack) ==
  LET f[k \in 0..Len(stack)] == IF k = 0 THEN <<>>
                                ELSE f[k - 1] \o [j \in DOMAIN G.c[stack[k]]["A"].v |->
                                                    [a |-> G.c[stack[k]]["A"].v[j].a, kws |-> DedupeFirst(G.c[stack[k]]["A"].v[j].kws)]]
  IN f[Len(stack)]

NonEmpty(t) == t.neg # {} \/ t.pos # {}
PairsOver(G, stack, what) ==
  LET f[k \in 0..Len(stack)] == IF k = 0 THEN <<>>
                                ELSE LET t == TripOf(G, stack[k], what) IN
                                     IF NonEmpty(t) THEN Append(f[k - 1], [neg |-> t.neg, pos |-> t.pos]) ELSE f[k - 1]
  IN f[Len(stack)]
IncrPairs(G, n, what) == PairsOver(G, Lin(G, n), what)      \* OnDiskProfile: the stack without ROOT
\* what ebuild/domain.py does with the pairs
FoldPairs(init, pairs) == LET f[k \in 0..Len(pairs)] == IF k = 0 THEN init ELSE (f[k - 1] \ pairs[k].neg) \cup pairs[k].pos
                          IN f[Len(pairs)]

(* (3) make.defaults *)
NoEnv == [u \in {} |-> <<>>]
Put(env, v, x) == [u \in DOMAIN env \cup {v} |-> IF u = v THEN x ELSE env[u]]
\* IncrementalsDict.update
EnvUpdate(acc, e) == [u \in DOMAIN acc \cup DOMAIN e |->
                        IF u \notin DOMAIN e THEN acc[u]
                        ELSE IF u \in Incrementals /\ u \in DOMAIN acc THEN acc[u] \o e[u] ELSE e[u]]
LookupVar(own, inh, v) == IF v \in DOMAIN own THEN own[v] ELSE IF v \in DOMAIN inh THEN inh[v] ELSE <<>>
ExpandToks(toks, own, inh) ==
  LET f[j \in 0..Len(toks)] == IF j = 0 THEN <<>>
                               ELSE f[j - 1] \o (IF toks[j].kind = "ref" THEN LookupVar(own, inh, toks[j].name) ELSE <<toks[j]>>)
  IN f[Len(toks)]
\* read_bash_dict(file, vars_dict=inherited): the assignments of one file, in order, later ones win
ReadDefaults(lines, inh) ==
  LET f[j \in 0..Len(lines)] == IF j = 0 THEN NoEnv
                                ELSE Put(f[j - 1], lines[j].var, ExpandToks(lines[j].toks, f[j - 1], inh))
  IN f[Len(lines)]
RECURSIVE NodeEnv(_, _)
NodeEnv(G, n) == LET ps == ParentsOf(G, n)
                     inh[j \in 0..Len(ps)] == IF j = 0 THEN NoEnv
                                              ELSE IF Present(G, ps[j]) THEN EnvUpdate(inh[j - 1], NodeEnv(G, ps[j]))
                                              ELSE inh[j - 1]
                     base == inh[Len(ps)]
                 IN EnvUpdate(base, ReadDefaults(G.c[n]["E"].v, base))
\* the same thing said with the linearisation (valid when no value refers to a variable)
EnvOverStack(G, stack) == LET f[k \in 0..Len(stack)] == IF k = 0 THEN NoEnv
                                                        ELSE EnvUpdate(f[k - 1], ReadDefaults(G.c[stack[k]]["E"].v, NoEnv))
                          IN f[Len(stack)]
HasRefs(G) == \E n \in DOMAIN G.c : \E l \in Elems(G.c[n]["E"].v) : \E t \in Elems(l.toks) : t.kind = "ref"

\* ProfileStack.default_env: what is left of the node environment
Texts(toks) == [j \in DOMAIN toks |-> Inc!Text(toks[j])]
KeptVars(env) == {v \in DOMAIN env : v \in Incrementals =>
                     (env[v] # <<>> /\ (v \in Unfinalized \/ Inc!Fold(env[v], {}) # {}))}
FinalVal(v, toks) == IF v \in Incrementals /\ v \notin Unfinalized
                     THEN [mode |-> "set", seq |-> <<>>, set |-> Inc!Fold(toks, {})]
                     ELSE [mode |-> "seq", seq |-> Texts(toks), set |-> {}]
FinalEnv(env) == [v \in KeptVars(env) |-> FinalVal(v, env[v])]
DefaultEnv(G, n) == FinalEnv(NodeEnv(G, n))
UseExpandOf(fe) == IF "USE_EXPAND" \in DOMAIN fe THEN fe["USE_EXPAND"].set ELSE {}
UseHead(fe) == IF "USE" \in DOMAIN fe THEN fe["USE"].seq ELSE <<>>
ExpandBlock(fe, u) == IF u \in DOMAIN fe THEN [j \in DOMAIN fe[u].seq |-> ExpandPrefix(u) \o fe[u].seq[j]] ELSE <<>>
\* ProfileStack.use: the USE tokens, then one block per USE_EXPAND variable (in the iteration order of a frozenset)
UseOf(fe) == [head |-> UseHead(fe), blocks |-> {ExpandBlock(fe, u) : u \in UseExpandOf(fe)} \ {<<>>}]
Orderings(S) == {q \in [1..Cardinality(S) -> S] : \A i, j \in 1..Cardinality(S) : i # j => q[i] # q[j]}
JoinAll(q) == LET f[k \in 0..Len(q)] == IF k = 0 THEN <<>> ELSE f[k - 1] \o q[k] IN f[Len(q)]
UseMatches(obs, u) == \E q \in Orderings(u.blocks) : obs = u.head \o JoinAll(q)

(* ------------------------------------------------------------------------------------------- *)
(* (4) objects, node instances, what has been read                                             *)
StackAttrs == {"stack", "system", "profile_set", "masks", "unmasks", "incr_masks", "incr_unmasks", "provided", "accept_keywords"}
EnvAttrs   == {"default_env", "use_expand", "use"}
AllAttrs   == StackAttrs \cup EnvAttrs
FileOf(a) == CASE a \in {"masks", "incr_masks"} -> "M" [] a \in {"unmasks", "incr_unmasks"} -> "U"
               [] a \in {"system", "profile_set"} -> "K" [] a = "provided" -> "V" [] a = "accept_keywords" -> "A" [] OTHER -> "-"

Unread == [st |-> "unread", v |-> <<>>]
KeysOf(T) == (DOMAIN T.nodes) \X BOOLEAN \X Files
OnDisk(T, k) == T.nodes[k[1]].f[k[3]]
NoObj == [u \in {} |-> 0]
\* the state: disk = T; seen: what each instance has read; got[o]: the attributes object o holds; leaf[o]
\* resolved: the instances whose `parents` have been instantiated (ProfileNode.parents reports the parent lines
\* that name nothing once per instance; ProfileStack.stack reports them once per path and per object)
Fresh(T, Objs) == [disk |-> T, seen |-> [k \in KeysOf(T) |-> Unread], open |-> {}, resolved |-> {},
                   got |-> [o \in Objs |-> NoObj], leaf |-> [o \in Objs |-> Root]]

\* what a read of key k returns now: what the instance holds, else the disk
ViewOf(s) == TLCEval([k \in KeysOf(s.disk) |-> IF s.seen[k].st # "unread" THEN s.seen[k] ELSE OnDisk(s.disk, k)])
FlatOf(T, C) == TLCEval([pset |-> T.pset, eapi |-> [n \in DOMAIN T.nodes |-> T.nodes[n].eapi], c |-> C])
GDisk(T) == FlatOf(T, [n \in DOMAIN T.nodes |-> T.nodes[n].f])
\* through the instances of ProfileStack.stack / through those of the default_env recursion of `leaf`
EnvStrict(T, n, leaf) == IF n = leaf THEN T.strict ELSE TRUE
GStack(T, Vw) == FlatOf(T, [n \in DOMAIN T.nodes |-> [f \in Files |-> Vw[<<n, T.strict, f>>]]])
GEnv(T, Vw, leaf) == FlatOf(T, [n \in DOMAIN T.nodes |-> [f \in Files |-> Vw[<<n, EnvStrict(T, n, leaf), f>>]]])

\* a read of this content through this instance fails
\* (package.provided of an EAPI 7+ node is not opened at all: the instance caches "nothing provided")
BadRead(T, k, c) == /\ ~(k[3] = "V" /\ T.nodes[k[1]].eapi = "7")
                    /\ \/ c.st = "syntax" /\ k[3] \in SyntaxFiles
                       \/ c.st = "dir" /\ (k[2] \/ k[3] \notin Recursable)

\* the reads an attribute makes, in order (already-held keys cost nothing and are harmless here)
RECURSIVE StackReads(_, _, _)
StackReads(G, strict, n) ==
  LET ps == ParentsOf(G, n)
      f[j \in 0..Len(ps)] == IF j = 0 THEN <<>> ELSE f[j - 1] \o (IF Present(G, ps[j]) THEN StackReads(G, strict, ps[j]) ELSE <<>>)
  IN <<<<n, strict, "P">>>> \o f[Len(ps)]
RECURSIVE EnvReads(_, _, _, _)
EnvReads(G, T, n, leaf) ==
  LET ps == ParentsOf(G, n)
      f[j \in 0..Len(ps)] == IF j = 0 THEN <<>> ELSE f[j - 1] \o (IF Present(G, ps[j]) THEN EnvReads(G, T, ps[j], leaf) ELSE <<>>)
  IN <<<<n, EnvStrict(T, n, leaf), "P">>>> \o f[Len(ps)] \o <<<<n, EnvStrict(T, n, leaf), "E">>>>
Keep(q, Want(_)) == LET f[k \in 0..Len(q)] == IF k = 0 THEN <<>> ELSE IF Want(q[k]) THEN Append(f[k - 1], q[k]) ELSE f[k - 1]
                    IN f[Len(q)]
ReadsOf(a, T, Vw, leaf) ==
  IF a \in EnvAttrs THEN EnvReads(GEnv(T, Vw, leaf), T, leaf, leaf)
  ELSE LET G == GStack(T, Vw)
           lin == Lin(G, leaf)
           nodes == CASE a \in {"masks", "unmasks", "accept_keywords"} -> <<Root>> \o lin
                      [] a = "stack" -> <<>>
                      [] OTHER -> lin
       IN StackReads(G, T.strict, leaf) \o [k \in DOMAIN nodes |-> <<nodes[k], T.strict, FileOf(a)>>]

\* the value of an attribute for a reader that sees Vw
ValueOf(a, T, Vw, leaf) ==
  LET G == GStack(T, Vw) IN
  CASE a = "stack" -> FullStack(G, leaf)
    [] a \in {"system", "profile_set", "masks", "unmasks", "provided"} -> Folded(G, leaf, a)
    [] a = "accept_keywords" -> KeywordsOver(G, FullStack(G, leaf))
    [] a = "incr_masks" -> IncrPairs(G, leaf, "masks")
    [] a = "incr_unmasks" -> IncrPairs(G, leaf, "unmasks")
    [] a = "default_env" -> DefaultEnv(GEnv(T, Vw, leaf), leaf)
    [] a = "use_expand" -> UseExpandOf(DefaultEnv(GEnv(T, Vw, leaf), leaf))
    [] a = "use" -> UseOf(DefaultEnv(GEnv(T, Vw, leaf), leaf))
\* the object-level caches a successful evaluation of a fills (klass.jit_attr on ProfileStack)
FillsOf(a) == CASE a = "use" -> {"use", "use_expand", "default_env"}
                [] a = "use_expand" -> {"use_expand", "default_env"}
                [] a \in StackAttrs -> {a, "stack"}
                [] OTHER -> {a}

Res(s, ret) == [s |-> s, ret |-> ret]
Good(v, logs) == [raised |-> FALSE, node |-> "-", file |-> "-", val |-> v, logs |-> logs]
Fail(k, logs) == [raised |-> TRUE, node |-> k[1], file |-> k[3], val |-> <<>>, logs |-> logs]
MissingOf(G, n) == LET ps == ParentsOf(G, n)
                       f[j \in 0..Len(ps)] == IF j = 0 THEN <<>>
                                              ELSE IF Present(G, ps[j]) THEN f[j - 1]
                                              ELSE Append(f[j - 1], [node |-> n, line |-> j, text |-> ps[j]])
                   IN f[Len(ps)]
\* the reports of the default_env recursion: the instances it resolves for the first time, in the order it meets them
EnvLogs(G, rs, stop, resolved) ==
  LET fresh == {i \in 1..(stop - 1) : rs[i][3] = "P" /\ <<rs[i][1], rs[i][2]>> \notin resolved /\ \A j \in 1..(i - 1) : rs[j] # rs[i]}
      f[i \in 0..(stop - 1)] == IF i = 0 THEN <<>> ELSE IF i \in fresh THEN f[i - 1] \o MissingOf(G, rs[i][1]) ELSE f[i - 1]
  IN f[stop - 1]
FirstIn(S) == CHOOSE i \in S : \A j \in S : i <= j
Filled(g, names, T, Vw, leaf) == [x \in DOMAIN g \cup names |-> IF x \in DOMAIN g THEN g[x] ELSE ValueOf(x, T, Vw, leaf)]

(* ---- the public operations, one per call ---- *)
CanOpen(s, o, leaf) == o \notin s.open /\ leaf \in DOMAIN s.disk.nodes /\ leaf # Root
DoOpen(s, o, leaf) == [s EXCEPT !.open = @ \cup {o}, !.got[o] = NoObj, !.leaf[o] = leaf]

DoEdit(s, n, file, c) == [s EXCEPT !.disk.nodes[n].f[file] = c]

\* nodeCache = FALSE is the broken design in which node instances forget what they read
DoGetWith(s, o, a, nodeCache) ==
  IF a \in DOMAIN s.got[o] THEN Res(s, Good(s.got[o][a], <<>>))
  ELSE LET T == s.disk
           leaf == s.leaf[o]
           Vw == ViewOf(s)
           rs == ReadsOf(a, T, Vw, leaf)
           bad == {i \in DOMAIN rs : BadRead(T, rs[i], Vw[rs[i]])}
           stop == IF bad = {} THEN Len(rs) + 1 ELSE FirstIn(bad)
           done == {rs[i] : i \in 1..(stop - 1)}
           seen2 == IF nodeCache THEN [k \in KeysOf(T) |-> IF k \in done THEN Vw[k] ELSE s.seen[k]] ELSE s.seen
           \* the stack is complete before the first file of the attribute is opened
           fills == IF bad = {} THEN FillsOf(a) ELSE IF a \in StackAttrs THEN {"stack"} ELSE {}
           logs == IF a \in EnvAttrs THEN EnvLogs(GEnv(T, Vw, leaf), rs, stop, s.resolved)
                   ELSE IF "stack" \in DOMAIN s.got[o] THEN <<>> ELSE BadParents(GStack(T, Vw), leaf)
           res2 == IF a \in EnvAttrs THEN s.resolved \cup {<<k[1], k[2]>> : k \in {x \in done : x[3] = "P"}} ELSE s.resolved
           s2 == [s EXCEPT !.seen = seen2, !.resolved = res2, !.got[o] = Filled(@, fills, T, Vw, leaf)]
       IN IF bad = {} THEN Res(s2, Good(s2.got[o][a], logs)) ELSE Res(s2, Fail(rs[stop], logs))
DoGet(s, o, a) == DoGetWith(s, o, a, TRUE)

\* every profile object is released: nothing survives (weakCache = FALSE is the broken design)
DoDropAllWith(s, weakCache) ==
  [s EXCEPT !.open = {}, !.got = [o \in DOMAIN s.got |-> NoObj], !.resolved = IF weakCache THEN {} ELSE @,
            !.seen = IF weakCache THEN [k \in KeysOf(s.disk) |-> Unread] ELSE @]
DoDropAll(s) == DoDropAllWith(s, TRUE)

(* ---- properties of a state ---- *)
\* every value held by a live object is the value of ONE virtual tree: each file as first read
Coherent(s) == LET Vw == ViewOf(s) IN
               \A o \in s.open : \A a \in DOMAIN s.got[o] : s.got[o][a] = ValueOf(a, s.disk, Vw, s.leaf[o])
\* nothing unreadable is ever held
SeenReadable(s) == \A k \in KeysOf(s.disk) : s.seen[k].st # "unread" => ~BadRead(s.disk, k, s.seen[k])
\* without live objects nothing is held
NothingHeld(s) == s.open = {} => \A k \in KeysOf(s.disk) : s.seen[k] = Unread
ReadKeys(s) == {k \in KeysOf(s.disk) : s.seen[k].st # "unread"}

(* ---- laws of a tree (constant level; evaluated on the trees TLC reaches) ---- *)
LeavesOf(T) == DOMAIN T.nodes \ {Root}
EnvIsStackFold(T, StackFn(_, _)) == LET G == GDisk(T) IN
  HasRefs(G) \/ \A n \in LeavesOf(T) : NodeEnv(G, n) = EnvOverStack(G, StackFn(G, n))
MasksFromPairs(T) == LET G == GDisk(T) IN \A n \in LeavesOf(T) : \A what \in {"masks", "unmasks"} :
  FoldPairs(TripOf(G, Root, what).pos, IncrPairs(G, n, what)) = Folded(G, n, what)
AncestorsFirst(T) == LET G == GDisk(T) IN \A n \in LeavesOf(T) :
  LET q == Lin(G, n) IN
  /\ q[Len(q)] = n
  /\ \A k \in DOMAIN q : \A p \in Elems(ParentsOf(G, q[k])) : Present(G, p) => \E j \in 1..(k - 1) : q[j] = p
\* occurrences of m in the stack of n = number of parent paths from n to m
RECURSIVE PathCount(_, _, _)
PathCount(G, n, m) == IF n = m THEN 1
                      ELSE LET ps == ParentsOf(G, n)
                               f[j \in 0..Len(ps)] == IF j = 0 THEN 0
                                                      ELSE f[j - 1] + (IF Present(G, ps[j]) THEN PathCount(G, ps[j], m) ELSE 0)
                           IN f[Len(ps)]
OncePerPath(T) == LET G == GDisk(T) IN \A n \in LeavesOf(T) : \A m \in LeavesOf(T) :
  Cardinality({k \in DOMAIN Lin(G, n) : Lin(G, n)[k] = m}) = PathCount(G, n, m)
=========================================================================
