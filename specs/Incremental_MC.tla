---------------------------- MODULE Incremental_MC ----------------------------
(* A reader that consumes an incremental stream token by token and maintains, incrementally,
   the expanded set (plain and licence reading) and a condensed form kept up to date from the
   LEFT (the implementation condenses from the right: that both agree with Condense and with
   the fold of everything read so far is what TLC checks in every reachable state).        *)
EXTENDS Incremental_Alphabet, TLC
CONSTANT N
VARIABLES seen, init0, cur, cond, lic, bad
vars == <<seen, init0, cur, cond, lic, bad>>

CondPush(C, t) == IF IsClear(t) THEN {t} ELSE {x \in C : IsClear(x) \/ Body(x) # Body(t)} \cup {t}

Init == /\ seen = <<>> /\ init0 \in SUBSET {"a", "z"} /\ cur = init0 /\ cond = {} /\ lic = {} /\ bad = FALSE
Read(t) == /\ seen' = Append(seen, t)
           /\ cur'  = PlainStep(cur, t)
           /\ cond' = CondPush(cond, t)
           /\ lic'  = LicStep(lic, t, Flat(Defs), All)
           /\ bad'  = (bad \/ LicIncomplete(t))
           /\ UNCHANGED init0
Next == \E t \in Alphabet : Read(t)
Spec == Init /\ [][Next]_vars
Bound == Len(seen) <= N

InvFold      == cur = Fold(seen, init0)
InvCondense  == cond = Condense(seen)
InvCondApply == CondApply(cond, init0) = cur
InvLicense   == lic = FoldLicense(seen, Flat(Defs), All)
InvRejected  == bad = ExpandLicense(seen, Flat(Defs), All).rej
\* -* forgets everything before it; a licence set never leaves the licences and group members
InvClear     == \A k \in DOMAIN seen : IsClear(seen[k]) =>
                   cur = Fold(SubSeq(seen, k + 1, Len(seen)), {})
InvLicRange  == lic \subseteq All
=========================================================================
