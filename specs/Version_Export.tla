--------------------------- MODULE Version_Export ---------------------------
(* C01 spec -> code: the bounded grammar Vers is written out (one version record
   per line, with its PMS spelling as code points); the driver feeds every
   ordered pair to the real ver_cmp / VersionedCPV operators / VersionMatch.   *)
EXTENDS Version_Gram, TLC, Json, IOUtils, SequencesExt
CONSTANT Vers
\* normalise every sequence to a tuple so that it is serialised as a JSON array
T(s) == [x \in 1..Len(s) |-> s[x]]
J(v) == [nums   |-> [x \in 1..Len(v.nums) |-> T(v.nums[x])],
         letter |-> v.letter,
         sufs   |-> [x \in 1..Len(v.sufs) |-> [k |-> v.sufs[x].k, n |-> T(v.sufs[x].n)]],
         rev    |-> T(v.rev),
         text   |-> VerText(v)]
Cases == {J(v) : v \in Vers}
ASSUME ndJsonSerialize(IOEnv.OUT, SetToSeq(Cases))
=============================================================================
