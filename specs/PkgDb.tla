---------------------------- MODULE PkgDb ----------------------------
(* C29 - package database updates are crash-consistent.

   A repository *view* is what a FRESH reader (vdb.ondisk.tree / binpkg.repository.tree created
   after the crash) reports: a set of entries [cpv |-> name, dg |-> digest of everything the reader
   can load for that package].  The property: at every crash point of an install / replace /
   uninstall the view is the OLD view or the NEW view - never a package that is listed but only
   partly there ("Partial"), never a state where the package operated on is listed in neither its
   old nor its new form ("Neither"), never a mixture ("Mixed"), and never a change to a package the
   operation has no business with ("Collateral").

   JudgeView / ApplyOp are used by PkgDb_MC (over the abstract readers below, evaluated on FsModel
   states) and by PkgDb_Trace (over what the real reader returned after a real crash replay).  *)
EXTENDS FsModel

Cpvs(v) == {e.cpv : e \in v}
Ent(c, d) == [cpv |-> c, dg |-> d]

\* what a completed operation does to the view
ApplyOp(op, old, oldcpv, newcpv, dg) ==
  CASE op = "install"   -> old \cup {Ent(newcpv, dg)}
    [] op = "uninstall" -> {x \in old : x.cpv # oldcpv}
    [] OTHER            -> {x \in old : x.cpv # oldcpv} \cup {Ent(newcpv, dg)}       \* replace_same / replace_diff
OpApplicable(op, old, oldcpv, newcpv) ==
  CASE op = "install"   -> newcpv \notin Cpvs(old)
    [] OTHER            -> oldcpv \in Cpvs(old)

\* the clauses violated by the view seen at a crash point (empty set = fine)
JudgeView(old, new, view) ==
  IF view = old \/ view = new THEN {}
  ELSE LET known     == old \cup new
           untouched == old \cap new
           changed   == (old \ new) \cup (new \ old)
       IN IF \E e \in view : e \notin known       THEN {"Partial"}
          ELSE IF ~(untouched \subseteq view)      THEN {"Collateral"}
          ELSE IF view \cap changed = {}           THEN {"Neither"}
          ELSE {"Mixed"}

(* ---- the scenario space (exported to the driver by PkgDb_Export, explored by PkgDb_MC) ----
   repo    "vdb" | "bin"
   op      install | uninstall | replace_same (same version) | replace_diff (another version)
   variant the removal protocol of the vdb: "head" = rmtree in place, "hide" = rename away first
   cat     the category directory already exists        by   another package lives in the category
   stale   leftovers of an earlier interrupted run exist (staging names)                            *)
AllConfs == [repo : {"vdb", "bin"}, op : {"install", "uninstall", "replace_same", "replace_diff"}, variant : {"head", "hide"},
             cat : BOOLEAN, by : BOOLEAN, stale : BOOLEAN]
\* binpkg: one protocol only; replacing a DIFFERENT version is carved out (the repository legitimately keeps both files)
Valid(c) == c.repo = "bin" => (c.variant = "head" /\ c.op # "replace_diff")
Confs(family) ==
  CASE family = "safe"   -> {c \in AllConfs : Valid(c) /\ (c.op = "install" \/ c.repo = "bin" \/ (c.op = "uninstall" /\ c.variant = "hide"))}
    [] family = "head"   -> {c \in AllConfs : c.repo = "vdb" /\ c.variant = "head" /\ c.op # "install"}
    [] family = "window" -> {c \in AllConfs : c.repo = "vdb" /\ c.variant = "hide" /\ c.op \in {"replace_same", "replace_diff"}}
    [] OTHER             -> {c \in AllConfs : Valid(c)}
\* the shapes the driver instantiates on the real code (the variant is a fact about the code, not an input)
Shapes == {[repo |-> c.repo, op |-> c.op, cat |-> c.cat, by |-> c.by, stale |-> c.stale] : c \in Confs("all")}

(* ---- abstract readers over an FsModel state (what the listing code does) ----
   cat     : path of the category directory
   hidden  : entry names the listing skips (".tmp.*" staging / removal names)
   vdb     : an entry is a DIRECTORY holding the metadata files `files`; its digest is the version
             whose content every file carries, else "partial"
   binpkg  : an entry is a FILE; its digest is its content id (a version when completely written)  *)
Leaf(p) == p[Len(p)]
Listed(s, cat, hidden, type) ==
  {n \in Children(s, cat) : Leaf(n.path) \notin hidden /\ s.inodes[n.ino].type = type}

DirDigest(s, p, files, versions) ==
  LET has(v) == \A f \in files : HasName(s, p \o <<f>>) /\ ObjAt(s, p \o <<f>>).type = "file" /\ ObjAt(s, p \o <<f>>).cid = v
  IN IF \E v \in versions : has(v) THEN CHOOSE v \in versions : has(v) ELSE "partial"

VdbView(s, cat, hidden, files, versions) ==
  {Ent(Leaf(n.path), DirDigest(s, n.path, files, versions)) : n \in Listed(s, cat, hidden, "dir")}

BinView(s, cat, hidden, versions) ==
  {Ent(Leaf(n.path), IF s.inodes[n.ino].cid \in versions THEN s.inodes[n.ino].cid ELSE "partial")
     : n \in Listed(s, cat, hidden, "file")}
=========================================================================
