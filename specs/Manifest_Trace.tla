---------------------------- MODULE Manifest_Trace ----------------------------
(* code -> spec for C28.  Events recorded from the real Manifest.update / parse_manifest:
   {tid,i, ev:"gen",   files:[{path:[[cp..]..],size,sums:[{chf,hex}..]}..], dist:[{name:[cp..],size,sums}..], thin,
                       via:"file"|"instance", perr:"", parsed:{DIST:[{name:[[cp..]..],size,sums}..], AUX:[..], EBUILD:[..], MISC:[..]}}
        files/dist = the package directory and distfiles as the driver created them (sizes, checksums
        computed independently with hashlib), parsed = parse_manifest() of the generated file
   {tid,i, ev:"perm",  cid_a, cid_b}       Manifest bytes generated with two different listing / input orders
   {tid,i, ev:"regen", n_mut, cid_before, cid_after}   a second update() on the up-to-date Manifest:
                                            number of filesystem mutations it performed, bytes before/after *)
EXTENDS Manifest, TraceLib
VARIABLE l
Sums(x) == {[chf |-> x[k].chf, hex |-> x[k].hex] : k \in DOMAIN x}
Ents(x) == {[name |-> x[k].name, size |-> x[k].size, sums |-> Sums(x[k].sums)] : k \in DOMAIN x}
FilesOf(e) == {[path |-> e.files[k].path, size |-> e.files[k].size, sums |-> Sums(e.files[k].sums)] : k \in DOMAIN e.files}
DistOf(e)  == {[name |-> e.dist[k].name, size |-> e.dist[k].size, sums |-> Sums(e.dist[k].sums)] : k \in DOMAIN e.dist}
\* via = "file": parsed = parse_manifest() of the file; via = "instance": what the accessors of the Manifest OBJECT
\* that generated it (and had been consulted before) report.  Same expectation, clause names prefixed Instance_.
JudgeGen(e) ==
  LET fs == FilesOf(e)  ds == DistOf(e)  pre == IF e.via = "instance" THEN "Instance_" ELSE "" IN
  IF ~Specified(fs, ds, e.thin) THEN {}
  ELSE IF e.perr # "" THEN {pre \o "Parses"}
  ELSE LET x == Expected(fs, ds, e.thin) IN
       (IF Len(e.parsed.DIST) = Cardinality(Ents(e.parsed.DIST)) /\ Ents(e.parsed.DIST) = x.DIST THEN {} ELSE {pre \o "ParseBack_DIST"})
       \cup (IF Ents(e.parsed.AUX) = x.AUX THEN {} ELSE {pre \o "ParseBack_AUX"})
       \cup (IF Ents(e.parsed.EBUILD) = x.EBUILD THEN {} ELSE {pre \o "ParseBack_EBUILD"})
       \cup (IF Ents(e.parsed.MISC) = x.MISC THEN {} ELSE {pre \o "ParseBack_MISC"})
Judge(e) == CASE e.ev = "gen"   -> JudgeGen(e)
              [] e.ev = "perm"  -> (IF e.cid_a = e.cid_b THEN {} ELSE {"OrderIndependent"})
              [] e.ev = "regen" -> (IF e.n_mut = 0 /\ e.cid_before = e.cid_after THEN {} ELSE {"IdempotentNoWrite"})
              [] OTHER -> {"UnknownEvent"}
TraceInit == l = 0
TraceNext == /\ l < Len(Tr) /\ l' = l + 1
             /\ Report(Tr[l'].tid, Tr[l'].i, Judge(Tr[l']))
             /\ EndMark(l')
TraceSpec == TraceInit /\ [][TraceNext]_l
=========================================================================
