---------------------------- MODULE Keywording_Export ----------------------------
(* spec -> code: repositories, request lists and option combinations of the Keywording_MC universe,
   replayed on the real match_packages.  Sets are written as sequences.                        *)
EXTENDS Keywording_Universe, Json, IOUtils
JPkg(p) == [name |-> p.name, ver |-> p.ver, slot |-> p.slot, kws |-> SetToSeq({<<k[1], k[2]>> : k \in p.kws})]
JRepo(r) == [known |-> SetToSeq(r.known), pkgs |-> SetToSeq({JPkg(p) : p \in r.pkgs})]
JOpts(x) == [stable |-> x.stable, cc |-> x.cc, only_new |-> x.only_new, filter |-> SetToSeq(x.filter), allarches |-> x.allarches]
BaseKw == {{K("amd64", "stable")}, {K("amd64", "testing"), K("x86", "stable")},
           {K("amd64", "stable"), K("x86", "testing"), K("arm64", "stable"), K("amd64-linux", "stable")},
           {K("amd64", "testing"), K("arm64", "testing"), K("amd64-linux", "testing")}}
KwOf(r, v) == Lookup(r, "c/a", v).kws
ExRepos == {r \in Repos : KwOf(r, 1) \in BaseKw /\ KwOf(r, 2) \in BaseKw}
SmallRepos == {r \in ExRepos : K("x86", "testing") \in KwOf(r, 1) \/ K("x86", "stable") \in KwOf(r, 1)}
Singles == {rq \in Requests : Len(rq) = 1}
Pairs == Requests \ Singles
PlainOpts == {x \in OptsU : x.cc = <<>> /\ ~x.only_new /\ x.filter = {} /\ ~x.allarches}
FewOpts == {x \in OptsU : x.allarches = (x.filter # {}) /\ (x.cc = <<>> \/ x.filter = {})}
Exercised(S) == {rq \in S : \A k \in DOMAIN rq : rq[k].name = "c/a" /\ rq[k].ver # 3 /\ rq[k].slot = ""}
C(r, rq, x) == [repo |-> JRepo(r), lines |-> rq, opts |-> JOpts(x)]
\* A: every single-line request against every repository, plain options
\* B: every option combination on the single-line requests that can yield
\* C: two-line requests (the second refers to the first with ^ ...) under the narrowing options
\* (the larger universe keeps the full option product for the quick-sized part only)
BOpts == IF Rich THEN FewOpts \ PlainOpts ELSE OptsU \ PlainOpts
TinyRepos == IF Rich THEN {r \in SmallRepos : "arm64" \notin r.known} ELSE SmallRepos
DOpts == IF Rich THEN {x \in FewOpts \ PlainOpts : x.stable} ELSE FewOpts \ PlainOpts
Cases == {C(r, rq, x) : r \in Repos, rq \in Singles, x \in PlainOpts}
         \cup {C(r, rq, x) : r \in ExRepos, rq \in Exercised(Singles), x \in BOpts}
         \cup {C(r, rq, x) : r \in SmallRepos, rq \in Pairs, x \in PlainOpts}
         \cup {C(r, rq, x) : r \in TinyRepos, rq \in {p \in Exercised(Pairs) : Rich \/ ~Has(p[2], "caret")}, x \in DOpts}
ASSUME ndJsonSerialize(IOEnv.OUT, SetToSeq(Cases))
=========================================================================
