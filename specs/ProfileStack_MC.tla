---------------------------- MODULE ProfileStack_MC ----------------------------
(* G03: the design of the profile stack as a state machine, one action per public call / event:

     Open(o, leaf)   OnDiskProfile(base, leaf)                  (reads nothing that is modelled)
     Get(o, a)       first or repeated access of attribute a    (ProfileStack.DoGet: lazy reads, caches)
     Edit(n, f, c)   somebody rewrites file f of node n on disk (content taken from a small menu)
     DropAll         the last reference to every profile object goes away

   over a diamond  n4 -> (n2, n3) -> n1  below ROOT whose files are edited between the calls.

   Invariants      InvCoherent   all values held by live objects are values of ONE virtual tree
                                 (every file as it was when first read) - whatever the order of Gets,
                                 Edits and Opens, however many objects share node instances
                   InvFresh      as long as nothing was edited while an object was alive, every value
                                 is the value of the tree on disk (nothing survives DropAll)
                   InvReadable   an unreadable file is never cached (a retry reads it again)
                   InvReleased   without live objects no node instance holds anything
                   LawEnv        default_env (recursion over parents) = make.defaults folded over the
                                 SAME linearisation the other attributes fold over (trees without ${VAR})
                   LawPairs      domain.py's fold of _incremental_masks on top of ROOT's masks = masks
                   LawOrder      every node comes after all its parents, the leaf is last
                   LawPaths      a node occurs once per inheritance path
   Action props    StableRead    an attribute an object has handed out never changes for that object
                   ReadOnce      what an instance has read is never read again while an object is alive
                   FailedGetCachesNoValue   a Get that raises leaves the object without that attribute
   Vacuity guards (the driver requires TLC to REFUTE them):
                   NodeCache = FALSE  (instances re-read their files)       -> InvCoherent
                   WeakCache = FALSE  (instances outlive all their users)   -> InvFresh
                   PerPath   = FALSE  (a shared ancestor stacked once)      -> LawEnv                  *)
EXTENDS ProfileStack, TLC

CONSTANTS Objs,          \* profile objects that may be alive at the same time
          GetAttrs,      \* attributes the model reads
          OpenLeaves,    \* profiles that get opened
          EditSet,       \* <<node, file>> pairs that are rewritten
          StrictChoices, PSetChoices,
          WithObjects,   \* FALSE: only Edit (exploration of trees for the laws)
          NodeCache, WeakCache, PerPath

F(x) == [neg |-> FALSE, kind |-> "flag", name |-> x]
N(x) == [neg |-> TRUE, kind |-> "flag", name |-> x]
ClearAll == [neg |-> TRUE, kind |-> "star", name |-> ""]
Ref(v) == [neg |-> FALSE, kind |-> "ref", name |-> v]
Asg(v, toks) == [var |-> v, toks |-> toks]
Pos(a) == [neg |-> FALSE, a |-> a]
Neg(a) == [neg |-> TRUE, a |-> a]
Pk(k, a) == [k |-> k, a |-> a]
AsFile(v) == [st |-> "file", v |-> v]
AsDir(v) == [st |-> "dir", v |-> v]
Broken == [st |-> "syntax", v |-> <<>>]
Empty == AsFile(<<>>)

Node(eapi, P, K, M, U, V, E) == [eapi |-> eapi, f |-> [x \in Files |->
    CASE x = "P" -> AsFile(P) [] x = "K" -> K [] x = "M" -> M [] x = "U" -> U [] x = "V" -> V [] x = "E" -> E [] OTHER -> Empty]]

MCTree(strict, pset) ==
  [strict |-> strict, pset |-> pset, nodes |->
    [n \in {Root, "n1", "n2", "n3", "n4"} |->
       CASE n = Root -> Node("0", <<>>, Empty, AsFile(<<Pos("r")>>), Empty, Empty, AsFile(<<Asg("USE", <<F("rootuse")>>)>>))
         [] n = "n1" -> Node("0", <<>>, AsFile(<<Pk("sys", "a"), Pk("set", "s")>>), AsFile(<<Pos("a")>>), AsFile(<<Pos("u")>>),
                             AsFile(<<Pos("p")>>),
                             AsFile(<<Asg("USE", <<F("x")>>), Asg("FEATURES", <<F("f")>>), Asg("FOO", <<F("a")>>)>>))
         [] n = "n2" -> Node("0", <<"n1">>, AsFile(<<Pk("nsys", "a"), Pk("sys", "b")>>), AsFile(<<Neg("a"), Pos("b")>>), Empty,
                             AsFile(<<Neg("p"), Pos("q")>>), AsFile(<<Asg("USE", <<N("x")>>), Asg("FEATURES", <<N("f"), F("g")>>)>>))
         [] n = "n3" -> Node("7", <<"n1">>, Empty, Empty, AsFile(<<Neg("u")>>), AsFile(<<Pos("never")>>),
                             AsFile(<<Asg("FOO", <<F("c")>>)>>))
         [] n = "n4" -> Node("0", <<"n2", "n3">>, Empty, Empty, Empty, Empty, Empty)]]

\* what an Edit may write
Menu(n, file) ==
  CASE file = "P" -> (CASE n = "n4" -> {AsFile(<<"n2", "n3">>), AsFile(<<"n3", "n2">>), AsFile(<<"n2">>), AsFile(<<"n2", "zz", "n3">>)}
                        [] n = "n1" -> {AsFile(<<>>), AsFile(<<"zz">>)}
                        [] OTHER -> {AsFile(<<"n1">>), AsFile(<<>>)})
    [] file = "K" -> {Empty, AsFile(<<Pk("sys", "a")>>), AsFile(<<Pk("wild", "-"), Pk("sys", "b")>>), AsFile(<<Pk("nsys", "a"), Pk("nset", "s")>>), Broken}
    [] file \in {"M", "U"} -> {Empty, AsFile(<<Pos("a")>>), AsFile(<<Neg("a")>>), AsDir(<<Neg("a"), Pos("b")>>)}
    [] file = "V" -> {Empty, AsFile(<<Pos("p")>>), AsDir(<<Neg("p")>>), Broken}
    [] file = "A" -> {Empty, AsFile(<<[a |-> "a", kws |-> <<"~amd64", "amd64", "~amd64">>]>>), AsDir(<<[a |-> "b", kws |-> <<>>], [a |-> "a", kws |-> <<"**">>]>>)}
    [] file = "E" -> {Empty, AsFile(<<Asg("USE", <<F("x")>>)>>), AsFile(<<Asg("USE", <<N("x"), F("y")>>)>>),
                      AsFile(<<Asg("FEATURES", <<ClearAll, F("g")>>)>>), AsFile(<<Asg("FOO", <<Ref("FOO"), F("b")>>)>>), Broken}

\* named edit sets (a cfg file cannot write a set of tuples)
EditsMasks == {<<"n1", "M">>, <<"n2", "M">>, <<"n4", "P">>}
EditsEnv   == {<<"n1", "E">>, <<"n3", "E">>, <<"n4", "P">>}
EditsMixed == {<<"n1", "M">>, <<"n2", "E">>, <<"n4", "P">>}
EditsQ0 == {<<"n1", "M">>}
EditsQ1 == {<<"n1", "M">>, <<"n4", "P">>}
EditsQ2a == {<<"n1", "E">>}
EditsQ2 == {<<"n1", "E">>, <<"n2", "E">>}
EditsQ3 == {<<"n2", "K">>, <<"n2", "V">>}
EditsLawEnvQ  == {<<"n4", "P">>, <<"n3", "P">>, <<"n1", "E">>, <<"n2", "E">>}
EditsLawMaskQ == {<<"n4", "P">>, <<"n2", "P">>, <<Root, "M">>, <<"n1", "M">>, <<"n2", "M">>}
EditsLawEnv  == {<<n, "P">> : n \in {"n1", "n2", "n3", "n4"}} \cup {<<n, "E">> : n \in {"n1", "n2", "n3", "n4"}}
EditsLawMask == {<<n, "P">> : n \in {"n1", "n2", "n3", "n4"}} \cup {<<n, "M">> : n \in {Root, "n1", "n2", "n4"}}
                \cup {<<"n2", "K">>}

VARIABLES s, dirty
vars == <<s, dirty>>

Init == /\ \E st \in StrictChoices, ps \in PSetChoices : s = Fresh(MCTree(st, ps), Objs)
        /\ dirty = FALSE
Open(o, leaf) == /\ WithObjects /\ CanOpen(s, o, leaf) /\ s' = DoOpen(s, o, leaf) /\ UNCHANGED dirty
Get(o, a)     == /\ WithObjects /\ o \in s.open /\ s' = DoGetWith(s, o, a, NodeCache).s /\ UNCHANGED dirty
Edit(n, f, c) == /\ s.disk.nodes[n].f[f] # c /\ s' = DoEdit(s, n, f, c) /\ dirty' = (dirty \/ s.open # {})
DropAll       == /\ WithObjects /\ s.open # {} /\ s' = DoDropAllWith(s, WeakCache) /\ dirty' = FALSE
Next == \/ \E o \in Objs, leaf \in OpenLeaves : Open(o, leaf)
        \/ \E o \in Objs, a \in GetAttrs : Get(o, a)
        \/ \E e \in EditSet : \E c \in Menu(e[1], e[2]) : Edit(e[1], e[2], c)
        \/ DropAll
Spec == Init /\ [][Next]_vars

DiskView == TLCEval([k \in KeysOf(s.disk) |-> OnDisk(s.disk, k)])
InvCoherent == Coherent(s)
InvFresh    == dirty \/ LET Vw == DiskView IN
                        \A o \in s.open : \A a \in DOMAIN s.got[o] : s.got[o][a] = ValueOf(a, s.disk, Vw, s.leaf[o])
InvReadable == SeenReadable(s)
InvReleased == NothingHeld(s)
StackFn(G, n) == IF PerPath THEN Lin(G, n) ELSE LinOnce(G, n)
LawEnv   == EnvIsStackFold(s.disk, StackFn)
LawPairs == MasksFromPairs(s.disk)
LawOrder == AncestorsFirst(s.disk)
LawPaths == OncePerPath(s.disk)

StableRead == [][\A o \in s.open \cap s'.open : \A a \in DOMAIN s.got[o] :
                    a \in DOMAIN s'.got[o] /\ s'.got[o][a] = s.got[o][a]]_vars
ReadOnce   == [][s'.open = {} \/ \A k \in ReadKeys(s) : s'.seen[k] = s.seen[k]]_vars
\* whenever an object gains attributes, a Get explains it, and a Get that raised left at most the stack behind
FailedGetCachesNoValue ==
  [][\A o \in s.open \cap s'.open :
       LET gained == DOMAIN s'.got[o] \ DOMAIN s.got[o] IN
       gained # {} => \E a \in GetAttrs : LET r == DoGetWith(s, o, a, NodeCache) IN
                                            s' = r.s /\ (r.ret.raised => gained \subseteq {"stack"})]_vars
=========================================================================
