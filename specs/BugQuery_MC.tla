---------------------------- MODULE BugQuery_MC ----------------------------
(* Design check: a search is built up step by step with & and any_of from a small universe of
   operands; along every history the rendering is well formed, the reference evaluator reads
   back exactly the search, and the bugs it matches are exactly those matching the
   conjunction / disjunction of the parts (sat is maintained by set operations only).        *)
EXTENDS BugQuery
CONSTANTS MaxOps, Words, SKeys, CFields

NonEmptySeqs(S) == {SetToSeq(x) : x \in (SUBSET S) \ {{}}}
SimpleOperands == {SimpleQ(k, vs) : k \in SKeys, vs \in NonEmptySeqs(Words)}
BaseCrits == {Crit(f, "anywords", <<w>>, FALSE, FALSE) : f \in CFields, w \in Words}
Crits == {Crit(f, o, vs, n, FALSE) : f \in CFields, o \in {"anywords", "nowords"}, vs \in NonEmptySeqs(Words), n \in BOOLEAN}
ChartOperands == {ChartQ(c) : c \in Crits} \cup {And(ChartQ(a), ChartQ(b)) : a \in BaseCrits, b \in BaseCrits}
Operands == SimpleOperands \cup ChartOperands
AllBugs == SUBSET ((SKeys \cup CFields) \X Words)

VARIABLES q, pairs, sat, n
vars == <<q, pairs, sat, n>>
Init == q = EmptyQ /\ pairs = {} /\ sat = AllBugs /\ n = 0
DoAnd(x) == /\ q' = And(q, x)
            /\ pairs' = pairs \cup SimplePairs(x)
            /\ sat' = {b \in sat : ChartsHold(x.charts, b)}
            /\ n' = n + 1
\* wrap what was built so far: any_of(q, x)
DoAnyOf(x) == /\ q.simple = <<>> /\ q.charts # <<>>
              /\ q' = AnyOf(<<q, x>>)
              /\ sat' = sat \cup {b \in AllBugs : ChartsHold(x.charts, b)}
              /\ UNCHANGED pairs
              /\ n' = n + 1
Next == /\ n < MaxOps
        /\ \/ \E x \in Operands : DoAnd(x)
           \/ \E x \in ChartOperands : DoAnyOf(x)
Spec == Init /\ [][Next]_vars

InvWellFormed == LET cps == ChartPs(Render(q)) IN
                 /\ UniqueSlots(cps) /\ SlotShape(cps) /\ Balanced(cps)
                 /\ SlotNums(cps) = 1..Cardinality(SlotNums(cps))
InvRoundTrip  == LET r == Render(q) IN ParseCharts(ChartPs(r)) = q.charts /\ ParsePairs(r) = SimplePairs(q)
InvMeaning    == LET r == Render(q)
                     pc == ParseCharts(ChartPs(r))
                     pp == ParsePairs(r)
                 IN \A b \in AllBugs : QHolds(pp, pc, b) = (b \in sat /\ SimpleHolds(pairs, b))
InvNorm       == LET nt == NormTop(q.charts) IN \A b \in AllBugs : ChartsHold(nt, b) = ChartsHold(q.charts, b)
=========================================================================
