---------------------------- MODULE PlanState ----------------------------
(* C17 (and the op-trace half of C15): the resolver's plan_state
   (src/pkgcore/resolver/state.py + pigeonholes.py).

   The planner state is ONE record `s`:
     plan     : Seq(entry)          -- state.plan, internal entries included
     slots    : SUBSET Pkgs         -- PigeonHoledSlots.slot_dict (a pkg is slotted at most once)
     limiters : SUBSET Blockers     -- PigeonHoledSlots.limiters (each blocker has one key)
     choice   : [Pkgs -> ChoicePts \cup {NoChoice}]   -- pkg_choices
     rev      : [ChoicePts \X Blockers -> Nat]        -- rev_blockers as a bag
     refcnt   : [Blockers -> Nat]                   -- blockers_refcnt
     vdb      : [Pkgs -> Nat]                       -- vdb_filter: how many plan entries exclude the
                                                        installed pkg (the property speaks of its support)
     forced   : [Restrs -> Nat]                     -- forced_restrictions
   Every public operation is an operator  s |-> [s |-> s', ret |-> ...]  that
   appends exactly the entries the code appends (one action per apply()).
   Revert(e, s) is the inverse step the code's revert() performs.           *)
EXTENDS Integers, Sequences, FiniteSets

CONSTANTS Pkgs, ChoicePts, Blockers, Restrs,
          KeyOf,     \* [Pkgs -> key]
          SlotOf,    \* [Pkgs -> slot]
          BKeyOf,    \* [Blockers -> key]   the key a blocker is filed under
          Blocks     \* SUBSET (Blockers \X Pkgs): blocker.match(pkg)

NoChoice == "-"

Empty == [plan |-> <<>>, slots |-> {}, limiters |-> {},
          choice |-> [p \in Pkgs |-> NoChoice],
          rev |-> [cb \in ChoicePts \X Blockers |-> 0],
          refcnt |-> [b \in Blockers |-> 0],
          vdb |-> [p \in Pkgs |-> 0],
          forced |-> [r \in Restrs |-> 0]]

(* ---------- PigeonHoledSlots ---------- *)
LimitersHitting(s, p) == {b \in s.limiters : BKeyOf[b] = KeyOf[p] /\ <<b, p>> \in Blocks}
SlotMates(s, p)       == {x \in s.slots : KeyOf[x] = KeyOf[p] /\ SlotOf[x] = SlotOf[p]}
Conflicts(s, p)       == LimitersHitting(s, p) \cup SlotMates(s, p)       \* fill_slotting's list
Caught(s, b)          == {x \in s.slots : KeyOf[x] = BKeyOf[b] /\ <<b, x>> \in Blocks} \* find_atom_matches

(* ---------- plan entries ---------- *)
EAdd(c, p, f)      == [t |-> "add", c |-> c, p |-> p, force |-> f, b |-> "-", old |-> "-", oldc |-> "-", fold |-> FALSE]
ERemove(c, p)      == [t |-> "remove", c |-> c, p |-> p, force |-> FALSE, b |-> "-", old |-> "-", oldc |-> "-", fold |-> FALSE]
EReplace(c, p, f, old, oldc, fold) ==
                      [t |-> "replace", c |-> c, p |-> p, force |-> f, b |-> "-", old |-> old, oldc |-> oldc, fold |-> fold]
EHardref(r)        == [t |-> "hardref", c |-> "-", p |-> "-", force |-> TRUE, b |-> r, old |-> "-", oldc |-> "-", fold |-> FALSE]
EBackref(c, p)     == [t |-> "backref", c |-> c, p |-> p, force |-> FALSE, b |-> "-", old |-> "-", oldc |-> "-", fold |-> FALSE]
EIncref(c, b)      == [t |-> "incref", c |-> c, p |-> "-", force |-> FALSE, b |-> b, old |-> "-", oldc |-> "-", fold |-> FALSE]
EDecref(c, b)      == [t |-> "decref", c |-> c, p |-> "-", force |-> FALSE, b |-> b, old |-> "-", oldc |-> "-", fold |-> FALSE]

(* Forward meaning of one entry on the state EXCLUDING the plan itself:
   what the state looks like once the entry is in the plan.               *)
Fwd(e, s) ==
  CASE e.t = "add"     -> [s EXCEPT !.slots = @ \cup {e.p}, !.choice[e.p] = e.c]
    [] e.t = "remove"  -> [s EXCEPT !.slots = @ \ {e.p}, !.choice[e.p] = NoChoice, !.vdb[e.p] = @ + 1]
    [] e.t = "replace" -> [s EXCEPT !.slots = (@ \ {e.old}) \cup {e.p},
                                    !.choice = [@ EXCEPT ![e.old] = NoChoice, ![e.p] = e.c],
                                    !.vdb[e.old] = @ + 1]
    [] e.t = "hardref" -> [s EXCEPT !.forced[e.b] = @ + 1]
    [] e.t = "backref" -> s
    [] e.t = "incref"  -> [s EXCEPT !.rev[<<e.c, e.b>>] = @ + 1, !.refcnt[e.b] = @ + 1,
                                    !.limiters = @ \cup {e.b}]
    [] e.t = "decref"  -> [s EXCEPT !.rev[<<e.c, e.b>>] = @ - 1, !.refcnt[e.b] = @ - 1,
                                    !.limiters = IF s.refcnt[e.b] = 1 THEN @ \ {e.b} ELSE @]

Push(e, s) == [Fwd(e, s) EXCEPT !.plan = Append(s.plan, e)]

(* What revert() of the entry does to the state (plan untouched).  Written from
   the code of each revert(), NOT as the inverse of Fwd: that they coincide is
   exactly what TLC checks (invariant StateIsReplay).                          *)
Revert(e, s) ==
  CASE e.t = "add"     -> [s EXCEPT !.slots = @ \ {e.p}, !.choice[e.p] = NoChoice]
    [] e.t = "remove"  -> [s EXCEPT !.slots = @ \cup {e.p}, !.choice[e.p] = e.c, !.vdb[e.p] = @ - 1]
    [] e.t = "replace" -> [s EXCEPT !.slots = (@ \ {e.p}) \cup {e.old},
                                    !.choice = [@ EXCEPT ![e.p] = NoChoice, ![e.old] = e.oldc],
                                    !.vdb[e.old] = @ - 1]
    [] e.t = "hardref" -> [s EXCEPT !.forced[e.b] = @ - 1]
    [] e.t = "backref" -> s
    [] e.t = "incref"  -> [s EXCEPT !.rev[<<e.c, e.b>>] = @ - 1, !.refcnt[e.b] = @ - 1,
                                    !.limiters = IF s.refcnt[e.b] = 1 THEN @ \ {e.b} ELSE @]
    [] e.t = "decref"  -> [s EXCEPT !.rev[<<e.c, e.b>>] = @ + 1, !.refcnt[e.b] = @ + 1,
                                    !.limiters = @ \cup {e.b}]

RECURSIVE BacktrackTo(_, _)
BacktrackTo(s, pos) ==
  IF Len(s.plan) <= pos THEN s
  ELSE LET e == s.plan[Len(s.plan)]
           s1 == [Revert(e, s) EXCEPT !.plan = SubSeq(s.plan, 1, Len(s.plan) - 1)]
       IN BacktrackTo(s1, pos)

RECURSIVE ReplayFrom(_, _, _)
ReplayFrom(s, plan, k) == IF k > Len(plan) THEN s ELSE ReplayFrom(Push(plan[k], s), plan, k + 1)
Replay(plan) == ReplayFrom(Empty, plan, 1)

(* ---------- public operations: s |-> [s, ret] ---------- *)
Res(s, ret) == [s |-> s, ret |-> ret]

\* decref every blocker registered by choice point c (plan_state._remove_pkg_blockers)
RECURSIVE DropAll(_, _, _)
DropAll(s, c, bs) ==
  IF bs = {} THEN s
  ELSE LET b == CHOOSE x \in bs : TRUE IN
       IF s.rev[<<c, b>>] = 0 THEN DropAll(s, c, bs \ {b})
       ELSE DropAll(Push(EDecref(c, b), s), c, bs)

(* Domain of the property (carve-out, DESIGN.md C17): a choice point's own blockers never
   match the package of that same choice point (the resolver treats that as an immediate
   conflict and abandons the choice; replace_op.revert asserts on it).                    *)
SelfBlock(s, c, p)  == \E b \in Blockers : s.rev[<<c, b>>] > 0 /\ BKeyOf[b] = KeyOf[p] /\ <<b, p>> \in Blocks
CanAdd(s, c, p)     == p \notin s.slots /\ ~SelfBlock(s, c, p)
DoAdd(s, c, p, f)   == LET l == Conflicts(s, p) IN
                       IF l # {} /\ ~f THEN Res(s, l) ELSE Res(Push(EAdd(c, p, f), s), {})

CanRemove(s, c, p)  == p \in s.slots /\ s.choice[p] = c
DoRemove(s, c, p)   == Res(Push(ERemove(c, p), DropAll(s, c, Blockers)), {})

OldOf(s, p)         == CHOOSE x \in SlotMates(s, p) : TRUE
\* replace_op is only ever applied un-forced by the resolver (plan.py insert_choice)
CanReplace(s, c, p) == p \notin s.slots /\ Cardinality(SlotMates(s, p)) = 1 /\ ~SelfBlock(s, c, p)
DoReplace(s, c, p)  ==
  LET old   == OldOf(s, p)
      fold  == LimitersHitting(s, old) # {}
      oldc  == s.choice[old]
      s1    == DropAll([s EXCEPT !.slots = @ \ {old}], oldc, Blockers)
      l     == Conflicts(s1, p)
  IN IF l # {} THEN Res(s, l)      \* refused: the partial work is backtracked
     ELSE Res(Push(EReplace(c, p, FALSE, old, oldc, fold), s1), {})

\* only the 0 -> 1 transition installs the limiter and reports what it catches
CanAddBlocker(s, c, b) == ~\E p \in s.slots : s.choice[p] = c /\ BKeyOf[b] = KeyOf[p] /\ <<b, p>> \in Blocks
DoAddBlocker(s, c, b)  == Res(Push(EIncref(c, b), s), IF s.refcnt[b] = 0 THEN Caught(s, b) ELSE {})
CanDropBlocker(s, c, b) == s.rev[<<c, b>>] > 0
DoDropBlocker(s, c, b) == Res(Push(EDecref(c, b), s), {})
DoHardref(s, r)        == Res(Push(EHardref(r), s), {})
DoBackref(s, c, p)     == Res(Push(EBackref(c, p), s), {})
DoBacktrack(s, pos)    == Res(BacktrackTo(s, pos), {})
(* A rollback to pos that is interrupted (KeyboardInterrupt, MemoryError ...) at the moment entry
   number stop (pos < stop <= Len(plan)) is about to be reverted: the entries after stop are undone
   and pruned, entry stop and everything before it stay (plan_state.backtrack prunes "what has been
   finished, and just that"), so the state is again the replay of the plan that remains.           *)
DoBacktrackCut(s, pos, stop) == Res(BacktrackTo(s, stop), {})

(* Plans are compared up to the order of decref entries inside one run of decrefs: that
   order is the list order of rev_blockers, which the property treats as a bag.        *)
SameRun(p, j, k) == \A m \in (IF j < k THEN j ELSE k)..(IF j < k THEN k ELSE j) : p[m].t = "decref"
CountIn(p, k, e) == Cardinality({j \in DOMAIN p : SameRun(p, j, k) /\ p[j] = e})
PlanEq(a, b) == /\ Len(a) = Len(b)
                /\ \A k \in DOMAIN a :
                     IF a[k].t = "decref" THEN b[k].t = "decref" /\ CountIn(a, k, a[k]) = CountIn(b, k, a[k])
                     ELSE a[k] = b[k]

(* ---------- properties of a state ---------- *)
Excluded(s) == {p \in Pkgs : s.vdb[p] > 0}
NoPlan(s) == [s EXCEPT !.plan = <<>>, !.vdb = Excluded(s)]
StateIsReplay(s) == NoPlan(s) = NoPlan(Replay(s.plan))
RefcntIsLive(s)  == \A b \in Blockers :
    s.refcnt[b] = Cardinality({k \in DOMAIN s.plan : s.plan[k].t = "incref" /\ s.plan[k].b = b})
                  - Cardinality({k \in DOMAIN s.plan : s.plan[k].t = "decref" /\ s.plan[k].b = b})
LimitersAreReferenced(s) == s.limiters = {b \in Blockers : s.refcnt[b] > 0}
RefcntIsRevSum(s) == \A b \in Blockers :
    LET RECURSIVE Sum(_)
        Sum(cs) == IF cs = {} THEN 0 ELSE LET c == CHOOSE x \in cs : TRUE IN s.rev[<<c, b>>] + Sum(cs \ {c})
    IN s.refcnt[b] = Sum(ChoicePts)
ChoicesAreSlotted(s) == {p \in Pkgs : s.choice[p] # NoChoice} = s.slots
=========================================================================
