---------------------------- MODULE QueryGlob_MCQ ----------------------------
(* Laws of the query grammar over the whole bounded query space x package universe:
   rendering and parsing are inverse, plain atoms select what atoms match, dropping a
   constraint never loses a package, blockers are rejected.                            *)
EXTENDS QueryGlob_Export     \* (its ASSUME writes the case file when IOEnv.OUT is set: one TLC run does both)
VARIABLES q, p
vars == <<q, p>>
None == [cat |-> <<>>]
Init == q \in Queries /\ p = None
Next == p = None /\ p' \in {AsPkg(x) : x \in Universe} /\ q' = q
Spec == Init /\ [][Next]_vars
RoundTrip == p = None => ParseQ(RenderQ(q)) = (IF Carved(q) THEN Unspec ELSE q)
PlainAtomLaw == (p # None /\ IsPlainAtom(q)) => (Selects(q, p) = AtomMatches(q, p))
Generalise == p # None /\ Selects(q, p) =>
                 /\ Selects([q EXCEPT !.cat = AnyPat], p) /\ Selects([q EXCEPT !.pkg = AnyPat], p)
                 /\ Selects([q EXCEPT !.slot = AnyPat], p) /\ Selects([q EXCEPT !.sub = AnyPat], p)
                 /\ Selects([q EXCEPT !.repo = <<>>], p) /\ Selects([q EXCEPT !.op = ""], p)
OpsPartition == p # None /\ q.op \in {"<", ">="} =>
                  (Selects([q EXCEPT !.op = "<"], p) # Selects([q EXCEPT !.op = ">="], p)) = Selects([q EXCEPT !.op = ""], p)
BlockersRejected == \A t \in Blockers : ParseQ(t).kind = "reject"
=========================================================================
