---------------------------- MODULE PkgDb_Export ----------------------------
(* spec -> code: the scenario shapes of the PkgDb_MC configuration space; drivers/c29_pkgdb.py
   instantiates each on the real vdb / binpkg repository operations. *)
EXTENDS PkgDb, TLC, Json, IOUtils, SequencesExt
ASSUME ndJsonSerialize(IOEnv.OUT, SetToSeq(Shapes))
=========================================================================
