---------------------------- MODULE BoolTree ----------------------------
(* C06 (shared with C08): boolean restriction trees are propositional logic.

   A tree over leaf identifiers (src/pkgcore/restrictions/boolean.py, restriction.py):
     leaf  [k="leaf", id, neg]   a package/value restriction; neg = its own negate flag
     not   [k="not",  ch=<<t>>]  restriction.Negate(t)
     node  [k in Kinds, neg, ch] AndRestriction / OrRestriction / JustOneRestriction /
                                 AtMostOneOfRestriction(children.., negate=neg)
   All nodes carry the same four fields (k, neg, id, ch) so that they travel as uniform
   JSON records.  A valuation v is the SET of leaf ids whose restriction matches the
   package (value) at hand: leaf correctness is not this module's business.

   Eval            the propositional meaning (the property's left-hand side)
   EvalDNF/EvalCNF meaning of a clause list whose literals are trees again (pkgcore hands
                   out Negate wrappers and un-expanded exactly-one/at-most-one nodes as literals)
   RefDNF/RefCNF   the intended expansion (cross product / concatenation, De Morgan for a
                   negated node) -- checked equivalent to Eval by TLC (BoolTree_Laws, _MC)
   FullDNF         complete expansion down to signed leaves (counting nodes expanded too)
   Empty groups are outside the property (carve-out): every node has >= 1 child.          *)
EXTENDS Naturals, Sequences, FiniteSets

Kinds == {"and", "or", "one", "amo"}

Leaf(i, n)     == [k |-> "leaf", neg |-> n, id |-> i, ch |-> <<>>]
Not(t)         == [k |-> "not", neg |-> FALSE, id |-> 0, ch |-> <<t>>]
Node(kd, n, cs) == [k |-> kd, neg |-> n, id |-> 0, ch |-> cs]

RECURSIVE Eval(_, _)
Eval(t, v) ==
    IF t.k = "leaf" THEN (t.id \in v) # t.neg
    ELSE IF t.k = "not" THEN ~Eval(t.ch[1], v)
    ELSE LET n   == Cardinality({i \in DOMAIN t.ch : Eval(t.ch[i], v)})
             raw == CASE t.k = "and" -> n = Len(t.ch)
                      [] t.k = "or"  -> n > 0
                      [] t.k = "one" -> n = 1
                      [] t.k = "amo" -> n <= 1
         IN raw # t.neg

RECURSIVE LeafIds(_)
LeafIds(t) == IF t.k = "leaf" THEN {t.id} ELSE UNION {LeafIds(t.ch[i]) : i \in DOMAIN t.ch}

RECURSIVE Depth(_)
Depth(t) == IF t.ch = <<>> THEN 0
            ELSE 1 + (CHOOSE m \in {Depth(t.ch[i]) : i \in DOMAIN t.ch} :
                          \A j \in DOMAIN t.ch : Depth(t.ch[j]) <= m)

RECURSIVE WellFormed(_)
WellFormed(t) ==
    CASE t.k = "leaf" -> t.ch = <<>>
      [] t.k = "not"  -> Len(t.ch) = 1 /\ WellFormed(t.ch[1])
      [] t.k \in Kinds -> Len(t.ch) >= 1 /\ \A i \in DOMAIN t.ch : WellFormed(t.ch[i])
      [] OTHER -> FALSE

(* ---- normal forms as SETS of clauses, a clause being a SET of literal trees ---- *)
EvalDNF(D, v) == \E c \in D : \A l \in c : Eval(l, v)
EvalCNF(C, v) == \A c \in C : \E l \in c : Eval(l, v)

\* the same for the sequences-of-sequences pkgcore returns
SeqSet(s) == {s[i] : i \in DOMAIN s}
ClauseSets(ss) == {SeqSet(ss[i]) : i \in DOMAIN ss}

EquivDNF(t, D, ids) == \A v \in SUBSET ids : EvalDNF(D, v) = Eval(t, v)
EquivCNF(t, C, ids) == \A v \in SUBSET ids : EvalCNF(C, v) = Eval(t, v)

CrossU(A, B) == {a \cup b : a \in A, b \in B}
RECURSIVE FoldCross(_)
FoldCross(ds) == IF ds = <<>> THEN {{}} ELSE CrossU(Head(ds), FoldCross(Tail(ds)))

\* Intended DNF: and = cross product, or = concatenation, negated node = De Morgan with the
\* children wrapped (Negate(child) stays an opaque literal), counting nodes stay opaque.
RECURSIVE RefDNF(_)
RefDNF(t) ==
    CASE t.k = "and" /\ ~t.neg -> FoldCross([i \in DOMAIN t.ch |-> RefDNF(t.ch[i])])
      [] t.k = "or"  /\ ~t.neg -> UNION {RefDNF(t.ch[i]) : i \in DOMAIN t.ch}
      [] t.k = "and" /\ t.neg  -> {{Not(t.ch[i])} : i \in DOMAIN t.ch}
      [] t.k = "or"  /\ t.neg  -> {{Not(t.ch[i]) : i \in DOMAIN t.ch}}
      [] OTHER -> {{t}}

\* Intended CNF: and = concatenation, or = distribution; negated nodes by De Morgan
\* (pkgcore refuses those today: NotImplementedError, which is a refusal, not an answer)
RECURSIVE RefCNF(_)
RefCNF(t) ==
    CASE t.k = "and" /\ ~t.neg -> UNION {RefCNF(t.ch[i]) : i \in DOMAIN t.ch}
      [] t.k = "or"  /\ ~t.neg -> FoldCross([i \in DOMAIN t.ch |-> RefCNF(t.ch[i])])
      [] t.k = "and" /\ t.neg  -> {{Not(t.ch[i]) : i \in DOMAIN t.ch}}
      [] t.k = "or"  /\ t.neg  -> {{Not(t.ch[i])} : i \in DOMAIN t.ch}
      [] OTHER -> {{t}}

(* ---- complete expansion to signed leaves: literal = [id, val] ---- *)
Lit(i, b) == [id |-> i, val |-> b]
EvalLits(D, v) == \E c \in D : \A l \in c : (l.id \in v) = l.val

\* Pos[i] / Neg[i]: expansions of child i and of its complement
AllOf(Pos, S)  == FoldCross([k \in 1..Cardinality(S) |->
                     Pos[CHOOSE i \in S : Cardinality({j \in S : j < i}) = k - 1]])
RECURSIVE FullDNF(_, _)
FullDNF(t, want) ==
    IF t.k = "leaf" THEN {{Lit(t.id, want # t.neg)}}
    ELSE IF t.k = "not" THEN FullDNF(t.ch[1], ~want)
    ELSE LET I    == DOMAIN t.ch
             Pos  == [i \in I |-> FullDNF(t.ch[i], TRUE)]
             Neg  == [i \in I |-> FullDNF(t.ch[i], FALSE)]
             w    == want # t.neg
             all  == AllOf(Pos, I)
             none == AllOf(Neg, I)
             some == UNION {Pos[i] : i \in I}
             notall == UNION {Neg[i] : i \in I}
             one  == UNION {CrossU(Pos[i], AllOf(Neg, I \ {i})) : i \in I}
             two  == UNION {CrossU(Pos[i], Pos[j]) : <<i, j>> \in {x \in I \X I : x[1] < x[2]}}
         IN CASE t.k = "and" -> IF w THEN all ELSE notall
              [] t.k = "or"  -> IF w THEN some ELSE none
              [] t.k = "one" -> IF w THEN one ELSE none \cup two
              [] t.k = "amo" -> IF w THEN none \cup one ELSE two
=========================================================================
