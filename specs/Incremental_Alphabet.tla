---------------------------- MODULE Incremental_Alphabet ----------------------------
(* The bounded token alphabet used to model-check / export Incremental:
   a b -a -b  * -*  @g -@g @m (m is never defined)  and the three incomplete tokens - -@ @ .
   Group g is nested: g = { b, @h, @nowhere },  h = { c };  licences in question: a b c.   *)
EXTENDS Incremental
Complete == {Tok(FALSE, "flag", "a"), Tok(TRUE, "flag", "a"), Tok(FALSE, "flag", "b"), Tok(TRUE, "flag", "b"),
             Tok(FALSE, "star", ""), Tok(TRUE, "star", ""),
             Tok(FALSE, "group", "g"), Tok(TRUE, "group", "g"), Tok(FALSE, "group", "m")}
Broken   == {Tok(TRUE, "flag", ""), Tok(TRUE, "group", ""), Tok(FALSE, "group", "")}
Alphabet == Complete \cup Broken
StreamsOver(A, n) == UNION {[1..k -> A] : k \in 0..n}
Streams(n) == StreamsOver(Alphabet, n)

\* every body a stream over Alphabet can leave in a plain set, plus one that no token mentions
Bodies == {"a", "b", "*", "@g", "@m", "@", "z"}

M(ref, name) == [ref |-> ref, name |-> name]
Defs == [g |-> {M(FALSE, "b"), M(TRUE, "h"), M(TRUE, "nowhere")}, h |-> {M(FALSE, "c")}]
All  == {"a", "b", "c"}
=========================================================================
