---------------------------- MODULE BuildPhases_Sim ----------------------------
(* spec -> code: TLC (simulation mode) chooses a configuration and a history of D public operations
   of the BuildPhases_MC state machine (dirty sessions included: the operators describe them, only
   AtMostOnce needs them excluded).  Only the INPUTS are recorded in hist; drivers/g02_buildphases.py
   replays them on the real buildable / install_op / uninstall_op / replace_op / binpkg_localize
   objects with a scripted ebuild processor, and BuildPhases_Trace judges what those did.     *)
EXTENDS BuildPhases_MC, SequencesExt
CONSTANT D
VARIABLES hist, fin
A(op, stage, ignore, force, cas, failAt, how) ==
  [op |-> op, stage |-> stage, ignore |-> ignore, force |-> force, cas |-> cas, failAt |-> failAt, how |-> how]
SimInit == Init /\ hist = <<>> /\ fin = FALSE
\* one fault (or none, two times out of three) per call, drawn by TLC's random generator: simulation mode
\* computes EVERY successor of a state before it picks one, so the choice is made here
FaultsFor(stage) == {<<"fetch", "fail">>} \cup (((DepsSet(cfg.kind, stage) \cap PhaseNames)) \X (Outcomes \ {"ok"}))
Draw(stage) == IF RandomElement(1..3) = 1 THEN RandomElement(FaultsFor(stage)) ELSE <<"-", "ok">>
Step ==
  /\ Len(hist) < D /\ UNCHANGED fin /\ n' = n + 1 /\ cfg' = cfg
  /\ \/ \E stage \in StagesOf(cfg.kind) : \E f \in {Draw(stage)} :
          DoCall(stage, FALSE, ScriptOf(f[1], f[2])) /\ hist' = Append(hist, A("call", stage, FALSE, FALSE, FALSE, f[1], f[2]))
     \/ \E stage \in StagesOf(cfg.kind) \ {"start", "finalize"} : \E f \in {Draw(stage)} :
          Leafy /\ DoCall(stage, TRUE, ScriptOf(f[1], f[2])) /\ hist' = Append(hist, A("call", stage, TRUE, FALSE, FALSE, f[1], f[2]))
     \/ \E force \in BOOLEAN : DoCleanup(force) /\ hist' = Append(hist, A("cleanup", "-", FALSE, force, FALSE, "-", "ok"))
     \/ DoReload /\ hist' = Append(hist, A("reload", "-", FALSE, FALSE, FALSE, "-", "ok"))
     \/ DoResume /\ hist' = Append(hist, A("resume", "-", FALSE, FALSE, FALSE, "-", "ok"))
     \/ DoCleanSession /\ hist' = Append(hist, A("new", "-", FALSE, FALSE, TRUE, "-", "ok"))
     \/ DoDirtySession /\ hist' = Append(hist, A("new", "-", FALSE, FALSE, FALSE, "-", "ok"))
     \/ DoFinish /\ hist' = Append(hist, A("finish", "-", FALSE, FALSE, FALSE, "-", "ok"))
Done == Len(hist) = D /\ ~fin /\ fin' = TRUE /\ UNCHANGED <<vars, hist>>
SimNext == Step \/ Done
SimSpec == SimInit /\ [][SimNext]_<<vars, hist, fin>>
J(c) == [kind |-> c.kind, eapi |-> c.eapi, defined |-> SetToSeq(c.defined), features |-> SetToSeq(c.features),
         restrict |-> SetToSeq(c.restrict), useTest |-> c.useTest, forceTest |-> c.forceTest, prefetched |-> c.prefetched]
Emit == ~fin \/ PrintT(<<"BEH", J(cfg), hist>>)
=============================================================================
