--------------------------- MODULE Unmerge_Trace ---------------------------
(* Judge for C20 (code -> spec).  Per scenario (tid):
     i = 0  "init"  : root before (names, inodes, links), kind "unmerge" | "replace", rm (contents of the
                      package being removed), newc (contents of the replacing package, <<>> otherwise),
                      offset, base (protected directories, incl. offset)
     i > 0  "sys"   : recorded syscalls of the real unmerge_contents / MergeEngine.uninstall / .replace run,
                      replayed through FsModel
            "final" : real lstat snapshot + exception raised: FinalState/FinalLinks (model == snapshot),
                      Outcome_Raised, and the clauses of Unmerge!JudgeUnmerge:
                      NotRemoved EmptyDirLeft Unlisted ThroughSymlink BaseDir KeepsNew ListedButKept Frame *)
EXTENDS Unmerge, TraceLib
VARIABLES l, fs, ctx

EmptyFs == [names |-> {}, inodes |-> <<>>, handles |-> {}, links |-> {}, mounts |-> {}]
NoCtx == [s0 |-> EmptyFs, x |-> PlainExpected(EmptyFs, <<>>, <<>>, {}), listed |-> {}, behind |-> {}, prot |-> {}]

ReportP(tid, i, bad) == \A c \in bad : PrintT(<<"VERDICT", tid, i, c[1], JoinPath(c[2])>>)

TraceInit == l = 0 /\ fs = EmptyFs /\ ctx = NoCtx
TraceNext ==
  /\ l < Len(Tr) /\ l' = l + 1
  /\ LET e == Tr[l'] IN
     CASE e.ev = "init" ->
            LET s0 == InitFs(e)
                base == {e.base[k] : k \in DOMAIN e.base}
                x == IF e.kind = "replace" THEN ReplaceExpected(s0, e.rm, e.newc, e.offset, base)
                     ELSE PlainExpected(s0, e.rm, e.offset, base)
            IN /\ fs' = s0
               /\ ctx' = [s0 |-> s0, x |-> x, listed |-> ListedAt(x.mid, x.rm, e.offset), behind |-> Behind(x.mid, x.rm, e.offset),
                          prot |-> Protected(s0, base)]
               /\ PrintT(<<"EXPECT", e.tid, x.outcome, x.why>>)
       [] e.ev = "sys" ->
            LET r == SysStep(fs, e) IN
            /\ fs' = r.s /\ UNCHANGED ctx
            /\ ReportP(e.tid, e.i, IF r.ok THEN {} ELSE {<<"Model_" \o e.op, e.p>>})
       [] e.ev = "final" ->
            /\ UNCHANGED <<fs, ctx>>
            /\ LET sn == SnapFs(e.snap, ctx.s0.links) IN
               ReportP(e.tid, e.i, ModelVsSnap(fs, sn)
                    \cup (IF ctx.x.outcome = "ok" /\ e.raised # "" THEN {<<"Outcome_Raised", <<e.raised>>>>} ELSE {})
                    \cup (IF ctx.x.outcome = "ok" /\ e.raised = ""
                          THEN JudgeUnmerge(ctx.x, ctx.s0, ctx.listed, ctx.behind, ctx.prot, sn) ELSE {}))
  /\ EndMark(l')
TraceSpec == TraceInit /\ [][TraceNext]_<<l, fs, ctx>>
=============================================================================
