---------------------------- MODULE Xpak_Laws ----------------------------
(* Constant-level laws of the XPAK layout, evaluated by TLC (ASSUME): the encoding is
   self-delimiting from the end, decoding inverts encoding, rewriting is idempotent on the
   prefix, UTF-8 / BE32 are injective on the boundary values used by the generators.      *)
EXTENDS Xpak_Universe, TLC

LawMaps == {MCMaps[i] : i \in 1..Len(MCMaps)}
LawPrefixes == {MCPrefixes[i] : i \in 1..Len(MCPrefixes)}

\* prefixes of the universe are segment free (what "a file without a segment" means)
ASSUME \A p \in LawPrefixes : ~HasSegment(p) /\ Locate(p) = Len(p)
\* decoding inverts encoding, the canonical segment is exact
ASSUME \A m \in LawMaps : LET s == Segment(m) IN
          /\ Len(s) = SegmentLen(m) /\ HasSegment(s) /\ Locate(s) = 0 /\ SegExact(s)
          /\ RawItems(s) = RawOf(m)
\* the segment is found behind any prefix, and only there
ASSUME \A p \in LawPrefixes, m \in LawMaps : LET f == p \o Segment(m) IN
          HasSegment(f) /\ Locate(f) = Len(p) /\ PrefixOf(f) = p /\ SegOf(f) = Segment(m)
\* rewriting: prefix kept, old segment gone, whatever the sizes (grow and shrink)
ASSUME \A p \in LawPrefixes, m1 \in LawMaps, m2 \in LawMaps :
          /\ Rewrite(p, m1) = p \o Segment(m1)
          /\ Rewrite(Rewrite(p, m1), m2) = p \o Segment(m2)
          /\ Len(Rewrite(Rewrite(p, m1), m2)) = Len(p) + SegmentLen(m2)
\* what a reader hands back is determined (text keys: the unique code point string)
Cps == {0, 65, 127, 128, 233, 2047, 2048, 8364, 55295, 57344, 65535, 65536, 128512, 1114111}
ASSUME \A a \in Cps, b \in Cps : (Utf8(a) = Utf8(b)) <=> (a = b)
ASSUME \A a \in Cps : /\ Len(Utf8(a)) \in 1..4 /\ \A k \in 1..Len(Utf8(a)) : Utf8(a)[k] \in 0..255
                      /\ (Len(Utf8(a)) > 1 => \A k \in 2..Len(Utf8(a)) : Utf8(a)[k] \in 128..191)
ASSUME Utf8Seq(<<233, 8364, 65, 128512>>) = <<195, 169, 226, 130, 172, 65, 240, 159, 152, 128>>
ASSUME \A x \in {0, 1, 255, 256, 65535, 65536, 16777215} : UnBE32(BE32(x)) = x
ASSUME IsEnvKey(EnvWord) /\ IsEnvKey(EnvWord \o <<46, 98>>) /\ ~IsEnvKey(<<101, 110, 118>>) /\ ~IsEnvKey(<<>>)
ASSUME \A m \in LawMaps : \A i \in 1..Len(m) :
          ReadsAs([kind |-> IF IsEnvKey(m[i].key) THEN "bytes" ELSE "text",
                   units |-> IF IsEnvKey(m[i].key) THEN ValBytes(m[i]) ELSE m[i].units], m[i].key, ValBytes(m[i]))
=========================================================================
