---------------------------- MODULE BuildPhases_MC ----------------------------
(* Design-level model checking of BuildPhases: every history of up to MaxOps public operations
   (stage calls with every single injected failure, --no-auto calls, cleanup forced / unforced,
   resuming in a new process through the stamps, a new build with clean=True, finish) on one
   build directory, for each configuration of MCCfgs.

   Ghost state: life = the stages whose ebuild phase completed on the current incarnation of
   the build directory (reset when the directory is wiped), noauto = an --no-auto call happened,
   started = start() ran on the current object, last = the last operation and what it did.

   Invariants  PrefixOfPMS  the phases completed on a build directory are always a prefix of the
                            PMS sequence of the operation (order, only-after, nothing skipped that
                            is due) - as long as nobody used --no-auto;
               AtMostOnce   no phase completes twice on one incarnation of the directory, across
                            objects / processes (needs: a new object either reloads the stamps or
                            is built with clean=True; AllowDirty = TRUE is the refuted variant);
               DepClosedMem / DepClosedDisk, StampsNeedDir, MemOnDisk, CleanNeededOnceStarted,
               CleanStartLeavesNoStale, HandlingLaws, TypeOK.
   Action properties  NoRerun, OrderInCall, FailureStops, SuccessCompletes, RunsExactlyMissing,
               FetchBeforeUnpack, DoneMonotone, CleanupEffective, ResumeExact.
   Vacuity guards (driver): AllowDirty = TRUE refutes AtMostOnce, StampFailed = TRUE and
   StopOnFailure = FALSE refute PrefixOfPMS.                                                  *)
EXTENDS BuildPhases, TLC
CONSTANTS AllowDirty, MaxOps, CfgIds

C(kind, eapi, defined, features, restrict, useTest, forceTest, prefetched) ==
  [kind |-> kind, eapi |-> eapi, defined |-> defined, features |-> features, restrict |-> restrict,
   useTest |-> useTest, forceTest |-> forceTest, prefetched |-> prefetched]
MCCfgTable == <<
  C("build", 6, {"install"}, {"test", "userpriv"}, {}, TRUE, FALSE, FALSE),                  \* 1 everything runs
  C("build", 0, {}, {}, {}, FALSE, FALSE, TRUE),                                              \* 2 old EAPI, no tests, prefetched
  C("build", 4, {"compile"}, {"test", "test-fail-continue"}, {}, TRUE, FALSE, FALSE),        \* 3 failing tests tolerated
  C("install", 6, {"preinst", "postinst"}, {}, {}, FALSE, FALSE, TRUE),                       \* 4
  C("install", 4, {"postinst"}, {"selinux"}, {}, FALSE, FALSE, TRUE),                         \* 5 preinst forced
  C("uninstall", 6, {"prerm", "postrm"}, {}, {}, FALSE, FALSE, TRUE),                         \* 6
  C("replace", 6, {"preinst", "postinst", "prerm", "postrm"}, {}, {}, FALSE, FALSE, TRUE),    \* 7
  C("replace", 2, {"preinst", "postrm"}, {}, {}, FALSE, FALSE, TRUE),                         \* 8
  C("localize", 6, {"setup"}, {}, {}, FALSE, FALSE, FALSE)                                    \* 9
>>
MCCfgs == {MCCfgTable[k] : k \in CfgIds}

VARIABLES S, cfg, life, noauto, started, last, n
vars == <<S, cfg, life, noauto, started, last, n>>

NoLast == [op |-> "init", stage |-> "-", ignore |-> FALSE, force |-> FALSE, ran |-> <<>>, oks |-> <<>>, exc |-> ""]
Init == /\ cfg \in MCCfgs
        /\ S = NewSession(Blank, cfg, FALSE) /\ life = <<>> /\ noauto = FALSE /\ started = FALSE
        /\ last = NoLast /\ n = 0

\* single-fault scripts: everything succeeds except (possibly) one phase
Hows == {"false", "die", "ok_nomark"}
ScriptOf(failAt, how) == [p \in ScriptKeys |-> IF p = failAt THEN how ELSE "ok"]
\* (a fault in a phase the call cannot reach - not on the chain of the stage, or already recorded - is
\*  the same as no fault; "false" differs from "die" only where failure is tolerated or in the exception)
DoneTop == IF cfg.kind = "replace" THEN S.top ELSE S.a.done
ScriptsFor(stage) == {ScriptOf("-", "ok")}
                       \cup (IF cfg.kind = "build" /\ ~S.a.vf /\ "unpack" \notin S.a.done THEN {ScriptOf("fetch", "fail")} ELSE {})
                       \cup {ScriptOf(f[1], f[2]) : f \in {x \in ((DepsSet(cfg.kind, stage) \ DoneTop) \cap PhaseNames) \X Hows :
                                                           x[2] = "false" => x[1] \in {"test", "postrm"}}}

Leafy == cfg.kind # "replace"
\* the build directory whose incarnations `life` follows: a for the leaf kinds
Wiped(S1, S2) == Leafy /\ S1.a.dir /\ ~S2.a.dir
LifeAfter(S1, r) ==
  \* start() of a clean=True object wipes and re-creates the directory inside one call
  LET wipedInStart == Leafy /\ S1.a.cas /\ S1.a.dir /\ "start" \notin S1.a.done /\ "start" \in r.s.a.done
  IN IF Wiped(S1, r.s) THEN <<>> ELSE (IF wipedInStart THEN <<>> ELSE life) \o r.oks

DoCall(stage, ignore, script) ==
  /\ CallInDomain(S, cfg, stage, ignore)
  /\ \E r \in {Call(S, cfg, stage, ignore, script)} :   \* (bound once: TLC re-evaluates LET bodies per use)
     /\ S' = r.s
     /\ life' = LifeAfter(S, r)
     /\ noauto' = (noauto \/ ignore)
     /\ started' = (started \/ (Leafy /\ "start" \notin S.a.done /\ "start" \in r.s.a.done))
     /\ last' = [op |-> "call", stage |-> stage, ignore |-> ignore, force |-> FALSE, ran |-> r.ran, oks |-> r.oks, exc |-> r.exc]
DoCleanup(force) ==
  /\ Leafy
  /\ \E r \in {Cleanup(S, force, FALSE)} :
     /\ S' = r.s /\ life' = LifeAfter(S, r)
     /\ last' = [NoLast EXCEPT !.op = "cleanup", !.force = force]
  /\ UNCHANGED <<noauto, started>>
DoReload ==
  /\ Leafy
  /\ S' = Reload(S).s /\ last' = [NoLast EXCEPT !.op = "reload"]
  /\ UNCHANGED <<life, noauto, started>>
\* a later process: pebuild (new object, clean=False, _reload_state) ...
DoResume ==
  /\ Leafy
  /\ S' = Reload(NewSession(S, cfg, FALSE)).s /\ last' = [NoLast EXCEPT !.op = "resume"]
  /\ started' = FALSE /\ UNCHANGED <<life, noauto>>
\* ... or pmerge (new object with clean=True)
DoCleanSession ==
  /\ cfg.kind = "build"
  /\ S' = NewSession(S, cfg, TRUE) /\ last' = [NoLast EXCEPT !.op = "new"]
  /\ started' = FALSE /\ UNCHANGED <<life, noauto>>
\* refuted variant: a new object over the old directory that neither reloads nor cleans
DoDirtySession ==
  /\ AllowDirty /\ cfg.kind = "build"
  /\ S' = NewSession(S, cfg, FALSE) /\ last' = [NoLast EXCEPT !.op = "new"]
  /\ started' = FALSE /\ UNCHANGED <<life, noauto>>
DoFinish ==
  /\ cfg.kind = "uninstall"
  /\ \E r \in {Finish(S)} : S' = r.s /\ life' = LifeAfter(S, r)
  /\ last' = [NoLast EXCEPT !.op = "finish"]
  /\ UNCHANGED <<noauto, started>>

Next == /\ n < MaxOps /\ n' = n + 1 /\ cfg' = cfg
        /\ \/ \E stage \in StagesOf(cfg.kind) : \E script \in ScriptsFor(stage) : DoCall(stage, FALSE, script)
           \* --no-auto calls (pebuild objects: clean=False; a clean=True object only after its start())
           \/ \E stage \in StagesOf(cfg.kind) \ {"start", "finalize"} :
                 Leafy /\ (~S.a.cas \/ "start" \in S.a.done) /\ DoCall(stage, TRUE, ScriptOf("-", "ok"))
           \/ \E force \in BOOLEAN : DoCleanup(force)
           \/ DoReload \/ DoResume \/ DoCleanSession \/ DoDirtySession \/ DoFinish
Spec == Init /\ [][Next]_vars

(* ------------------------------------------------------------------ invariants *)
LeafOK(l) == /\ l.done \subseteq {"start", "finalize"} \cup PhaseNames
             /\ l.stamps \subseteq {"start", "finalize"} \cup PhaseNames
             /\ l.dir \in BOOLEAN /\ l.cn \in BOOLEAN /\ l.cas \in BOOLEAN /\ l.vf \in BOOLEAN /\ l.mark \in BOOLEAN
             /\ l.env \in {"absent", "pkg", "other"}
TypeOK == LeafOK(S.a) /\ LeafOK(S.b) /\ S.top \subseteq StagesOf("replace") /\ cfg \in MCCfgs

IsPrefixOf(p, s) == Len(p) <= Len(s) /\ \A k \in 1..Len(p) : p[k] = s[k]
PrefixOfPMS == ~noauto => IsPrefixOf(life, PhaseSeq(cfg))
AtMostOnce == \A i, j \in 1..Len(life) : i # j => life[i] # life[j]
LeafKindOf(w) == IF cfg.kind = "replace" THEN (IF w = "a" THEN "install" ELSE "uninstall") ELSE cfg.kind
DepClosedMem == ~noauto => /\ DepClosed(LeafKindOf("a"), S.a.done)
                           /\ (cfg.kind = "replace" => DepClosed("uninstall", S.b.done) /\ DepClosed("replace", S.top))
DepClosedDisk == ~noauto => /\ DepClosed(LeafKindOf("a"), S.a.stamps)
                            /\ (cfg.kind = "replace" => DepClosed("uninstall", S.b.stamps))
StampsNeedDir == \A l \in {S.a, S.b} : ~l.dir => l.stamps = {} /\ l.env = "absent" /\ ~l.mark
\* what the object believes it has done is on disk (while the directory lives)
MemOnDisk == \A l \in {S.a, S.b} : (l.dir /\ "start" \in l.done) => l.done \subseteq l.stamps
\* once start() ran on an object, cleanup() is effective without force - also after a failure
CleanNeededOnceStarted == started => S.a.cn
\* a clean=True build never sees stamps of an earlier build
CleanStartLeavesNoStale == (Leafy /\ S.a.cas /\ S.a.dir /\ "start" \in S.a.done) => S.a.stamps = S.a.done
\* constant level: a processor that failed never goes back to the pool alive; leaks only as named
HandlingLaws == \A out \in Outcomes, fa \in BOOLEAN :
                  LET h == Handle(out, fa) IN
                  /\ (h.exc # "" /\ h.rel) => h.shut # "no"
                  /\ (~h.rel) => out \in LeakOn
                  /\ (h.exc = "") <=> (out \in {"ok", "ok_nomark"} \/ (out = "false" /\ fa))

(* ------------------------------------------------------------------ action properties *)
DoneOf(X) == IF cfg.kind = "replace" THEN X.top ELSE X.a.done
PhasesRan(r) == SelectSeq(r.ran, LAMBDA e : e.ph # "fetch")
IsCall == last'.op = "call"
\* a completed stage is never run again by the same object
NoRerun == [][IsCall => \A k \in 1..Len(last'.ran) : last'.ran[k].ph = "fetch" \/ last'.ran[k].ph \notin DoneOf(S)]_vars
\* inside one call the phases follow the chain
OrderInCall == [][IsCall => LET p == PhasesRan(last') IN
                    \A i, j \in 1..Len(p) : i < j => Pos(cfg.kind, p[i].ph) < Pos(cfg.kind, p[j].ph)]_vars
\* a failure stops the walk: the chain of the target is not complete, what completed before the failure is recorded
FailureStops == [][(IsCall /\ last'.exc # "") =>
                     /\ ~((IF last'.ignore THEN {last'.stage} ELSE DepsSet(cfg.kind, last'.stage)) \subseteq DoneOf(S'))
                     /\ DoneOf(S) \subseteq DoneOf(S')
                     /\ \A s \in DoneOf(S') \ DoneOf(S) : Pos(cfg.kind, s) < Pos(cfg.kind, last'.stage)]_vars
SuccessCompletes == [][(IsCall /\ last'.exc = "" /\ ~last'.ignore) => DepsSet(cfg.kind, last'.stage) \subseteq DoneOf(S')]_vars
\* resume: a successful call runs exactly the phases of the stages that were not recorded
RunsExactlyMissing ==
  [][(IsCall /\ last'.exc = "" /\ ~last'.ignore) =>
       last'.oks = SelectSeq(DepsSeq(cfg.kind, last'.stage),
                             LAMBDA s : s \notin DoneOf(S) /\ PhaseOf(TopLeafKind(cfg.kind), cfg, s) # "")]_vars
FetchBeforeUnpack == [][IsCall => \A k \in 1..Len(last'.ran) : last'.ran[k].ph = "fetch" =>
                          \/ (k = Len(last'.ran) /\ last'.exc = "FetchError")
                          \/ (k < Len(last'.ran) /\ last'.ran[k + 1].ph = "unpack")]_vars
DoneMonotone == [][last'.op \in {"call", "cleanup", "finish"} => DoneOf(S) \subseteq DoneOf(S')]_vars
CleanupEffective == [][(last'.op = "cleanup" /\ (last'.force \/ S.a.cn)) => (~S'.a.dir /\ S'.a.stamps = {})]_vars
ResumeExact == [][(last'.op = "resume" /\ S.a.dir) => (S'.a.done = S.a.stamps /\ S'.a.stamps = S.a.stamps)]_vars
=============================================================================
