---------------------------- MODULE EnvTransfer_Export ----------------------------
(* spec -> code for C31.  TLC enumerates
     k = "val"  : every text of at most MaxLen characters over the value alphabet (code points:
                  letters, digit, the two quotes, backslash, dollar, backtick, blank, newline, tab,
                  a 2-byte and a 3-byte character).  The driver sends each one to the real daemon
                  as a string value and as an element of a sequence, in every mode.
     k = "word" : every shell word the two encoder designs of EnvTransfer_Quote produce for texts
                  of at most MaxWord characters and that the bash model calls literal; the driver
                  has the real bash decode them (binding of the model, clause BashModel).
     k = "sess" : every session shape of SessLen transfers through ONE processor object: how each
                  mapping carries the non-exported marker (naming variables / absent / empty) and, for
                  each, every per-variable history that fits (one variable per history).              *)
EXTENDS EnvTransfer, EnvTransfer_Quote, TLC, Json, IOUtils, SequencesExt
CONSTANTS MaxLen, MaxWord, SessLen
VAlphabet == {113, 110, 48, 39, 34, 92, 36, 96, 32, 10, 9, 233, 28450}
VTexts == UNION {[1..k -> VAlphabet] : k \in 0..MaxLen}
WTexts == UNION {[1..k -> QAlphabet] : k \in 0..MaxWord}
Words == {w \in UNION {{StrAsIs(v), StrFixed(v), ElemAsIs(v), ElemFixed(v)} : v \in WTexts} : Word(w).ok}
\* sessions: every way the SessLen mappings of a session can carry the marker, each with EVERY
\* variable history (absent / string / sequence, exported / marked, per step) that fits it
Sessions == {[k |-> "sess", cp |-> <<>>, w |-> <<>>, mk |-> mk,
              hists |-> SetToSeq({h \in [1..SessLen -> NameStates] : Fits(h, mk)})] : mk \in [1..SessLen -> MarkerKinds]}
Cases == {[k |-> "val", cp |-> v, w |-> <<>>, mk |-> <<>>, hists |-> <<>>] : v \in VTexts}
         \cup {[k |-> "word", cp |-> <<>>, w |-> w, mk |-> <<>>, hists |-> <<>>] : w \in Words}
         \cup Sessions
ASSUME ndJsonSerialize(IOEnv.OUT, SetToSeq(Cases))
=============================================================================
