---------------------------- MODULE EnvTransfer_Export ----------------------------
(* spec -> code for C31.  TLC enumerates
     k = "val"  : every text of at most MaxLen characters over the value alphabet (code points:
                  letters, digit, the two quotes, backslash, dollar, backtick, blank, newline, tab,
                  a 2-byte and a 3-byte character).  The driver sends each one to the real daemon
                  as a string value and as an element of a sequence, in every mode.
     k = "word" : every shell word the two encoder designs of EnvTransfer_Quote produce for texts
                  of at most MaxWord characters and that the bash model calls literal; the driver
                  has the real bash decode them (binding of the model, clause BashModel).        *)
EXTENDS EnvTransfer_Quote, TLC, Json, IOUtils, SequencesExt, FiniteSets
CONSTANTS MaxLen, MaxWord
VAlphabet == {113, 110, 48, 39, 34, 92, 36, 96, 32, 10, 9, 233, 28450}
VTexts == UNION {[1..k -> VAlphabet] : k \in 0..MaxLen}
WTexts == UNION {[1..k -> QAlphabet] : k \in 0..MaxWord}
Words == {w \in UNION {{StrAsIs(v), StrFixed(v), ElemAsIs(v), ElemFixed(v)} : v \in WTexts} : Word(w).ok}
Cases == {[k |-> "val", cp |-> v, w |-> <<>>] : v \in VTexts}
         \cup {[k |-> "word", cp |-> <<>>, w |-> w] : w \in Words}
ASSUME ndJsonSerialize(IOEnv.OUT, SetToSeq(Cases))
=============================================================================
