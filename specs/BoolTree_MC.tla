---------------------------- MODULE BoolTree_MC ----------------------------
(* C06 design check.  The state is a restriction tree; every step wraps the current tree
   into a new node (any kind, negated or not, alone or next to a sibling from a fixed
   pool, either order), or into a Negate wrapper.  TLC visits every tree reachable within
   MaxDepth wrappings and checks in each one, for all 2^NLeaves valuations:
     InvDNF / InvCNF : the intended expansions RefDNF / RefCNF mean what the tree means
     InvFull         : the complete signed-leaf expansion (and that of the complement) too
                       (trees of depth <= FullDepth: it is the expensive one)
     InvNegFlag      : a node's negate flag is the same as a Negate wrapper
     InvCounting     : at-most-one = none or exactly-one; exactly-one implies any-of        *)
EXTENDS BoolTree, TLC
CONSTANTS NLeaves, MaxDepth, RichSiblings, FullDepth
VARIABLE t

Ids == 1..NLeaves
PlainLeaves == {Leaf(i, FALSE) : i \in Ids}
\* RichSiblings: "basic" = a small pool, used for the first wrapping only (above it only solo wrappings);
\*               "mid"   = the small pool at every level;  "rich" = the large pool at every level
SmallPool == PlainLeaves \cup {Not(Leaf(1, FALSE)), Node("or", TRUE, <<Leaf(1, FALSE), Leaf(2, FALSE)>>)}
LargePool == PlainLeaves \cup {Leaf(i, TRUE) : i \in Ids} \cup {Not(x) : x \in PlainLeaves}
             \cup {Node(kd, n, <<Leaf(1, FALSE), Leaf(2, FALSE)>>) : kd \in Kinds, n \in BOOLEAN}
Siblings == CASE RichSiblings = "rich" -> LargePool
              [] RichSiblings = "mid" -> SmallPool
              [] OTHER -> IF Depth(t) >= 1 THEN {} ELSE SmallPool

Init == t \in PlainLeaves \cup {Leaf(i, TRUE) : i \in Ids}
Wrap == /\ Depth(t) < MaxDepth
        /\ \/ t' = Not(t)
           \/ \E kd \in Kinds, n \in BOOLEAN :
                \/ t' = Node(kd, n, <<t>>)
                \/ \E s \in Siblings : t' \in {Node(kd, n, <<t, s>>), Node(kd, n, <<s, t>>)}
Next == Wrap
Spec == Init /\ [][Next]_t

Vals == SUBSET Ids
InvWellFormed == WellFormed(t) /\ LeafIds(t) \subseteq Ids
InvDNF  == \A v \in Vals : EvalDNF(RefDNF(t), v) = Eval(t, v)
InvCNF  == \A v \in Vals : EvalCNF(RefCNF(t), v) = Eval(t, v)
InvFull == Depth(t) <= FullDepth => \A v \in Vals : /\ EvalLits(FullDNF(t, TRUE), v) = Eval(t, v)
                           /\ EvalLits(FullDNF(t, FALSE), v) = ~Eval(t, v)
InvNegFlag == t.k \in Kinds => \A v \in Vals : Eval([t EXCEPT !.neg = ~@], v) = Eval(Not(t), v)
InvCounting == t.k \in Kinds =>
    \A v \in Vals :
       LET as(kd) == Eval(Node(kd, FALSE, t.ch), v) IN
       /\ as("amo") = (as("one") \/ ~as("or"))
       /\ as("one") => as("or")
       /\ (Len(t.ch) = 1) => (as("and") = as("or") /\ as("one") = as("or") /\ as("amo"))
       /\ as("and") => (as("or") /\ (Len(t.ch) >= 2 => ~as("one")))
=========================================================================
