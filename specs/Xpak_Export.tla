---------------------------- MODULE Xpak_Export ----------------------------
(* spec -> code: every (prefix, initial segment or none, history of up to MaxHist rewrites) over
   the universe.  The INITIAL FILE is produced by the specification (prefix \o Segment(init)):
   the real reader / rewriter has to find and replace a segment it did not write itself.   *)
EXTENDS Xpak_Laws, Json, IOUtils   \* the laws are (re)checked in the same TLC run
MaxHist == 3
Hists == UNION {[1..k -> 1..Len(MCMaps)] : k \in 1..MaxHist}
Cases == {[file  |-> IF i = 0 THEN MCPrefixes[p] ELSE MCPrefixes[p] \o Segment(MCMaps[i]),
           hasinit |-> i # 0,
           init  |-> IF i = 0 THEN <<>> ELSE MCMaps[i],
           hist  |-> [k \in DOMAIN h |-> MCMaps[h[k]]]]
          : <<p, i, h>> \in (1..Len(MCPrefixes)) \X (0..Len(MCMaps)) \X Hists}
ASSUME ndJsonSerialize(IOEnv.OUT, SetToSeq(Cases))
=========================================================================
