---------------------------- MODULE Glsa ----------------------------
(* C45: which packages a Gentoo security advisory (GLSA) flags (src/pkgcore/pkgsets/glsa.py).

   <package name=N arch=A>  <vulnerable range=OP slot=S>VER[*]</vulnerable> ...
                            <unaffected range=OP slot=S>VER[*]</unaffected> ...   </package>

   entry   = [name, arches : set (empty or containing "*" = every arch), vuln, unaff : Seq(range)]
   range   = [op \in RangeOps, ver : version record (GlsaVer), glob : BOOLEAN, slot : "" (none) or a slot]
   package = [name, ver : version record, slot, keywords : set]

   A package is affected  <=>  same name  /\  arch  /\  some vulnerable range holds  /\  no unaffected range holds.
   Three-valued ("T" / "F" / "U"): where the GLSA format / property leaves a case open the answer is "U"
   and such packages are not judged.                                                               *)
EXTENDS GlsaVer

RangeOps == {"lt", "le", "eq", "ge", "gt", "rlt", "rle", "rge", "rgt"}
IsROp(op) == op \in {"rlt", "rle", "rge", "rgt"}
BaseOp(op) == CASE op = "rlt" -> "lt" [] op = "rle" -> "le" [] op = "rge" -> "ge" [] op = "rgt" -> "gt" [] OTHER -> op
CmpHolds(op, c) == CASE op = "lt" -> c < 0 [] op = "le" -> c <= 0 [] op = "eq" -> c = 0 [] op = "ge" -> c >= 0 [] op = "gt" -> c > 0

(* ---- Kleene connectives ---- *)
B(x) == IF x THEN "T" ELSE "F"
KNot(x) == CASE x = "T" -> "F" [] x = "F" -> "T" [] OTHER -> "U"
KAnd(S) == IF "F" \in S THEN "F" ELSE IF "U" \in S THEN "U" ELSE "T"
KOr(S)  == IF "T" \in S THEN "T" ELSE IF "U" \in S THEN "U" ELSE "F"

(* ---- "eq" range ending in "*": the written version is a prefix of the package version on a
        component boundary.  Definite match: textual prefix followed by the end or one of . _ - ;
        definite non-match: not a textual prefix; a prefix that ends inside a digit run or before
        a letter is left open (the repository's tests pin "1*" matching "10").                    *)
GlobPrefix(pt, bt) == IF ~StartsWith(pt, bt) THEN "F"
                      ELSE IF Len(pt) = Len(bt) \/ pt[Len(bt) + 1] \in {".", "_", "-"} THEN "T" ELSE "U"

(* ---- one range ---- *)
\* carve-outs: rlt of revision 0 is "a guaranteed empty set" the code refuses (with the whole entry);
\* slot="*"; a glob on anything but eq; versions with a second spelling
RangeSpecified(r) == /\ r.op \in RangeOps /\ PlainVer(r.ver) /\ r.slot # "*"
                     /\ (r.glob => r.op = "eq")
                     /\ ~(r.op = "rlt" /\ r.ver.rev = <<>>)
VersionInRange(p, r) ==
    IF r.glob THEN GlobPrefix(RenderVer(p.ver), RenderVer(r.ver))
    ELSE IF IsROp(r.op) THEN B(VerCmpNoRev(p.ver, r.ver) = 0 /\ CmpHolds(BaseOp(r.op), RevCmp(p.ver, r.ver)))
    ELSE B(CmpHolds(r.op, VerCmp(p.ver, r.ver)))
SlotInRange(p, r) == r.slot = "" \/ r.slot = p.slot
InRange(p, r) == KAnd({B(SlotInRange(p, r)), VersionInRange(p, r)})

(* ---- one advisory entry ---- *)
EntrySpecified(e) == /\ \A k \in DOMAIN e.vuln : RangeSpecified(e.vuln[k])
                     /\ \A k \in DOMAIN e.unaff : RangeSpecified(e.unaff[k])
ArchOK(p, e) == e.arches = {} \/ "*" \in e.arches \/ p.keywords \cap e.arches # {}
AnyRange(p, rs) == KOr({InRange(p, rs[k]) : k \in DOMAIN rs})
\* (AffectedS: for a specified entry and a single-spelling package version)
AffectedS(p, e) == IF p.name # e.name \/ ~ArchOK(p, e) THEN "F"
                   ELSE KAnd({AnyRange(p, e.vuln), KNot(AnyRange(p, e.unaff))})
Affected(p, e) == IF ~EntrySpecified(e) \/ ~PlainVer(p.ver) THEN "U" ELSE AffectedS(p, e)

\* why a package the spec says is NOT affected is not: the most specific reason (clause names)
WhyNot(p, e) == IF p.name # e.name THEN "name"
                ELSE IF ~ArchOK(p, e) THEN "arch"
                ELSE IF AnyRange(p, e.unaff) = "T" THEN "unaffected"
                ELSE IF \E k \in DOMAIN e.vuln : VersionInRange(p, e.vuln[k]) = "T" THEN "slot"
                ELSE "version"

(* ---- set-algebra formulation over a package pool (independent of the pointwise one; used by Glsa_MC) ---- *)
RangeSet(pool, r, val) == {p \in pool : InRange(p, r) = val}
DefinitelyAffected(pool, e) ==
    LET uF == [k \in DOMAIN e.unaff |-> RangeSet(pool, e.unaff[k], "F")] IN
    {p \in pool : p.name = e.name /\ ArchOK(p, e)}
    \cap UNION {RangeSet(pool, e.vuln[k], "T") : k \in DOMAIN e.vuln}
    \cap {p \in pool : \A k \in DOMAIN e.unaff : p \in uF[k]}
DefinitelyNotAffected(pool, e) ==
    LET vF == [k \in DOMAIN e.vuln |-> RangeSet(pool, e.vuln[k], "F")] IN
    {p \in pool : p.name # e.name \/ ~ArchOK(p, e)}
    \cup {p \in pool : \A k \in DOMAIN e.vuln : p \in vF[k]}
    \cup UNION {RangeSet(pool, e.unaff[k], "T") : k \in DOMAIN e.unaff}
=========================================================================
