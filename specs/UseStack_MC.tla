---------------------------- MODULE UseStack_MC ----------------------------
(* Refinement check: two stack objects A and B driven through add_bare_global / add /
   update_from_stream / merge / optimize, each next to the abstract log of what it was given.
   Invariant: every package renders, from the mechanism, to the fold of the log.              *)
EXTENDS UseStack_Mech
CONSTANTS NA, NB, MCScopes
VARIABLES A, la, B, lb
vars == <<A, la, B, lb>>

MCFlags == {"x", "p_a"}
MCChunks == {[neg |-> {}, pos |-> {"x"}], [neg |-> {"x"}, pos |-> {}], [neg |-> {}, pos |-> {"p_a"}],
             [neg |-> {"*"}, pos |-> {}], [neg |-> {"p_*"}, pos |-> {}], [neg |-> {"*"}, pos |-> {"x"}]}
Entries == {Entry(sc, c.neg, c.pos) : sc \in MCScopes, c \in MCChunks}

Init == A = EmptyM /\ la = <<>> /\ B = EmptyM /\ lb = <<>>
AddA(e) == A' = MAdd(A, e) /\ la' = Append(la, e) /\ UNCHANGED <<B, lb>>
\* B (the stack that gets merged in) is built first: interleaving its construction with A's adds nothing
AddB(e) == la = <<>> /\ B' = MAdd(B, e) /\ lb' = Append(lb, e) /\ UNCHANGED <<A, la>>
MergeAB == lb # <<>> /\ A' = MMerge(A, B) /\ la' = Merge(la, lb) /\ UNCHANGED <<B, lb>>
OptA    == A' = MOptimize(A) /\ UNCHANGED <<la, B, lb>>
OptB    == la = <<>> /\ B' = MOptimize(B) /\ UNCHANGED <<A, la, lb>>
Next == (\E e \in Entries : AddA(e) \/ AddB(e)) \/ MergeAB \/ OptA \/ OptB
Spec == Init /\ [][Next]_vars
Bound == Len(la) <= NA /\ Len(lb) <= NB

Refines(m, log) == \A p \in Pkgs : \A pre \in SUBSET MCFlags : MRender(m, p, pre) = Render(log, p, pre)
InvA == Refines(A, la)
InvB == Refines(B, lb)
\* every key list holds every global that was ever added (what makes seeding + appending enough)
InvKeys == A.keys = {KeyOfScope[la[k].sc] : k \in DOMAIN la} \ {"-"}
=========================================================================
