---------------------------- MODULE EclassAccum_Export ----------------------------
(* spec -> code: TLC enumerates a bounded family of programs; drivers/c49_eclassaccum.py renders
   each to real ebuild/eclass files and regenerates the metadata through the real daemon.
   Family: one variable v under test; the ebuild is  [pre] inherit a [b] [post]  (assignment /
   append / unset before and after the inherit), eclass a has up to MaxA statements (own
   assignments, nested `inherit b`, EXPORT_FUNCTIONS), eclass b up to MaxB.
   For v = RDEPEND the ebuild also sets DEPEND (EAPI 0-3 default rule).                       *)
EXTENDS EclassAccum, TLC, Json, IOUtils, SequencesExt, Randomization
CONSTANTS XVars, XEapis, MaxA, MaxB,
          NSample     \* 0: the whole family; n > 0: a random subset of n cases (TLC -seed)

SeqsUpTo(S, n) == UNION {[1..k -> S] : k \in 0..n}
Pre(v)   == {<<>>, <<SetS(v, <<"e1">>)>>, <<AppS(v, <<"e2">>)>>, <<UnsetS(v)>>, <<PhaseS("src_prepare")>>}
Post(v)  == {<<>>, <<SetS(v, <<"e3">>)>>, <<AppS(v, <<"e4">>)>>, <<UnsetS(v)>>, <<PhaseS("pkg_pretend")>>}
Inh      == {<<InheritS(<<"a">>)>>, <<InheritS(<<"a", "b">>)>>, <<InheritS(<<"b", "a">>)>>}
Fixed(v) == IF v = "RDEPEND" THEN <<SetS("DEPEND", <<"d0">>)>> ELSE <<>>
AStmts(v) == {SetS(v, <<"a1">>), AppS(v, <<"a2">>), UnsetS(v), InheritS(<<"b">>), ExportS("src_compile")}
BStmts(v) == {SetS(v, <<"b1", "b9">>), AppS(v, <<"b2">>), UnsetS(v), PhaseS("src_frobnicate")}
Progs(v) == {[eb |-> Fixed(v) \o pre \o inh \o post, ecl |-> [n \in {"a", "b"} |-> IF n = "a" THEN a ELSE b]] :
                pre \in Pre(v), inh \in Inh, post \in Post(v),
                a \in SeqsUpTo(AStmts(v), MaxA), b \in SeqsUpTo(BStmts(v), MaxB)}
\* (parameterised: TLC evaluates zero-arity definitions eagerly)
Cases(vs, es) == UNION {{[eapi |-> e, var |-> v, prog |-> p] : p \in Progs(v)} : <<v, e>> \in vs \X es}
\* one random member of the family (TLC -seed makes the choice reproducible)
Pick(k) == LET v == RandomElement(XVars)  e == RandomElement(XEapis) IN
           [eapi |-> e, var |-> v,
            prog |-> [eb |-> Fixed(v) \o RandomElement(Pre(v)) \o RandomElement(Inh) \o RandomElement(Post(v)),
                      ecl |-> [n \in {"a", "b"} |-> IF n = "a" THEN RandomElement(SeqsUpTo(AStmts(v), MaxA))
                                                     ELSE RandomElement(SeqsUpTo(BStmts(v), MaxB))]]]
Chosen(n) == IF n = 0 THEN Cases(XVars, XEapis) ELSE {Pick(k) : k \in 1..n}
ASSUME LET cs == Chosen(NSample) IN (\A c \in cs : WellFormed(c.prog)) /\ ndJsonSerialize(IOEnv.OUT, SetToSeq(cs))
=============================================================================
