---------------------------- MODULE EclassAccum_Export ----------------------------
(* spec -> code: TLC enumerates a bounded family of programs; drivers/c49_eclassaccum.py renders
   each to real ebuild/eclass files and regenerates the metadata through the real daemon.
   Family: one variable v under test; the ebuild is  [pre] inherit a [b] [post]  (assignment /
   append / unset before and after the inherit), eclass a has up to MaxA statements (own
   assignments, nested `inherit b`, EXPORT_FUNCTIONS), eclass b up to MaxB.
   For v = RDEPEND the ebuild also sets DEPEND (EAPI 0-3 default rule).                       *)
EXTENDS EclassAccum, TLC, Json, IOUtils, SequencesExt, Randomization
CONSTANTS XVars, XEapis, MaxA, MaxB,
          NSample     \* 0: the whole family; n > 0: a random subset of n cases (TLC -seed)

SeqsUpTo(S, n) == UNION {[1..k -> S] : k \in 0..n}
Pre(v)   == {<<>>, <<SetS(v, <<"e1">>)>>, <<AppS(v, <<"e2">>)>>, <<UnsetS(v)>>, <<PhaseS("src_prepare")>>}
Post(v)  == {<<>>, <<SetS(v, <<"e3">>)>>, <<AppS(v, <<"e4">>)>>, <<UnsetS(v)>>, <<PhaseS("pkg_pretend")>>}
Inh      == {<<InheritS(<<"a">>)>>, <<InheritS(<<"a", "b">>)>>, <<InheritS(<<"b", "a">>)>>}
Fixed(v) == IF v = "RDEPEND" THEN <<SetS("DEPEND", <<"d0">>)>> ELSE <<>>
AStmts(v) == {SetS(v, <<"a1">>), AppS(v, <<"a2">>), UnsetS(v), InheritS(<<"b">>), ExportS("src_compile")}
BStmts(v) == {SetS(v, <<"b1", "b9">>), AppS(v, <<"b2">>), UnsetS(v), PhaseS("src_frobnicate")}
Progs(v) == {[eb |-> Fixed(v) \o pre \o inh \o post, ecl |-> [n \in {"a", "b"} |-> IF n = "a" THEN a ELSE b]] :
                pre \in Pre(v), inh \in Inh, post \in Post(v),
                a \in SeqsUpTo(AStmts(v), MaxA), b \in SeqsUpTo(BStmts(v), MaxB)}
\* (parameterised: TLC evaluates zero-arity definitions eagerly)
Cases(vs, es) == UNION {{[eapi |-> e, var |-> v, prog |-> p] : p \in Progs(v)} : <<v, e>> \in vs \X es}
\* one random member of the family (TLC -seed makes the choice reproducible)
Pick(k) == LET v == RandomElement(XVars)  e == RandomElement(XEapis) IN
           [eapi |-> e, var |-> v,
            prog |-> [eb |-> Fixed(v) \o RandomElement(Pre(v)) \o RandomElement(Inh) \o RandomElement(Post(v)),
                      ecl |-> [n \in {"a", "b"} |-> IF n = "a" THEN RandomElement(SeqsUpTo(AStmts(v), MaxA))
                                                     ELSE RandomElement(SeqsUpTo(BStmts(v), MaxB))]]]
\* the EAPI boundaries of the property, completely: key classes that switch (RDEPEND default <= 3,
\* REQUIRED_USE >= 4, BDEPEND >= 7, IDEPEND / PROPERTIES / RESTRICT accumulation >= 8) and phase sets
Ecl(a, b) == [n \in {"a", "b"} |-> IF n = "a" THEN a ELSE b]
Chain(v) == [eb |-> <<SetS(v, <<"e1">>), InheritS(<<"a">>), AppS(v, <<"e4">>)>>,
             ecl |-> Ecl(<<SetS(v, <<"a1">>), InheritS(<<"b">>), AppS(v, <<"a2">>)>>, <<SetS(v, <<"b1", "b9">>)>>)]
Boundary ==
       {[eapi |-> e, var |-> "RDEPEND",
         prog |-> [eb |-> <<SetS("DEPEND", <<"d0">>), InheritS(<<"a">>)>>,
                   ecl |-> Ecl(<<SetS("RDEPEND", <<"a1">>), SetS("DEPEND", <<"a3">>)>>, <<>>)]] : e \in {3, 4}}
  \cup {[eapi |-> e, var |-> "RDEPEND",
         prog |-> [eb |-> <<SetS("DEPEND", <<"d0">>), SetS("RDEPEND", <<>>), InheritS(<<"a">>)>>,
                   ecl |-> Ecl(<<SetS("DEPEND", <<"a3">>)>>, <<>>)]] : e \in {0, 3}}
  \cup {[eapi |-> e, var |-> v, prog |-> Chain(v)] : <<v, e>> \in {"RESTRICT", "PROPERTIES", "IDEPEND"} \X {7, 8}}
  \cup {[eapi |-> e, var |-> "BDEPEND", prog |-> Chain("BDEPEND")] : e \in {6, 7}}
  \cup {[eapi |-> e, var |-> "REQUIRED_USE", prog |-> Chain("REQUIRED_USE")] : e \in {3, 4}}
  \cup {[eapi |-> e, var |-> "IUSE",
         prog |-> [eb |-> <<PhaseS("src_prepare"), PhaseS("pkg_pretend"), InheritS(<<"a">>), PhaseS("src_frobnicate")>>,
                   ecl |-> Ecl(<<ExportS("src_configure"), InheritS(<<"b">>)>>, <<PhaseS("pkg_setup")>>)]] : e \in {1, 2, 3, 4}}
  \cup {[eapi |-> e, var |-> "IUSE",
         prog |-> [eb |-> <<InheritS(<<"a">>), PhaseS("src_frobnicate")>>, ecl |-> Ecl(<<PhaseS("pkg_pretend")>>, <<>>)]] : e \in {3, 4}}
Tag(cs, t) == {[tag |-> t, eapi |-> c.eapi, var |-> c.var, prog |-> c.prog] : c \in cs}
\* NSample = 0: the whole family; n > 0: the boundary cases and n random members
Chosen(n) == IF n = 0 THEN Tag(Cases(XVars, XEapis), "family")
             ELSE Tag(Boundary, "boundary") \cup Tag({Pick(k) : k \in 1..n}, "pick")
ASSUME LET cs == Chosen(NSample) IN (\A c \in cs : WellFormed(c.prog)) /\ ndJsonSerialize(IOEnv.OUT, SetToSeq(cs))
=============================================================================
