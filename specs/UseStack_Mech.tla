---------------------------- MODULE UseStack_Mech ----------------------------
(* The MECHANISM of misc.ChunkedDataDict, modelled to explore the design (it is never compared
   with the implementation's internals: conformance is judged on renders only).

   A stack object is  [g: the collapsed list of global chunks (_global_settings),
                       keys: the package keys that have a list, d: key -> list of chunks (_dict)].
   A new key list is seeded with the current globals, every later global is appended to every
   key list, and a package is rendered from its key list (or from g when its key has none).
   Collapse transcribes _build_cp_atom_payload; three switches select the legacy algorithm or
   the repaired one:
     FixBarrier : nothing is moved across an entry that negates a wildcard ( -* or -p_* )
     FixTouched : a package-specific flag is only dropped as "same as the global value" when no
                  earlier package-specific entry touched that flag
     FixCatchup : update_from_stream no longer re-appends "globals not found in the key list"
                  (after collapsing, the globals are never found there, so the whole collapsed
                  global chunk was replayed AFTER the package's own entries)                  *)
EXTENDS UseStack
CONSTANTS FixBarrier, FixTouched, FixCatchup

Keys == {"a", "b", "c"}
SimpleOf == [a |-> "any_a", b |-> "any_b", c |-> "any_c"]
GlobWide == {"glob"}                                   \* key == AlwaysTrue
KeyWide(k) == {"glob", SimpleOf[k]}                    \* ... or key.is_simple (cat/pkg without version)

HasWildNeg(e) == e.neg \cap Wild # {}
MaxOf(S) == CHOOSE m \in S : \A j \in S : j <= m
Rev(s) == [k \in 1..Len(s) |-> s[Len(s) + 1 - k]]

\* first pass, right to left: flags fixed by a later wide entry are locked (lf: off, lt: on);
\* what a narrower entry says about a locked flag is dropped
Pass1(seq, wide) ==
    LET f[k \in 0..Len(seq)] ==
          IF k = 0 THEN [lf |-> {}, lt |-> {}, l |-> <<>>]
          ELSE LET st == f[k - 1]
                   e  == seq[Len(seq) + 1 - k]
                   locked == st.lf \cup st.lt
               IN IF e.sc \in wide
                  THEN [st EXCEPT !.lf = @ \cup (e.neg \ locked), !.lt = @ \cup (e.pos \ (locked \cup e.neg))]
                  ELSE LET ng == e.neg \ locked
                           ps == e.pos \ locked
                       IN IF ng \cup ps = {} THEN st
                          ELSE [st EXCEPT !.l = Append(@, [e EXCEPT !.neg = ng, !.pos = ps])]
    IN f[Len(seq)]

\* second pass, left to right over the surviving narrow entries: "only grab the deltas"
Pass2(spec, lf, lt) ==
    LET f[k \in 0..Len(spec)] ==
          IF k = 0 THEN [out |-> <<>>, touched |-> {}]
          ELSE LET st == f[k - 1]
                   e  == spec[k]
                   keep == IF FixTouched THEN st.touched ELSE {}
                   ng == {x \in e.neg : x \in keep \/ x \notin lf}
                   ps == {x \in e.pos : x \in keep \/ x \notin lt}
               IN IF ng \cup ps = {} THEN st
                  ELSE [out |-> Append(st.out, [e EXCEPT !.neg = ng, !.pos = ps]), touched |-> st.touched \cup ng \cup ps]
    IN f[Len(spec)].out

CollapseCore(seq, wide, rsc) ==
    LET st == Pass1(seq, wide)
        spec == Rev(st.l)
    IN IF st.lf \cup st.lt = {} THEN spec
       ELSE <<Entry(rsc, st.lf, st.lt)>> \o Pass2(spec, st.lf, st.lt)

RECURSIVE Collapse(_, _, _)
Collapse(seq, wide, rsc) ==
    IF Len(seq) <= 1 THEN seq
    ELSE LET ws == {k \in DOMAIN seq : HasWildNeg(seq[k])} IN
         IF FixBarrier /\ ws # {}
         THEN SubSeq(seq, 1, MaxOf(ws)) \o Collapse(SubSeq(seq, MaxOf(ws) + 1, Len(seq)), wide, rsc)
         ELSE CollapseCore(seq, wide, rsc)

(* ------------------------------- the stack object ------------------------------- *)
EmptyM == [g |-> <<>>, keys |-> {}, d |-> [k \in Keys |-> <<>>]]
InSeq(x, s) == \E k \in DOMAIN s : s[k] = x

\* add_bare_global / add_global: appended to every key list; the globals are re-collapsed when
\* the new chunk applies to everything
MAddGlobal(m, e) ==
    IF e.neg = {} /\ e.pos = {} THEN m
    ELSE [m EXCEPT !.d = [k \in Keys |-> IF k \in m.keys THEN Append(m.d[k], e) ELSE <<>>],
                   !.g = IF e.sc = "glob" THEN Collapse(Append(m.g, e), GlobWide, "glob") ELSE Append(m.g, e)]

\* update_from_stream of an atom entry
MAddKeyed(m, e) ==
    LET k == KeyOfScope[e.sc]
        base == IF k \in m.keys THEN m.d[k] ELSE m.g
        missing == IF FixCatchup THEN <<>> ELSE SelectSeq(m.g, LAMBDA x : ~InSeq(x, base))
    IN [m EXCEPT !.keys = @ \cup {k}, !.d[k] = Append(base \o missing, e)]

MAdd(m, e) == IF KeyOfScope[e.sc] = "-" THEN MAddGlobal(m, e) ELSE MAddKeyed(m, e)

MMerge(m, o) ==
    LET d1 == [k \in Keys |-> IF k \in o.keys THEN (IF k \in m.keys THEN m.d[k] ELSE m.g) \o o.d[k]
                              ELSE IF k \in m.keys THEN m.d[k] \o o.g ELSE <<>>]
        g1 == m.g \o o.g
    IN [g |-> IF o.g = <<>> THEN m.g ELSE IF o.g[1].sc = "glob" THEN Collapse(g1, GlobWide, "glob") ELSE g1,
        keys |-> m.keys \cup o.keys, d |-> d1]

MOptimize(m) == [m EXCEPT !.g = Collapse(m.g, GlobWide, "glob"),
                          !.d = [k \in Keys |-> IF k \in m.keys THEN Collapse(m.d[k], KeyWide(k), SimpleOf[k]) ELSE <<>>]]

MRender(m, p, pre) ==
    LET k == KeyOfPkg[p]
        items == IF k \in m.keys THEN m.d[k] ELSE m.g
    IN ChunkFold(Applicable(items, p), pre, Covers)
=========================================================================
