---------------------------- MODULE WorldFile_MC ----------------------------
(* Design check for C30.  The world set lives in memory (mem) and in the file (disk); every
   update_worldset() call modifies mem and then flushes; a flush replaces the file in one atomic
   step (the protocol that achieves this is model-checked over FsModel in AtomicFile_MC), a crash
   during a flush keeps the previous file.

   Variant "exact"    : the update records Target(request).
   Variant "charwise" : the update walks the slot string character by character (what the
                        unpatched WorldFile._modify does); TLC must reject it.                *)
EXTENDS WorldFile_Cases, TLC
CONSTANTS Variant, SlotChars, InitialEntries

Ops == {Req(cs, rm) : cs \in SlotChars, rm \in BOOLEAN}
Initial == SUBSET InitialEntries

VARIABLES mem, disk, flushing, refused
vars == <<mem, disk, flushing, refused>>

\* entries the implementation touches for a request, in order
ImplTargets(op) == IF Variant = "exact" THEN <<Target(op)>>
                   ELSE IF op.cs = <<>> THEN <<op.key>>
                   ELSE [k \in DOMAIN op.cs |-> IF op.cs[k] = "0" THEN op.key ELSE op.key \o ":" \o op.cs[k]]

\* set.remove one after the other; the first missing one raises KeyError and stops
RECURSIVE RemoveSeq(_, _)
RemoveSeq(W, ts) == IF ts = <<>> THEN [w |-> W, refused |-> FALSE]
                    ELSE IF Head(ts) \notin W THEN [w |-> W, refused |-> TRUE]
                    ELSE RemoveSeq(W \ {Head(ts)}, Tail(ts))

Init == mem \in Initial /\ disk = mem /\ flushing = FALSE /\ refused = FALSE

Update(op) ==
  /\ ~flushing
  /\ LET ts == ImplTargets(op)
         r  == IF op.remove THEN RemoveSeq(mem, ts) ELSE [w |-> mem \cup {ts[k] : k \in DOMAIN ts}, refused |-> FALSE]
     IN /\ mem' = r.w /\ refused' = r.refused
        /\ flushing' = ~r.refused          \* update_worldset skips the flush after a KeyError
  /\ UNCHANGED disk
Commit == flushing /\ disk' = mem /\ flushing' = FALSE /\ UNCHANGED <<mem, refused>>
Crash  == flushing /\ flushing' = FALSE /\ UNCHANGED <<mem, disk, refused>>   \* power cut: old file stays
Next == (\E op \in Ops : Update(op)) \/ Commit \/ Crash
Spec == Init /\ [][Next]_vars

\* ---- the property, on every update step ----
UpdateExact == [][\A op \in Ops : Update(op) =>
                    /\ RefusalOk(mem, op, refused')
                    /\ OthersIntact(mem, mem', op)
                    /\ (~refused' => Recorded(mem', op))
                    /\ mem' = Apply(mem, op).w]_vars
\* ---- persistence: a flush installs exactly the memory set, nothing else ever changes the file ----
FlushInstallsMem == [][disk' # disk => (flushing /\ disk' = mem)]_vars
=========================================================================
