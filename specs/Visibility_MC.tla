---------------------------- MODULE Visibility_MC ----------------------------
(* A configuration under edit: masks / unmasks (repository, two profile nodes, user), keyword and
   licence tokens and per-package entries are added one at a time to a fixed small repository.
   TLC checks, in every reachable configuration, the laws that make Visible a sound reading of
   the property, and, on every edit, the monotonicity laws (action properties).
   The same machine, run with -simulate, chooses the configurations that are replayed into a
   real domain (spec -> code).                                                                  *)
EXTENDS Visibility, FiniteSets
CONSTANTS N,          \* number of edits explored
          MCScopes,   \* scope names edits may use
          Rich,       \* TRUE: the larger token alphabets (simulation)
          Ks          \* which of the two profile nodes edits may touch
VARIABLES cfg, n, pend
vars == <<cfg, n, pend>>

L(x)    == [k |-> "lic", name |-> x, kids |-> <<>>]
AllOf(ks) == [k |-> "all", name |-> "", kids |-> ks]
AnyOf(ks) == [k |-> "any", name |-> "", kids |-> ks]
T(neg, kind, name) == Tok(neg, kind, name)
M(ref, name) == [ref |-> ref, name |-> name]

MCPkgs == [a1 |-> [kws |-> {"amd64"},           lic |-> AllOf(<<L("l1")>>)],
           a2 |-> [kws |-> {"~amd64"},          lic |-> AllOf(<<AnyOf(<<L("l1"), AllOf(<<L("l2"), L("l3")>>)>>)>>)],
           b1 |-> [kws |-> {"~x86", "-amd64"},  lic |-> AllOf(<<L("l2"), L("l1")>>)],
           c1 |-> [kws |-> {},                  lic |-> AllOf(<<>>)]]
\* three levels of nesting: g -> h -> k
MCDefs == [g |-> {M(FALSE, "l1"), M(TRUE, "h")}, h |-> {M(TRUE, "k")}, k |-> {M(FALSE, "l2")}]

Node0 == [parents |-> <<>>, akw |-> <<>>, alic |-> <<>>, mask |-> [neg |-> {}, pos |-> {}], unmask |-> [neg |-> {}, pos |-> {}], pakw |-> <<>>]
Cfg0 == [arch |-> "amd64", nodes |-> <<Node0, [Node0 EXCEPT !.parents = <<1>>]>>,
         conf |-> [akw |-> <<>>, alic |-> <<T(FALSE, "group", "g")>>],
         user |-> [mask |-> {}, unmask |-> {}, pakw |-> <<>>, plic |-> <<>>],
         repo |-> [masks |-> {}, defs |-> MCDefs],
         pkgs |-> MCPkgs]

KwToks  == {T(FALSE, "flag", "~amd64"), T(TRUE, "flag", "~amd64"), T(FALSE, "flag", "~x86")}
           \cup (IF Rich THEN {T(FALSE, "flag", "x86"), T(TRUE, "star", ""), T(FALSE, "flag", "amd64"), T(TRUE, "flag", "x86")} ELSE {})
EntryKw == {<<>>, <<T(FALSE, "flag", "~amd64")>>, <<T(FALSE, "flag", "**")>>, <<T(FALSE, "star", "")>>, <<T(FALSE, "flag", "~*")>>}
           \cup (IF Rich THEN {<<T(FALSE, "flag", "~x86")>>, <<T(FALSE, "flag", "x86"), T(FALSE, "flag", "~x86")>>} ELSE {})
LicToks == {T(FALSE, "flag", "l2"), T(TRUE, "flag", "l1"), T(TRUE, "group", "g"), T(FALSE, "star", ""), T(TRUE, "star", "")}
           \cup (IF Rich THEN {T(FALSE, "flag", "l1"), T(FALSE, "flag", "l3"), T(TRUE, "flag", "l2"), T(FALSE, "group", "g"),
                               T(FALSE, "group", "h"), T(TRUE, "group", "h"), T(FALSE, "group", "nowhere")} ELSE {})

\* profile files and the repository's mask list hold atoms only
AtomScopes == MCScopes \ {"glob", "cat_cat", "cat_dog"}
Edit(c) == cfg' = c /\ n' = n + 1
Free(np, sc) == sc \notin np.neg \cup np.pos
Do(kind) ==
  CASE kind = "usermask"   -> \E sc \in MCScopes : sc \notin cfg.user.mask /\ Edit([cfg EXCEPT !.user.mask = @ \cup {sc}])
    [] kind = "userunmask" -> \E sc \in MCScopes : sc \notin cfg.user.unmask /\ Edit([cfg EXCEPT !.user.unmask = @ \cup {sc}])
    [] kind = "repomask"   -> \E sc \in AtomScopes : sc \notin cfg.repo.masks /\ Edit([cfg EXCEPT !.repo.masks = @ \cup {sc}])
    [] kind = "nodemask"   -> \E k \in Ks, sc \in AtomScopes, neg \in BOOLEAN : Free(cfg.nodes[k].mask, sc) /\
                                 Edit(IF neg THEN [cfg EXCEPT !.nodes[k].mask.neg = @ \cup {sc}]
                                             ELSE [cfg EXCEPT !.nodes[k].mask.pos = @ \cup {sc}])
    [] kind = "nodeunmask" -> \E k \in Ks, sc \in AtomScopes, neg \in BOOLEAN : Free(cfg.nodes[k].unmask, sc) /\
                                 Edit(IF neg THEN [cfg EXCEPT !.nodes[k].unmask.neg = @ \cup {sc}]
                                             ELSE [cfg EXCEPT !.nodes[k].unmask.pos = @ \cup {sc}])
    [] kind = "confkw"     -> \E t \in KwToks : Edit([cfg EXCEPT !.conf.akw = Append(@, t)])
    [] kind = "nodekw"     -> \E k \in Ks, t \in KwToks : Edit([cfg EXCEPT !.nodes[k].akw = Append(@, t)])
    [] kind = "userpakw"   -> \E sc \in MCScopes, ts \in EntryKw : Edit([cfg EXCEPT !.user.pakw = Append(@, [sc |-> sc, toks |-> ts])])
    [] kind = "nodepakw"   -> \E k \in Ks, sc \in AtomScopes, ts \in EntryKw :
                                 Edit([cfg EXCEPT !.nodes[k].pakw = Append(@, [sc |-> sc, toks |-> ts])])
    [] kind = "conflic"    -> \E t \in LicToks : Edit([cfg EXCEPT !.conf.alic = Append(@, t)])
    [] kind = "nodelic"    -> \E k \in Ks, t \in LicToks : Edit([cfg EXCEPT !.nodes[k].alic = Append(@, t)])
    [] kind = "userplic"   -> \E sc \in MCScopes, t \in LicToks : Edit([cfg EXCEPT !.user.plic = Append(@, [sc |-> sc, toks |-> <<t>>])])
Kinds == {"usermask", "userunmask", "repomask", "nodemask", "nodeunmask", "confkw", "nodekw", "userpakw", "nodepakw",
          "conflic", "nodelic", "userplic"}

Init == cfg = Cfg0 /\ n = 0 /\ pend = "none"
\* exhaustive exploration: any edit
Next == \E kind \in Kinds : Do(kind) /\ UNCHANGED pend
Spec == Init /\ [][Next]_vars
\* simulation: the kind of edit is drawn first (uniformly), its arguments second
SimNext == \/ pend = "none" /\ \E kind \in Kinds : pend' = kind /\ UNCHANGED <<cfg, n>>
           \/ pend # "none" /\ Do(pend) /\ pend' = "none"
SimSpec == Init /\ [][SimNext]_vars
Bound == n <= N
Emit == n # N \/ pend # "none" \/ PrintT(<<"CFG", cfg>>)

(* ---- laws, in every reachable configuration ---- *)
VisibleSet(c) == {p \in Pkgs : Visible(c, p)}
InvDomain == InDomain(cfg)
\* a package hit by a mask and by no unmask is never visible; ** on a matching entry accepts any keywords
InvMasked == \A p \in Pkgs : (Hits(Masks(cfg), p) /\ ~Hits(Unmasks(cfg), p)) => ~Visible(cfg, p)
InvAnyKw  == \A p \in Pkgs : (\E k \in DOMAIN KwEntries(cfg) : p \in ScopeTable[KwEntries(cfg)[k].sc]
                                   /\ \E j \in DOMAIN KwEntries(cfg)[k].toks : Body(KwEntries(cfg)[k].toks[j]) = "**")
                             => KeywordOK(cfg, p)
\* a package without keywords is only ever accepted through **
InvNoKw   == \A p \in Pkgs : (cfg.pkgs[p].kws = {} /\ KeywordOK(cfg, p)) => "**" \in AcceptedKw(cfg, p)
\* when "*" is not used, choosing an alternative is the same as reading the licence tree directly
StarFree(ts) == \A k \in DOMAIN ts : ~(ts[k].kind = "star" /\ ~ts[k].neg)
InvDirect == \A p \in Pkgs : StarFree(LicStream(cfg, p)) =>
                (LicenseOK(cfg, p) <=> Satisfied(cfg.pkgs[p].lic, FoldLicense(LicStream(cfg, p), Flat(cfg.repo.defs), {})))
\* with "*" last every alternative is accepted; with "-*" last only a licence-free package is
InvStarLast == \A p \in Pkgs : LET ts == LicStream(cfg, p) IN
                  /\ (ts[Len(ts)].kind = "star" /\ ~ts[Len(ts)].neg) => LicenseOK(cfg, p)
                  /\ (ts[Len(ts)].kind = "star" /\ ts[Len(ts)].neg) => (LicenseOK(cfg, p) <=> {} \in Alternatives(cfg.pkgs[p].lic))

(* ---- laws on every edit (one action property; the three clauses share the two visible sets) ---- *)
SameTokens == cfg'.conf = cfg.conf /\ \A k \in {1, 2} : cfg'.nodes[k].akw = cfg.nodes[k].akw /\ cfg'.nodes[k].alic = cfg.nodes[k].alic
SameEntries == cfg'.user.pakw = cfg.user.pakw /\ cfg'.user.plic = cfg.user.plic /\ \A k \in {1, 2} : cfg'.nodes[k].pakw = cfg.nodes[k].pakw
EditLaws ==
    [][LET v0 == VisibleSet(cfg)
           v1 == VisibleSet(cfg')
           m0 == Masks(cfg)   m1 == Masks(cfg')   u0 == Unmasks(cfg)   u1 == Unmasks(cfg')
       IN \* more masks / fewer unmasks never reveal
          /\ (SameTokens /\ SameEntries /\ m0 \subseteq m1 /\ u1 \subseteq u0) => v1 \subseteq v0
          \* fewer masks / more unmasks never hide
          /\ (SameTokens /\ SameEntries /\ m1 \subseteq m0 /\ u0 \subseteq u1) => v0 \subseteq v1
          \* one more package.accept_keywords entry never hides a package
          /\ (SameTokens /\ cfg'.user.plic = cfg.user.plic /\ m0 = m1 /\ u0 = u1) => v0 \subseteq v1
      ]_vars
=========================================================================
