---------------------------- MODULE Fetch ----------------------------
(* C36: fetching a distfile with an external command
   (src/pkgcore/fetch/custom.py fetcher.fetch, src/pkgcore/fetch/base.py _verify).

   A target carries a set of checksums; `kind` says which:
     "none"  no checksums at all (first-time Manifest generation)
     "size"  only the size          "hash"  only content hashes
     "both"  size and content hashes
   The file in DISTDIR is described relative to the reference content (what a
   correct download produces) by a class:
     missing | empty | partial (shorter) | oversize (longer) |
     corrupt (right size, other bytes) | good
   One run of fetch() is a record
     [kind, budget, nuris, init, atts, result, final, finalkept]
   atts[k] = [pre, cmd, post, exit, kept]: what the k-th executed fetch command
   found, which command line was used ("fetch" | "resume"), what it left, its
   exit status (0 | 1 = any non-zero), and whether the bytes it found were the
   bytes the previous attempt had left.
   result: "path" | "failed" (FetchFailed family) | "chksum" (ChksumFailure) | "other". *)
EXTENDS Naturals, Sequences, FiniteSets

Kinds   == {"none", "size", "hash", "both"}
Classes == {"missing", "empty", "partial", "oversize", "corrupt", "good"}
HasSize(K) == K \in {"size", "both"}
HasHash(K) == K \in {"hash", "both"}

\* classification of an observed file [ex, sz, esz, same].  The expected size may be 0 (a
\* distfile that IS empty): then a zero-length file is the good file, not an "empty" leftover.
Class(f) == IF ~f.ex THEN "missing"
            ELSE IF f.sz = f.esz THEN (IF f.same THEN "good" ELSE "corrupt")
            ELSE IF f.sz = 0 THEN "empty"
            ELSE IF f.sz < f.esz THEN "partial"
            ELSE "oversize"

(* "has the expected size and every required checksum".  Without checksums the
   statement only presupposes that there is a file.                            *)
Verified(K, c) ==
    CASE K = "none" -> c # "missing"
      [] K = "size" -> c \in {"good", "corrupt"}
      [] OTHER      -> c = "good"

(* An attempt "leaves such a file".  Without checksums the exit status is the only
   evidence (pinned by tests/fetch/test_custom.py: a failing exit discards the file);
   an empty file with a zero exit is left open (the code retries).                 *)
MustReturn(K, c, exit) ==
    IF K = "none" THEN exit = 0 /\ c \notin {"missing", "empty"}
    ELSE Verified(K, c)

\* a file the resume command can continue: recognisably too short
Resumable(K, c) == HasSize(K) /\ c = "partial"

(* A complete-looking file that fails verification.  Carve-out: the code gives up
   with ChksumFailure at this point instead of using the remaining attempts; the
   property is read over the attempts that are executed.                           *)
WrongChecksum(K, c) == c \notin {"missing", "empty"} /\ ~Verified(K, c) /\ ~Resumable(K, c)

Min2(a, b) == IF a < b THEN a ELSE b

\* file seen after k executed attempts (k = 0: before the first)
After(r, k) == IF k = 0 THEN r.init ELSE r.atts[k].post

(* ------------------------- the clauses of C36 ------------------------- *)
ReturnedUnverified(r) == r.result = "path" /\ ~Verified(r.kind, r.final)

GoodNotReturned(r) ==
    /\ \E k \in DOMAIN r.atts : MustReturn(r.kind, r.atts[k].post, r.atts[k].exit)
    /\ r.result # "path"

PartialNotKept(r) ==
    \E k \in 0..Len(r.atts) :
        /\ Resumable(r.kind, After(r, k))
        /\ IF k < Len(r.atts) THEN ~(r.atts[k + 1].pre = "partial" /\ r.atts[k + 1].kept)
           ELSE r.result # "path" /\ ~(r.final = "partial" /\ r.finalkept)

ResumeNotUsed(r) ==
    \E k \in 0..(Len(r.atts) - 1) : Resumable(r.kind, After(r, k)) /\ r.atts[k + 1].cmd # "resume"

AttemptsUnused(r) ==
    /\ r.result \in {"failed", "chksum"}
    /\ ~\E k \in 0..Len(r.atts) : WrongChecksum(r.kind, After(r, k))
    /\ Len(r.atts) < Min2(r.budget, r.nuris)

BudgetExceeded(r) == Len(r.atts) > r.budget

UnexpectedException(r) == r.result = "other"

Broken(r) ==
    (IF ReturnedUnverified(r) THEN {"Returned_unverified"} ELSE {}) \cup
    (IF GoodNotReturned(r) THEN {"Good_not_returned"} ELSE {}) \cup
    (IF PartialNotKept(r) THEN {"Partial_not_kept"} ELSE {}) \cup
    (IF ResumeNotUsed(r) THEN {"Resume_not_used"} ELSE {}) \cup
    (IF AttemptsUnused(r) THEN {"Attempts_unused"} ELSE {}) \cup
    (IF BudgetExceeded(r) THEN {"Budget_exceeded"} ELSE {}) \cup
    (IF UnexpectedException(r) THEN {"Unexpected_exception"} ELSE {})
=========================================================================
