---------------------------- MODULE ConfigCentral_Trace ----------------------------
(* Judges histories recorded from a real ConfigManager (drivers/g04_configcentral.py): the ones TLC
   chose (ConfigCentral_Sim) and seeded random ones over random libraries.
   Tr[1] = {tid:-1, i:0, op:"universes", unis:[{lib, auto}, ..]}
   every other event = one public call:
     {tid, i, u, op, n, t, s, k, o:[sources of an init], sw,           the call (sw: switch AFTER it)
      exc, sec, tok, ty, flag, keys,                                    what it returned / raised
      calls:[{src,name,args,seq,child}], seq,                           configurables invoked by it
      st:{orig, sections, stacks:[{name,srcs}], rendered:[{name,src,refs,shared,tok,args,child}],
          lazy:[[name,k]], guard}}                                      the manager afterwards
   Each call is judged from the state OBSERVED after the previous one (re-synchronising), with
   the operators of ConfigCentral.tla instantiated for the history's universe; all clauses are
   evaluated, nothing stops at the first failure.  A manager whose reload failed is `broken`:
   its contents are not judged until a load succeeds.                                        *)
EXTENDS TraceLib, Integers
VARIABLES l, st

Unis == Tr[1].unis
CC(u) == INSTANCE ConfigCentral WITH Lib <- Unis[u].lib, AutoNames <- AsSet(Unis[u].auto),
                                     RefuseRedefinition <- TRUE, LazyCheckBeforeCache <- TRUE, AddIsAtomic <- TRUE

Fn(seq, key(_), val(_)) == [x \in {key(seq[j]) : j \in DOMAIN seq} |-> val(seq[CHOOSE j \in DOMAIN seq : key(seq[j]) = x])]
NameOf(r) == r.name
\* observed manager -> state record of the specification
Obs(e) ==
  LET o == e.st
      made == SelectSeq(o.rendered, LAMBDA r : r.tok > 0)
  IN [orig |-> o.orig, sw |-> e.sw,
      stk  |-> Fn(SelectSeq(o.stacks, LAMBDA r : r.srcs # <<>>), NameOf, LAMBDA r : r.srcs),   \* (a name without definitions shows in _sections)
      ren  |-> Fn(o.rendered, NameOf, LAMBDA r : r.src),
      inst |-> Fn(made, NameOf, LAMBDA r : [tok |-> r.tok, args |-> r.args, child |-> r.child]),
      lzc  |-> {<<o.lazy[j][1], o.lazy[j][2]>> : j \in DOMAIN o.lazy},
      seq  |-> e.seq, broken |-> FALSE]
Blank == [orig |-> <<>>, sw |-> FALSE, stk |-> <<>>, ren |-> <<>>, inst |-> <<>>, lzc |-> {}, seq |-> 0, broken |-> FALSE]

OpOf(e) == [op |-> e.op, n |-> e.n, t |-> e.t, s |-> e.s, k |-> e.k]
Expected(cur, e) == IF e.op = "init" THEN CC(e.u)!DoInit(e.o, FALSE, 0) ELSE CC(e.u)!Apply(cur, OpOf(e))

\* a failed get_default stops at the first section that does not collapse: which of the others
\* got cached on the way depends on the listing order, which nobody relies on
LooseRen(cur, a, b) == /\ \A n \in DOMAIN cur.ren : n \in DOMAIN a.ren /\ a.ren[n] = cur.ren[n]
                       /\ \A n \in DOMAIN a.ren : n \in DOMAIN b.ren /\ a.ren[n] = b.ren[n]
Diff(tag, cur, e, a, b) ==
    (IF DOMAIN a.stk = DOMAIN b.stk /\ AsSet(e.st.sections) = DOMAIN b.stk THEN {} ELSE {tag \o "_sections"}) \cup
    (IF a.stk = b.stk THEN {} ELSE {tag \o "_stacks"}) \cup
    (IF a.orig = b.orig THEN {} ELSE {tag \o "_sources"}) \cup
    (IF a.ren = b.ren \/ (e.op = "getdefault" /\ e.exc # "" /\ LooseRen(cur, a, b)) THEN {} ELSE {tag \o "_rendered"}) \cup
    (IF a.inst = b.inst THEN {} ELSE {tag \o "_objects"}) \cup
    (IF a.lzc = b.lzc THEN {} ELSE {tag \o "_lazy"})

StateClauses(u, e, obs) ==
    (IF CC(u)!Nested(obs) THEN {} ELSE {"Nested"}) \cup
    (IF CC(u)!CacheCoherent(obs) THEN {} ELSE {"CacheCoherent"}) \cup
    (IF CC(u)!Nested(obs) /\ CC(u)!CacheCoherent(obs) /\ ~CC(u)!RenderedClosed(obs) THEN {"RenderedClosed"} ELSE {}) \cup
    \* the collapsed configs a section holds for its references ARE the cached ones, in the listed order
    (IF \A j \in DOMAIN e.st.rendered : LET r == e.st.rendered[j] IN
            r.shared /\ (r.src \in DOMAIN Unis[u].lib /\ r.name \in CC(u)!SrcNames(r.src) => r.refs = CC(u)!DefAt(r.src, r.name).refs)
     THEN {} ELSE {"CollapsedShared"}) \cup
    (IF CC(u)!Nested(obs) /\ CC(u)!CacheCoherent(obs) /\ ~(CC(u)!SharedInstances(obs) /\ CC(u)!DistinctObjects(obs))
     THEN {"SharedInstances"} ELSE {})

\* exp = Expected(cur, e), obs = Obs(e): computed once per event by TraceNext
Judge(cur, e, exp, obs) ==
  LET u == e.u
      o == OpOf(e)
      robs == CC(u)!Res(obs, e.calls, e.exc, e.sec, e.tok, e.ty, e.flag, AsSet(e.keys))
      pre  == IF e.op = "init" THEN Blank ELSE cur
      tag  == IF exp.exc # "" THEN "Failed" ELSE "Post"
  IN (IF e.exc = exp.exc THEN {} ELSE {"Exc"})
     \cup (IF e.exc = exp.exc /\ e.sec # exp.sec THEN {"ExcSection"} ELSE {})
     \cup (IF e.exc = "" /\ exp.exc = "" /\ (e.tok # exp.tok \/ e.ty # exp.ty \/ e.flag # exp.flag \/ AsSet(e.keys) # exp.keys)
           THEN {"Result"} ELSE {})
     \cup (IF e.calls = exp.calls THEN {} ELSE {"Calls"})
     \cup (IF e.st.guard = <<>> THEN {} ELSE {"GuardReleased"})
     \cup (IF CC(u)!StepOnlyAfter(pre, o, robs) THEN {} ELSE {"OnlyAfter"})
     \cup (IF e.op = "init" \/ CC(u)!StepAtMostOnce(pre, o, robs) THEN {} ELSE {"AtMostOnce"})
     \cup (IF exp.m.broken \/ (e.op = "init" /\ exp.exc # "") THEN {}
           ELSE Diff(tag, pre, e, obs, exp.m) \cup StateClauses(u, e, obs))

TraceInit == l = 1 /\ st = Blank
TraceNext == /\ l < Len(Tr)
             /\ l' = l + 1
             /\ LET e   == Tr[l']
                    inD == e.op = "init" \/ CC(e.u)!Enabled(st, OpOf(e))
                    exp == Expected(st, e)
                    obs == Obs(e)
                IN /\ Report(e.tid, e.i, IF inD THEN Judge(st, e, exp, obs) ELSE {"OutsideDomain"})  \* generator error, never a verdict
                   /\ st' = [obs EXCEPT !.broken = IF inD THEN exp.m.broken ELSE st.broken]
             /\ EndMark(l')
TraceSpec == TraceInit /\ [][TraceNext]_<<l, st>>
=========================================================================
