---------------------------- MODULE CacheValidity_Trace ----------------------------
(* code -> spec.  One trace (tid) = one history on a pair of real stacked repositories with a real
   cache backend.  Every event carries what was observed AFTER the step:
     {tid, i, ev, kind, pkg ("p1"/"p2": the package read / edited / stripped, "-" otherwise),
      w   : world read back from disk AS THE PACKAGE pkg SEES IT
            {eb:{cid,inh,mt}, ecl:{m:{a:{cid,nest,mt},b:..}, o:{..}}}   (eb of p1 when pkg = "-"),
      regen, failed, result:{eb:{cid,inh,nest}, ecl:[{name,c}]}     (ev = "Read" only)
      ens : {p1:entry, p2:entry} the cache entries read back from the cache files
            entry = {present, chf:{c,t}, ecl:[{name,chf,dir}], hasInherit, data:{eb, ecl:[..]}} }
   A session that reads several packages through the same repository / eclass-cache objects is
   recorded as one Read event per package, in order (entries are read back after each).
   i = 1 starts from an empty cache.  Each step is judged from the previously OBSERVED entry
   (re-synchronising), so one deviation does not hide the rest of the history.              *)
EXTENDS CacheValidity, TraceLib
VARIABLES l, ens
PkgNames == {"p1", "p2"}

ObsData(d)  == [eb |-> d.eb, ecl |-> AsSet(d.ecl)]
ObsEntry(o) == [present |-> o.present, chf |-> o.chf, ecl |-> AsSet(o.ecl), hasInherit |-> o.hasInherit,
                data |-> ObsData(o.data)]

Clause(cond, name) == IF cond THEN {name} ELSE {}

JudgeRead(cur, e) ==
    LET valid  == Valid(e.kind, cur, e.w)
        legacy == Legacy(cur)
        canr   == CanRegen(e.w)
        res    == ObsData(e.result)
        after  == ObsEntry(e.ens[e.pkg])
    IN  Clause(~e.regen /\ ~valid, "UsedWhenStale")
        \cup Clause(e.regen /\ valid /\ ~legacy, "RegeneratedWhenValid")
        \cup Clause(~e.regen /\ ~e.failed /\ valid /\ res # cur.data, "ResultNotCached")
        \cup Clause(e.regen /\ ~e.failed /\ res # Fresh(e.w), "ResultNotFresh")
        \cup Clause(e.failed /\ (canr \/ ~e.regen), "RegenFailed")
        \cup Clause(e.regen /\ ~e.failed /\ ~canr, "RegenShouldFail")
        \cup Clause(e.regen /\ ~e.failed /\ canr /\ after # EntryFor(e.kind, e.w), "EntryNotReplaced")
        \cup Clause(e.regen /\ e.failed /\ after.present, "StaleEntryKept")
        \cup Clause(~e.regen /\ ~e.failed /\ after # cur, "EntryChangedOnHit")

\* edits are performed by the driver, not by pkgcore: they must not touch the cache entries
JudgeEdit(cur, e) ==
    LET after == [p \in PkgNames |-> ObsEntry(e.ens[p])]
        want  == IF e.ev = "StripInherit" THEN [cur EXCEPT ![e.pkg].hasInherit = FALSE] ELSE cur
    IN Clause((e.ev = "StripInherit" /\ ~(cur[e.pkg].present /\ cur[e.pkg].hasInherit)) \/ after # want, "OutsideDomain")

Judge(cur, e) == IF e.ev = "Read" THEN JudgeRead(cur[e.pkg], e) ELSE JudgeEdit(cur, e)

TraceInit == l = 0 /\ ens = [p \in PkgNames |-> AbsentEntry("md5")]
TraceNext == /\ l < Len(Tr)
             /\ l' = l + 1
             /\ LET e == Tr[l']
                    cur == IF e.i = 1 THEN [p \in PkgNames |-> AbsentEntry(e.kind)] ELSE ens
                IN /\ Report(e.tid, e.i, Judge(cur, e))
                   /\ ens' = [p \in PkgNames |-> ObsEntry(e.ens[p])]
             /\ EndMark(l')
TraceSpec == TraceInit /\ [][TraceNext]_<<l, ens>>
=============================================================================
