---------------------------- MODULE CacheValidity_Trace ----------------------------
(* code -> spec.  One trace (tid) = one history on a pair of real stacked repositories with a real
   cache backend.  Every event carries what was observed AFTER the step:
     {tid, i, ev, kind,
      w   : world read back from disk   {eb:{cid,inh,mt}, ecl:{m:{a:{cid,nest,mt},b:..}, o:{..}}},
      regen, failed, result:{eb:{cid,inh,nest}, ecl:[{name,c}]}     (ev = "Read" only)
      en  : the cache entry read back from the cache file
            {present, chf:{c,t}, ecl:[{name,chf,dir}], hasInherit, data:{eb, ecl:[..]}} }
   i = 1 starts from an empty cache.  Each step is judged from the previously OBSERVED entry
   (re-synchronising), so one deviation does not hide the rest of the history.              *)
EXTENDS CacheValidity, TraceLib
VARIABLES l, en

ObsData(d)  == [eb |-> d.eb, ecl |-> AsSet(d.ecl)]
ObsEntry(o) == [present |-> o.present, chf |-> o.chf, ecl |-> AsSet(o.ecl), hasInherit |-> o.hasInherit,
                data |-> ObsData(o.data)]

Clause(cond, name) == IF cond THEN {name} ELSE {}

JudgeRead(cur, e) ==
    LET valid  == Valid(e.kind, cur, e.w)
        legacy == Legacy(cur)
        canr   == CanRegen(e.w)
        res    == ObsData(e.result)
        after  == ObsEntry(e.en)
    IN  Clause(~e.regen /\ ~valid, "UsedWhenStale")
        \cup Clause(e.regen /\ valid /\ ~legacy, "RegeneratedWhenValid")
        \cup Clause(~e.regen /\ ~e.failed /\ valid /\ res # cur.data, "ResultNotCached")
        \cup Clause(e.regen /\ ~e.failed /\ res # Fresh(e.w), "ResultNotFresh")
        \cup Clause(e.failed /\ (canr \/ ~e.regen), "RegenFailed")
        \cup Clause(e.regen /\ ~e.failed /\ ~canr, "RegenShouldFail")
        \cup Clause(e.regen /\ ~e.failed /\ canr /\ after # EntryFor(e.kind, e.w), "EntryNotReplaced")
        \cup Clause(e.regen /\ e.failed /\ after.present, "StaleEntryKept")
        \cup Clause(~e.regen /\ ~e.failed /\ after # cur, "EntryChangedOnHit")

\* edits are performed by the driver, not by pkgcore: they must not touch the cache entry
JudgeEdit(cur, e) ==
    LET after == ObsEntry(e.en) IN
    IF e.ev = "StripInherit"
    THEN Clause(~(cur.present /\ cur.hasInherit) \/ after # [cur EXCEPT !.hasInherit = FALSE], "OutsideDomain")
    ELSE Clause(after # cur, "OutsideDomain")

Judge(cur, e) == IF e.ev = "Read" THEN JudgeRead(cur, e) ELSE JudgeEdit(cur, e)

TraceInit == l = 0 /\ en = AbsentEntry("md5")
TraceNext == /\ l < Len(Tr)
             /\ l' = l + 1
             /\ LET e == Tr[l']
                    cur == IF e.i = 1 THEN AbsentEntry(e.kind) ELSE en
                IN /\ Report(e.tid, e.i, Judge(cur, e))
                   /\ en' = ObsEntry(e.en)
             /\ EndMark(l')
TraceSpec == TraceInit /\ [][TraceNext]_<<l, en>>
=============================================================================
