---------------------------- MODULE PkgDb_MC ----------------------------
(* Design check for C29: the directory-level protocols of the installed-package database (vdb)
   and of a binary-package repository, as processes over FsModel.  EVERY reachable state is a
   crash point (a power cut simply stops the process); the invariant is the property: the view a
   fresh reader computes from the on-disk state is the old or the new view (PkgDb!JudgeView).

   Repo = "vdb"  (pkgcore/vdb/repo_ops.py) - a package is a directory of metadata files
     install      ensure_dirs(cat/.tmp.P); write every metadata file into it; rename -> cat/P
     uninstall    Variant "head": rmtree(cat/P)
                  Variant "hide": rmtree(cat/.tmp.P.old, ignore); rename cat/P -> cat/.tmp.P.old; rmtree(it)
     replace      populate cat/.tmp.N as for install, then
                  Variant "head": rmtree(cat/P); rename cat/.tmp.N -> cat/N
                  Variant "hide": rename cat/P -> cat/.tmp.P.old; rename cat/.tmp.N -> cat/N; rmtree(cat/.tmp.P.old)
                  (N = P for a same-version replacement, another name otherwise)
     afterwards the repository tries to rmdir the category (failure on non-empty is swallowed)
   Repo = "bin"  (pkgcore/binpkg/repo_ops.py) - a package is ONE file
     install/replace   create cat/.tmp.N, write tarball, append xpak, chmod, rename -> cat/N
     uninstall         unlink cat/P; try rmdir cat
   rmtree removes the children in an arbitrary order; the metadata files are written in an
   arbitrary order, each first created empty and then filled.
   Stale = TRUE starts from the leftovers of an earlier interrupted run (staging names exist).

   Results (asserted by drivers/c29_pkgdb.py):
     Consistent holds for every install, for bin, and for vdb uninstall "hide";
     Consistent FAILS for vdb uninstall/replace "head" (half-removed package listed = Partial)
     and for vdb replace "hide" - but there ConsistentOutsideWindow holds: the only bad states
     are those between the two renames (the package is listed in neither form = Neither).        *)
EXTENDS PkgDb, TLC
CONSTANTS Family,   \* which configurations this run covers (one TLC run explores all of them)
          IOFaults, \* TRUE: one I/O error (EIO / ENOSPC) may hit ANY step; the step does not happen and the
                    \* operation's own error handling runs, then the operation aborts (pc = Aborted)
          Handler,  \* binpkg add_data's handler: "tmp" = unlink the staging file; "both" = unlink the staging
                    \* file AND the final name (the naive "leave nothing truncated behind" - must be caught)
          Rollback  \* vdb replace: TRUE = when moving the new entry in fails, move the old entry back
VARIABLES conf, fs, pc, done, cur, failed
vars == <<conf, fs, pc, done, cur, failed>>

Repo == conf.repo
Op == conf.op
Variant == conf.variant
CatExists == conf.cat
Bystander == conf.by
Stale == conf.stale

Files    == {"f1", "f2", "f3"}
Versions == {"old", "new", "q"}
Cat      == <<"c">>
NewName  == IF Op = "replace_diff" THEN "P2" ELSE "P1"
OldP     == <<"c", "P1">>
Final    == <<"c", NewName>>
Tmp      == <<"c", ".tmp." \o NewName>>
HideP    == <<"c", ".tmp.P1.old">>
OtherP   == <<"c", "Q">>
Hidden   == {".tmp.P1", ".tmp.P2", ".tmp.P1.old"}

DirObj       == [type |-> "dir", cid |-> "-", size |-> 0, mode |-> 493, uid |-> 0, gid |-> 0, target |-> "-"]
FileObj(cid) == [type |-> "file", cid |-> cid, size |-> 1, mode |-> 420, uid |-> 0, gid |-> 0, target |-> "-"]

RECURSIVE MkFiles(_, _, _, _)
MkFiles(s, p, fset, cid) ==
  IF fset = {} THEN s
  ELSE LET f == CHOOSE x \in fset : TRUE
       IN MkFiles(Create(s, p \o <<f>>, FileObj(cid)).s, p, fset \ {f}, cid)
MkEntry(s, p, cid, fset) ==
  IF Repo = "vdb" THEN MkFiles(Create(s, p, DirObj).s, p, fset, cid)
  ELSE Create(s, p, FileObj(cid)).s

HasOld == Op # "install"
Fs0 ==
  LET s0 == [names |-> {}, inodes |-> <<>>, handles |-> {}]
      s1 == IF CatExists \/ Bystander \/ HasOld \/ Stale THEN Create(s0, Cat, DirObj).s ELSE s0
      s2 == IF HasOld THEN MkEntry(s1, OldP, "old", Files) ELSE s1
      s3 == IF Bystander THEN MkEntry(s2, OtherP, "q", Files) ELSE s2
      s4 == IF Stale /\ Op # "uninstall" THEN MkEntry(s3, Tmp, "stale", {"f1"}) ELSE s3
      s5 == IF Stale /\ Repo = "vdb" /\ Variant = "hide" /\ HasOld THEN MkEntry(s4, HideP, "stale", {"f2"}) ELSE s4
  IN s5

(* ---- the programs ---- *)
I(op, p, q, x) == [op |-> op, p |-> p, q |-> q, x |-> x]
AddData ==
  IF Repo = "vdb"
  THEN << I("ensure", Cat, <<>>, "-"), I("ensure", Tmp, <<>>, "-"), I("populate", Tmp, <<>>, "new") >>
  ELSE << I("ensure", Cat, <<>>, "-"), I("fcreate", Tmp, <<>>, "-"), I("fwrite", Tmp, <<>>, "part"),
          I("fwrite", Tmp, <<>>, "new"), I("chmod", Tmp, <<>>, "-") >>
RenameIn == << I("rename", Tmp, Final, "swap_in") >>
RemoveOld ==
  IF Repo = "bin" THEN << I("unlink", OldP, <<>>, "-") >>
  ELSE IF Variant = "head" THEN << I("rmtree", OldP, <<>>, "strict") >>
  ELSE << I("rmtree", HideP, <<>>, "ignore"), I("rename", OldP, HideP, "hide"), I("rmtree", HideP, <<>>, "strict") >>
TryRmCat == << I("rmdir_try", Cat, <<>>, "-") >>

Prog ==
  CASE Op = "install"   -> AddData \o RenameIn
    [] Op = "uninstall" -> RemoveOld \o TryRmCat
    [] Repo = "bin"     -> AddData \o RenameIn                      \* rename over the old file
    [] Variant = "head" -> AddData \o RemoveOld \o RenameIn
    [] OTHER            -> AddData \o << I("rmtree", HideP, <<>>, "ignore"), I("rename", OldP, HideP, "hide") >>
                                   \o RenameIn \o << I("rmtree", HideP, <<>>, "strict") >>

Init == conf \in Confs(Family) /\ fs = Fs0 /\ pc = 1 /\ done = {} /\ cur = "-" /\ failed = FALSE

Error == 0          \* = Aborted: the operation gave up (a failed syscall or an injected I/O error)
H1 == 0 - 1         \* error-handler steps (negative program counters)
H2 == 0 - 2
HB == 0 - 3
Running == pc \in DOMAIN Prog
Adv(r) == fs' = r.s /\ pc' = (IF r.ok THEN pc + 1 ELSE Error) /\ UNCHANGED <<done, cur>>
Skip   == fs' = fs /\ pc' = pc + 1 /\ UNCHANGED <<done, cur>>

Step(ins) ==
  CASE ins.op = "ensure"  -> IF HasName(fs, ins.p) THEN Skip ELSE Adv(Create(fs, ins.p, DirObj))
    [] ins.op = "populate" ->
         IF done = Files THEN Skip
         ELSE IF cur = "-" THEN
              \E f \in Files \ done :
                 LET p == ins.p \o <<f>>
                     r == IF HasName(fs, p) THEN SetContentAt(fs, p, "empty", 0) ELSE Create(fs, p, FileObj("empty"))
                 IN fs' = r.s /\ cur' = f /\ pc' = (IF r.ok THEN pc ELSE Error) /\ UNCHANGED done
         ELSE LET r == SetContentAt(fs, ins.p \o <<cur>>, ins.x, 1)
              IN fs' = r.s /\ done' = done \cup {cur} /\ cur' = "-" /\ pc' = (IF r.ok THEN pc ELSE Error)
    [] ins.op = "rename"  -> Adv(Rename(fs, ins.p, ins.q))
    [] ins.op = "rmtree"  ->
         IF ~HasName(fs, ins.p) THEN (IF ins.x = "ignore" THEN Skip ELSE Adv(R(fs, FALSE)))
         ELSE IF Children(fs, ins.p) # {}
              THEN \E n \in Children(fs, ins.p) : fs' = Unlink(fs, n.path).s /\ UNCHANGED <<pc, done, cur>>
              ELSE Adv(Rmdir(fs, ins.p))
    [] ins.op = "rmdir_try" -> fs' = Rmdir(fs, ins.p).s /\ pc' = pc + 1 /\ UNCHANGED <<done, cur>>
    [] ins.op = "unlink"  -> Adv(Unlink(fs, ins.p))
    [] ins.op = "fcreate" -> Adv(IF HasName(fs, ins.p) THEN SetContentAt(fs, ins.p, "empty", 0) ELSE Create(fs, ins.p, FileObj("empty")))
    [] ins.op = "fwrite"  -> Adv(SetContentAt(fs, ins.p, ins.x, 1))
    [] ins.op = "chmod"   -> Adv(Chmod(fs, ins.p, 420))

(* An injected I/O error: the current step does not happen; control goes to the error handling the
   code has at that point:
     binpkg add_data (everything before the final rename)  try/except: unlink_if_exists(staging) [Handler "both":
                                                           and the final name], re-raise
     vdb replace, moving the new entry in                  [Rollback] move the hidden old entry back, re-raise
     everywhere else                                       none, the exception propagates                      *)
InBinAddData == Repo = "bin" /\ Op # "uninstall" /\ Prog[pc].op # "rename"
AtSwapIn == Repo = "vdb" /\ Prog[pc].op = "rename" /\ Prog[pc].x = "swap_in" /\ Op \in {"replace_same", "replace_diff"} /\ Variant = "hide"
Fault ==
  /\ IOFaults /\ Running /\ ~failed /\ failed' = TRUE /\ UNCHANGED <<fs, done, cur>>
  /\ pc' = (IF InBinAddData THEN H1 ELSE IF AtSwapIn /\ Rollback THEN HB ELSE Error)
UnlinkIfExists(p) == IF HasName(fs, p) THEN Unlink(fs, p).s ELSE fs
HandlerStep ==
  \/ pc = H1 /\ fs' = UnlinkIfExists(Tmp) /\ pc' = (IF Handler = "both" THEN H2 ELSE Error) /\ UNCHANGED <<done, cur, failed>>
  \/ pc = H2 /\ fs' = UnlinkIfExists(Final) /\ pc' = Error /\ UNCHANGED <<done, cur, failed>>
  \/ pc = HB /\ fs' = Rename(fs, HideP, OldP).s /\ pc' = Error /\ UNCHANGED <<done, cur, failed>>

Next == ((Running /\ Step(Prog[pc]) /\ UNCHANGED failed) \/ Fault \/ HandlerStep) /\ UNCHANGED conf
Spec == Init /\ [][Next]_vars

(* ---- the property ---- *)
View(s) == IF Repo = "vdb" THEN VdbView(s, Cat, Hidden, Files, Versions) ELSE BinView(s, Cat, Hidden, Versions)
OldView == View(Fs0)
NewView == ApplyOp(Op, OldView, "P1", NewName, "new")
Applicable == OpApplicable(Op, OldView, "P1", NewName)

Consistent == JudgeView(OldView, NewView, View(fs)) = {}
NeverPartial == "Partial" \notin JudgeView(OldView, NewView, View(fs))
NoCollateral == "Collateral" \notin JudgeView(OldView, NewView, View(fs))
\* the state between moving the old entry away and moving the new one into place: nothing is lost
\* (old entry complete under its hidden name, new entry complete in the staging dir), nothing is listed
InWindow == /\ ~HasName(fs, OldP) /\ HasName(fs, HideP) /\ DirDigest(fs, HideP, Files, Versions) = "old"
            /\ HasName(fs, Tmp) /\ DirDigest(fs, Tmp, Files, Versions) = "new"
ConsistentOutsideWindow == Consistent \/ (InWindow /\ JudgeView(OldView, NewView, View(fs)) = {"Neither"})
\* where a HANDLED failure leaves the repository (the state every later reader sees, not only a crash)
AbortedConsistent == pc = Error => Consistent
\* a run without an injected error never fails and ends in the new view
NoError   == pc = Error => failed
Completes == pc = Len(Prog) + 1 => View(fs) = NewView
\* the new view differs from the old one (no configuration is vacuous)
NonVacuous == OldView # NewView /\ Applicable
=========================================================================
