---------------------------- MODULE ConfigProtect_Trace ----------------------------
(* Judges real engine runs (install / replace / uninstall with the ebuild config-protect triggers).
   One event per run:
   {tid, i, engine, offset:"root"|"sub", raised,
    cfg:{protect:[path], mask:[path], ignore:[{kind, path}]},          -- the abstract configuration the
                                                                          driver rendered into env.d / arguments
    files:[{role:"merge"|"unmerge", p:path, c: incoming / recorded content,
            before:{live, pending:[{n, c}]}, after:{live, pending:[{n, c}]},   -- snapshots of the live fs
            recorded:["real" | "cfg"],                                         -- names in the merged contents
            nb:[{name, c}], na:[{name, c}]}]}            -- stray ._cfg-like files beside it, before / after
   One verdict per failing clause per FILE: <<"VERDICT", tid, j, clause>>, j = index into files.
   Pseudo clauses starting with "~" (row of the decision table that applied) are coverage
   information for the driver, not verdicts.                                                    *)
EXTENDS ConfigProtect, TraceLib
VARIABLE l
Cfg(e)  == [protect |-> AsSet(e.cfg.protect), mask |-> AsSet(e.cfg.mask), ignore |-> AsSet(e.cfg.ignore)]
PMap(s) == [n \in {s[k].n : k \in DOMAIN s} |-> LET k == CHOOSE k \in DOMAIN s : s[k].n = n IN s[k].c]
St(o)   == [live |-> o.live, pending |-> PMap(o.pending)]

JudgeFile(e, f) ==
  LET prot == Protected(f.p, Cfg(e))
      b == St(f.before)  a == St(f.after)  rec == AsSet(f.recorded) IN
  IF f.role = "merge" THEN
       (IF MustProtect(b.live, f.c, prot) THEN {"~MustProtect"} ELSE {})
       \cup (IF NotOverwritten(b, a, f.c, prot) THEN {} ELSE {"NotOverwritten"})
       \cup (IF PendingKept(b, a, f.c, prot) THEN {} ELSE {"PendingKept"})
       \cup (IF Numbering(b, a, f.c, prot) THEN {} ELSE {"Numbering"})
       \cup (IF e.raised # "" \/ UpdateWritten(b, a, f.c, prot) THEN {} ELSE {"UpdateWritten"})
       \cup (IF e.raised # "" \/ RecordedName(b, f.c, prot, rec) THEN {} ELSE {"RecordedName"})
       \cup (IF StraysKept(AsSet(f.nb), AsSet(f.na)) THEN {} ELSE {"StraysKept"})
  ELSE (IF MustKeep(b.live, f.c, prot) THEN {"~MustKeep"} ELSE {})
       \cup (IF UnmergeKept(b, a, f.c, prot) THEN {} ELSE {"UnmergeKept"})
       \cup (IF StraysKept(AsSet(f.nb), AsSet(f.na)) THEN {} ELSE {"StraysKept"})

TraceInit == l = 0
TraceNext == /\ l < Len(Tr)
             /\ l' = l + 1
             /\ LET e == Tr[l'] IN \A j \in DOMAIN e.files : Report(e.tid, j, JudgeFile(e, e.files[j]))
             /\ EndMark(l')
TraceSpec == TraceInit /\ [][TraceNext]_l
=========================================================================
